#!/usr/bin/env python3
"""tools/seedcheck.py <seeded/<dir>> [--tier quick] [--check Cxx ...]
Applies seeded/<dir>/patch.diff to a scratch worktree of /repo's HEAD, runs the property's check(s) against it
(VERIF_REPO=<worktree>, no evidence written) and reports whether a VIOLATION was printed. The worktree is removed afterwards."""
import sys, os, json, subprocess, tempfile, shutil, argparse
V = os.path.dirname(os.path.dirname(os.path.abspath(__file__)))
ap = argparse.ArgumentParser()
ap.add_argument("seed")
ap.add_argument("--tier", default="quick")
ap.add_argument("--check", action="append")
a = ap.parse_args()
seed = os.path.abspath(a.seed)
meta = json.load(open(os.path.join(seed, "meta.json")))
checks = a.check or [meta["property"]]
wt = tempfile.mkdtemp(prefix="seedwt.", dir="/dev/shm")
os.rmdir(wt)
subprocess.run(["git", "-C", "/repo", "worktree", "add", "--detach", wt, "HEAD"], check=True, capture_output=True)
try:
    # untracked hook files of /repo (verif_export*.go) are part of what the checks build against
    out = subprocess.run(["git", "-C", "/repo", "ls-files", "--others", "--exclude-standard"], capture_output=True, text=True).stdout.split()
    for f in out:
        if os.path.basename(f).startswith("verif_export"):
            os.makedirs(os.path.dirname(os.path.join(wt, f)), exist_ok=True)
            shutil.copy(os.path.join("/repo", f), os.path.join(wt, f))
    r = subprocess.run(["git", "-C", wt, "apply", os.path.join(seed, "patch.diff")], capture_output=True, text=True)
    if r.returncode != 0:
        print("PATCH DOES NOT APPLY:", r.stderr)
        sys.exit(2)
    res = {}
    for c in checks:
        env = dict(os.environ, VERIF_REPO=wt, VERIF_REPLAYS="/dev/shm/seed-replays")
        p = subprocess.run([os.path.join(V, "check"), c, "--tier", a.tier, "--no-evidence"], env=env, capture_output=True, text=True, cwd=V)
        lines = [l for l in p.stdout.splitlines() if l.startswith("VIOLATION") or l.startswith("check ") or l.startswith("KNOWN")]
        err = [l for l in p.stderr.splitlines() if l.startswith("CHECK-ERROR")]
        res[c] = {"exit": p.returncode, "violations": sum(1 for l in lines if l.startswith("VIOLATION")), "summary": [l for l in lines if l.startswith("check ")], "error": err[:1]}
        print(c, json.dumps(res[c]))
    print("DETECTED" if any(v["exit"] == 1 for v in res.values()) else "MISSED")
finally:
    subprocess.run(["git", "-C", "/repo", "worktree", "remove", "--force", wt], capture_output=True)
