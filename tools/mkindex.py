#!/usr/bin/env python3
"""tools/mkindex.py - regenerate seeded/INDEX.md from seeded/*/meta.json and seeded/detection.json (hand-kept: which check
catches the change, as observed with tools/seedcheck.py)."""
import json, os
V = os.path.dirname(os.path.dirname(os.path.abspath(__file__)))
S = os.path.join(V, "seeded")
det = json.load(open(os.path.join(S, "detection.json")))
head = """# Seeded property-breaking changes

Each directory holds a change produced by a fresh sub-agent that saw only the property text and a scratch worktree of /repo
(`patch.diff`), its demonstration (`demo/`: copy the files to the paths below `demo/` in a lindb checkout and run `meta.json:demo_cmd`)
and `meta.json` (what it breaks, what it needs to manifest, what was run). Every change was re-confirmed by `tools/seedverify.py` in a
fresh worktree of /repo HEAD: demo passes without the change, patch applies, tree builds, demo fails with the change, all 597 baseline
tests still pass. `tools/seedcheck.py seeded/<id>` applies the patch to a scratch worktree and runs the property's check against it.
Ids without suffix are round 1, `b`/`x` suffixes later rounds (asked to use a different site and mechanism than round 1).

| id | change | needs | detected by `./check <property> --tier quick` |
|---|---|---|---|
"""
def cell(s, n):
    s = " ".join(str(s).split()).replace("|", "/")
    return s[:n]
out = head
for d in sorted(os.listdir(S)):
    mp = os.path.join(S, d, "meta.json")
    if not os.path.isfile(mp):
        continue
    m = json.load(open(mp))
    out += "| %s | %s | %s | %s |\n" % (d, cell(m.get("summary", ""), 260), cell(m.get("needs", ""), 200), det.get(d, "not run yet"))
open(os.path.join(S, "INDEX.md"), "w").write(out)
