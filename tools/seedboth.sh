#!/bin/bash
# tools/seedboth.sh <property> <worktree> <destname> [check ...]: confirm a seeded change, store it, run the check(s) against it, remove the worktree
cd /verif
./tools/seedverify.py "$1" "$2" "$3" 2>&1 | tail -1 | cut -c1-400
shift; wt="$1"; shift; dest="$1"; shift
args=""; for c in "$@"; do args="$args --check $c"; done
./tools/seedcheck.py seeded/$dest $args 2>&1 | tail -3 | cut -c1-600
git -C /repo worktree remove --force "$wt" 2>/dev/null; git -C /repo worktree prune
