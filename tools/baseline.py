#!/usr/bin/env python3
"""tools/baseline.py [repo]  - run the pinned baseline suite (guard off) and list the stable_pass tests that do not pass."""
import json, subprocess, sys, os
repo = sys.argv[1] if len(sys.argv) > 1 else "/repo"
env = dict(os.environ, GOFLAGS="-mod=mod", GOPROXY="off", GOSUMDB="off", GOTOOLCHAIN="local")
base = json.load(open("/root/.vp/BASELINE.json"))
want = set(base["stable_pass"])
rt = subprocess.run("go test -json -vet=off -count=1 -timeout 25m ./... 2>/dev/null", shell=True, cwd=repo, env=env, capture_output=True, text=True)
res = {}
for line in rt.stdout.splitlines():
    try:
        e = json.loads(line)
    except Exception:
        continue
    if e.get("Action") in ("pass", "fail") and e.get("Test"):
        res[e["Package"] + "::" + e["Test"]] = e["Action"]
bad = sorted(t for t in want if res.get(t) != "pass")
print("baseline: %d wanted, %d passing, not passing: %s" % (len(want), len(want) - len(bad), bad))
sys.exit(1 if bad else 0)
