#!/usr/bin/env python3
"""tools/seedverify.py <id> <seed-worktree>   e.g.  tools/seedverify.py C01 /tmp/seed-C01
Independently confirms a seeded change produced by a sub-agent, in a FRESH scratch worktree of /repo HEAD:
 1. the demonstration passes on the unchanged tree, 2. patch.diff applies and the tree builds, 3. the
 demonstration fails with the change, 4. the pinned baseline tests (BASELINE.json stable_pass) still pass.
Writes seeded/<id>/{patch.diff,demo/...,meta.json} (meta.json extended with what was run here)."""
import sys, os, json, subprocess, shutil, tempfile
V = os.path.dirname(os.path.dirname(os.path.abspath(__file__)))
sid, src = sys.argv[1], sys.argv[2]
dest_name = sys.argv[3] if len(sys.argv) > 3 else sid
ENV = dict(os.environ, GOFLAGS="-mod=mod", GOPROXY="off", GOSUMDB="off", GOTOOLCHAIN="local", TZ="UTC", LOG_LEVEL="fatal")
meta = json.load(open(os.path.join(src, "_seed", "meta.json")))
wt = tempfile.mkdtemp(prefix="seedverify.", dir="/dev/shm"); os.rmdir(wt)
subprocess.run(["git", "-C", "/repo", "worktree", "add", "--detach", wt, "HEAD"], check=True, capture_output=True)
out = {"verified_at_repo_head": subprocess.run(["git", "-C", "/repo", "rev-parse", "--short", "HEAD"], capture_output=True, text=True).stdout.strip()}
def run(cmd, **kw):
    return subprocess.run(cmd, cwd=wt, env=ENV, capture_output=True, text=True, shell=isinstance(cmd, str), **kw)
try:
    # demo files: zz_seed_demo/ and any zz_seed_export.go (untracked files of the seed worktree)
    others = subprocess.run(["git", "-C", src, "ls-files", "--others", "--exclude-standard"], capture_output=True, text=True).stdout.split()
    demo_files = [f for f in others if f.startswith("zz_seed_demo/") or os.path.basename(f).startswith("zz_seed_export")]
    for f in demo_files:
        os.makedirs(os.path.dirname(os.path.join(wt, f)), exist_ok=True)
        shutil.copy(os.path.join(src, f), os.path.join(wt, f))
    demo_cmd = meta.get("demo_cmd", "") or "go run -tags verif ./zz_seed_demo"
    if "(" in demo_cmd or "zz_seed_demo" not in demo_cmd:
        # sub-agents sometimes append prose to the command; the convention is fixed anyway
        demo_cmd = "go run -tags verif ./zz_seed_demo"
    meta["demo_cmd"] = demo_cmd
    r0 = run(demo_cmd)
    out["demo_without_change_exit"] = r0.returncode
    ra = subprocess.run(["git", "-C", wt, "apply", os.path.join(src, "_seed", "patch.diff")], capture_output=True, text=True)
    out["patch_applies"] = ra.returncode == 0
    rb = run("go build ./... && go build -tags verif ./...")
    out["builds"] = rb.returncode == 0
    r1 = run(demo_cmd)
    out["demo_with_change_exit"] = r1.returncode
    out["demo_with_change_tail"] = (r1.stdout + r1.stderr)[-600:]
    # baseline
    base = json.load(open("/root/.vp/BASELINE.json"))
    want = set(base["stable_pass"])
    rt = run("go test -json -vet=off -count=1 -timeout 25m ./... 2>/dev/null")
    res = {}
    for line in rt.stdout.splitlines():
        try:
            e = json.loads(line)
        except Exception:
            continue
        if e.get("Action") in ("pass", "fail") and e.get("Test"):
            res[e["Package"] + "::" + e["Test"]] = e["Action"]
    bad = sorted(t for t in want if res.get(t) != "pass")
    out["baseline_tests_not_passing"] = bad
    ok = out["demo_without_change_exit"] == 0 and out["patch_applies"] and out["builds"] and out["demo_with_change_exit"] != 0 and not bad
    out["confirmed"] = ok
    dst = os.path.join(V, "seeded", dest_name)
    if os.path.isdir(dst):
        shutil.rmtree(dst)
    os.makedirs(os.path.join(dst, "demo"))
    shutil.copy(os.path.join(src, "_seed", "patch.diff"), os.path.join(dst, "patch.diff"))
    for f in demo_files:
        os.makedirs(os.path.dirname(os.path.join(dst, "demo", f)), exist_ok=True)
        shutil.copy(os.path.join(src, f), os.path.join(dst, "demo", f))
    meta["property"] = sid if not meta.get("property") else meta["property"]
    meta["verified_by_coordinator"] = out
    meta["demo_layout"] = "copy demo/<path> to <path> in a lindb checkout, then run demo_cmd"
    json.dump(meta, open(os.path.join(dst, "meta.json"), "w"), indent=1)
    print(sid, json.dumps({k: v for k, v in out.items() if k != "demo_with_change_tail"}))
finally:
    subprocess.run(["git", "-C", "/repo", "worktree", "remove", "--force", wt], capture_output=True)
