#!/usr/bin/env python3
"""tools/seedrerun.py <id> ...   re-runs, alone, the baseline tests that tools/seedverify.py saw failing for a stored seed
(load-sensitive packages: embedded etcd with timeouts, timing tests) in a fresh worktree with the change applied, and
records the outcome in seeded/<id>/meta.json (verified_by_coordinator.baseline_rerun_alone). A test that still fails
alone leaves confirmed=false."""
import sys, os, json, subprocess, tempfile
V = os.path.dirname(os.path.dirname(os.path.abspath(__file__)))
ENV = dict(os.environ, GOFLAGS="-mod=mod", GOPROXY="off", GOSUMDB="off", GOTOOLCHAIN="local", TZ="UTC", LOG_LEVEL="fatal")
for sid in sys.argv[1:]:
    d = os.path.join(V, "seeded", sid)
    mp = os.path.join(d, "meta.json")
    meta = json.load(open(mp))
    vc = meta.get("verified_by_coordinator", {})
    bad = vc.get("baseline_tests_not_passing", [])
    if not bad:
        print(sid, "nothing to re-run")
        continue
    pkgs = sorted({t.split("::")[0].replace("github.com/lindb/lindb", ".") for t in bad})
    wt = tempfile.mkdtemp(prefix="seedrerun.", dir="/dev/shm"); os.rmdir(wt)
    subprocess.run(["git", "-C", "/repo", "worktree", "add", "--detach", wt, "HEAD"], check=True, capture_output=True)
    try:
        subprocess.run(["git", "-C", wt, "apply", os.path.join(d, "patch.diff")], check=True)
        r = subprocess.run(["go", "test", "-json", "-vet=off", "-count=1", "-p", "1"] + pkgs, cwd=wt, env=ENV, capture_output=True, text=True)
        res = {}
        for line in r.stdout.splitlines():
            try:
                e = json.loads(line)
            except Exception:
                continue
            if e.get("Action") in ("pass", "fail") and e.get("Test"):
                res[e["Package"] + "::" + e["Test"]] = e["Action"]
        still = sorted(t for t in bad if res.get(t) != "pass")
        ok = not still and vc.get("demo_without_change_exit") == 0 and vc.get("patch_applies") and vc.get("builds") and vc.get("demo_with_change_exit") != 0
        vc["baseline_rerun_alone"] = "ok" if not still else "still failing: " + ", ".join(still)
        vc["baseline_note"] = "the listed tests failed while seed agents and checks loaded the machine; re-run alone with the change applied (go test -count=1 -p 1 on their packages: %s)" % " ".join(pkgs)
        vc["confirmed"] = bool(ok)
        meta["verified_by_coordinator"] = vc
        json.dump(meta, open(mp, "w"), indent=1)
        print(sid, vc["baseline_rerun_alone"], "confirmed=%s" % vc["confirmed"])
    finally:
        subprocess.run(["git", "-C", "/repo", "worktree", "remove", "--force", wt], capture_output=True)
