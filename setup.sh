#!/bin/sh
# Offline setup: builds the source rewriter and warms the Go build cache by building every harness once.
set -e
cd "$(dirname "$0")"
export GOFLAGS=-mod=mod GOPROXY=off GOSUMDB=off GOTOOLCHAIN=local
mkdir -p bin evidence replays
(cd engine/rewrite && go build -o ../../bin/rewrite .)
python3 ./warm.py
