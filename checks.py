# Loads the per-property check configuration from checks/Cxx.json (one file per property, so that
# properties can be developed independently). See docs/HARNESS_GUIDE.md for the format.
import json, os, glob

_D = os.path.join(os.path.dirname(os.path.abspath(__file__)), "checks")
CHECKS = {}
for _f in sorted(glob.glob(os.path.join(_D, "C*.json"))):
    _c = json.load(open(_f))
    CHECKS[_c["property_id"]] = _c
