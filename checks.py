# Per-property check configuration for ./check (parts, instrumentation, sharding, deadlines).
# deadline = soft per-worker deadline in seconds: reaching it ends the run with exhaustive=false, exit 0.

CHECKS = {
    "C19": {
        "level": "model_checking",
        "explanation": "stateless model checking of the real query pipeline: all stage trees x outcome assignments x all schedules",
        "assumptions": [
            "interleavings are explored at sync/atomic operations of the rewritten files query/pipeline.go, query/pipeline_state_matchine.go (query/stage.baseStage has no synchronisation of its own) (sequential consistency)",
            "async stages run through the real workerPool.execTask (panic routing) on controlled threads instead of pool worker goroutines",
        ],
        "parts": [
            {"name": "sched", "harness": "c19_pipeline",
             "rewrite": {"files": ["query/pipeline.go", "query/pipeline_state_matchine.go"]},
             "shards": 16, "gomaxprocs": 1, "deadline": {"quick": 150, "thorough": 1500}, "min_outcomes": 4},
        ],
    },
}
