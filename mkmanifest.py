#!/usr/bin/env python3
"""Regenerates MANIFEST.json from manifest_static.json + checks/*.json (+ properties.jsonl for not_applicable)."""
import json, os, sys
V = os.path.dirname(os.path.abspath(__file__))
sys.path.insert(0, V)
from checks import CHECKS
st = json.load(open(os.path.join(V, "manifest_static.json")))
props = [json.loads(l)["id"] for l in open(os.path.join(V, "properties.jsonl")) if l.strip()]
m = {"version": 1, "setup_cmd": st["setup_cmd"], "hooks": st["hooks"], "engines": [], "checks": [], "not_applicable": []}
serves = {}
for pid, c in sorted(CHECKS.items()):
    if c.get("disabled"):
        continue
    mf = c["manifest"]
    for e in mf["engine"].split("+"):
        serves.setdefault(e, []).append(pid)
    entry = {"property_id": pid, "quick_cmd": "./check %s --tier quick" % pid, "thorough_cmd": "./check %s --tier thorough" % pid,
             "evidence_file": "evidence/%s.json" % pid, "replay_cmd_template": "./check %s --replay {path}" % pid,
             "engine": mf["engine"],
             "level_claimed": {"category": c["level"], "text": mf["level_text"], "design_ref": mf.get("design_ref", "DESIGN.md §3 " + pid)},
             "level_note": mf["level_note"], "technique": mf["technique"]}
    m["checks"].append(entry)
for e in st["engines"]:
    e = dict(e)
    e["serves_properties"] = sorted(serves.get(e["name"], [])) if e["name"] != "evid" else sorted(p["property_id"] for p in m["checks"])
    m["engines"].append(e)
claimed = {c["property_id"] for c in m["checks"]}
for p in props:
    if p not in claimed:
        r = st["not_applicable_reasons"].get(p, st["not_applicable_reasons"]["_default"])
        m["not_applicable"].append({"property_id": p, "reason": r})
json.dump(m, open(os.path.join(V, "MANIFEST.json"), "w"), indent=1)
print("MANIFEST.json: %d checks, %d not_applicable" % (len(m["checks"]), len(m["not_applicable"])))
