// Real storage engine / database / shard of one worker, the write path and the query operators.
package main

import (
	"bytes"
	"encoding/binary"
	"errors"
	"fmt"
	"github.com/lindb/lindb/kv/table"
	"github.com/lindb/lindb/pkg/bufioutil"
	"os"
	"path"
	"path/filepath"
	"sort"
	"time"

	protoMetricsV1 "github.com/lindb/common/proto/gen/v1/linmetrics"
	"github.com/lindb/roaring"
	"go.uber.org/atomic"

	"github.com/lindb/lindb/config"
	"github.com/lindb/lindb/flow"
	"github.com/lindb/lindb/internal/vevid"
	"github.com/lindb/lindb/kv"
	"github.com/lindb/lindb/models"
	"github.com/lindb/lindb/pkg/option"
	"github.com/lindb/lindb/pkg/timeutil"
	"github.com/lindb/lindb/query/operator"
	"github.com/lindb/lindb/series/field"
	"github.com/lindb/lindb/series/metric"
	"github.com/lindb/lindb/sql"
	"github.com/lindb/lindb/sql/stmt"
	"github.com/lindb/lindb/tsdb"
)

const (
	namespace = "default-ns"
	fieldName = "f"
	baseTS    = int64(1700000000000)
)

var (
	indexFamilies = []string{"series", "inverted", "metric", "forward"}
	metaFamilies  = []string{"ns", "metric", "schema", "tv"}
)

type world struct {
	f      *vevid.Flags
	rep    *vevid.Report
	engine tsdb.Engine
	dir    string
	dbSeq  int
}

func openWorld(f *vevid.Flags, rep *vevid.Report) *world {
	dir := filepath.Join(f.Scratch, "tsdb")
	_ = os.RemoveAll(dir)
	cfg := config.NewDefaultStorageBase()
	cfg.TSDB.Dir = dir
	config.SetGlobalStorageConfig(cfg)
	kv.DefaultCompactCheckInterval = 24 * time.Hour // compaction only when the harness asks for it
	e, err := tsdb.NewEngine()
	if err != nil {
		vevid.OpFailed("new engine: %v", err)
	}
	return &world{f: f, rep: rep, engine: e, dir: dir}
}

func (w *world) close() {
	w.engine.Close()
	_ = os.RemoveAll(w.dir)
}

// dbEnv is one real database with one shard: meta database + index database.
type dbEnv struct {
	w      *world
	name   string
	db     tsdb.Database
	shard  tsdb.Shard
	conv   *metric.BrokerRowProtoConverter
	dummyN int
}

func (w *world) newDB() *dbEnv {
	w.dbSeq++
	name := fmt.Sprintf("c10_%d_%d", w.f.Shard, w.dbSeq)
	opt := &option.DatabaseOption{
		Intervals:    option.Intervals{{Interval: timeutil.Interval(10 * 1000), Retention: timeutil.Interval(36500 * 24 * 3600 * 1000)}},
		AutoCreateNS: true,
	}
	if err := w.engine.CreateShards(name, opt, models.ShardID(1)); err != nil {
		vevid.OpFailed("create shards: %v", err)
	}
	db, ok := w.engine.GetDatabase(name)
	if !ok {
		vevid.OpFailed("database %s missing", name)
	}
	shard, ok := db.GetShard(models.ShardID(1))
	if !ok {
		vevid.OpFailed("shard missing")
	}
	return &dbEnv{w: w, name: name, db: db, shard: shard, conv: metric.NewProtoConverter(models.NewDefaultLimits())}
}

// write sends the series through the production conversion (proto Metric -> flat row) and then makes exactly the calls
// the memdb workers make for a row (tsdb/memdb metadataDatabase.handleRow + indexDatabase.handleRow):
// GenMetricID, GenFieldID, GenSeriesID(metricID, row). It returns the series id and the tags read back from each row.
func (e *dbEnv) write(metricName string, tagSets []map[string]string) ([]uint32, []map[string]string) {
	ids := make([]uint32, 0, len(tagSets))
	tagsOut := make([]map[string]string, 0, len(tagSets))
	const chunk = 2048
	for off := 0; off < len(tagSets); off += chunk {
		end := off + chunk
		if end > len(tagSets) {
			end = len(tagSets)
		}
		ml := protoMetricsV1.MetricList{}
		for _, ts := range tagSets[off:end] {
			m := &protoMetricsV1.Metric{
				Name:      metricName,
				Namespace: namespace,
				Timestamp: baseTS,
				SimpleFields: []*protoMetricsV1.SimpleField{{
					Name: fieldName, Value: 1, Type: protoMetricsV1.SimpleFieldType_DELTA_SUM,
				}},
			}
			keys := make([]string, 0, len(ts))
			for k := range ts {
				keys = append(keys, k)
			}
			sort.Strings(keys)
			for _, k := range keys {
				m.Tags = append(m.Tags, &protoMetricsV1.KeyValue{Key: k, Value: ts[k]})
			}
			ml.Metrics = append(ml.Metrics, m)
		}
		var buf bytes.Buffer
		if _, err := e.conv.MarshalProtoMetricListV1To(ml, &buf); err != nil {
			vevid.OpFailed("marshal proto metric list: %v", err)
		}
		var br metric.StorageBatchRows
		br.UnmarshalRows(buf.Bytes())
		rows := br.Rows()
		if len(rows) != end-off {
			vevid.Fatal("converter produced %d rows for %d metrics", len(rows), end-off)
		}
		metaDB := e.db.MetaDB()
		indexDB := e.shard.IndexDB()
		for i, row := range rows {
			metricID, err := metaDB.GenMetricID(row.NameSpace(), row.Name())
			if err != nil {
				vevid.OpFailed("GenMetricID: %v", err)
			}
			if _, err = metaDB.GenFieldID(metricID, field.Meta{Name: fieldName, Type: field.SumField}); err != nil {
				vevid.OpFailed("GenFieldID: %v", err)
			}
			sid, err := indexDB.GenSeriesID(metricID, row)
			if err != nil {
				vevid.OpFailed("GenSeriesID: %v", err)
			}
			got := map[string]string{}
			it := row.NewKeyValueIterator()
			for it.HasNext() {
				got[string(it.NextKey())] = string(it.NextValue())
			}
			want := tagSets[off+i]
			if len(got) != len(want) {
				vevid.Fatal("row %d carries tags %v, written %v", off+i, got, want)
			}
			for k, v := range want {
				if got[k] != v {
					vevid.Fatal("row %d carries tags %v, written %v", off+i, got, want)
				}
			}
			ids = append(ids, sid)
			tagsOut = append(tagsOut, got)
		}
	}
	return ids, tagsOut
}

func (e *dbEnv) prepareFlush() {
	// what memdb's metadata / index workers do on a FlushEvent before the background flush starts
	e.db.MetaDB().PrepareFlush()
	e.shard.IndexDB().PrepareFlush()
}

func (e *dbEnv) flush() {
	if err := e.db.FlushMeta(); err != nil {
		vevid.OpFailed("FlushMeta: %v", err)
	}
	if err := e.shard.FlushIndex(); err != nil {
		vevid.OpFailed("FlushIndex: %v", err)
	}
}

// flushFailing runs the flush procedure while the k-th table file of it cannot be created (a full disk, a permission
// problem): the flush fails and is repeated later. injected reports whether the flush got as far as the k-th file.
func (e *dbEnv) flushFailing(k int) (injected bool, err error) {
	old := table.VerifGetSeams()
	n := 0
	table.VerifSetSeams(table.VerifSeams{NewBufioWriter: func(fileName string) (bufioutil.BufioWriter, error) {
		n++
		if n == k {
			injected = true
			return nil, errors.New("injected: the table file cannot be created")
		}
		return old.NewBufioWriter(fileName)
	}})
	defer table.VerifSetSeams(table.VerifSeams{NewBufioWriter: old.NewBufioWriter})
	if err = e.db.FlushMeta(); err == nil {
		err = e.shard.FlushIndex()
	}
	return injected, err
}

func (e *dbEnv) stores() (indexStore, metaStore kv.Store) {
	base := config.GlobalStorageConfig().TSDB.Dir
	in := filepath.Join(base, e.name, "shard", "1", "index")
	mn := path.Join(filepath.Join(base, e.name, "meta"), "kv")
	var ok bool
	if indexStore, ok = kv.GetStoreManager().GetStoreByName(in); !ok {
		vevid.Fatal("index store %s not found", in)
	}
	if metaStore, ok = kv.GetStoreManager().GetStoreByName(mn); !ok {
		vevid.Fatal("meta store %s not found", mn)
	}
	return
}

func l0l1(f kv.Family) (int, int) {
	s := f.GetSnapshot()
	defer s.Close()
	return s.GetCurrent().NumberOfFilesInLevel(0), s.GetCurrent().NumberOfFilesInLevel(1)
}

// compactAll runs Family.Compact on every family of the shard's index store and the database's meta store and waits.
// It returns the number of families that really merged >=2 level-0 files into level 1.
func (e *dbEnv) compactAll() (merged int, detail string) {
	is, ms := e.stores()
	do := func(st kv.Store, names []string, tag string) {
		for _, n := range names {
			f := st.GetFamily(n)
			if f == nil {
				vevid.Fatal("family %s/%s missing", tag, n)
			}
			b0, _ := l0l1(f)
			f.Compact()
			kv.VerifFamilyWait(f)
			a0, a1 := l0l1(f)
			detail += fmt.Sprintf("%s/%s:L0 %d->%d,L1=%d ", tag, n, b0, a0, a1)
			if b0 >= 2 && a0 == 0 && a1 >= 1 {
				merged++
			}
		}
	}
	do(is, indexFamilies, "index")
	do(ms, metaFamilies, "meta")
	return
}

// refresh writes one unrelated series and flushes: the meta database's IndexKVStore only re-reads the family version
// (and so the compacted files) when a flush completes.
func (e *dbEnv) refresh() {
	e.dummyN++
	e.write(fmt.Sprintf("zz_dummy_%d", e.dummyN), []map[string]string{{"host": fmt.Sprintf("d%d", e.dummyN)}})
	e.flush()
}

// ---------------------------------------------------------------- conditions

type cond struct {
	Text  string
	query *stmt.Query // parsed once with a placeholder metric
	info  condInfo
	kind  string
}

func parseCond(text string, groupBy []string) (*stmt.Query, error) {
	s := "select " + fieldName + " from m where " + text
	if len(groupBy) > 0 {
		s += " group by "
		for i, g := range groupBy {
			if i > 0 {
				s += ","
			}
			s += keyTok(g)
		}
	}
	st, err := sql.Parse(s)
	if err != nil {
		return nil, err
	}
	qq, ok := st.(*stmt.Query)
	if !ok {
		return nil, fmt.Errorf("not a query: %T", st)
	}
	return qq, nil
}

func kindOf(e stmt.Expr) string {
	switch x := e.(type) {
	case *stmt.EqualsExpr:
		return "eq"
	case *stmt.InExpr:
		return "in"
	case *stmt.LikeExpr:
		return "like"
	case *stmt.RegexExpr:
		return "regex"
	case *stmt.NotExpr:
		return "not-" + kindOf(x.Expr)
	case *stmt.ParenExpr:
		return "paren"
	case *stmt.BinaryExpr:
		return "composite"
	}
	return "other"
}

func newCond(text string) *cond {
	qq, err := parseCond(text, nil)
	if err != nil {
		vevid.Fatal("sql.Parse rejects condition %q: %v", text, err)
	}
	if qq.Condition == nil {
		vevid.Fatal("sql.Parse produced no condition for %q", text)
	}
	c := &cond{Text: text, query: qq, info: condInfo{keys: map[string]bool{}}}
	analyse(qq.Condition, &c.info, 0)
	c.kind = kindOf(qq.Condition)
	return c
}

func (e *dbEnv) mkQuery(base *stmt.Query, metricName string, groupBy []string) *stmt.Query {
	qq := *base
	qq.MetricName = metricName
	qq.Namespace = namespace
	qq.GroupBy = groupBy
	qq.Interval = timeutil.Interval(10 * 1000)
	qq.StorageInterval = timeutil.Interval(10 * 1000)
	qq.IntervalRatio = 1
	qq.TimeRange = timeutil.TimeRange{Start: baseTS - 60000, End: baseTS + 60000}
	return &qq
}

// filter runs the production operator chain of a leaf query with a where clause:
// MetadataLookup -> TagValuesLookup (database level) -> SeriesFiltering (shard level).
func (e *dbEnv) filter(qq *stmt.Query) (*flow.StorageExecuteContext, *flow.ShardExecuteContext, string, error) {
	sctx := &flow.StorageExecuteContext{Query: qq, ShardIDs: []models.ShardID{1}}
	if err := operator.NewMetadataLookup(sctx, e.db).Execute(); err != nil {
		return nil, nil, "operator.MetadataLookup", err
	}
	if err := operator.NewTagValuesLookup(sctx, e.db).Execute(); err != nil {
		return nil, nil, "operator.TagValuesLookup", err
	}
	shctx := flow.NewShardExecuteContext(sctx)
	if err := operator.NewSeriesFiltering(shctx, e.shard).Execute(); err != nil {
		return nil, nil, "operator.SeriesFiltering", err
	}
	return sctx, shctx, "", nil
}

// groupResult: per returned series the values of the grouping keys; scan = per key the values ScanTagValueIDs returned.
type groupResult struct {
	perSeries map[uint32][]string
	scan      []map[string]bool
	notFound  bool
}

// groupBy continues after filter: (DataFamilyRead is replaced by "every selected series has data":
// TimeSegmentContext.SeriesIDs = selected) -> GroupingContextBuild -> per container GroupingTagsLookup (BuildGroup) and
// ScanTagValueIDs -> MetaDB.CollectTagValues (as LeafGroupingContext.collectGroupByTagValues does).
func (e *dbEnv) groupBy(sctx *flow.StorageExecuteContext, shctx *flow.ShardExecuteContext) (*groupResult, string, error) {
	res := &groupResult{perSeries: map[uint32][]string{}}
	shctx.TimeSegmentContext.SeriesIDs = shctx.SeriesIDsAfterFiltering.Clone()
	if err := operator.NewGroupingContextBuild(shctx, e.shard).Execute(); err != nil {
		return nil, "operator.GroupingContextBuild", err
	}
	if shctx.GroupingContext == nil {
		res.notFound = true
		return res, "", nil
	}
	nk := len(sctx.GroupByTagKeyIDs)
	seriesIDs := shctx.SeriesIDsAfterFiltering
	highKeys := seriesIDs.GetHighKeys()
	perSeriesIDs := map[uint32][]uint32{}
	scanIDs := make([]*roaring.Bitmap, nk)
	for i := range scanIDs {
		scanIDs[i] = roaring.New()
	}
	for hi, highKey := range highKeys {
		container := seriesIDs.GetContainerAtIndex(hi)
		dl := &flow.DataLoadContext{
			ShardExecuteCtx:       shctx,
			LowSeriesIDsContainer: container,
			SeriesIDHighKey:       highKey,
			IsMultiField:          len(sctx.Fields) > 1,
			IsGrouping:            true,
			PendingDataLoadTasks:  atomic.NewInt32(0),
		}
		if err := operator.NewGroupingTagsLookup(dl).Execute(); err != nil {
			return nil, "operator.GroupingTagsLookup", err
		}
		it := container.PeekableIterator()
		for it.HasNext() {
			low := it.Next()
			sid := uint32(highKey)<<16 | uint32(low)
			if len(dl.GroupingSeriesAgg) == 0 {
				continue // grouping stage terminates: no group for this container
			}
			ref := dl.GroupingSeriesAggRefs[low-dl.MinSeriesID] // how DataLoad resolves the group of a series
			key := []byte(dl.GroupingSeriesAgg[ref].Key)
			vals := make([]uint32, nk)
			for k := 0; k < nk; k++ {
				if len(key) >= (k+1)*4 {
					vals[k] = binary.LittleEndian.Uint32(key[k*4:])
				}
			}
			perSeriesIDs[sid] = vals
		}
		for k, bm := range shctx.GroupingContext.ScanTagValueIDs(highKey, container) {
			scanIDs[k].Or(bm)
		}
	}
	// tag value ids -> strings
	names := make([]map[uint32]string, nk)
	for k := 0; k < nk; k++ {
		names[k] = map[uint32]string{}
		ids := sctx.GroupingTagValueIDs[k]
		if ids == nil || ids.IsEmpty() {
			continue
		}
		if err := e.db.MetaDB().CollectTagValues(sctx.GroupByTags[k].ID, ids, names[k]); err != nil {
			return nil, "MetricMetaDatabase.CollectTagValues", err
		}
	}
	for sid, vals := range perSeriesIDs {
		out := make([]string, nk)
		for k, v := range vals {
			if s, ok := names[k][v]; ok {
				out[k] = s
			} else {
				out[k] = fmt.Sprintf("<tag_value_not_found:%d>", v)
			}
		}
		res.perSeries[sid] = out
	}
	res.scan = make([]map[string]bool, nk)
	for k := 0; k < nk; k++ {
		res.scan[k] = map[string]bool{}
		m := map[uint32]string{}
		want := scanIDs[k].Clone()
		if !want.IsEmpty() {
			if err := e.db.MetaDB().CollectTagValues(sctx.GroupByTags[k].ID, want, m); err != nil {
				return nil, "MetricMetaDatabase.CollectTagValues", err
			}
		}
		it := scanIDs[k].Iterator()
		for it.HasNext() {
			id := it.Next()
			if s, ok := m[id]; ok {
				res.scan[k][s] = true
			} else {
				res.scan[k][fmt.Sprintf("<tag_value_not_found:%d>", id)] = true
			}
		}
	}
	return res, "", nil
}
