// Reference model of C10: brute-force evaluation of a parsed tag condition on the tags of one series.
//
// Semantics fixed up front (from the statement + the documented behaviour of query/operator/series_filtering.go,
// "not = series having the key minus matches"):
//   - a positive atom (=, in, like, =~) selects a series iff the series HAS the key and its value matches;
//   - a negation (!=, not in, not like, !~; the parser only produces NotExpr around one atom) selects a series iff
//     the series HAS the key and the value does not match (series lacking the key are NOT selected);
//   - like: leading '*' = suffix match, trailing '*' = prefix match, both = infix match, otherwise equality
//     (a '*' elsewhere is an ordinary character);
//   - =~ : Go regexp (RE2) match anywhere in the value, i.e. regexp.Match, the function every code path calls;
//   - and / or / parentheses: boolean connectives over the parsed expression tree (whatever tree sql.Parse produced).
package main

import (
	"regexp"
	"strings"
	"sync"

	"github.com/lindb/lindb/sql/stmt"
)

var (
	reCache   = map[string]*regexp.Regexp{}
	reCacheMu sync.Mutex
)

func compileRE(p string) *regexp.Regexp {
	reCacheMu.Lock()
	defer reCacheMu.Unlock()
	if r, ok := reCache[p]; ok {
		return r
	}
	r, err := regexp.Compile(p)
	if err != nil {
		r = nil
	}
	reCache[p] = r
	return r
}

func likeMatch(pat, v string) bool {
	lead := strings.HasPrefix(pat, "*")
	trail := strings.HasSuffix(pat, "*")
	switch {
	case pat == "*" || pat == "**":
		return true // prefix/suffix/infix of the empty string
	case lead && trail:
		return strings.Contains(v, pat[1:len(pat)-1])
	case lead:
		return strings.HasSuffix(v, pat[1:])
	case trail:
		return strings.HasPrefix(v, pat[:len(pat)-1])
	default:
		return v == pat
	}
}

// evalAtom: does value v (of a series that has the key) match the positive atom?
func evalAtom(e stmt.Expr, v string) bool {
	switch x := e.(type) {
	case *stmt.EqualsExpr:
		return v == x.Value
	case *stmt.InExpr:
		for _, c := range x.Values {
			if c == v {
				return true
			}
		}
		return false
	case *stmt.LikeExpr:
		return likeMatch(x.Value, v)
	case *stmt.RegexExpr:
		r := compileRE(x.Regexp)
		return r != nil && r.MatchString(v)
	}
	return false
}

// evalExpr evaluates the condition on one series.
func evalExpr(e stmt.Expr, tags map[string]string) bool {
	switch x := e.(type) {
	case *stmt.ParenExpr:
		return evalExpr(x.Expr, tags)
	case *stmt.NotExpr:
		tf, ok := x.Expr.(stmt.TagFilter)
		if !ok {
			return false
		}
		v, has := tags[tf.TagKey()]
		return has && !evalAtom(x.Expr, v)
	case *stmt.BinaryExpr:
		l, r := evalExpr(x.Left, tags), evalExpr(x.Right, tags)
		if x.Operator == stmt.AND {
			return l && r
		}
		return l || r
	case stmt.TagFilter:
		v, has := tags[x.TagKey()]
		return has && evalAtom(e, v)
	}
	return false
}

// condInfo: keys referenced, whether a negation occurs, number of atoms, depth.
type condInfo struct {
	keys   map[string]bool
	hasNot bool
	atoms  int
	depth  int
}

func analyse(e stmt.Expr, ci *condInfo, depth int) {
	if depth > ci.depth {
		ci.depth = depth
	}
	switch x := e.(type) {
	case *stmt.ParenExpr:
		analyse(x.Expr, ci, depth+1)
	case *stmt.NotExpr:
		ci.hasNot = true
		analyse(x.Expr, ci, depth)
	case *stmt.BinaryExpr:
		analyse(x.Left, ci, depth+1)
		analyse(x.Right, ci, depth+1)
	case stmt.TagFilter:
		ci.keys[x.TagKey()] = true
		ci.atoms++
	}
}
