// Enumeration alphabets of the C10 harness: series pools, multisets x flush placements, tag conditions.
package main

import (
	"fmt"
	"sort"
	"strings"
)

var tagKeys = []string{"host", "zone", "é"}

// seriesT is one series of the alphabet: the value of host / zone / é ("" = the series lacks the key).
type seriesT [3]string

func (s seriesT) tags() map[string]string {
	m := map[string]string{}
	for i, v := range s {
		if v != "" {
			m[tagKeys[i]] = v
		}
	}
	return m
}

func (s seriesT) String() string {
	var p []string
	for i, v := range s {
		if v != "" {
			p = append(p, tagKeys[i]+"="+v)
		}
	}
	return "{" + strings.Join(p, ",") + "}"
}

// sharpPool: hand-picked series: no tags, one key with every value of {a,ab,abc,b,aé} (shared prefixes, unicode),
// the same value string under two keys, shared / missing keys, unicode key, all three keys.
var sharpPool = []seriesT{
	{"", "", ""},
	{"a", "", ""},
	{"ab", "", ""},
	{"abc", "", ""},
	{"b", "", ""},
	{"aé", "", ""},
	{"", "a", ""},
	{"a", "a", ""},
	{"a", "b", ""},
	{"ab", "b", ""},
	{"b", "ab", ""},
	{"", "", "aé"},
	{"a", "", "aé"},
	{"abc", "abc", "abc"},
}

// sharp12 (quick, multisets of size 3): the sharp pool without {host=ab,zone=b} and {host=a,é=aé}.
func sharp12() []seriesT {
	var out []seriesT
	for i, s := range sharpPool {
		if i != 9 && i != 12 {
			out = append(out, s)
		}
	}
	return out
}

// productPool (thorough): host in {-,a,ab,abc,b,aé} x zone in {-,a,b} x é in {-,aé}.
func productPool() []seriesT {
	var out []seriesT
	for _, h := range []string{"", "a", "ab", "abc", "b", "aé"} {
		for _, z := range []string{"", "a", "b"} {
			for _, e := range []string{"", "aé"} {
				out = append(out, seriesT{h, z, e})
			}
		}
	}
	return out
}

// boundaryPool: series used behind 65 534 / 65 535 filler series (ids straddle the roaring container boundary).
var boundaryPool = []seriesT{
	{"a", "", ""},
	{"ab", "a", ""},
	{"", "b", ""},
	{"b", "b", "aé"},
	{"", "", ""},
}

// smallBoundaryPool (quick): a series without zone, two with different zone values / more keys.
var smallBoundaryPool = []seriesT{
	{"a", "", ""},
	{"ab", "a", ""},
	{"b", "b", "aé"},
}

// multisets enumerates all multisets (non-decreasing index sequences) of size lo..hi over a pool of n series.
func multisets(n, lo, hi int) [][]int {
	var out [][]int
	var rec func(cur []int, from, size int)
	rec = func(cur []int, from, size int) {
		if len(cur) == size {
			out = append(out, append([]int(nil), cur...))
			return
		}
		for i := from; i < n; i++ {
			rec(append(cur, i), i, size)
		}
	}
	for size := lo; size <= hi; size++ {
		rec(nil, 0, size)
	}
	return out
}

// placements enumerates the assignments of the elements of a multiset to write phase 1 (before the first flush)
// or 2 (after PrepareFlush of phase 1); equal elements get non-decreasing phases (the swapped assignment is the same history).
func placements(ms []int) [][]int {
	var out [][]int
	n := len(ms)
	for mask := 0; mask < 1<<n; mask++ {
		ph := make([]int, n)
		ok := true
		for i := 0; i < n; i++ {
			ph[i] = 1 + (mask>>i)&1
			if i > 0 && ms[i] == ms[i-1] && ph[i] < ph[i-1] {
				ok = false
			}
		}
		if ok {
			out = append(out, ph)
		}
	}
	return out
}

// ---------------------------------------------------------------- conditions

func q(s string) string { return "'" + s + "'" }

func qlist(vs []string) string {
	var p []string
	for _, v := range vs {
		p = append(p, q(v))
	}
	return "(" + strings.Join(p, ",") + ")"
}

func keyTok(k string) string {
	if k == "é" {
		return "'é'"
	}
	return k
}

var (
	eqVals    = []string{"a", "ab", "abc", "b", "aé", "zz"}
	neqVals   = []string{"a", "ab", "aé", "zz"}
	inLists   = [][]string{{"a"}, {"a", "b"}, {"ab", "zz", "aé"}, {"zz"}, {"abc", "ab", "a", "b", "aé"}}
	likePats  = []string{"a", "a*", "ab*", "*b", "*b*", "*é", "*a*", "a*c", "zz*", "*zz", "*ab"}
	nlikePats = []string{"a", "a*", "*b", "*b*", "*é"}
	rePats    = []string{"a", "^a", "b$", "^ab?$", "^a.*$", "a.*", "é", ".*", "^b", "^(a|b)$", "zz", "b"}
	nrePats   = []string{"^a", "b$", "a.*", "^ab?$", "b"}
	// extra patterns (boundary forms of the like operator), only as atoms
	likeExtra = []string{"*", "**"}
)

// atomsFor lists every atomic filter of the alphabet on one key.
func atomsFor(k string, extra bool) []string {
	kt := keyTok(k)
	var out []string
	for _, v := range eqVals {
		out = append(out, kt+"="+q(v))
	}
	for _, v := range neqVals {
		out = append(out, kt+"!="+q(v))
	}
	for _, l := range inLists {
		out = append(out, kt+" in "+qlist(l))
	}
	for _, l := range inLists {
		out = append(out, kt+" not in "+qlist(l))
	}
	for _, p := range likePats {
		out = append(out, kt+" like "+q(p))
	}
	for _, p := range nlikePats {
		out = append(out, kt+" not like "+q(p))
	}
	for _, p := range rePats {
		out = append(out, kt+"=~"+q(p))
	}
	for _, p := range nrePats {
		out = append(out, kt+"!~"+q(p))
	}
	if extra {
		for _, p := range likeExtra {
			out = append(out, kt+" like "+q(p))
			out = append(out, kt+" not like "+q(p))
		}
	}
	return out
}

// reduced atom alphabets for composite conditions (positive/negative, same key / different keys, every operator).
var (
	redQuick = []string{
		"host='a'", "host!='a'", "host like 'a*'", "host not in ('a','b')",
		"zone='a'", "zone!~'^b'", "'é'='aé'", "zone in ('a','b')",
	}
	redThorough = []string{
		"host='a'", "host!='a'", "host like 'a*'", "host not in ('a','b')", "host=~'b$'", "host not like '*b'",
		"zone='a'", "zone!~'^b'", "zone in ('a','b')", "zone!='a'",
		"'é'='aé'", "'é'!='aé'",
	}
	red4 = []string{"host='a'", "host!='ab'", "zone like '*b'", "'é'!~'zz'"}
)

var binOps = []string{"and", "or"}

// condition set levels
const (
	lvlAtoms = 0 // every atom on every key + every depth-1 derivation over redQuick
	lvlBase  = 1 // + every depth-2 derivation over red4 (4-atom shape: unordered pairs of distinct atoms per side)
	lvlFull  = 2 // depth 1 over redThorough, depth-2 3-atom shapes over redQuick, 4-atom shape over all of red4^4
)

// buildConditions returns the where-clause texts: every atom, every derivation of the grammar
// tagFilterExpr := atom | (tagFilterExpr) | tagFilterExpr (and|or) tagFilterExpr to nesting depth 2 over reduced alphabets.
func buildConditions(level int) []string {
	seen := map[string]bool{}
	var out []string
	add := func(s string) {
		if !seen[s] {
			seen[s] = true
			out = append(out, s)
		}
	}
	// depth 0: all atoms on all keys
	for _, k := range tagKeys {
		for _, a := range atomsFor(k, true) {
			add(a)
		}
	}
	red := redQuick
	if level == lvlFull {
		red = redThorough
	}
	// depth 1: (X), X op Y
	for _, x := range red {
		add("(" + x + ")")
	}
	for _, x := range red {
		for _, y := range red {
			for _, op := range binOps {
				add(x + " " + op + " " + y)
			}
		}
	}
	if level == lvlAtoms {
		return out
	}
	// depth 2 over 3 atoms: (X op Y) op Z, X op (Y op Z), X op Y op Z, ((X)), (X) op (Y), ((X op Y))
	r3 := red4
	if level == lvlFull {
		r3 = redQuick
	}
	for _, x := range r3 {
		add("((" + x + "))")
		for _, y := range r3 {
			for _, o1 := range binOps {
				add("(" + x + ") " + o1 + " (" + y + ")")
				add("((" + x + " " + o1 + " " + y + "))")
				for _, z := range r3 {
					for _, o2 := range binOps {
						add("(" + x + " " + o1 + " " + y + ") " + o2 + " " + z)
						add(x + " " + o1 + " (" + y + " " + o2 + " " + z + ")")
						add(x + " " + o1 + " " + y + " " + o2 + " " + z)
					}
				}
			}
		}
	}
	// depth 2 over 4 atoms: (X op Y) op (Z op W)
	for xi, x := range red4 {
		for yi, y := range red4 {
			for zi, z := range red4 {
				for wi, w := range red4 {
					if level != lvlFull && !(xi < yi && zi < wi) {
						continue
					}
					for _, o1 := range binOps {
						for _, o2 := range binOps {
							for _, o3 := range binOps {
								add("(" + x + " " + o1 + " " + y + ") " + o2 + " (" + z + " " + o3 + " " + w + ")")
							}
						}
					}
				}
			}
		}
	}
	return out
}

// groupBySets: every non-empty subset of the schema keys in canonical order, plus the reversed full order.
func groupBySets(present []string) [][]string {
	var out [][]string
	n := len(present)
	for mask := 1; mask < 1<<n; mask++ {
		var g []string
		for i := 0; i < n; i++ {
			if mask>>i&1 == 1 {
				g = append(g, present[i])
			}
		}
		out = append(out, g)
	}
	if n >= 2 {
		rev := make([]string, n)
		for i := range present {
			rev[n-1-i] = present[i]
		}
		out = append(out, rev)
	}
	return out
}

func sortedKeys(m map[string]bool) []string {
	var out []string
	for _, k := range tagKeys { // canonical key order
		if m[k] {
			out = append(out, k)
		}
	}
	var rest []string
	for k := range m {
		found := false
		for _, t := range tagKeys {
			if t == k {
				found = true
			}
		}
		if !found {
			rest = append(rest, k)
		}
	}
	sort.Strings(rest)
	return append(out, rest...)
}

func fmtIDs(ids []uint32) string { return fmt.Sprint(ids) }
