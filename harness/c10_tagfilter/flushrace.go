package main

// Part "flushrace": group-by and tag filtering racing with the flush of the shard's index database (schedules).
// The index package is rebuilt with scheduling shims (every lock / atomic operation a scheduling point; in the dense
// variant every statement outside a critical section too). The flush thread makes the calls the memory database's
// index worker makes on a flush event (PrepareFlush, Flush); the reader thread runs the production operator chain
// MetadataLookup -> TagValuesLookup -> SeriesFiltering -> GroupingContextBuild -> GroupingTagsLookup twice. While the
// flush moves series from the mutable store to the immutable one and on to a new table file, the same series is visible
// in two places for a moment; whatever the reader sees, every selected series belongs to the group of its own tag value.

import (
	"fmt"
	"os"
	"runtime"
	"sort"
	"strings"

	"github.com/lindb/lindb/internal/vevid"
	"github.com/lindb/lindb/internal/vsched"
)

type frScenario struct {
	Name   string     `json:"name"`
	Before [][]string `json:"before"` // hosts written, each batch followed by a complete flush
	Memory []string   `json:"memory"` // hosts written after that (in the mutable store when the threads start)
	Writer []string   `json:"writer"` // hosts a third thread writes while flush and reader run (may be nil)
	Cond   string     `json:"cond"`
}

var frScenarios = []frScenario{
	{Name: "second-flush", Before: [][]string{{"a", "b", "c"}}, Memory: []string{"d"}, Cond: "host in ('a','b','c','d','e','f')"},
	{Name: "third-flush", Before: [][]string{{"a", "b"}, {"c"}}, Memory: []string{"d", "e"}, Cond: "host!='zz'"},
	{Name: "first-flush", Memory: []string{"a", "b"}, Cond: "host in ('a','b','c','d','e','f')"},
	{Name: "second-flush-writer", Before: [][]string{{"a", "b", "c"}}, Memory: []string{"d"}, Writer: []string{"e"}, Cond: "host like '*'"},
}

type frReplay struct {
	Part     string     `json:"part"`
	Scenario frScenario `json:"scenario"`
	Choices  []int      `json:"choices"`
}

type frWorld struct {
	e      *dbEnv
	metric string
	want   map[uint32]string // series id -> host
	errs   []string
	reads  []string
	execs  int
}

var fr *frWorld
var frW *world

func hostsOf(hs []string) []map[string]string {
	var out []map[string]string
	for _, h := range hs {
		out = append(out, map[string]string{"host": h, "dc": "x"})
	}
	return out
}

func (x *frWorld) write(hs []string) {
	ids, tags := x.e.write(x.metric, hostsOf(hs))
	for i, id := range ids {
		x.want[id] = tags[i]["host"]
	}
}

func (x *frWorld) read(who string, atLeast map[uint32]string) {
	base, err := parseCond(frCur.Cond, []string{"host"})
	if err != nil {
		vevid.Fatal("parse: %v", err)
	}
	qq := x.e.mkQuery(base, x.metric, []string{"host"})
	sctx, shctx, site, err := x.e.filter(qq)
	if err != nil {
		// (not found while series written before the query exist = all of them are missing)
		x.errs = append(x.errs, fmt.Sprintf("series-missing-during-flush|%s: %s: %v", who, site, err))
		return
	}
	res, site, err := x.e.groupBy(sctx, shctx)
	if err != nil {
		x.errs = append(x.errs, fmt.Sprintf("series-missing-during-flush|%s: %s: %v", who, site, err))
		return
	}
	if res.notFound && len(atLeast) > 0 {
		x.errs = append(x.errs, fmt.Sprintf("series-missing-during-flush|%s: the grouping context finds none of the %d series written before the query started", who, len(atLeast)))
		return
	}
	var parts []string
	for sid, vals := range res.perSeries {
		h, known := x.want[sid]
		if !known {
			if len(frCur.Writer) > 0 && who != "final" {
				// the writer thread is inside GenSeriesID: the series has its id, the harness has not recorded it yet
				if len(vals) == 1 && vals[0] != frCur.Writer[0] && !strings.HasPrefix(vals[0], "<tag_value_not_found") {
					x.errs = append(x.errs, fmt.Sprintf("wrong-group|%s: series %d (being written, host=%s) is put into group %v", who, sid, frCur.Writer[0], vals))
				}
				continue
			}
			x.errs = append(x.errs, fmt.Sprintf("wrong-group|%s: series id %d was never written", who, sid))
			continue
		}
		if len(vals) == 1 && strings.HasPrefix(vals[0], "<tag_value_not_found") {
			x.errs = append(x.errs, fmt.Sprintf("tag-value-unresolved-during-flush|%s: series %d (host=%s): the id of its group value does not resolve to a string: %v", who, sid, h, vals))
		} else if len(vals) != 1 || vals[0] != h {
			x.errs = append(x.errs, fmt.Sprintf("wrong-group|%s: series %d (host=%s) is put into group %v", who, sid, h, vals))
		}
		parts = append(parts, fmt.Sprintf("%d=%v", sid, vals))
	}
	for sid, h := range atLeast {
		if _, ok := res.perSeries[sid]; !ok {
			x.errs = append(x.errs, fmt.Sprintf("series-missing-during-flush|%s: series %d (host=%s), written before the query started, is not in the answer", who, sid, h))
		}
	}
	sort.Strings(parts)
	x.reads = append(x.reads, who+":"+strings.Join(parts, ","))
}

var frCur frScenario
var frF *vevid.Flags
var frRep *vevid.Report

func frBody(sc frScenario) func() {
	return func() {
		frCur = sc
		if fr == nil || fr.execs%40 == 0 {
			// a fresh engine now and then: every execution leaves table files (open readers) behind
			n := 0
			if fr != nil {
				n = fr.execs
				frW.close()
				frW = openWorld(frF, frRep)
			}
			fr = &frWorld{execs: n}
		}
		if os.Getenv("FR_MEM") != "" && fr.execs%200 == 0 {
			var ms runtime.MemStats
			runtime.ReadMemStats(&ms)
			fmt.Fprintf(os.Stderr, "MEM execs=%d heapInuse=%dMB heapSys=%dMB sys=%dMB goroutines=%d\n", fr.execs, ms.HeapInuse>>20, ms.HeapSys>>20, ms.Sys>>20, runtime.NumGoroutine())
		}
		if fr.e != nil {
			// a database that is not used any more: its three worker pools are never stopped by lindb (9 goroutines each)
			if p := fr.e.db.ExecutorPool(); p != nil {
				p.Filtering.Stop()
				p.Grouping.Stop()
				p.Scanner.Stop()
			}
		}
		fr.e = frW.newDB() // every execution starts from the same state: a database of its own
		fr.execs++
		fr.metric = "fr"
		fr.want, fr.errs, fr.reads = map[uint32]string{}, nil, nil
		x := fr
		vsched.Quiet(true)
		for _, b := range sc.Before {
			x.write(b)
			x.e.prepareFlush()
			x.e.flush()
		}
		x.write(sc.Memory)
		vsched.Quiet(false)
		before := map[uint32]string{}
		for k, v := range x.want {
			before[k] = v
		}
		vsched.Spawn("flush", func() {
			// the order of a flush job: metadata first, when that is complete the shard's index
			x.e.db.MetaDB().PrepareFlush()
			if err := x.e.db.MetaDB().Flush(); err != nil {
				x.errs = append(x.errs, "flush-failed|meta flush: "+err.Error())
			}
			x.e.shard.IndexDB().PrepareFlush()
			if err := x.e.shard.IndexDB().Flush(); err != nil {
				x.errs = append(x.errs, "flush-failed|index flush: "+err.Error())
			}
		})
		vsched.Spawn("reader", func() {
			x.read("R1", before)
			vsched.Point("between reads", nil)
			x.read("R2", before)
		})
		if len(sc.Writer) > 0 {
			vsched.Spawn("writer", func() { x.write(sc.Writer) })
		}
	}
}

func frFinish(rep *vevid.Report, sc frScenario, x *vsched.Result) {
	scen := "flushrace/" + sc.Name
	viol := func(clause, site, detail string) {
		rep.Violate(vevid.Violation{Clause: clause, Scenario: scen, Site: site, Detail: detail + "\nlog: " + strings.Join(x.Log, " | "),
			Replay: frReplay{Part: "flushrace", Scenario: sc, Choices: x.Choices()}})
	}
	if x.Deadlock {
		viol("deadlock", "index", x.WaitGraph)
		fr = nil
		return
	}
	if x.Horizon {
		viol("livelock", "index", x.WaitGraph)
		fr = nil
		return
	}
	for _, p := range x.Panics {
		viol("panic", "index", p)
	}
	// quiescent read: everything written
	all := map[uint32]string{}
	for k, v := range fr.want {
		all[k] = v
	}
	fr.read("final", all)
	for _, e := range fr.errs {
		clause, msg := "group-by-during-flush", e
		if i := strings.Index(e, "|"); i > 0 {
			clause, msg = e[:i], e[i+1:]
		}
		if strings.HasPrefix(msg, "final:") {
			clause = "quiescent-" + clause // nothing is running any more: not a race
		}
		viol(clause, "index read paths", msg+"\nreads: "+strings.Join(fr.reads, " ; "))
	}
	rep.Outcome(fmt.Sprintf("%s %d", sc.Name, len(fr.reads)))
}

func runFlushRace(f *vevid.Flags, rep *vevid.Report) {
	vsched.Strict = true
	frF, frRep = f, rep
	frW = openWorld(f, rep)
	defer func() { frW.close() }()
	bound := 2
	if f.Thorough() {
		bound = 3
	}
	rep.Bounds["preemption_bound"] = bound
	rep.Rule = fmt.Sprintf("%d scenarios: a thread that flushes the metadata and index databases (PrepareFlush, Flush - the calls of the memory database's workers) racing with a reader that runs the production operator chain (MetadataLookup, TagValuesLookup, SeriesFiltering, GroupingContextBuild, GroupingTagsLookup) twice, optionally a writer of a new series, on a real shard whose index already holds 0-2 flushed table files; every schedule within the preemption bound at the lock / atomic operations of package index (dense variant: every statement outside a critical section, bound from VERIF_BOUND); every selected series must be in the group of its own tag value, series written before the read started must be selected", len(frScenarios))
	if f.Replay != "" {
		var r frReplay
		vevid.LoadReplay(f.Replay, &r)
		fails := 0
		for i := 0; i < 5; i++ {
			before := rep.ViolationCount
			x := vsched.Run(r.Choices, 2000000, frBody(r.Scenario))
			frFinish(rep, r.Scenario, x)
			if rep.ViolationCount > before {
				fails++
			}
		}
		rep.Extra["replay_failures_of_5"] = fails
		rep.Evaluations = 5
		rep.Write()
		return
	}
	first := true
	for _, sc := range frScenarios {
		sc := sc
		e := &vsched.Explorer{Bound: bound, Horizon: 2000000, Body: frBody(sc), Shard: f.Shard, Shards: f.Shards, Deadline: f.Deadline}
		e.Check = func(x *vsched.Result) { frFinish(rep, sc, x) }
		e.Discard = func(x *vsched.Result) {
			if x.Deadlock || x.Horizon {
				fr = nil
			}
		}
		if first && f.Shard == 0 {
			a := vsched.Run(nil, 2000000, frBody(sc))
			b := vsched.Run(nil, 2000000, frBody(sc))
			if len(a.Points) != len(b.Points) {
				vevid.Fatal("nondeterministic replay: %d/%d points", len(a.Points), len(b.Points))
			}
			rep.Extra["determinism_replay"] = "ok"
		}
		first = false
		e.Explore()
		if e.Diverged != "" {
			vevid.Fatal("replay divergence in %s: %s", sc.Name, e.Diverged)
		}
		if e.Capped {
			rep.Cap("deadline reached in scenario " + sc.Name)
		}
		rep.Evaluations += e.Executions
		rep.States += e.Executions
		rep.Transitions += e.Points
		rep.TracesValidated += e.Executions
		rep.DistinctNontrivial += e.Executions
		rep.Count("schedules["+sc.Name+"]", e.Executions)
	}
	rep.Write()
}
