// C10 harness: tag filtering through the index == evaluating the predicate on every series.
//
// Bounded exhaustive enumeration on a REAL storage engine (tsdb.NewEngine, one database + shard per batch):
// every multiset of series of one metric from a sharp pool x every placement of the series before / after the first
// index flush x every tag condition sql.Parse can derive to nesting depth 2 over a pattern alphabet x every index state
// (memory, immutable = being flushed, immutable + new memory, flushed, flushed + memory, two files, compacted,
// compacted + re-read). The real operators MetadataLookup -> TagValuesLookup -> SeriesFiltering -> GroupingContextBuild
// -> GroupingTagsLookup run against the shard's index database and the database's meta database.
package main

import (
	"errors"
	"fmt"
	"os"
	"runtime/debug"
	"runtime/pprof"
	"sort"
	"strconv"
	"strings"

	"github.com/lindb/common/pkg/logger"
	"go.uber.org/zap/zapcore"

	"github.com/lindb/lindb/constants"
	"github.com/lindb/lindb/internal/vevid"
)

// caseT is the replayable description of one evaluation.
type caseT struct {
	Pool    string    `json:"pool"`
	Series  []seriesT `json:"series"`
	Phase   []int     `json:"phase"`
	Fill    int       `json:"fill"`
	FillKey string    `json:"fill_key,omitempty"`
	Cond    string    `json:"cond"`
	GroupBy []string  `json:"group_by,omitempty"`
	State   string    `json:"state"`
}

type inst struct {
	ms      int // multiset number (differential key)
	pool    string
	series  []seriesT
	phase   []int
	fill    int
	fillKey string // "" or a tag key of the alphabet that every filler series also carries (values "zf0"/"zf1")
	metric  string
	class   string // all-before | split | all-after

	ids     []uint32 // series id of every element (valid once written)
	written []bool
	model   map[uint32]map[string]string // written non-filler series: id -> tags
	schema  map[string]bool              // tag keys of the written series
	nFill   int
	descC   string
}

func (I *inst) caseOf(c string, g []string, state string) caseT {
	return caseT{Pool: I.pool, Series: I.series, Phase: I.phase, Fill: I.fill, FillKey: I.fillKey, Cond: c, GroupBy: g, State: state}
}

func (I *inst) desc() string {
	if I.descC != "" {
		return I.descC
	}
	I.descC = I.desc0()
	return I.descC
}

func (I *inst) desc0() string {
	var p []string
	for i, s := range I.series {
		p = append(p, fmt.Sprintf("%s@%d", s, I.phase[i]))
	}
	d := "[" + strings.Join(p, " ") + "]"
	if I.fill > 0 {
		d += fmt.Sprintf(" after %d filler series", I.fill)
		if I.fillKey != "" {
			d += " carrying " + I.fillKey + "=zf0|zf1"
		}
	}
	return d
}

// indexClass: coarse class of an index state (part of the violation scenario; the exact state is in the detail).
func indexClass(state string) string {
	switch state {
	case "memory", "immutable", "immutable+memory", "memory(others-immutable)", "memory(others-flushed)":
		return "in-memory"
	}
	return "on-disk"
}

// dataClass: coarse class of the written data (part of the violation scenario).
func (I *inst) dataClass() string {
	switch {
	case I.fill == 0:
		return "plain"
	case I.fill < 70000:
		return "ids-across-65536"
	}
	return "three-containers"
}

func classOf(phase []int) string {
	n1, n2 := 0, 0
	for _, p := range phase {
		if p == 1 {
			n1++
		} else {
			n2++
		}
	}
	switch {
	case n2 == 0:
		return "all-before"
	case n1 == 0:
		return "all-after"
	}
	return "split"
}

// stateLabel: what index state the instance's own series are in during a round.
func stateLabel(round, class string) string {
	switch round {
	case "r1":
		return "memory"
	case "r2":
		return "immutable"
	case "r3":
		if class == "split" {
			return "immutable+memory"
		}
		return "memory(others-immutable)"
	case "r4":
		switch class {
		case "all-before":
			return "flushed"
		case "split":
			return "flushed+memory"
		}
		return "memory(others-flushed)"
	case "r5":
		if class == "split" {
			return "two-files"
		}
		return "flushed(second-file)"
	case "r6":
		return "compacted"
	case "r7":
		return "compacted+reread"
	}
	return round
}

type diffKey struct {
	ms   int
	cond int
}

type gdiffKey struct {
	ms  int
	sel uint32
	g   string
}

type okey struct {
	state, kind string
	n, sel      int
	ok          bool
}

func (r *runner) outcome(k okey) {
	if _, ok := r.okeys[k]; ok {
		return
	}
	r.okeys[k] = struct{}{}
	r.rep.Outcome(fmt.Sprintf("filter/%s/%s/n=%d/sel=%d/ok=%v", k.state, k.kind, k.n, k.sel, k.ok))
}

type runner struct {
	dbNo  int // databases built so far (rotates the position of the injected flush failure)
	okeys map[okey]struct{}
	w     *world
	rep   *vevid.Report
	f     *vevid.Flags
	conds []*cond

	diff    map[diffKey]string
	diffAt  map[diffKey]string
	gdiff   map[gdiffKey]string
	gdiffAt map[gdiffKey]string

	onlyCond    int // replay: evaluate just this condition (-1 = all)
	onlyGroupBy []string
	capped      bool
}

func (r *runner) writePhase(e *dbEnv, I *inst, ph int) {
	if ph == 1 && I.fill > 0 {
		ts := make([]map[string]string, 0, I.fill)
		for i := 0; i < I.fill; i++ {
			t := map[string]string{"fill1": fmt.Sprintf("f%03d", i/256), "fill2": fmt.Sprintf("g%03d", i%256)}
			if I.fillKey != "" {
				t[I.fillKey] = fmt.Sprintf("zf%d", i%2)
			}
			ts = append(ts, t)
		}
		ids, _ := e.write(I.metric, ts)
		seen := map[uint32]bool{}
		for _, id := range ids {
			seen[id] = true
		}
		if len(seen) != I.fill {
			vevid.Fatal("filler series got %d distinct ids for %d series", len(seen), I.fill)
		}
		I.nFill = I.fill
		I.schema["fill1"], I.schema["fill2"] = true, true
		if I.fillKey != "" {
			I.schema[I.fillKey] = true
		}
	}
	var ts []map[string]string
	var idx []int
	for i, s := range I.series {
		if I.phase[i] == ph {
			ts = append(ts, s.tags())
			idx = append(idx, i)
		}
	}
	if len(ts) == 0 {
		return
	}
	ids, tags := e.write(I.metric, ts)
	for j, i := range idx {
		I.ids[i] = ids[j]
		I.written[i] = true
		if old, ok := I.model[ids[j]]; ok && !sameTags(old, tags[j]) {
			r.rep.Violate(vevid.Violation{Clause: "series-identity", Scenario: "write", Site: "MetricIndexDatabase.GenSeriesID",
				Detail: fmt.Sprintf("%s: series id %d was given to two different tag sets %v and %v", I.desc(), ids[j], old, tags[j]),
				Replay: I.caseOf("", nil, "")})
		}
		I.model[ids[j]] = tags[j]
		for k := range tags[j] {
			I.schema[k] = true
		}
	}
	// distinct tag sets must be distinct series, equal tag sets the same series
	for a := 0; a < len(I.series); a++ {
		for b := a + 1; b < len(I.series); b++ {
			if !I.written[a] || !I.written[b] {
				continue
			}
			if (I.series[a] == I.series[b]) != (I.ids[a] == I.ids[b]) {
				r.rep.Violate(vevid.Violation{Clause: "series-identity", Scenario: "write", Site: "MetricIndexDatabase.GenSeriesID",
					Detail: fmt.Sprintf("%s: elements %d and %d got series ids %d and %d", I.desc(), a, b, I.ids[a], I.ids[b]),
					Replay: I.caseOf("", nil, "")})
			}
		}
	}
}

func sameTags(a, b map[string]string) bool {
	if len(a) != len(b) {
		return false
	}
	for k, v := range a {
		if b[k] != v {
			return false
		}
	}
	return true
}

func (I *inst) allWritten() bool {
	for _, w := range I.written {
		if !w {
			return false
		}
	}
	return true
}

// maskOf maps a set of series ids to the bit mask of multiset elements (+ the ids that are no written element).
func (I *inst) maskOf(ids []uint32) (uint32, []uint32) {
	var mask uint32
	var extra []uint32
	for _, id := range ids {
		hit := false
		for i := range I.series {
			if I.written[i] && I.ids[i] == id {
				mask |= 1 << uint(i)
				hit = true
			}
		}
		if !hit {
			extra = append(extra, id)
		}
	}
	return mask, extra
}

func isTagKeyNotFound(err error) bool { return errors.Is(err, constants.ErrTagKeyIDNotFound) }

// evalInstance evaluates every condition (and the group-by sets on every distinct selected set) on one instance in its current state.
func (r *runner) evalInstance(e *dbEnv, I *inst, round string) {
	state := stateLabel(round, I.class)
	dclass := I.dataClass()
	evals0 := r.rep.Evaluations
	defer func() { r.rep.Count("evaluations_in_state_"+state, r.rep.Evaluations-evals0) }()
	full := I.allWritten()
	nWritten := 0
	for _, w := range I.written {
		if w {
			nWritten++
		}
	}
	type selInfo struct {
		cond *cond
		ids  []uint32
	}
	distinctSel := map[uint32]*selInfo{}
	var selOrder []uint32

	// the conditions are evaluated in an order that is rotated per (instance, round): the answers do not depend on the
	// order, but what a lookup leaves behind in lindb's caches does (which filter kind is the first one to touch a tag
	// key's dictionary after a flush)
	rot := 0
	for _, ch := range I.metric + round {
		rot = rot*31 + int(ch)
	}
	if rot < 0 {
		rot = -rot
	}
	for k := range r.conds {
		ci := (k + rot) % len(r.conds)
		c := r.conds[ci]
		if r.onlyCond >= 0 && ci != r.onlyCond {
			continue
		}
		scen := "index=" + indexClass(state) + " kind=" + c.kind + " data=" + dclass
		missingKey := false
		for k := range c.info.keys {
			if !I.schema[k] {
				missingKey = true
			}
		}
		if I.fill > 0 && I.fillKey != "" && c.info.keys[I.fillKey] {
			continue // the filler series carry this key: conditions on it are not evaluated (the fillers are not part of the model)
		}
		if missingKey && c.info.atoms > 1 && r.onlyCond < 0 {
			continue // rejected queries (unknown tag key) are only exercised with single-atom conditions
		}
		// ---- model
		var want []uint32
		wantSet := map[uint32]bool{}
		lacks := false
		for i := range I.series {
			if !I.written[i] {
				continue
			}
			tags := I.model[I.ids[i]]
			for k := range c.info.keys {
				if _, ok := tags[k]; !ok {
					lacks = true
				}
			}
			if evalExpr(c.query.Condition, tags) && !wantSet[I.ids[i]] {
				wantSet[I.ids[i]] = true
				want = append(want, I.ids[i])
			}
		}
		sort.Slice(want, func(a, b int) bool { return want[a] < want[b] })
		// ---- real operators
		r.rep.Evaluations++
		var got []uint32
		var ferr error
		var site string
		func() {
			defer func() {
				if p := recover(); p != nil {
					ferr = fmt.Errorf("PANIC: %v", p)
					site = "panic"
					r.rep.Violate(vevid.Violation{Clause: "panic", Scenario: scen, Site: panicSite(),
						Detail: fmt.Sprintf("where %s on %s in state %s: panic: %v", c.Text, I.desc(), state, p),
						Replay: I.caseOf(c.Text, nil, state)})
				}
			}()
			_, shctx, s, err := e.filter(e.mkQuery(c.query, I.metric, nil))
			if err != nil {
				ferr, site = err, s
				return
			}
			got = shctx.SeriesIDsAfterFiltering.ToArray()
		}()
		if (len(wantSet) > 0 && len(wantSet) < len(I.model)) || (c.info.hasNot && lacks) {
			r.rep.DistinctNontrivial++
		}
		sig := ""
		switch {
		case site == "panic":
			sig = "panic"
			r.rep.Outcome(fmt.Sprintf("filter/%s/%s/panic", state, c.kind))
		case ferr != nil:
			sig = "error:" + site
			if missingKey && isTagKeyNotFound(ferr) {
				// the condition names a tag key the metric does not have: the query is rejected (like an unknown column);
				// outside the statement's domain, only required to be the same in every index state (differential).
				r.rep.Outcome(fmt.Sprintf("filter/%s/%s/rejected-unknown-tag-key", state, c.kind))
				r.rep.Count("rejected_unknown_tag_key", 1)
			} else {
				r.rep.Outcome(fmt.Sprintf("filter/%s/%s/error", state, c.kind))
				r.rep.Violate(vevid.Violation{Clause: "filter", Scenario: scen, Site: site,
					Detail: fmt.Sprintf("where %s on %s in state %s: operator error %v; brute force selects series %v", c.Text, I.desc(), state, ferr, want),
					Replay: I.caseOf(c.Text, nil, state)})
			}
		default:
			mask, extra := I.maskOf(got)
			sig = "sel:" + strconv.FormatUint(uint64(mask), 2) + " extra:" + strconv.Itoa(len(extra))
			ok := len(got) == len(want)
			if ok {
				for i := range got {
					if got[i] != want[i] {
						ok = false
					}
				}
			}
			r.outcome(okey{state, c.kind, nWritten, len(got), ok})
			if !ok {
				r.rep.Violate(vevid.Violation{Clause: "filter", Scenario: scen, Site: "operator.SeriesFiltering",
					Detail: fmt.Sprintf("where %s on %s in state %s: index selects series ids %v, brute force over the written series selects %v (written: %s)",
						c.Text, I.desc(), state, got, want, I.modelDesc()),
					Replay: I.caseOf(c.Text, nil, state)})
			}
			if len(got) > 0 && len(extra) == 0 {
				if _, ok := distinctSel[mask]; !ok {
					distinctSel[mask] = &selInfo{cond: c, ids: got}
					selOrder = append(selOrder, mask)
				}
			}
		}
		// ---- differential across index states (full data only)
		if full {
			k := diffKey{I.ms, ci}
			if prev, ok := r.diff[k]; !ok {
				r.diff[k] = sig
				r.diffAt[k] = state + " " + I.desc()
			} else if prev != sig {
				r.rep.Violate(vevid.Violation{Clause: "differential", Scenario: scen, Site: "operator.SeriesFiltering",
					Detail: fmt.Sprintf("where %s: same series, different answers: %q in state %s, %q in state %s (elements are numbered by position in the multiset)",
						c.Text, prev, r.diffAt[k], sig, state+" "+I.desc()),
					Replay: I.caseOf(c.Text, nil, state)})
			}
		}
	}

	// ---- group by: every distinct selected set x every set of grouping keys
	var present []string
	for _, k := range tagKeys {
		if I.schema[k] {
			present = append(present, k)
		}
	}
	for _, mask := range selOrder {
		si := distinctSel[mask]
		for _, g := range groupBySets(present) {
			if r.onlyGroupBy != nil && strings.Join(r.onlyGroupBy, ",") != strings.Join(g, ",") {
				continue
			}
			r.evalGroupBy(e, I, si.cond, si.ids, mask, g, state, full)
		}
	}
}

func (I *inst) modelDesc() string {
	var ids []uint32
	for id := range I.model {
		ids = append(ids, id)
	}
	sort.Slice(ids, func(a, b int) bool { return ids[a] < ids[b] })
	var p []string
	for _, id := range ids {
		var kv []string
		for _, k := range sortedKeysOf(I.model[id]) {
			kv = append(kv, k+"="+I.model[id][k])
		}
		p = append(p, fmt.Sprintf("%d:{%s}", id, strings.Join(kv, ",")))
	}
	return strings.Join(p, " ")
}

func sortedKeysOf(m map[string]string) []string {
	var out []string
	for k := range m {
		out = append(out, k)
	}
	sort.Strings(out)
	return out
}

func (r *runner) evalGroupBy(e *dbEnv, I *inst, c *cond, sel []uint32, mask uint32, g []string, state string, full bool) {
	scen := fmt.Sprintf("index=%s groupby=%d data=%s", indexClass(state), len(g), I.dataClass())
	gs := strings.Join(g, ",")
	// model: selected series that have every grouping key must be returned with exactly their values
	must := map[uint32][]string{}
	for _, id := range sel {
		tags := I.model[id]
		vals := make([]string, len(g))
		ok := true
		for k, key := range g {
			v, has := tags[key]
			if !has {
				ok = false
			}
			vals[k] = v
		}
		if ok {
			must[id] = vals
		}
	}
	r.rep.Evaluations++
	r.rep.DistinctNontrivial++
	r.rep.Count("groupby_evaluations", 1)
	var res *groupResult
	var gerr error
	var site string
	func() {
		defer func() {
			if p := recover(); p != nil {
				gerr = fmt.Errorf("PANIC: %v", p)
				site = "panic"
				r.rep.Violate(vevid.Violation{Clause: "panic", Scenario: scen, Site: panicSite(),
					Detail: fmt.Sprintf("where %s group by %s on %s in state %s: panic: %v", c.Text, gs, I.desc(), state, p),
					Replay: I.caseOf(c.Text, g, state)})
			}
		}()
		sctx, shctx, s, err := e.filter(e.mkQuery(c.query, I.metric, g))
		if err != nil {
			gerr, site = err, s
			return
		}
		res, site, gerr = e.groupBy(sctx, shctx)
	}()
	sig := ""
	switch {
	case site == "panic":
		sig = "panic"
	case gerr != nil:
		sig = "error:" + site
		if len(must) == 0 && errors.Is(gerr, constants.ErrNotFound) {
			// no selected series has all grouping keys: the code reports "not found"
			r.rep.Outcome(fmt.Sprintf("groupby/%s/|g|=%d/not-found", state, len(g)))
		} else {
			r.rep.Violate(vevid.Violation{Clause: "group-by", Scenario: scen, Site: site,
				Detail: fmt.Sprintf("where %s group by %s on %s in state %s: error %v; expected groups %v", c.Text, gs, I.desc(), state, gerr, must),
				Replay: I.caseOf(c.Text, g, state)})
		}
	default:
		var ids []uint32
		for id := range res.perSeries {
			ids = append(ids, id)
		}
		sort.Slice(ids, func(a, b int) bool { return ids[a] < ids[b] })
		var parts []string
		extra := 0
		for _, id := range ids {
			m, _ := I.maskOf([]uint32{id})
			parts = append(parts, fmt.Sprintf("%b=%s", m, strings.Join(res.perSeries[id], "|")))
			if _, ok := must[id]; !ok {
				extra++
			}
		}
		sort.Strings(parts)
		sig = strings.Join(parts, ";")
		bad := ""
		for id, vals := range must {
			got, ok := res.perSeries[id]
			if !ok {
				bad = fmt.Sprintf("selected series %d %v is in no group", id, I.model[id])
				break
			}
			if strings.Join(got, "\x00") != strings.Join(vals, "\x00") {
				bad = fmt.Sprintf("series %d %v is grouped under values %q, its values are %q", id, I.model[id], got, vals)
				break
			}
		}
		if bad == "" && extra == 0 && !res.notFound {
			// ScanTagValueIDs: per grouping key exactly the values of the returned series
			for k := range g {
				wantVals := map[string]bool{}
				for _, vals := range must {
					wantVals[vals[k]] = true
				}
				gotVals := res.scan[k]
				if len(gotVals) != len(wantVals) {
					bad = fmt.Sprintf("ScanTagValueIDs for key %s returns values %v, the selected series have %v", g[k], keysOf(gotVals), keysOf(wantVals))
				}
				for v := range wantVals {
					if !gotVals[v] {
						bad = fmt.Sprintf("ScanTagValueIDs for key %s returns values %v, the selected series have %v", g[k], keysOf(gotVals), keysOf(wantVals))
					}
				}
			}
		}
		r.rep.Outcome(fmt.Sprintf("groupby/%s/|g|=%d/sel=%d/ret=%d/extra=%d/ok=%v", state, len(g), len(sel), len(res.perSeries), extra, bad == ""))
		if bad != "" {
			r.rep.Violate(vevid.Violation{Clause: "group-by", Scenario: scen, Site: "operator.GroupingContextBuild",
				Detail: fmt.Sprintf("where %s group by %s on %s in state %s (selected series %v): %s; returned %v (written: %s)",
					c.Text, gs, I.desc(), state, sel, bad, res.perSeries, I.modelDesc()),
				Replay: I.caseOf(c.Text, g, state)})
		}
	}
	if full {
		k := gdiffKey{I.ms, mask, gs}
		if prev, ok := r.gdiff[k]; !ok {
			r.gdiff[k] = sig
			r.gdiffAt[k] = state + " " + I.desc()
		} else if prev != sig {
			r.rep.Violate(vevid.Violation{Clause: "differential", Scenario: scen, Site: "operator.GroupingContextBuild",
				Detail: fmt.Sprintf("group by %s of the selected elements %b: same series, different answers: %q in state %s, %q in state %s",
					gs, mask, prev, r.gdiffAt[k], sig, state+" "+I.desc()),
				Replay: I.caseOf(c.Text, g, state)})
		}
	}
}

func keysOf(m map[string]bool) []string {
	var out []string
	for k := range m {
		out = append(out, k)
	}
	sort.Strings(out)
	return out
}

// panicSite: first lindb frame (not the harness) of the current panic's stack.
func panicSite() string {
	for _, ln := range strings.Split(string(debug.Stack()), "\n") {
		ln = strings.TrimSpace(ln)
		if strings.HasPrefix(ln, "github.com/lindb/lindb/") && !strings.Contains(ln, "/verif_h/") && !strings.Contains(ln, "/internal/v") {
			if i := strings.LastIndex(ln, "("); i > 0 {
				ln = ln[:i]
			}
			return strings.TrimPrefix(ln, "github.com/lindb/lindb/")
		}
	}
	return "unknown"
}

// runBatch walks one fresh database through the index states with all instances of the batch as separate metrics.
func (r *runner) runBatch(insts []*inst) {
	e := r.w.newDB()
	for i, I := range insts {
		I.metric = fmt.Sprintf("m%d", i)
		I.ids = make([]uint32, len(I.series))
		I.written = make([]bool, len(I.series))
		I.model = map[uint32]map[string]string{}
		I.schema = map[string]bool{}
		I.class = classOf(I.phase)
	}
	round := func(name string, want func(I *inst) bool) {
		for _, I := range insts {
			if r.capped {
				return
			}
			if !want(I) {
				continue
			}
			if r.f.Expired() {
				r.capped = true
				r.rep.Cap("deadline in round " + name)
				return
			}
			r.evalInstance(e, I, name)
		}
	}
	allBefore := func(I *inst) bool { return I.class == "all-before" }
	notAllBefore := func(I *inst) bool { return I.class != "all-before" }
	all := func(I *inst) bool { return true }

	for _, I := range insts {
		r.writePhase(e, I, 1)
	}
	round("r1", allBefore) // memory only
	e.prepareFlush()
	round("r2", allBefore) // immutable (being flushed)
	for _, I := range insts {
		r.writePhase(e, I, 2)
	}
	round("r3", notAllBefore) // immutable + new series in memory
	// a flush that fails at its k-th table file (k rotates over the databases of the run) and is repeated: whatever was
	// being flushed stays selectable in between and afterwards
	r.dbNo++
	if inj, err := e.flushFailing((r.f.Shard*5+r.dbNo)%9 + 1); inj {
		if err == nil {
			r.rep.Count("failed_flush_reported_success", 1)
		}
		r.rep.Count("flushes_failed_by_injection", 1)
		round("failed-flush", all)
	}
	e.flush()
	round("r4", all) // flushed (+ new series in memory)
	e.flush()
	round("r5", notAllBefore) // two flushed files
	merged, detail := e.compactAll()
	r.rep.Count("families_compacted", int64(merged))
	if merged < 6 {
		r.rep.Extra["compaction_detail"] = detail
	}
	r.rep.Extra["max_families_compacted_per_db"] = maxInt(r.rep.Extra["max_families_compacted_per_db"], merged)
	round("r6", all) // compacted (meta database still reads its old snapshot)
	e.refresh()
	round("r7", all) // compacted, meta database re-read
	r.rep.Count("databases", 1)
}

func maxInt(cur interface{}, v int) int {
	if c, ok := cur.(int); ok && c > v {
		return c
	}
	return v
}

func main() {
	f := vevid.ParseFlags()
	prop := "C10"
	if p := os.Getenv("VERIF_PROP"); p != "" { // part idxflushrace of C11 is this harness' part flushrace
		prop = p
	}
	rep := vevid.New(prop)
	if pf := os.Getenv("C10_CPUPROFILE"); pf != "" {
		fh, _ := os.Create(pf)
		_ = pprof.StartCPUProfile(fh)
		defer pprof.StopCPUProfile()
	}
	debug.SetGCPercent(400)

	thorough := f.Thorough()
	logger.RunningAtomicLevel.SetLevel(zapcore.FatalLevel)
	if f.Part == "flushrace" || f.Part == "idxflushrace" {
		runFlushRace(f, rep)
		return
	}
	condTexts := buildConditions(lvlBase)
	r := &runner{rep: rep, f: f, onlyCond: -1, okeys: map[okey]struct{}{},
		diff: map[diffKey]string{}, diffAt: map[diffKey]string{}, gdiff: map[gdiffKey]string{}, gdiffAt: map[gdiffKey]string{}}

	if f.Replay != "" {
		var c caseT
		vevid.LoadReplay(f.Replay, &c)
		r.w = openWorld(f, rep)
		if c.Cond != "" {
			r.conds = []*cond{newCond(c.Cond)}
			r.onlyCond = 0
		} else {
			for _, t := range condTexts {
				r.conds = append(r.conds, newCond(t))
			}
		}
		r.onlyGroupBy = c.GroupBy
		for i := 0; i < 5; i++ {
			r.diff, r.diffAt = map[diffKey]string{}, map[diffKey]string{}
			r.gdiff, r.gdiffAt = map[gdiffKey]string{}, map[gdiffKey]string{}
			// the failing placement next to the all-in-memory placement of the same series (differential reference)
			ref := &inst{ms: 0, pool: c.Pool, series: c.Series, phase: make([]int, len(c.Series)), fill: c.Fill, fillKey: c.FillKey}
			for j := range ref.phase {
				ref.phase[j] = 1
			}
			r.runBatch([]*inst{ref, {ms: 0, pool: c.Pool, series: c.Series, phase: c.Phase, fill: c.Fill, fillKey: c.FillKey}})
		}
		r.w.close()
		rep.Write()
		return
	}

	checkParser()
	condSets := make([][]*cond, 3)
	byText := map[string]*cond{}
	for lvl := lvlAtoms; lvl <= lvlFull; lvl++ {
		if lvl == lvlFull && !thorough {
			continue
		}
		for _, t := range buildConditions(lvl) {
			c, ok := byText[t]
			if !ok {
				c = newCond(t)
				byText[t] = c
			}
			condSets[lvl] = append(condSets[lvl], c)
		}
	}
	r.conds = condSets[lvlBase]
	if thorough {
		r.conds = condSets[lvlFull]
	}
	maxDepth, maxAtoms := 0, 0
	kinds := map[string]int{}
	for _, c := range r.conds {
		if c.info.depth > maxDepth {
			maxDepth = c.info.depth
		}
		if c.info.atoms > maxAtoms {
			maxAtoms = c.info.atoms
		}
		kinds[c.kind]++
	}

	// ---- enumeration plan
	type plan struct {
		pool    string
		series  []seriesT
		lo, hi  int
		fills   []int
		lvl     int // condition set
		fillKey string
	}
	var plans []plan
	if thorough {
		plans = []plan{
			{"sharp", sharpPool, 1, 2, []int{0}, lvlFull, ""},
			{"sharp", sharpPool, 3, 3, []int{0}, lvlBase, ""},
			{"product", productPool(), 1, 2, []int{0}, lvlBase, ""},
			{"sharp10", sharpPool[:10], 4, 4, []int{0}, lvlAtoms, ""},
			{"boundary", boundaryPool, 3, 3, []int{65535, 65534}, lvlBase, ""},
			{"boundary", boundaryPool, 4, 4, []int{65534}, lvlBase, ""},
			{"container3", boundaryPool, 3, 3, []int{131071}, lvlAtoms, "zone"},
		}
	} else {
		plans = []plan{
			{"sharp", sharpPool, 1, 2, []int{0}, lvlBase, ""},
			{"sharp12", sharp12(), 3, 3, []int{0}, lvlAtoms, ""},
			{"boundary", smallBoundaryPool, 2, 2, []int{65535}, lvlAtoms, ""},
			{"container3", smallBoundaryPool, 2, 2, []int{131071}, lvlAtoms, "zone"},
		}
	}
	if len(f.Args) > 0 && f.Args[0] == "tiny" { // debugging aid: ./h -tier quick tiny
		plans = []plan{{"sharp", sharpPool, 1, 2, []int{0}, lvlBase, ""}}
	}
	if len(f.Args) > 0 && f.Args[0] == "tinyc" {
		plans = []plan{{"boundary", boundaryPool, 3, 3, []int{131071}, lvlAtoms, "zone"}}
	}
	if len(f.Args) > 0 && f.Args[0] == "tinyb" {
		plans = []plan{{"boundary", boundaryPool, 3, 3, []int{65535}, lvlBase, ""}}
	}

	rep.Rule = "one evaluation = (multiset of series of one metric, placement of every series before/after the first index flush, index state, " +
		"condition) run through the real operators and compared with brute force over the written series, plus (distinct selected set, grouping key set) " +
		"evaluations of group-by; every triple is distinct by construction; a filter evaluation is non-trivial when brute force selects a non-empty proper " +
		"subset of the written series or the condition contains a negation and some written series lacks a referenced key; every group-by evaluation has a non-empty selected set"
	rep.Bounds["tag_keys"] = tagKeys
	rep.Bounds["conditions"] = len(r.conds)
	rep.Bounds["condition_sets"] = map[string]int{"atoms+depth1": len(condSets[lvlAtoms]), "base(depth2)": len(condSets[lvlBase]), "full(depth2)": len(condSets[lvlFull])}
	rep.Bounds["condition_max_depth"] = maxDepth
	rep.Bounds["condition_max_atoms"] = maxAtoms
	rep.Bounds["condition_kinds"] = kinds
	rep.Bounds["atoms_per_key"] = len(atomsFor("host", true))
	var pd []string
	for _, p := range plans {
		cs := fmt.Sprintf("%s condition set (%d)", []string{"atoms+depth1", "base(depth2)", "full(depth2)"}[p.lvl], len(condSets[p.lvl]))
		pd = append(pd, fmt.Sprintf("%s: %d series, multisets of size %d..%d, fillers %v, %s", p.pool, len(p.series), p.lo, p.hi, p.fills, cs))
	}
	rep.Bounds["plans"] = pd
	rep.Bounds["sharp_pool"] = fmt.Sprint(sharpPool)
	rep.Bounds["index_states"] = []string{"memory", "immutable", "immutable+memory", "memory(others-immutable)", "flushed", "flushed+memory",
		"memory(others-flushed)", "two-files", "flushed(second-file)", "compacted", "compacted+reread"}

	r.w = openWorld(f, rep)
	var msIdx int64
	var batch []*inst
	batchCost := 0
	flushBatch := func() {
		if len(batch) > 0 && !r.capped {
			r.runBatch(batch)
		}
		batch, batchCost = nil, 0
		r.diff, r.diffAt = map[diffKey]string{}, map[diffKey]string{}
		r.gdiff, r.gdiffAt = map[gdiffKey]string{}, map[gdiffKey]string{}
	}
	for _, p := range plans {
		r.conds = condSets[p.lvl]
		for _, ms := range multisets(len(p.series), p.lo, p.hi) {
			for _, fill := range p.fills {
				msIdx++
				rep.Count("multisets_total", 1)
				if !f.Mine(msIdx) {
					continue
				}
				rep.Count("multisets", 1)
				ser := make([]seriesT, len(ms))
				for i, x := range ms {
					ser[i] = p.series[x]
				}
				for _, ph := range placements(ms) {
					batch = append(batch, &inst{ms: int(msIdx), pool: p.pool, series: ser, phase: ph, fill: fill, fillKey: p.fillKey})
					rep.Count("instances", 1)
					if fill > 0 {
						batchCost += 40 * (1 + fill/66000)
					} else {
						batchCost++
					}
				}
				if len(batch) < 6 {
					rep.Sample(batch[len(batch)-1].caseOf("(all "+fmt.Sprint(len(r.conds))+" conditions)", nil, "(all states)"))
				}
				if batchCost >= 600 {
					flushBatch()
				}
			}
		}
		flushBatch()
	}
	r.w.close()
	rep.Write()
}

// checkParser: the shapes the harness relies on are what sql.Parse produces.
func checkParser() {
	qq, err := parseCond("host='a' and 'é' not like 'a*'", []string{"host", "é"})
	if err != nil {
		vevid.Fatal("sql.Parse: %v", err)
	}
	if len(qq.GroupBy) != 2 || qq.GroupBy[0] != "host" || qq.GroupBy[1] != "é" {
		vevid.Fatal("sql.Parse group by = %q", qq.GroupBy)
	}
	c := newCond("host='a' and 'é' not like 'a*'")
	if !c.info.keys["host"] || !c.info.keys["é"] || !c.info.hasNot || c.info.atoms != 2 {
		vevid.Fatal("unexpected parse of the probe condition: %+v", c.info)
	}
}
