// C08 harness: explicit-state search over leader appends, replication steps, transport / node faults and
// leader-side garbage collection on two REAL write-ahead-log managers (leader node 1, follower node 2)
// connected by a loop-back transport that runs the real follower-side rpc handler. Every transition calls
// the real code (replica.partition.replica, remoteReplicator.IsReady/Connect/Replica, ReplicaHandler,
// partition.ReplicaLog, pkg/queue); the oracle is the statement of C08.
package main

import (
	"fmt"
	"os"
	"path/filepath"
	"runtime/debug"
	"strings"
	"time"

	"github.com/lindb/lindb/internal/vbox"
	"github.com/lindb/lindb/internal/vevid"
	"github.com/lindb/lindb/internal/vxstate"
	"github.com/lindb/lindb/models"
	"github.com/lindb/lindb/pkg/option"
	"github.com/lindb/lindb/pkg/queue"
	"github.com/lindb/lindb/pkg/timeutil"
)

type bcfg struct {
	Name       string   `json:"name"`
	Word       string   `json:"word"`        // size class of the n-th append: x = 6 bytes, y = 40 bytes (data page = 64 bytes)
	Budget     int      `json:"budget"`      // faults per path
	StepFaults []string `json:"step_faults"` // faults injected into a replication step
	Faults     []string `json:"faults"`      // fault events
	Snaps      int      `json:"snaps"`       // older leader copies kept for L.loseTail
	K          int      `json:"k"`           // recovery bound (fault-free steps)
	Local      bool     `json:"local"`       // the leader also has its local replicator (a second consumer group whose ack advances by event L.local)
	// Expire: the log belongs to a data family that expired long ago; after the last append the leader's periodic clean-up
	// decision (partition.IsExpire, event L.expire, terminal) may run at any moment: it may only answer "delete the log"
	// or stop the follower's replicator when the follower holds everything
	Expire bool `json:"expire,omitempty"`
}

var (
	menuTransport = []string{"send", "recv", "hs", "reset", "ferr"}
	menuA         = []string{"streamBreak", "F.restart", "F.loseLog"}
	menuB         = []string{"F.offline", "L.loseTail"}
)

func words(n int) []string {
	if n == 0 {
		return []string{""}
	}
	var out []string
	for _, p := range words(n - 1) {
		out = append(out, p+"x", p+"y")
	}
	return out
}

func hasFault(fs []string, prefix string) bool {
	for _, f := range fs {
		if strings.HasPrefix(f, prefix) {
			return true
		}
	}
	return false
}

func configs(thorough bool) []bcfg {
	var out []bcfg
	mk := func(word string, budget int, tag string, stepFaults, faults []string) {
		c := bcfg{Name: fmt.Sprintf("%s/b%d/%s", word, budget, tag), Word: word, Budget: budget, StepFaults: stepFaults, Faults: faults, K: len(word) + 4}
		if hasFault(faults, "L.loseTail") {
			c.Snaps = 1
			if hasFault(faults, "L.loseTail2") {
				c.Snaps = 2
			}
		}
		out = append(out, c)
	}
	if thorough {
		// two faults per path: the whole menu in one search per word (pairs across fault kinds)
		all := append(append([]string{}, menuA...), menuB...)
		all = append(all, "L.loseTail2")
		for _, w := range words(4) {
			mk(w, 2, "all", menuTransport, all)
		}
		for _, w := range words(3) {
			out = append(out, bcfg{Name: fmt.Sprintf("%s/b2/expire", w), Word: w, Budget: 2, StepFaults: []string{"send", "recv", "ferr"}, Faults: []string{"streamBreak", "F.offline"}, K: len(w) + 4, Expire: true})
		}
		return out
	}
	// one fault per path: the menu is split into two disjoint halves per word (every path uses at most one
	// fault, so the union of the two searches is the search with the whole menu)
	for _, w := range words(3) {
		mk(w, 1, "transport+follower", menuTransport, menuA)
		mk(w, 1, "offline+leader", nil, menuB)
	}
	// two faults per path on the shorter words: pairs of a transport fault and a follower fault (e.g. a lost
	// round trip followed by a follower that lost its log) need a budget of 2
	for _, w := range words(2) {
		mk(w, 2, "transport+follower", menuTransport, menuA)
	}
	// the clean-up decision of an expired family, at every moment after the last append, with transport faults
	for _, w := range words(2) {
		c := bcfg{Name: fmt.Sprintf("%s/b1/expire", w), Word: w, Budget: 1, StepFaults: []string{"send", "recv", "ferr"}, Faults: []string{"streamBreak", "F.offline"}, K: len(w) + 4, Expire: true}
		out = append(out, c)
	}
	// (a configuration with the leader's local replicator as second consumer group - bcfg.Local - is not
	// registered: the local replicator keeps its sequence in the shared real data family, which survives the
	// per-replay fresh WAL directories and makes replays diverge; the clause "log GC is held back by the
	// slowest group" is checked on the queue itself by C06)
	return out
}

func main() {
	f := vevid.ParseFlags()
	prop := "C08"
	if p := os.Getenv("VERIF_PROP"); p != "" {
		prop = p
	}
	rep := vevid.New(prop)
	gRep = rep
	debug.SetPanicOnFault(true)
	dp, ii, _, _ := queue.VerifConstants()
	if dp != 64 || ii != 2 {
		vevid.Fatal("page geometry not scaled: dataPageSize=%d indexItemsPerPage=%d (want 64 / 2)", dp, ii)
	}
	rep.Bounds["dataPageSize"] = dp
	rep.Bounds["indexItemsPerPage"] = ii

	// ONE real engine for the process: the partitions of both nodes are built over its shard / family
	opt := &option.DatabaseOption{Intervals: option.Intervals{{Interval: timeutil.Interval(10_000), Retention: timeutil.Interval(3000 * 24 * 3600 * 1000)}}, AutoCreateNS: true}
	box, err := vbox.Open(filepath.Join(f.Scratch, "eng"), dbName, opt, []models.ShardID{shardID})
	if err != nil {
		vevid.OpFailed("open engine: %v", err)
	}
	defer box.Close()
	eng = box.Engine
	shard, ok := eng.GetShard(dbName, shardID)
	if !ok {
		vevid.OpFailed("shard not found")
	}
	familyTime = shard.CurrentInterval().Calculator().CalcFamilyTime(time.Now().UnixMilli())
	familyTimeOld = shard.CurrentInterval().Calculator().CalcFamilyTime(time.Now().UnixMilli() - 30*24*3600*1000)
	installPartitionWrapper()
	worldRoot = filepath.Join(f.Scratch, "worlds")
	_ = os.MkdirAll(worldRoot, 0o755)
	defer os.RemoveAll(worldRoot)

	if f.Part == "wake" {
		runWake(f, rep)
		return
	}
	all := append(configs(false), configs(true)...)
	if f.Replay != "" {
		var r replay
		vevid.LoadReplay(f.Replay, &r)
		var cfg *bcfg
		for i := range all {
			if all[i].Name == r.Config {
				cfg = &all[i]
			}
		}
		if cfg == nil {
			vevid.Fatal("replay: unknown config %q", r.Config)
		}
		fails := 0
		for i := 0; i < 5; i++ {
			before := rep.ViolationCount
			w, err := newWorld(cfg)
			if err != nil {
				vevid.OpFailed("new world: %v", err)
			}
			gNoRecov = true
			prev := w.Canon()
			for n, ev := range r.History {
				if err := w.Apply(ev); err != nil {
					vevid.Fatal("replay: %v", err)
				}
				if n == len(r.History)-1 {
					gNoRecov = false
					gSeen = map[string]struct{}{}
				}
				w.Invariant(prev, ev)
				prev = w.Canon()
			}
			w.Close()
			if rep.ViolationCount > before {
				fails++
			}
			rep.Evaluations++
		}
		rep.Extra["replay_failures_of_5"] = fails
		rep.Write()
		return
	}

	cfgs := configs(f.Thorough())
	if os.Getenv("C08_ONLY") == "expire" { // part "expire" of C06: only the configurations with an expired family
		var sel []bcfg
		for _, c := range cfgs {
			if c.Expire {
				sel = append(sel, c)
			}
		}
		cfgs = sel
	}
	if only := os.Getenv("C08_CONFIGS"); only != "" { // debugging: comma separated config names
		var sel []bcfg
		for _, n := range strings.Split(only, ",") {
			for _, c := range all {
				if c.Name == n {
					sel = append(sel, c)
				}
			}
		}
		cfgs = sel
	}
	if drop := os.Getenv("C08_DROP_FAULTS"); drop != "" { // debugging / mutation runs: remove fault kinds from every menu
		for i := range cfgs {
			cfgs[i].Faults = without(cfgs[i].Faults, drop)
			cfgs[i].StepFaults = without(cfgs[i].StepFaults, drop)
			if !hasFault(cfgs[i].Faults, "L.loseTail") {
				cfgs[i].Snaps = 0
			}
		}
	}
	rep.Rule = "one breadth-first search to fixpoint per configuration (append word over {x=6 bytes, y=40 bytes} x fault budget x fault menu); events: L.append (payload = function of size class, epoch, position), step (one real partition.replica on the leader's remote replicator), step!send / step!recv / step!hs / step!reset / step!ferr (the step's Send fails / its answer is lost after the follower handled it / the handshake's GetReplicaAckIndex fails / the follower applied Reset but the answer is lost / the follower's log append fails once: ReplicaLog answers (-1, err)), streamBreak, F.restart, F.loseLog, F.offline, F.online, L.loseTail (leader directory replaced by the copy taken before the last append, later appends carry a new epoch), L.gc (partition.IsExpire: sync acks + queue GC); a successor = two fresh WAL managers + replay of the shortest history + one event; states deduplicated by the canonical state (world.go Canon); state clauses on every transition, recovery goal (F.online + <=K fault-free steps must align both logs, first delivered index = first position the follower lacks and the leader holds) once per canonical state. distinct_nontrivial = canonical states with >=1 leader message and an existing follower log"
	var names []string
	for _, c := range cfgs {
		names = append(names, c.Name)
	}
	rep.Bounds["configurations"] = names
	rep.Bounds["max_appends"] = len(cfgs[0].Word)
	rep.Bounds["fault_budget_per_path"] = cfgs[0].Budget
	rep.Bounds["recovery_bound_K_steps"] = cfgs[0].K
	for i := range cfgs {
		if i%f.Shards != f.Shard {
			continue
		}
		cfg := &cfgs[i]
		gSeen = map[string]struct{}{}
		t0 := time.Now()
		se := &vxstate.Search{New: func() (vxstate.System, error) { return newWorld(cfg) }, Deadline: f.Deadline}
		if err := se.Run(); err != nil {
			vevid.Fatal("bfs %s: %v", cfg.Name, err)
		}
		rep.States += se.States
		rep.Transitions += se.Transitions
		rep.TracesValidated += se.Transitions
		rep.Evaluations += se.Transitions
		rep.Count("states["+cfg.Name+"]", se.States)
		rep.Count("transitions["+cfg.Name+"]", se.Transitions)
		rep.Count("depth["+cfg.Name+"]", int64(se.MaxDepthSeen))
		rep.Count("ms["+cfg.Name+"]", time.Since(t0).Milliseconds())
		rep.Count("replayed_handler_calls", se.Replays)
		if d, _ := rep.Extra["max_depth"].(int); se.MaxDepthSeen > d {
			rep.Extra["max_depth"] = se.MaxDepthSeen
		}
		if se.Fixpoint {
			rep.Count("configs_at_fixpoint", 1)
		}
		if se.Capped != "" {
			rep.Cap("bfs " + cfg.Name + ": " + se.Capped)
		}
		rep.Sample(map[string]interface{}{"config": cfg, "states": se.States, "transitions": se.Transitions, "depth": se.MaxDepthSeen,
			"fixpoint": se.Fixpoint, "states_per_depth": se.DepthCount})
	}
	rep.Write()
}

func without(fs []string, drop string) []string {
	var out []string
	for _, f := range fs {
		keep := true
		for _, d := range strings.Split(drop, ",") {
			if strings.HasPrefix(f, d) {
				keep = false
			}
		}
		if keep {
			out = append(out, f)
		}
	}
	return out
}
