package main

import (
	"context"
	"crypto/sha256"
	"encoding/hex"
	"errors"
	"fmt"
	"os"
	"path/filepath"
	"runtime"
	"sort"
	"strings"
	"time"

	"github.com/lindb/common/pkg/ltoml"

	storagerpc "github.com/lindb/lindb/app/storage/rpc"
	"github.com/lindb/lindb/config"
	"github.com/lindb/lindb/coordinator/storage"
	"github.com/lindb/lindb/models"
	"github.com/lindb/lindb/pkg/queue"
	"github.com/lindb/lindb/replica"
	"github.com/lindb/lindb/rpc"
	"github.com/lindb/lindb/tsdb"
)

const (
	dbName     = "db"
	shardID    = models.ShardID(1)
	leaderID   = models.NodeID(1)
	followerID = models.NodeID(2)
)

var (
	eng           tsdb.Engine // ONE real engine per process; both nodes' partitions use its shard / family
	familyTime    int64
	familyTimeOld int64 // a family that expired long ago (configurations with Expire)
	worldRoot     string
	worldSeq      int
)

// ---------------------------------------------------------------------------------------------
// decorators installed through replica.NewPartitionFn (all by embedding the real object)

// quietFamily: the follower-side local replicator registers an ack callback on the family and retains it;
// the one shared engine must not accumulate callbacks of thousands of discarded worlds (they are never
// fired: the harness never writes into or flushes the engine).
type quietFamily struct{ tsdb.DataFamily }

func (quietFamily) AckSequence(int32, func(int64)) {}
func (quietFamily) Retain()                        {}
func (quietFamily) Release()                       {}

// nbLog / nbGroup: ConsumerGroup.Consume parks on a condition variable until a message is appended. One
// replication step of the search must return: when nothing is consumable the step answers "no message"
// (what Consume answers when it is woken by pause/close) and the NEXT step event performs the consume.
// Equivalent for the property: between the two, the replicator's state and stream are untouched by any event.
type nbLog struct{ queue.FanOutQueue }

func (l nbLog) GetOrCreateConsumerGroup(name string) (queue.ConsumerGroup, error) {
	g, err := l.FanOutQueue.GetOrCreateConsumerGroup(name)
	if err != nil {
		return nil, err
	}
	return nbGroup{g}, nil
}

type nbGroup struct{ queue.ConsumerGroup }

func (g nbGroup) Consume() int64 {
	if g.ConsumerGroup.ConsumedSeq()+1 > g.ConsumerGroup.Queue().Queue().AppendedSeq() {
		return queue.SeqNoNewMessageAvailable
	}
	return g.ConsumerGroup.Consume()
}

// faultyPartition marks the partitions built by this harness. The follower's log append can be made to fail once
// (fault step!ferr): the failure is injected BELOW the partition, in the queue's Put, so that what the follower
// answers for a failed append is decided by the real partition.ReplicaLog.
type faultyPartition struct{ replica.Partition }

var stepping *world // the world whose replication step is running (faults are armed per step)

// putFailLog / putFailQueue: the follower's log whose Put fails once while the fault is armed.
type putFailLog struct{ nbLog }

func (l putFailLog) Queue() queue.Queue { return putFailQueue{l.nbLog.Queue()} }

type putFailQueue struct{ queue.Queue }

func (q putFailQueue) Put(msg []byte) error {
	if w := stepping; w != nil && w.armed == "ferr" {
		w.armed, w.fired = "", true
		return errors.New("injected: follower log append failed")
	}
	return q.Queue.Put(msg)
}

func inner(p replica.Partition) replica.Partition {
	if fp, ok := p.(faultyPartition); ok {
		return fp.Partition
	}
	return p
}

func installPartitionWrapper() {
	replica.NewPartitionFn = func(ctx context.Context, shard tsdb.Shard, family tsdb.DataFamily, cur models.NodeID,
		log queue.FanOutQueue, cliFct rpc.ClientStreamFactory, stateMgr storage.StateManager) replica.Partition {
		var l queue.FanOutQueue = nbLog{log}
		if cur == followerID {
			l = putFailLog{nbLog{log}}
		}
		return faultyPartition{replica.VerifNoLoop(replica.NewPartition(ctx, shard, quietFamily{family}, cur, l, cliFct, stateMgr))}
	}
}

// ---------------------------------------------------------------------------------------------

type image struct {
	files map[string][]byte
	hash  string
}

func takeImage(dir string) image {
	im := image{files: map[string][]byte{}}
	var names []string
	_ = filepath.Walk(dir, func(p string, fi os.FileInfo, err error) error {
		if err != nil || fi.IsDir() {
			return nil
		}
		rel, _ := filepath.Rel(dir, p)
		data, _ := os.ReadFile(p)
		im.files[rel] = data
		names = append(names, rel)
		return nil
	})
	sort.Strings(names)
	h := sha256.New()
	for _, n := range names {
		fmt.Fprintf(h, "%s:%d:", n, len(im.files[n]))
		h.Write(im.files[n])
	}
	im.hash = hex.EncodeToString(h.Sum(nil)[:8])
	return im
}

func (im image) restore(dir string) error {
	_ = os.RemoveAll(dir)
	for rel, data := range im.files {
		p := filepath.Join(dir, rel)
		if err := os.MkdirAll(filepath.Dir(p), 0o755); err != nil {
			return err
		}
		if err := os.WriteFile(p, data, 0o644); err != nil {
			return err
		}
	}
	return nil
}

type stepResult struct {
	found  bool
	panics int
	crash  string
}

type world struct {
	cfg        *bcfg
	dir        string
	ldir, fdir string

	// leader process
	lcancel context.CancelFunc
	lmgr    replica.WriteAheadLogManager
	lpart   replica.Partition
	lsm     *fakeSM
	lfct    *fakeFct

	// follower process
	fcancel context.CancelFunc
	fmgr    replica.WriteAheadLogManager
	fh      *storagerpc.ReplicaHandler

	streams []*stream

	online  bool
	budget  int
	appends int // appends performed so far (all epochs): index into cfg.Word
	epoch   int
	snaps   []image // leader directory images taken before the most recent appends (oldest first)

	parked   bool
	stepDone chan stepResult
	parkSig  chan struct{}
	armed    string
	fired    bool

	hist       []string
	faults     map[string]bool
	ev         string
	pre        *lite
	blind      bool // since the last L.loseTail the leader appended before its replicator was Ready once
	readySince bool // the replicator has been Ready since the leader process started
	deliveries []delivery
	resets     []int64
	stepPanics int
	crash      string
	canon      string
	spent      bool
	expireAns  *bool // answer of the terminal event L.expire
	closed     bool
}

func walCfg(dir string) config.WAL {
	return config.WAL{Dir: dir, PageSize: ltoml.Size(64), RemoveTaskInterval: ltoml.Duration(100000 * time.Hour)}
}

func newWorld(cfg *bcfg) (*world, error) {
	worldSeq++
	dir := filepath.Join(worldRoot, fmt.Sprintf("w%d", worldSeq))
	_ = os.RemoveAll(dir)
	w := &world{cfg: cfg, dir: dir, ldir: filepath.Join(dir, "L"), fdir: filepath.Join(dir, "F"),
		online: true, budget: cfg.Budget, parkSig: make(chan struct{}, 1), faults: map[string]bool{}}
	if err := w.startFollower(); err != nil {
		return nil, err
	}
	if err := w.startLeader(); err != nil {
		return nil, err
	}
	return w, nil
}

func (w *world) famTime() int64 {
	if w.cfg.Expire {
		return familyTimeOld
	}
	return familyTime
}

func (w *world) startLeader() error {
	ctx, cancel := context.WithCancel(context.Background())
	w.lcancel = cancel
	w.lsm = &fakeSM{w: w}
	w.lfct = &fakeFct{w: w}
	w.lmgr = replica.NewWriteAheadLogManager(ctx, walCfg(w.ldir), leaderID, eng, w.lfct, w.lsm)
	// what the storage runtime does at start
	if err := w.lmgr.Recovery(); err != nil {
		return fmt.Errorf("leader recovery: %v", err)
	}
	// what the write handler does for the first write of a family
	p, err := w.lmgr.GetOrCreateLog(dbName).GetOrCreatePartition(shardID, w.famTime(), leaderID)
	if err != nil {
		return fmt.Errorf("leader partition: %v", err)
	}
	// the local replicator (leader's own storage) is left out: it only holds garbage collection back
	replicas := []models.NodeID{followerID}
	if w.cfg.Local {
		replicas = []models.NodeID{leaderID, followerID}
	}
	if err := p.BuildReplicaForLeader(leaderID, replicas); err != nil {
		return fmt.Errorf("leader build replica: %v", err)
	}
	w.lpart = inner(p)
	return nil
}

func (w *world) startFollower() error {
	ctx, cancel := context.WithCancel(context.Background())
	w.fcancel = cancel
	w.fmgr = replica.NewWriteAheadLogManager(ctx, walCfg(w.fdir), followerID, eng, &fakeFct{w: w, dead: true}, &fakeSM{w: w, dead: true})
	if err := w.fmgr.Recovery(); err != nil {
		return fmt.Errorf("follower recovery: %v", err)
	}
	w.fh = storagerpc.NewReplicaHandler(w.fmgr)
	return nil
}

func (w *world) breakStreams() {
	for _, s := range w.streams {
		s.shut(true)
	}
	w.streams = nil
}

func (w *world) stopFollower() {
	w.breakStreams()
	w.fmgr.Stop()
	_ = w.fmgr.Close()
	w.fcancel()
}

// killLeader ends the leader process: a parked stepper is released into a dead world (every rpc fails).
func (w *world) killLeader() {
	w.lfct.dead = true
	w.lsm.dead = true
	if w.parked {
		w.lsm.notify(models.NodeOnline) // rendezvous with the parked goroutine
		<-w.stepDone
		w.parked = false
	}
	w.breakStreams()
	w.lmgr.Stop()
	_ = w.lmgr.Close()
	w.lcancel()
}

func (w *world) Close() {
	if w.closed {
		return
	}
	w.closed = true
	func() {
		defer func() { _ = recover() }()
		w.killLeader()
	}()
	func() {
		defer func() { _ = recover() }()
		w.stopFollower()
	}()
	_ = os.RemoveAll(w.dir)
}

// follower partition directory: exists iff the follower has a log for (db, shard, family, leader)
func (w *world) followerPartition() replica.Partition {
	rel, err := filepath.Rel(w.ldir, w.lpart.Path())
	if err != nil {
		return nil
	}
	if _, err := os.Stat(filepath.Join(w.fdir, rel)); err != nil {
		return nil
	}
	p, err := w.fmgr.GetOrCreateLog(dbName).GetOrCreatePartition(shardID, w.famTime(), leaderID)
	if err != nil {
		return nil
	}
	return inner(p)
}

// ---------------------------------------------------------------------------------------------
// events

func (w *world) Enabled() []string {
	if w.spent || w.crash != "" {
		return nil
	}
	var evs []string
	if w.appends < len(w.cfg.Word) {
		evs = append(evs, "L.append")
	}
	if !w.parked {
		evs = append(evs, "step")
	}
	if !w.cfg.Expire {
		evs = append(evs, "L.gc")
	} else if w.appends == len(w.cfg.Word) {
		evs = append(evs, "L.expire")
	}
	if w.cfg.Local {
		if li := replica.VerifReplicatorInfoOf(w.lpart, leaderID); li.Exists && li.Consumed < replica.VerifLog(w.lpart).Queue().AppendedSeq() {
			evs = append(evs, "L.local")
		}
	}
	if !w.online {
		evs = append(evs, "F.online")
	}
	if w.budget > 0 {
		if !w.parked {
			for _, f := range w.cfg.StepFaults {
				evs = append(evs, "step!"+f)
			}
		}
		for _, f := range w.cfg.Faults {
			switch f {
			case "streamBreak":
				alive := false
				for _, s := range w.streams {
					alive = alive || s.alive()
				}
				if !alive {
					continue
				}
			case "F.loseLog":
				if w.followerPartition() == nil {
					continue
				}
			case "F.offline":
				if !w.online {
					continue
				}
			case "L.loseTail", "L.loseTail2":
				need := 1
				if f == "L.loseTail2" {
					need = 2
				}
				if len(w.snaps) < need {
					continue
				}
			}
			evs = append(evs, f)
		}
	}
	return evs
}

var stepFaultName = map[string]string{"send": "sendFail", "recv": "recvFail", "hs": "handshakeRpcFail", "reset": "resetAnswerLost", "ferr": "followerAppendErr"}

func payload(b byte, epoch int, seq int64) []byte {
	head := []byte{b, byte('0' + epoch), byte('0' + seq)}
	if b == 'x' {
		return append(head, '.', '.', '.')
	}
	return append(head, []byte(strings.Repeat("y", 37))...)
}

// decode returns the (class, epoch, position) a payload was written for.
func decode(p []byte) (b byte, epoch int, seq int64, ok bool) {
	if len(p) < 3 {
		return 0, 0, 0, false
	}
	b, epoch, seq = p[0], int(p[1]-'0'), int64(p[2]-'0')
	if (b != 'x' && b != 'y') || string(payload(b, epoch, seq)) != string(p) {
		return 0, 0, 0, false
	}
	return b, epoch, seq, true
}

func (w *world) runStep(arm string) {
	w.armed, w.fired = arm, false
	stepping = w
	done := make(chan stepResult, 1)
	select {
	case <-w.parkSig:
	default:
	}
	p := w.lpart
	go func() {
		var r stepResult
		defer func() {
			if x := recover(); x != nil {
				r.crash = fmt.Sprintf("%v\n%s", x, stack())
			}
			done <- r
		}()
		r.found, r.panics = replica.VerifReplicaStep(p, followerID)
	}()
	select {
	case r := <-done:
		w.finishStep(r)
	case <-w.parkSig:
		// GetLiveNode answered "offline": remoteReplicator.IsReady is going to park on its suspend channel.
		// Wait for the two stores that precede the receive; the hand-off itself happens in F.online,
		// where the watch callback's send on the unbuffered channel blocks until the stepper receives.
		for {
			select {
			case r := <-done: // did not park after all
				w.finishStep(r)
				return
			default:
			}
			info := replica.VerifReplicatorInfoOf(p, followerID)
			if info.Suspended && info.State == models.ReplicatorFailureState {
				break
			}
			runtime.Gosched()
		}
		w.parked, w.stepDone = true, done
		w.armed = ""
	}
}

func (w *world) finishStep(r stepResult) {
	w.stepPanics += r.panics
	if r.crash != "" {
		w.crash = r.crash
	}
	if w.fired {
		w.budget--
	}
	w.armed, w.fired = "", false
}

func (w *world) spend(kind string) {
	w.budget--
	w.faults[kind] = true
}

func (w *world) Apply(ev string) (err error) {
	if w.spent {
		return fmt.Errorf("event %q on a spent system", ev)
	}
	w.canon = ""
	w.hist = append(w.hist, ev)
	w.ev = ev
	w.pre = w.observeLite()
	w.deliveries, w.resets, w.stepPanics = nil, nil, 0
	defer func() {
		if w.crash == "" && replica.VerifReplicatorInfoOf(w.lpart, followerID).State == models.ReplicatorReadyState {
			w.readySince = true
		}
	}()
	defer func() {
		if r := recover(); r != nil {
			w.crash = fmt.Sprintf("%v\n%s", r, stack())
		}
	}()
	switch {
	case ev == "L.append":
		if w.appends >= len(w.cfg.Word) {
			return fmt.Errorf("no append left")
		}
		if w.cfg.Snaps > 0 {
			w.snaps = append(w.snaps, takeImage(w.ldir))
			if len(w.snaps) > w.cfg.Snaps {
				w.snaps = w.snaps[len(w.snaps)-w.cfg.Snaps:]
			}
		}
		if w.epoch > 0 && !w.readySince {
			w.blind = true
		}
		seq := replica.VerifLog(w.lpart).Queue().AppendedSeq() + 1
		if err := w.lpart.WriteLog(payload(w.cfg.Word[w.appends], w.epoch, seq)); err != nil {
			return fmt.Errorf("WriteLog: %v", err)
		}
		w.appends++
	case ev == "step":
		if w.parked {
			return fmt.Errorf("step while the stepper is parked")
		}
		w.runStep("")
	case strings.HasPrefix(ev, "step!"):
		if w.parked {
			return fmt.Errorf("step while the stepper is parked")
		}
		b := w.budget
		w.runStep(ev[5:])
		if w.budget < b {
			w.faults[stepFaultName[ev[5:]]] = true
		}
	case ev == "L.local":
		// one step of the leader's local replicator: the payloads of this harness are not row blocks, the
		// replicator ignores (= acknowledges) them - what matters here is that the local group's ack advances
		replica.VerifReplicaStep(w.lpart, leaderID)
	case ev == "L.gc":
		if w.lpart.IsExpire() {
			return fmt.Errorf("IsExpire answered true for the current family")
		}
	case ev == "L.expire":
		ans := w.lpart.IsExpire()
		w.expireAns = &ans
		w.spent = true // terminal: the clean-up may have stopped replicators / is about to delete the log
	case ev == "streamBreak":
		w.spend(ev)
		w.breakStreams()
	case ev == "F.restart":
		w.spend(ev)
		w.stopFollower()
		if err := w.startFollower(); err != nil {
			return err
		}
	case ev == "F.loseLog":
		w.spend(ev)
		w.stopFollower()
		_ = os.RemoveAll(w.fdir)
		if err := w.startFollower(); err != nil {
			return err
		}
	case ev == "F.offline":
		w.spend(ev)
		w.online = false
		w.lsm.notify(models.NodeOffline)
	case ev == "F.online":
		w.online = true
		w.lsm.notify(models.NodeOnline) // if the stepper is parked: the send rendezvous with its receive
		if w.parked {
			r := <-w.stepDone
			w.parked = false
			w.finishStep(r)
		}
	case ev == "L.loseTail" || ev == "L.loseTail2":
		k := 1
		if ev == "L.loseTail2" {
			k = 2
		}
		if len(w.snaps) < k {
			return fmt.Errorf("no older copy")
		}
		w.spend("L.loseTail")
		im := w.snaps[len(w.snaps)-k]
		w.killLeader()
		if err := im.restore(w.ldir); err != nil {
			return err
		}
		w.snaps = nil
		w.epoch++
		w.readySince = false
		if err := w.startLeader(); err != nil {
			return err
		}
	default:
		return fmt.Errorf("unknown event %q", ev)
	}
	return nil
}

func stack() string {
	buf := make([]byte, 4000)
	return string(buf[:runtime.Stack(buf, false)])
}

// ---------------------------------------------------------------------------------------------
// observation

type logView struct {
	Exists   bool
	App, Ack int64
	Bytes    map[int64][]byte // readable positions in (Ack, App]
	Err      map[int64]string // unreadable positions in (Ack, App]
	Cursor   string
}

func viewOf(p replica.Partition) logView {
	v := logView{App: -1, Ack: -1}
	if p == nil {
		return v
	}
	log := replica.VerifLog(p)
	v.Exists = true
	q := log.Queue()
	v.App, v.Ack = q.AppendedSeq(), q.AcknowledgedSeq()
	v.Bytes, v.Err = map[int64][]byte{}, map[int64]string{}
	for i := v.Ack + 1; i <= v.App; i++ {
		b, err := q.Get(i)
		if err != nil {
			v.Err[i] = err.Error()
			continue
		}
		v.Bytes[i] = append([]byte(nil), b...)
	}
	if nl, ok := log.(nbLog); ok {
		d, o, x, _ := queue.VerifCursor(nl.FanOutQueue)
		v.Cursor = fmt.Sprintf("%d/%d/%d", d, o, x)
	}
	return v
}

func (v logView) String() string {
	if !v.Exists {
		return "none"
	}
	var b strings.Builder
	fmt.Fprintf(&b, "(ack=%d app=%d", v.Ack, v.App)
	for i := v.Ack + 1; i <= v.App; i++ {
		if e, bad := v.Err[i]; bad {
			fmt.Fprintf(&b, " %d:!%s", i, e)
		} else {
			fmt.Fprintf(&b, " %d:%s", i, short(v.Bytes[i]))
		}
	}
	b.WriteString(")")
	return b.String()
}

func short(p []byte) string {
	if len(p) == 0 {
		return "<empty>"
	}
	if _, _, _, ok := decode(p); ok {
		return string(p[:3])
	}
	if len(p) > 8 {
		return fmt.Sprintf("%q..(%d)", p[:8], len(p))
	}
	return fmt.Sprintf("%q", p)
}

type obs struct {
	L, F logView
	R    replica.VerifReplicatorInfo
}

func (w *world) observe() *obs {
	return &obs{L: viewOf(w.lpart), F: viewOf(w.followerPartition()), R: replica.VerifReplicatorInfoOf(w.lpart, followerID)}
}

// lite: what the transition clauses need from the state before the event (cheap: computed on every replayed event)
type lite struct {
	LApp, FApp      int64
	LQAck           int64
	RAck, RConsumed int64
	RState          models.ReplicatorState
}

func (w *world) observeLite() *lite {
	l := &lite{FApp: -1}
	l.LApp = replica.VerifLog(w.lpart).Queue().AppendedSeq()
	l.LQAck = replica.VerifLog(w.lpart).Queue().AcknowledgedSeq()
	if fp := w.followerPartition(); fp != nil {
		l.FApp = replica.VerifLog(fp).Queue().AppendedSeq()
	}
	r := replica.VerifReplicatorInfoOf(w.lpart, followerID)
	l.RAck, l.RConsumed, l.RState = r.Ack, r.Consumed, r.State
	return l
}

func (l *lite) String() string {
	return fmt.Sprintf("leader appended=%d group{consumed=%d ack=%d} replicator=%s | follower appended=%d", l.LApp, l.RConsumed, l.RAck, l.RState, l.FApp)
}

func (o *obs) lite() *lite {
	return &lite{LApp: o.L.App, LQAck: o.L.Ack, FApp: o.F.App, RAck: o.R.Ack, RConsumed: o.R.Consumed, RState: o.R.State}
}

func (o *obs) String() string {
	return fmt.Sprintf("leader%s group{consumed=%d ack=%d} replicator=%s/%s | follower%s", o.L, o.R.Consumed, o.R.Ack, o.R.State, o.R.ErrMsg, o.F)
}

// Canon - the canonical state.
//
// Listed: (1) leader log: appended, queue ack, every readable message in (queue ack, appended], in-memory
// write cursor, and the hash of the complete leader directory (queue meta, data / index pages incl. dead
// bytes, the follower's consumer-group meta page); (2) the follower's consumer group on the leader:
// consumed, ack; (3) the remote replicator: state (Init / Ready / Failure), stream field set or not,
// suspended flag, and whether the stepping goroutine is parked; (4) the transport: some stream alive or
// not; (5) follower: log exists or not, appended, queue ack, readable messages, cursor, directory hash;
// (6) the environment: follower online flag, fault budget left, number of appends performed, epoch of
// the payload function, the two labels readySince / blind (they select the clause name under which a
// divergence after a leader tail loss is reported, and the next append sets blind from readySince), and - only while a fault can still happen - the hashes of the older leader copies
// L.loseTail would restore.
//
// Why merged states have the same futures for the property: every transition is a function of these.
// Queue / consumer-group behaviour depends on their in-memory positions (listed; they equal the meta
// pages, which are part of the hashed directories), the page files and their bytes (hashed), and the
// write cursor (listed because SetAppendedSeq does not recompute it). remoteReplicator.IsReady / Connect
// / Replica read: state, replicaStream (nil or not; a non-nil stream behaves alive or dead = (4)), the
// group positions, the live-node answer (6), isSuspend (3); replicaCli is written before every use.
// The follower-side handler is stateless apart from the WAL manager's partition map, which after
// Recovery equals the set of partition directories (5). The partition's local replicator on the
// follower is never stepped. Statistics, loggers, error texts do not feed back. Enabled() depends on
// (3),(4),(5),(6). The payload of the next append is a function of (word, appends, epoch, leader
// appended). Older copies only matter through L.loseTail (budget > 0).
func (w *world) Canon() string {
	if w.canon != "" {
		return w.canon
	}
	if w.crash != "" {
		w.canon = "CRASH after " + strings.Join(w.hist, ",")
		return w.canon
	}
	o := w.observe()
	alive := false
	for _, s := range w.streams {
		alive = alive || s.alive()
	}
	var b strings.Builder
	fmt.Fprintf(&b, "L%s cur=%s img=%s | cg=%d/%d | R=%v/%s stream=%v susp=%v parked=%v alive=%v | F%s cur=%s img=%s | online=%v budget=%d appends=%d epoch=%d",
		o.L, o.L.Cursor, takeImage(w.ldir).hash, o.R.Consumed, o.R.Ack, o.R.Exists, o.R.State, o.R.StreamOpen, o.R.Suspended, w.parked, alive,
		o.F, o.F.Cursor, takeImage(w.fdir).hash, w.online, w.budget, w.appends, w.epoch)
	if w.epoch > 0 {
		fmt.Fprintf(&b, " readySince=%v blind=%v", w.readySince, w.blind)
	}
	if w.budget > 0 {
		for _, s := range w.snaps {
			b.WriteString(" snap=" + s.hash)
		}
	}
	w.canon = b.String()
	return w.canon
}
