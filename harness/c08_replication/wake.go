package main

// Part "wake": follower offline / online notifications racing with the replicator's own liveness check
// (schedules). remoteReplicator.IsReady parks on its suspend channel when the state manager says the follower is
// offline; the state manager's watch callback (handleNodeStateChangeEvent) wakes it when the follower is back. Both
// run on their own goroutines in production: here they are two controlled threads, every lock / atomic / channel
// operation of replica/replicator_remote.go is a scheduling point (channel operations through the vsched channel
// helpers), every schedule is executed. Oracle: nobody stays parked while the follower is online ("after any fault
// the channel resynchronises without operator action"), and a few more fault-free steps align the follower's log.

import (
	"fmt"
	"strings"

	"github.com/lindb/lindb/internal/vevid"
	"github.com/lindb/lindb/internal/vsched"
	"github.com/lindb/lindb/models"
	"github.com/lindb/lindb/replica"
)

type wakeScenario struct {
	Name         string   `json:"name"`
	StartOffline bool     `json:"start_offline"`
	Notifier     []string `json:"notifier"` // events of the state manager thread: offline / online
	Steps        int      `json:"steps"`    // replication steps of the replicator thread
}

var wakeScenarios = []wakeScenario{
	{Name: "offline-then-online", StartOffline: true, Notifier: []string{"online"}, Steps: 1},
	{Name: "offline-online-twice", StartOffline: true, Notifier: []string{"online", "online"}, Steps: 2},
	{Name: "blip", StartOffline: false, Notifier: []string{"offline", "online"}, Steps: 2},
	{Name: "blip-blip", StartOffline: false, Notifier: []string{"offline", "online", "offline", "online"}, Steps: 2},
}

type wakeReplay struct {
	Part     string       `json:"part"`
	Scenario wakeScenario `json:"scenario"`
	Choices  []int        `json:"choices"`
}

var wakeWorld *world

func wakeBody(sc wakeScenario) func() {
	return func() {
		cfg := &bcfg{Name: "wake/" + sc.Name, Word: "x", Budget: 9, K: 6}
		w, err := newWorld(cfg)
		if err != nil {
			vevid.OpFailed("new world: %v", err)
		}
		wakeWorld = w
		w.online = !sc.StartOffline
		seq := replica.VerifLog(w.lpart).Queue().AppendedSeq() + 1
		if err := w.lpart.WriteLog(payload('x', 0, seq)); err != nil {
			vevid.OpFailed("WriteLog: %v", err)
		}
		w.appends++
		vsched.Spawn("replicator", func() {
			for i := 0; i < sc.Steps; i++ {
				replica.VerifReplicaStep(w.lpart, followerID)
				vsched.Logf("step %d returned", i+1)
			}
		})
		vsched.Spawn("statemgr", func() {
			for _, ev := range sc.Notifier {
				vsched.Point("statemgr event", nil)
				if ev == "online" {
					w.online = true
					w.lsm.notify(models.NodeOnline)
				} else {
					w.online = false
					w.lsm.notify(models.NodeOffline)
				}
				vsched.Logf("notified %s", ev)
			}
		})
	}
}

func wakeFinish(rep *vevid.Report, sc wakeScenario, x *vsched.Result) {
	w := wakeWorld
	scen := "wake/" + sc.Name
	viol := func(clause, site, detail string) {
		rep.Violate(vevid.Violation{Clause: clause, Scenario: scen, Site: site, Detail: detail + "\nlog: " + strings.Join(x.Log, " | "),
			Replay: wakeReplay{Part: "wake", Scenario: sc, Choices: x.Choices()}})
	}
	defer func() {
		if w != nil && !x.Deadlock && !x.Horizon {
			w.Close()
		}
		wakeWorld = nil
	}()
	if x.Deadlock {
		// the follower is online at the end of every scenario: a thread that is still parked waits for a notification
		// that was delivered already
		viol("parked-while-follower-online", "replica.remoteReplicator.IsReady", "the follower is online, every notification was delivered, and still: "+x.WaitGraph)
		return
	}
	if x.Horizon {
		viol("livelock", "replica", x.WaitGraph)
		return
	}
	for _, p := range x.Panics {
		viol("panic", "replica", p)
	}
	// sequential tail: a few more fault-free steps align the follower
	for i := 0; i < 6; i++ {
		replica.VerifReplicaStep(w.lpart, followerID)
	}
	lv := viewOf(w.lpart)
	fp := w.followerPartition()
	if fp == nil {
		viol("not-resynchronised", "replica", "after the notifications and 6 more fault-free steps the follower has no log at all; leader: "+lv.String())
		return
	}
	fv := viewOf(fp)
	if fv.App != lv.App {
		viol("not-resynchronised", "replica", fmt.Sprintf("after the notifications and 6 more fault-free steps: leader %s, follower %s", lv, fv))
	}
	rep.Outcome(fmt.Sprintf("wake %s points=%v follower=%d", sc.Name, len(x.Points) > 0, fv.App))
}

func runWake(f *vevid.Flags, rep *vevid.Report) {
	vsched.Strict = true // the loop-back transport runs the follower's handler on its own goroutines
	if f.Replay != "" {
		var r wakeReplay
		vevid.LoadReplay(f.Replay, &r)
		fails := 0
		for i := 0; i < 5; i++ {
			before := rep.ViolationCount
			x := vsched.Run(r.Choices, 200000, wakeBody(r.Scenario))
			wakeFinish(rep, r.Scenario, x)
			if rep.ViolationCount > before {
				fails++
			}
		}
		rep.Extra["replay_failures_of_5"] = fails
		rep.Evaluations = 5
		rep.Write()
		return
	}
	rep.Rule = "follower offline / online notifications racing with the replicator's liveness check: 4 scenarios of 2 threads (replicator: 1-2 replication steps through the real partition.replica / remoteReplicator.IsReady; state manager: the watch callback with offline / online events, the follower is online at the end of each) on two real write-ahead-log managers; every lock, atomic and channel operation of replica/replicator_remote.go is a scheduling point; EVERY schedule (no preemption bound); oracle: nobody stays parked, 6 more fault-free steps align the follower's log"
	first := true
	for _, sc := range wakeScenarios {
		sc := sc
		e := &vsched.Explorer{Bound: -1, Horizon: 200000, Body: wakeBody(sc), Shard: f.Shard, Shards: f.Shards, Deadline: f.Deadline}
		e.Check = func(x *vsched.Result) { wakeFinish(rep, sc, x) }
		e.Discard = func(x *vsched.Result) {
			if wakeWorld != nil && !x.Deadlock && !x.Horizon {
				wakeWorld.Close()
			}
			wakeWorld = nil
		}
		if first && f.Shard == 0 {
			a := vsched.Run(nil, 200000, wakeBody(sc))
			e.Discard(a)
			b := vsched.Run(nil, 200000, wakeBody(sc))
			e.Discard(b)
			if len(a.Points) != len(b.Points) || strings.Join(a.Log, "|") != strings.Join(b.Log, "|") {
				vevid.Fatal("nondeterministic replay: %d/%d points\n%v\n%v", len(a.Points), len(b.Points), a.Log, b.Log)
			}
			rep.Extra["determinism_replay"] = "ok"
		}
		first = false
		e.Explore()
		if e.Diverged != "" {
			vevid.Fatal("replay divergence in %s: %s", sc.Name, e.Diverged)
		}
		if e.Capped {
			rep.Cap("deadline reached in scenario " + sc.Name)
		}
		rep.Evaluations += e.Executions
		rep.States += e.Executions
		rep.Transitions += e.Points
		rep.TracesValidated += e.Executions
		rep.DistinctNontrivial += e.Executions
		rep.Count("schedules["+sc.Name+"]", e.Executions)
	}
	rep.Write()
}
