package main

import (
	"bytes"
	"fmt"
	"sort"
	"strings"

	"github.com/lindb/lindb/internal/vevid"
	"github.com/lindb/lindb/internal/vxstate"
	"github.com/lindb/lindb/models"
)

var (
	gRep     *vevid.Report
	gSeen    = map[string]struct{}{} // canonical states whose recovery goal was evaluated
	gNoRecov bool
)

func (w *world) scenario() string {
	if len(w.faults) == 0 {
		return "faults=none"
	}
	var ks []string
	for k := range w.faults {
		ks = append(ks, k)
	}
	sort.Strings(ks)
	return "faults=" + strings.Join(ks, "+")
}

func kindOf(ev string) string {
	if ev == "" {
		return "init"
	}
	return ev
}

// Invariant: the clauses of the statement that hold in every state / at every transition, then - once per
// canonical state - the recovery goal (which consumes this instance: the canonical form is cached first).
func (w *world) Invariant(prevCanon, ev string) []vxstate.Finding {
	var out []vxstate.Finding
	site := kindOf(ev)
	add := func(clause, detail string) {
		out = append(out, vxstate.Finding{Clause: clause, Site: site, Detail: detail})
	}
	if w.crash != "" {
		add("panic", w.crash)
		w.report(out, nil)
		return out
	}
	post := w.observe()
	pre := w.pre
	if ev == "" || pre == nil {
		pre = post.lite()
	}
	ctx := fmt.Sprintf("before: %s || after: %s", pre, post)
	if w.stepPanics > 0 {
		add("step-panic", fmt.Sprintf("partition.replica recovered %d panic(s) | %s", w.stepPanics, ctx))
	}
	w.stateClauses(post, add, ctx)

	// "the leader never treats a position as acknowledged by a follower that the follower has not appended":
	// at every change of the leader-side ack of the follower's group, new ack <= follower appended at that moment
	// (only events that run the leader's replication code: L.loseTail swaps the leader's files for an older copy)
	if (strings.HasPrefix(ev, "step") || ev == "F.online") && post.R.Ack != pre.RAck && post.R.Ack > post.F.App {
		add("ack-beyond-follower", fmt.Sprintf("leader-side ack for the follower moved %d -> %d while the follower's appended index is %d | %s",
			pre.RAck, post.R.Ack, post.F.App, ctx))
	}

	if ev == "L.expire" && w.expireAns != nil {
		behind := !post.F.Exists || post.F.App < post.L.App
		switch {
		case *w.expireAns && behind:
			add("log-expired-before-replicated", fmt.Sprintf("partition.IsExpire answered true (the write ahead log will be deleted) while the follower's appended index is behind the leader's | %s", ctx))
		case !post.R.Exists && behind:
			add("replicator-stopped-before-replicated", fmt.Sprintf("partition.IsExpire stopped the follower's replicator while the follower's appended index is behind the leader's | %s", ctx))
		}
		gRep.Outcome(fmt.Sprintf("L.expire=%v behind=%v replicator=%v", *w.expireAns, behind, post.R.Exists))
		w.report(out, nil)
		return out
	}
	gRep.Outcome(w.outcome(pre, post.lite()))

	c := w.Canon() // cached from here on
	if _, ok := gSeen[c]; !ok && !gNoRecov {
		gSeen[c] = struct{}{}
		if post.L.App >= 0 && post.F.Exists {
			gRep.DistinctNontrivial++
		}
		hist := append([]string(nil), w.hist...)
		for _, f := range w.checkRecovery(post) {
			out = append(out, f)
		}
		w.hist = hist
	}
	w.report(out, nil)
	return out
}

// stateClauses: follower log dense and made of messages of their own position; equal bytes wherever both hold a position.
func (w *world) stateClauses(o *obs, add func(clause, detail string), ctx string) {
	if !o.F.Exists {
		return
	}
	for i := o.F.Ack + 1; i <= o.F.App; i++ {
		if e, bad := o.F.Err[i]; bad {
			add("follower-hole", fmt.Sprintf("follower position %d in (%d, %d] is not readable: %s | %s", i, o.F.Ack, o.F.App, e, ctx))
			continue
		}
		fb := o.F.Bytes[i]
		_, _, pos, ok := decode(fb)
		switch {
		case !ok:
			// never written by a replicated message: a hole (reads as an empty / garbage record)
			add("follower-hole", fmt.Sprintf("follower position %d in (%d, %d] holds %s which is no message the leader ever stored | %s", i, o.F.Ack, o.F.App, short(fb), ctx))
		case pos != i:
			add("position-shift", fmt.Sprintf("follower position %d holds the message the leader stored at position %d | %s", i, pos, ctx))
		}
	}
	// byte identity is demanded while the leader considers the channel aligned (replicator Ready); between
	// a leader tail loss and the leader's next handshake no implementation can know about the divergence,
	// the recovery goal demands that it is gone afterwards.
	if o.R.State == models.ReplicatorReadyState {
		for i, lb := range o.L.Bytes {
			if fb, ok := o.F.Bytes[i]; ok && !bytes.Equal(lb, fb) {
				add(w.divergeClause("bytes-differ"), fmt.Sprintf("position %d: leader holds %s, follower holds %s, replicator is Ready | %s", i, short(lb), short(fb), ctx))
			}
		}
	}
}

// pendingOf: the positions the leader still holds FOR this follower at state s = readable on the leader and
// above the follower's acknowledged position on the leader (acknowledged positions are released to the
// leader's garbage collection; the handshake's own rule is "below my ack I cannot serve you").
func pendingOf(cur *obs, floor int64) []int64 {
	var out []int64
	for i := cur.L.Ack + 1; i <= cur.L.App; i++ {
		if _, held := cur.L.Bytes[i]; held && i > floor {
			out = append(out, i)
		}
	}
	return out
}

// aligned: every position the leader holds for the follower is on the follower with equal bytes, and the two
// append indexes agree (so that the next append is accepted).
func aligned(cur *obs, floor int64) (ok bool, missing, differ []int64) {
	for _, i := range pendingOf(cur, floor) {
		fb, has := cur.F.Bytes[i]
		switch {
		case !has:
			missing = append(missing, i)
		case !bytes.Equal(cur.L.Bytes[i], fb):
			differ = append(differ, i)
		}
	}
	return cur.F.App == cur.L.App && len(missing) == 0 && len(differ) == 0, missing, differ
}

// checkRecovery: from this state, using non-fault events only (F.online if the follower is offline, then
// steps), the channel must reach within K steps "follower appended == leader appended and equal bytes over
// everything the leader still holds for the follower", and the first message delivered on that path must be
// the first position the follower lacks and the leader still holds. An idle leader (Ready, everything
// consumed) never touches its stream and cannot notice a follower that went backwards: if the steps alone
// do not align the logs, the path continues with ONE more leader append (normal traffic, no fault, not an
// operator action) and K more steps.
func (w *world) checkRecovery(s *obs) []vxstate.Finding {
	var out []vxstate.Finding
	add := func(clause, detail string) {
		out = append(out, vxstate.Finding{Clause: clause, Site: "recovery", Detail: detail})
	}
	w.spent = true
	// positions at or below the follower's own queue ack are a prefix the follower released (only a Reset
	// ordered by the leader moves it in this model): they are not "lacking"
	floor := s.R.Ack
	if s.F.Exists && s.F.Ack > floor {
		floor = s.F.Ack
	}
	first := int64(-1)
	for _, i := range pendingOf(s, floor) {
		if _, has := s.F.Bytes[i]; !has {
			first = i
			break
		}
	}
	// informational (not a clause): acknowledged positions the leader can still read and the follower lost
	for i := s.L.Ack + 1; i <= s.L.App && i <= s.R.Ack; i++ {
		if _, held := s.L.Bytes[i]; held {
			if _, has := s.F.Bytes[i]; !has {
				gRep.Count("states_where_follower_lacks_acked_position_leader_can_still_read", 1)
				break
			}
		}
	}
	var path []string
	w.deliveries = nil
	if !w.online {
		path = append(path, "F.online")
		w.online = true
		w.lsm.notify(models.NodeOnline)
		if w.parked {
			r := <-w.stepDone
			w.parked = false
			w.finishStep(r)
		}
	}
	cur := w.observe()
	reached, _, _ := aligned(cur, floor)
	for n := 0; !reached && n < w.cfg.K && w.crash == ""; n++ {
		w.runStep("")
		path = append(path, "step")
		cur = w.observe()
		reached, _, _ = aligned(cur, floor)
	}
	if !reached && w.crash == "" {
		seq := cur.L.App + 1
		if err := w.lpart.WriteLog(payload('x', w.epoch, seq)); err == nil {
			path = append(path, "L.append")
			gRep.Count("recovery_paths_that_needed_new_traffic", 1)
			cur = w.observe()
			reached, _, _ = aligned(cur, floor)
			for n := 0; !reached && n < w.cfg.K && w.crash == ""; n++ {
				w.runStep("")
				path = append(path, "step")
				cur = w.observe()
				reached, _, _ = aligned(cur, floor)
			}
		}
	}
	dl := w.deliveries
	gRep.Count("recovery_paths", 1)
	gRep.Count("recovery_steps", int64(len(path)))
	if w.crash != "" {
		add("panic", w.crash)
		return out
	}
	ctx := fmt.Sprintf("state: %s || recovery path %v delivered %v || end: %s", s, path, fmtDeliveries(dl), cur)
	if !reached {
		_, missing, differ := aligned(cur, floor)
		clause := "no-resync"
		if len(differ) > 0 && len(missing) == 0 && cur.F.App == cur.L.App {
			clause = w.divergeClause(clause)
		}
		add(clause, fmt.Sprintf("no alignment after F.online + %d fault-free steps + one more leader append + %d steps: follower appended %d, leader appended %d, of the positions the leader holds for the follower (> ack %d) the follower lacks %v and has different bytes at %v | %s",
			w.cfg.K, w.cfg.K, cur.F.App, cur.L.App, floor, missing, differ, ctx))
	}
	if first >= 0 && len(dl) > 0 && dl[0].Idx != first {
		add("resume-wrong-first", fmt.Sprintf("replication resumed from position %d; the first position the follower lacks and the leader still holds is %d | %s", dl[0].Idx, first, ctx))
	}
	key := "recovery:aligned"
	if !reached {
		key = "recovery:not-aligned"
	}
	if len(path) > w.cfg.K {
		key += "/with-new-traffic"
	}
	gRep.Outcome(fmt.Sprintf("%s/events=%d/deliveries=%d", key, len(path), len(dl)))
	return out
}

// divergeClause: a divergence that exists because the leader, after losing its log tail, stored new messages
// BEFORE its replicator completed a handshake (nothing but the indexes is compared by the handshake) is
// reported under its own clause id.
func (w *world) divergeClause(clause string) string {
	if w.blind {
		return "diverged-after-blind-append"
	}
	return clause
}

func fmtDeliveries(dl []delivery) string {
	var p []string
	for _, d := range dl {
		s := fmt.Sprintf("%d->%d", d.Idx, d.Ack)
		if d.Lost {
			s += "(lost)"
		}
		p = append(p, s)
	}
	return "[" + strings.Join(p, " ") + "]"
}

// outcome: coarse class of what the event did (vacuity guard: handshake branches, acks, resets must be seen)
func (w *world) outcome(pre, post *lite) string {
	ev := w.ev
	if ev == "L.gc" && post.LQAck != pre.LQAck {
		return "L.gc,queue-ack-moved"
	}
	if !strings.HasPrefix(ev, "step") && ev != "F.online" {
		return ev
	}
	var p []string
	p = append(p, ev, fmt.Sprintf("%s>%s", pre.RState, post.RState))
	if w.parked {
		p = append(p, "parked")
	}
	if len(w.resets) > 0 {
		p = append(p, "reset-follower")
	}
	if post.LApp != pre.LApp {
		p = append(p, "reset-leader-append")
	}
	for _, d := range w.deliveries {
		switch {
		case d.Lost:
			p = append(p, "delivered-lost")
		case d.Ack == d.Idx:
			p = append(p, "delivered-ok")
		default:
			p = append(p, "delivered-mismatch")
		}
	}
	switch {
	case post.RAck > pre.RAck:
		p = append(p, "ack-up")
	case post.RAck < pre.RAck:
		p = append(p, "ack-down")
	}
	switch {
	case post.RConsumed < pre.RConsumed:
		p = append(p, "consumed-back")
	case post.RConsumed > pre.RConsumed+1:
		p = append(p, "consumed-jump")
	}
	return strings.Join(p, ",")
}

type replay struct {
	Config  string   `json:"config"`
	History []string `json:"history"`
}

func (w *world) report(fs []vxstate.Finding, _ []string) {
	for _, f := range fs {
		gRep.Violate(vevid.Violation{Clause: f.Clause, Scenario: w.scenario(), Site: f.Site,
			Detail: fmt.Sprintf("config %s, history %v: %s", w.cfg.Name, w.hist, f.Detail),
			Replay: replay{Config: w.cfg.Name, History: append([]string(nil), w.hist...)}})
	}
}
