package main

// The "network" between leader (node 1) and follower (node 2): a loop-back implementation of
// rpc.ClientStreamFactory / protoReplicaV1.ReplicaServiceClient whose calls run the REAL follower-side
// handler (app/storage/rpc.ReplicaHandler) of the current follower process synchronously. The streaming
// RPC is strictly ping-pong: Send hands the request to the handler's Recv and returns only after the
// handler has answered (or died), Recv returns that answer - nothing depends on timing. Faults are
// injected at this edge only.

import (
	"context"
	"errors"
	"fmt"
	"io"
	"sync"

	"google.golang.org/grpc"
	"google.golang.org/grpc/metadata"

	"github.com/lindb/lindb/coordinator/storage"
	"github.com/lindb/lindb/models"
	protoCommonV1 "github.com/lindb/lindb/proto/gen/v1/common"
	protoReplicaV1 "github.com/lindb/lindb/proto/gen/v1/replica"
	protoWriteV1 "github.com/lindb/lindb/proto/gen/v1/write"
	"github.com/lindb/lindb/rpc"
)

var errInjected = errors.New("injected transport failure")

// delivery is one replica request that reached the follower's handler.
type delivery struct {
	Idx  int64 // replica index offered by the leader
	Ack  int64 // the follower's answer (AckIndex); -2 = the handler died before answering
	Lost bool  // the answer was not delivered to the leader
}

// ---------------------------------------------------------------------------------------------
// state manager fake (edge): live-node answer + captured watch callbacks

type fakeSM struct {
	storage.StateManager // nil: only the two methods below are used by replica
	w                    *world
	dead                 bool // the leader process owning this manager was killed: release a parked stepper
	watches              []func(state models.NodeStateType)
}

func (s *fakeSM) GetLiveNode(id models.NodeID) (models.StatefulNode, bool) {
	n := models.StatefulNode{StatelessNode: models.StatelessNode{HostIP: "127.0.0.2", GRPCPort: 2891}, ID: id}
	if s.dead {
		return n, true
	}
	if !s.w.online {
		select {
		case s.w.parkSig <- struct{}{}: // the stepping goroutine is about to park on the replicator's suspend channel
		default:
		}
		return n, false
	}
	return n, true
}

func (s *fakeSM) WatchNodeStateChangeEvent(_ models.NodeID, fn func(state models.NodeStateType)) {
	s.watches = append(s.watches, fn)
}

func (s *fakeSM) notify(st models.NodeStateType) {
	for _, fn := range s.watches {
		fn(st)
	}
}

// ---------------------------------------------------------------------------------------------
// client stream factory fake (edge)

type fakeFct struct {
	w    *world
	dead bool // the process owning this factory was killed
}

func (f *fakeFct) LogicNode() models.Node {
	return &models.StatelessNode{HostIP: "127.0.0.1", GRPCPort: 2891}
}

func (f *fakeFct) CreateTaskClient(models.Node) (protoCommonV1.TaskService_HandleClient, error) {
	return nil, errors.New("not available")
}

func (f *fakeFct) CreateWriteServiceClient(models.Node) (protoWriteV1.WriteServiceClient, error) {
	return nil, errors.New("not available")
}

func (f *fakeFct) CreateReplicaServiceClient(models.Node) (protoReplicaV1.ReplicaServiceClient, error) {
	if f.dead {
		return nil, errors.New("process is gone")
	}
	return &client{f: f}, nil
}

var _ rpc.ClientStreamFactory = (*fakeFct)(nil)

type client struct{ f *fakeFct }

func (c *client) GetReplicaAckIndex(ctx context.Context, in *protoReplicaV1.GetReplicaAckIndexRequest, _ ...grpc.CallOption) (*protoReplicaV1.GetReplicaAckIndexResponse, error) {
	w := c.f.w
	if c.f.dead {
		return nil, errors.New("process is gone")
	}
	if w.armed == "hs" {
		w.armed, w.fired = "", true
		return nil, errInjected
	}
	return w.fh.GetReplicaAckIndex(ctx, in)
}

func (c *client) Reset(ctx context.Context, in *protoReplicaV1.ResetIndexRequest, _ ...grpc.CallOption) (*protoReplicaV1.ResetIndexResponse, error) {
	w := c.f.w
	if c.f.dead {
		return nil, errors.New("process is gone")
	}
	resp, err := w.fh.Reset(ctx, in)
	w.resets = append(w.resets, in.AppendIndex)
	if w.armed == "reset" {
		// the follower applied the reset, the response is lost
		w.armed, w.fired = "", true
		return nil, errInjected
	}
	return resp, err
}

func (c *client) Replica(ctx context.Context, _ ...grpc.CallOption) (protoReplicaV1.ReplicaService_ReplicaClient, error) {
	w := c.f.w
	if c.f.dead {
		return nil, errors.New("process is gone")
	}
	md, _ := metadata.FromOutgoingContext(ctx)
	s := &stream{
		w:     w,
		req:   make(chan *protoReplicaV1.ReplicaRequest),
		resp:  make(chan *protoReplicaV1.ReplicaResponse),
		done:  make(chan struct{}),
		ready: make(chan struct{}),
	}
	srv := &srvStream{s: s, ctx: metadata.NewIncomingContext(context.Background(), md)}
	h := w.fh
	go func() {
		defer close(s.done)
		defer func() {
			if r := recover(); r != nil {
				s.srvPanic = fmt.Sprint(r)
			}
		}()
		s.srvErr = h.Replica(srv)
	}()
	// the handler creates the follower's partition / replication relation before it reads the first
	// request: wait until it is there (or gave up) so that the follower's files are a function of the history
	select {
	case <-s.ready:
	case <-s.done:
	}
	w.streams = append(w.streams, s)
	return s, nil
}

// ---------------------------------------------------------------------------------------------
// one replica stream

type stream struct {
	grpc.ClientStream // nil: only the methods below are used by the replicator
	w                 *world
	req               chan *protoReplicaV1.ReplicaRequest
	resp              chan *protoReplicaV1.ReplicaResponse
	done              chan struct{} // the handler returned
	ready             chan struct{} // the handler reached its first Recv
	readyOnce         sync.Once
	closed            bool // req closed (client CloseSend or broken)
	broken            bool // transport broken: the handler's Recv fails, the client's Send fails
	pending           *protoReplicaV1.ReplicaResponse
	srvErr            error
	srvPanic          string
}

func (s *stream) alive() bool {
	if s.closed || s.broken {
		return false
	}
	select {
	case <-s.done:
		return false
	default:
		return true
	}
}

// shut ends the handler side (EOF for a clean CloseSend, an error for a broken transport) and waits for it.
func (s *stream) shut(broken bool) {
	if broken {
		s.broken = true
	}
	if !s.closed {
		s.closed = true
		close(s.req)
	}
	<-s.done
}

func (s *stream) CloseSend() error {
	s.shut(false)
	return nil
}

func (s *stream) Send(r *protoReplicaV1.ReplicaRequest) error {
	w := s.w
	s.pending = nil
	if !s.alive() {
		return io.EOF
	}
	if w.armed == "send" {
		w.armed, w.fired = "", true
		s.shut(true) // a failed Send ends the stream; nothing was delivered
		return errInjected
	}
	select {
	case s.req <- r:
	case <-s.done:
		return io.EOF
	}
	d := delivery{Idx: r.ReplicaIndex, Ack: -2}
	select {
	case resp := <-s.resp:
		s.pending = resp
		d.Ack = resp.AckIndex
	case <-s.done:
	}
	if w.armed == "recv" {
		// the follower handled the request, its answer never arrives
		w.armed, w.fired = "", true
		s.pending = nil
		d.Lost = true
		s.shut(true)
	}
	w.deliveries = append(w.deliveries, d)
	return nil
}

func (s *stream) Recv() (*protoReplicaV1.ReplicaResponse, error) {
	if s.pending == nil {
		return nil, io.ErrUnexpectedEOF
	}
	r := s.pending
	s.pending = nil
	return r, nil
}

type srvStream struct {
	grpc.ServerStream // nil
	s                 *stream
	ctx               context.Context
}

func (x *srvStream) Context() context.Context { return x.ctx }

func (x *srvStream) Recv() (*protoReplicaV1.ReplicaRequest, error) {
	x.s.readyOnce.Do(func() { close(x.s.ready) })
	r, ok := <-x.s.req
	if !ok {
		if x.s.broken {
			return nil, errors.New("transport is closing")
		}
		return nil, io.EOF
	}
	return r, nil
}

func (x *srvStream) Send(r *protoReplicaV1.ReplicaResponse) error {
	x.s.resp <- r
	return nil
}
