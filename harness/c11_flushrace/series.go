package main

// Part "seriesflush": the flush of a data family racing with a write that adds a series to the shard's memory index.
// After a restart the series ids are persistent and the memory index is empty; series are added to it in the order
// they are written again - a series with a LOWER id than the ones already there goes in front of them. The flush walks
// that index series by series (locks / statements of tsdb/memdb/time_series_index.go are scheduling points), the write
// may land between any two of them. Oracle (quiescent, through the real leaf query path): every series has exactly the
// values written for it - nothing under another series' tags, nothing lost.

import (
	"fmt"
	"math"
	"os"
	"runtime"
	"sort"
	"strings"
	"time"

	vbox "github.com/lindb/lindb/internal/vbox"
	vevid "github.com/lindb/lindb/internal/vevid"
	"github.com/lindb/lindb/internal/vsched"
	"github.com/lindb/lindb/models"
	"github.com/lindb/lindb/pkg/option"
	"github.com/lindb/lindb/pkg/timeutil"
)

type sfScenario struct {
	Name   string   `json:"name"`
	First  []string `json:"first"`  // hosts written before the restart, in this order (series ids 0,1,2,...)
	Again  []string `json:"again"`  // hosts written after the restart, before the threads start
	Writer []string `json:"writer"` // hosts the writer thread writes while the flush runs
}

var sfScenarios = []sfScenario{
	{Name: "lower-id-arrives", First: []string{"a", "b", "c", "d"}, Again: []string{"c", "d"}, Writer: []string{"a"}},
	{Name: "middle-id-arrives", First: []string{"a", "b", "c", "d"}, Again: []string{"a", "d"}, Writer: []string{"b"}},
	{Name: "two-arrive", First: []string{"a", "b", "c", "d"}, Again: []string{"d"}, Writer: []string{"b", "a"}},
	{Name: "higher-id-arrives", First: []string{"a", "b", "c"}, Again: []string{"a", "b"}, Writer: []string{"c"}},
}

type sfReplay struct {
	Part     string     `json:"part"`
	Scenario sfScenario `json:"scenario"`
	Choices  []int      `json:"choices"`
}

type sfWorld struct {
	box  *vbox.Box
	want map[string]float64
	n    int
	errs []string
}

var (
	sfw   *sfWorld
	sfDir string
	sfNo  int
)

func sfOpt() *option.DatabaseOption {
	return &option.DatabaseOption{Intervals: option.Intervals{{Interval: interval, Retention: timeutil.Interval(30000 * 24 * 3600 * 1000)}}, AutoCreateNS: true}
}

func (x *sfWorld) write(host string) {
	k := x.n
	x.n++
	v := math.Pow(3, float64(k))
	ts := base + int64(10+k)*10_000 + 3000
	rows, err := vbox.Rows([]vbox.Point{{Metric: metric, Tags: map[string]string{"host": host}, Field: "f", Type: "sum", Value: v, Timestamp: ts}})
	if err != nil {
		vevid.OpFailed("rows: %v", err)
	}
	shard, _ := x.box.DB.GetShard(shardID)
	fam, err := shard.GetOrCrateDataFamily(base)
	if err != nil {
		x.errs = append(x.errs, "family: "+err.Error())
		return
	}
	// what the local replicator does (the only caller of WriteRows): the rows of a sequence are written between
	// ValidateSequence and CommitSequence, which serialises them with the flush's switch of the memory database
	seq := int64(k + 1)
	vsched.Logf("write %d %s: validate", k, host)
	if !fam.ValidateSequence(1, seq) {
		x.errs = append(x.errs, fmt.Sprintf("write %d (%s): sequence %d rejected", k, host, seq))
		return
	}
	if err := fam.WriteRows(rows); err != nil {
		x.errs = append(x.errs, "write "+host+": "+err.Error())
	} else {
		x.want[host] += v
	}
	vsched.Logf("write %d %s: written", k, host)
	fam.CommitSequence(1, seq)
	vsched.Logf("write %d %s: committed", k, host)
}

func sfRange() timeutil.TimeRange {
	return timeutil.TimeRange{Start: base, End: base + 3600_000 - 1}
}

func sfBody(sc sfScenario) func() {
	return func() {
		vsched.Quiet(true)
		t0 := time.Now()
		defer func() {
			if os.Getenv("SF_TIMING") != "" {
				fmt.Fprintf(os.Stderr, "setup %v\n", time.Since(t0))
			}
		}()
		_ = os.RemoveAll(sfDir)
		// a database name of its own per execution: the worker pools of a database count their live workers in gauges
		// registered under the database's name, and the lingering workers of an earlier engine (5 s idle timeout) would
		// make the new engine's pools wait for them
		sfNo++
		dbName := fmt.Sprintf("sf%d", sfNo)
		b, err := vbox.Open(sfDir, dbName, sfOpt(), []models.ShardID{shardID})
		if err != nil {
			vevid.OpFailed("open: %v", err)
		}
		x := &sfWorld{box: b, want: map[string]float64{}}
		sfw = x
		for _, h := range sc.First {
			x.write(h)
		}
		if err := b.Flush(shardID, sfRange()); err != nil {
			vevid.OpFailed("flush: %v", err)
		}
		t1 := time.Now()
		b.Close()
		if os.Getenv("SF_TIMING") != "" {
			fmt.Fprintf(os.Stderr, "first phase %v close %v\n", t1.Sub(t0), time.Since(t1))
		}
		if b, err = vbox.Open(sfDir, dbName, sfOpt(), []models.ShardID{shardID}); err != nil {
			vevid.OpFailed("reopen: %v", err)
		}
		x.box = b
		for _, h := range sc.Again {
			x.write(h)
		}
		vsched.Quiet(false)
		vsched.Spawn("flush", func() {
			for _, fam := range x.box.Families(shardID, sfRange()) {
				vsched.Logf("flush starts")
				if err := fam.Flush(); err != nil {
					x.errs = append(x.errs, "flush: "+err.Error())
				}
				vsched.Logf("flush returned")
			}
		})
		vsched.Spawn("writer", func() {
			for _, h := range sc.Writer {
				x.write(h)
			}
		})
	}
}

func sfFinish(rep *vevid.Report, sc sfScenario, x *vsched.Result) {
	w := sfw
	tf := time.Now()
	defer func() {
		if os.Getenv("SF_TIMING") != "" {
			fmt.Fprintf(os.Stderr, "finish %v steps %d\n", time.Since(tf), x.Steps)
		}
	}()
	viol := func(clause, detail string) {
		rep.Violate(vevid.Violation{Clause: clause, Scenario: "seriesflush/" + sc.Name, Site: "tsdb/memdb.timeSeriesIndex / DataFamily.Flush", Detail: detail + "\nlog: " + strings.Join(x.Log, " | "),
			Replay: sfReplay{Part: "seriesflush", Scenario: sc, Choices: x.Choices()}})
	}
	defer func() {
		if r := recover(); r != nil {
			viol("panic", fmt.Sprint(r))
		}
		if !x.Deadlock && !x.Horizon {
			w.box.Close()
		}
	}()
	if x.Deadlock {
		viol("deadlock", x.WaitGraph)
		return
	}
	if x.Horizon {
		viol("livelock", x.WaitGraph)
		return
	}
	for _, p := range x.Panics {
		viol("panic", p)
	}
	for _, e := range w.errs {
		viol("operation-failed", e)
	}
	if os.Getenv("SF_DEBUG") != "" {
		r0 := w.box.Query("select f from "+metric+" group by host", sfRange(), vbox.Layout{Leaves: []vbox.Leaf{{Node: "10.0.0.1:2891", Shards: []models.ShardID{shardID}}}, CompleteAt: 1})
		g0 := map[string]float64{}
		if r0.Result != nil {
			for _, s := range r0.Result.Series {
				for _, pts := range s.Fields {
					for _, v := range pts {
						g0[s.Tags["host"]] += v
					}
				}
			}
		}
		fmt.Fprintf(os.Stderr, "BEFORE CLOSING FLUSH: %v err=%v want=%v\n", g0, r0.Err, w.want)
	}
	// everything to disk, then ask through the real leaf path
	if err := w.box.Flush(shardID, sfRange()); err != nil {
		viol("operation-failed", "closing flush: "+err.Error())
		return
	}
	if os.Getenv("SF_TIMING") != "" {
		fmt.Fprintf(os.Stderr, "  closing flush done %v\n", time.Since(tf))
	}
	qdone := make(chan struct{})
	if os.Getenv("SF_TIMING") != "" {
		go func() {
			select {
			case <-qdone:
			case <-time.After(2 * time.Second):
				buf := make([]byte, 1<<20)
				n := runtime.Stack(buf, true)
				fmt.Fprintf(os.Stderr, "STALL DUMP\n%s\nEND DUMP\n", buf[:n])
			}
		}()
	}
	defer close(qdone)
	r := w.box.Query("select f from "+metric+" group by host", sfRange(), vbox.Layout{Leaves: []vbox.Leaf{{Node: "10.0.0.1:2891", Shards: []models.ShardID{shardID}}}, CompleteAt: 1})
	if r.Err != nil || r.Result == nil {
		viol("query-error", fmt.Sprint(r.Err))
		return
	}
	if os.Getenv("SF_TIMING") != "" {
		fmt.Fprintf(os.Stderr, "  query done %v\n", time.Since(tf))
	}
	got := map[string]float64{}
	for _, s := range r.Result.Series {
		for _, pts := range s.Fields {
			for _, v := range pts {
				got[s.Tags["host"]] += v
			}
		}
	}
	var hosts []string
	for h := range w.want {
		hosts = append(hosts, h)
	}
	for h := range got {
		if _, ok := w.want[h]; !ok {
			hosts = append(hosts, h)
		}
	}
	sort.Strings(hosts)
	var bad []string
	for _, h := range hosts {
		if got[h] != w.want[h] {
			bad = append(bad, fmt.Sprintf("host=%s: %v, written %v", h, got[h], w.want[h]))
		}
	}
	if len(bad) > 0 {
		viol("series-values", "after flush and write finished, everything flushed: "+strings.Join(bad, "; ")+" (every write carries its own power of 3)")
	}
	rep.Outcome(fmt.Sprintf("seriesflush %s ok=%v", sc.Name, len(bad) == 0))
}

func runSeriesFlush(f *vevid.Flags, rep *vevid.Report) {
	sfDir = f.Scratch + "/sfeng"
	defer os.RemoveAll(sfDir)
	bound := 1
	if f.Thorough() {
		bound = 2
	}
	rep.Bounds["preemption_bound"] = bound
	rep.Rule = fmt.Sprintf("%d scenarios: 3-4 series written, everything flushed, the engine restarted (persistent series ids, empty memory index), some of the series written again, then DataFamily.Flush of the family racing with a writer that writes a series which is not in the memory index yet (lower / middle / higher id than the ones there); every schedule with <=%d preemption(s) at the lock / atomic operations (dense variant: statements) of tsdb/data_family.go, tsdb/memdb/database.go, tsdb/memdb/time_series_index.go; afterwards everything is flushed and the real leaf query path returns for every series exactly what was written for it", len(sfScenarios), bound)
	if f.Replay != "" {
		var r sfReplay
		vevid.LoadReplay(f.Replay, &r)
		fails := 0
		for i := 0; i < 5; i++ {
			before := rep.ViolationCount
			x := vsched.Run(r.Choices, 2000000, sfBody(r.Scenario))
			if os.Getenv("SF_DEBUG") != "" && i == 0 {
				for j := 1; j < len(x.Trace); j++ {
					if x.Trace[j][:2] != x.Trace[j-1][:2] {
						lo, hi := j-6, j+4
						if lo < 0 {
							lo = 0
						}
						if hi > len(x.Trace) {
							hi = len(x.Trace)
						}
						fmt.Fprintf(os.Stderr, "SWITCH at %d: %v\n", j, x.Trace[lo:hi])
					}
				}
			}
			sfFinish(rep, r.Scenario, x)
			if rep.ViolationCount > before {
				fails++
			}
		}
		rep.Extra["replay_failures_of_5"] = fails
		rep.Evaluations = 5
		return
	}
	for _, sc := range sfScenarios {
		sc := sc
		e := &vsched.Explorer{Bound: bound, Horizon: 2000000, Body: sfBody(sc), Shard: f.Shard, Shards: f.Shards, Deadline: f.Deadline}
		e.Check = func(x *vsched.Result) { sfFinish(rep, sc, x) }
		e.Discard = func(x *vsched.Result) {
			if !x.Deadlock && !x.Horizon && sfw != nil {
				sfw.box.Close()
			}
		}
		e.Explore()
		if e.Diverged != "" {
			vevid.Fatal("replay divergence in %s: %s", sc.Name, e.Diverged)
		}
		if e.Capped {
			rep.Cap("deadline reached in scenario " + sc.Name)
		}
		rep.Evaluations += e.Executions
		rep.States += e.Executions
		rep.Transitions += e.Points
		rep.TracesValidated += e.Executions
		rep.DistinctNontrivial += e.Executions
		rep.Count("schedules["+sc.Name+"]", e.Executions)
	}
}
