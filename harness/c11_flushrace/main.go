// c11_flushrace: a query (DataFamily.Filter + load of every returned place) racing with DataFamily.Flush and with a
// write on a real engine. tsdb/data_family.go and tsdb/memdb/database.go are rebuilt with scheduling shims (strict
// goroutine identity: the engine's own worker goroutines stay free), so the flush steps (switch the memory database,
// write + commit the table, run the acknowledge callbacks, close the memory database, clear the immutable one) and
// the query steps (filter memory databases, filter files, load) interleave in every way within the preemption bound.
//
// Oracle (the naive model of C11): a sum field, every write carries a distinct power of 3; the values a query loads
// from all places of the family, added up, must contain every write that completed before the query started
// exactly once and every overlapping write at most once - whatever the flush is doing.
package main

import (
	"fmt"
	"math"
	"os"
	"time"

	"github.com/lindb/roaring"

	"github.com/lindb/lindb/aggregation"
	"github.com/lindb/lindb/flow"
	vbox "github.com/lindb/lindb/internal/vbox"
	vevid "github.com/lindb/lindb/internal/vevid"
	"github.com/lindb/lindb/internal/vsched"
	"github.com/lindb/lindb/models"
	"github.com/lindb/lindb/pkg/encoding"
	"github.com/lindb/lindb/pkg/option"
	"github.com/lindb/lindb/pkg/timeutil"
	"github.com/lindb/lindb/series/field"
	"github.com/lindb/lindb/sql/stmt"
	"github.com/lindb/lindb/tsdb"
)

type scenario struct {
	Name    string     `json:"name"`
	Pre     []string   `json:"pre"`     // ops before the threads start
	Threads [][]string `json:"threads"` // ops: w (write the next value into the next slot), ws (write into the slot of the previous write), flush, query
}

var scenarios = []scenario{
	{"query|flush", []string{"w"}, [][]string{{"query"}, {"flush"}}},
	{"file+mem:query|flush", []string{"w", "flush", "w"}, [][]string{{"query"}, {"flush"}}},
	{"query,query|flush", []string{"w"}, [][]string{{"query", "query"}, {"flush"}}},
	{"query|flush|write", []string{"w"}, [][]string{{"query"}, {"flush"}, {"w"}}},
	{"query|flush|write-same-slot", []string{"w"}, [][]string{{"query"}, {"flush"}, {"ws"}}},
	{"query|flush,flush|write", []string{"w"}, [][]string{{"query"}, {"flush", "flush"}, {"w"}}},
}

const (
	shardID  = models.ShardID(1)
	interval = timeutil.Interval(10_000)
	metric   = "m"
)

type obs struct {
	op     string
	before int     // writes completed when the query started
	after  int     // writes started when the query ended
	total  float64 // sum of all loaded values
	places []string
	err    string
}

type world struct {
	family  tsdb.DataFamily
	ft      int64
	started int // writes started
	done    int // writes completed
	lastTS  int64
	obs     []obs
	errs    []string
}

var (
	box    *vbox.Box
	base   int64
	execNo int64
	w      *world
)

func (x *world) write(sameSlot bool) {
	k := x.started
	x.started++
	ts := x.ft + int64(10+k)*10_000 + 3000
	if sameSlot && x.lastTS != 0 {
		ts = x.lastTS
	}
	x.lastTS = ts
	rows, err := vbox.Rows([]vbox.Point{{Metric: metric, Tags: map[string]string{"host": "a"}, Field: "f", Type: "sum", Value: math.Pow(3, float64(k)), Timestamp: ts}})
	if err != nil {
		vevid.OpFailed("rows: %v", err)
	}
	// what the local replicator does (the only caller of WriteRows): the rows of a sequence are written between
	// ValidateSequence and CommitSequence, which serialises them with the flush's switch of the memory database
	seq := int64(k + 1)
	if !x.family.ValidateSequence(1, seq) {
		x.errs = append(x.errs, fmt.Sprintf("write %d: sequence %d rejected", k, seq))
		return
	}
	if err := x.family.WriteRows(rows); err != nil {
		x.errs = append(x.errs, "write: "+err.Error())
	}
	x.family.CommitSequence(1, seq)
	x.done++
}

func (x *world) flush() {
	if err := x.family.Flush(); err != nil {
		x.errs = append(x.errs, "flush: "+err.Error())
	}
}

// query: what the leaf does for one family - Filter, then load every place; values are added up (sum field).
func (x *world) query() {
	o := obs{op: "query", before: x.done}
	defer func() {
		o.after = x.started
		x.obs = append(x.obs, o)
	}()
	metricID, err := box.DB.MetaDB().GetMetricID("default-ns", metric)
	if err != nil {
		o.err = "metric id: " + err.Error()
		return
	}
	schema, err := box.DB.MetaDB().GetSchema(metricID)
	if err != nil {
		o.err = "schema: " + err.Error()
		return
	}
	fm, ok := schema.Fields.Find("f")
	if !ok {
		o.err = "field f not in schema"
		return
	}
	shard, _ := box.DB.GetShard(shardID)
	seriesIDs, err := shard.IndexDB().GetSeriesIDsForMetric(metricID)
	if err != nil {
		o.err = "series ids: " + err.Error()
		return
	}
	fields := field.Metas{fm}
	sctx := &flow.StorageExecuteContext{
		MetricID: metricID, Fields: fields, ShardIDs: []models.ShardID{shardID},
		Query: &stmt.Query{MetricName: metric, TimeRange: timeutil.TimeRange{Start: x.ft, End: x.ft + 3600_000 - 1}, Interval: interval, StorageInterval: interval, IntervalRatio: 1},
	}
	shctx := flow.NewShardExecuteContext(sctx)
	shctx.SeriesIDsAfterFiltering = seriesIDs
	rss, err := x.family.Filter(shctx)
	if err != nil {
		o.err = "filter: " + err.Error()
		return
	}
	for _, rs := range rss {
		o.places = append(o.places, placeKind(rs.Identifier()))
		ids := roaring.FastAnd(seriesIDs, rs.SeriesIDs())
		for i, hk := range ids.GetHighKeys() {
			var container roaring.Container = ids.GetContainerAtIndex(i)
			ctx := &flow.DataLoadContext{ShardExecuteCtx: shctx, SeriesIDHighKey: hk, LowSeriesIDsContainer: container, Decoder: encoding.GetTSDDecoder()}
			ctx.Grouping()
			ctx.DownSampling = func(slotRange timeutil.SlotRange, _ uint16, _ int, getter encoding.TSDValueGetter) {
				aggregation.DownSampling(slotRange, timeutil.SlotRange{Start: 0, End: math.MaxUint16}, 1, 0, getter,
					func(_ int, v float64) { o.total += v })
			}
			if loader := rs.Load(ctx); loader != nil {
				loader.Load(ctx)
			}
			encoding.ReleaseTSDDecoder(ctx.Decoder)
		}
		rs.Close()
	}
}

func placeKind(id string) string {
	switch {
	case len(id) > 0 && containsStr(id, "memory/readonly"):
		return "immutable"
	case containsStr(id, "memory"):
		return "mutable"
	}
	return "file"
}

func containsStr(s, sub string) bool {
	for i := 0; i+len(sub) <= len(s); i++ {
		if s[i:i+len(sub)] == sub {
			return true
		}
	}
	return false
}

func (x *world) do(op string) {
	switch op {
	case "w":
		x.write(false)
	case "ws":
		x.write(true)
	case "flush":
		x.flush()
	case "query":
		x.query()
	}
}

func body(sc scenario) func() {
	return func() {
		execNo++
		ft := base + execNo*3600_000 // a fresh data family per execution
		shard, _ := box.DB.GetShard(shardID)
		f, err := shard.GetOrCrateDataFamily(ft)
		if err != nil {
			vevid.OpFailed("family: %v", err)
		}
		w = &world{family: f, ft: ft}
		for _, op := range sc.Pre {
			w.do(op)
		}
		for ti, ops := range sc.Threads {
			ops := ops
			vsched.Spawn(fmt.Sprintf("T%d", ti+1), func() {
				for _, op := range ops {
					w.do(op)
				}
			})
		}
	}
}

var engDir string

// openWorld opens a fresh engine; the names (metric, field, tag value, series) exist and are durable before any
// execution. Every execution uses a data family of its own (file descriptors, memory buffers): the engine is
// recycled every few hundred executions, between executions.
func openWorld() {
	opt := &option.DatabaseOption{Intervals: option.Intervals{{Interval: interval, Retention: timeutil.Interval(30000 * 24 * 3600 * 1000)}}, AutoCreateNS: true}
	_ = os.RemoveAll(engDir)
	b, err := vbox.Open(engDir, "db", opt, []models.ShardID{shardID})
	if err != nil {
		vevid.OpFailed("open: %v", err)
	}
	box = b
	execNo = 0
	shard, _ := box.DB.GetShard(shardID)
	fam, err := shard.GetOrCrateDataFamily(base)
	if err != nil {
		vevid.OpFailed("family: %v", err)
	}
	w = &world{family: fam, ft: base}
	w.write(false)
	if err := box.FlushFamily(shardID, base); err != nil {
		vevid.OpFailed("flush: %v", err)
	}
}

func recycle() {
	if execNo >= 300 {
		box.Close()
		openWorld()
	}
}

type replay struct {
	Scenario scenario `json:"scenario"`
	Choices  []int    `json:"choices"`
}

// digits: how often write k is contained in total (base 3); ok=false when something is contained 3 or more times
func digits(total float64, n int) ([]int, bool) {
	iv := int64(math.Round(total))
	out := make([]int, n)
	for k := 0; k < n; k++ {
		out[k] = int(iv % 3)
		iv /= 3
	}
	return out, iv == 0
}

func finish(rep *vevid.Report, sc scenario, x *vsched.Result) {
	scen := "scenario=" + sc.Name
	viol := func(clause, site, detail string) {
		rep.Violate(vevid.Violation{Clause: clause, Scenario: scen, Site: site, Detail: detail, Replay: replay{Scenario: sc, Choices: x.Choices()}})
	}
	defer func() {
		if r := recover(); r != nil {
			viol("panic", "tsdb.dataFamily", fmt.Sprint(r))
		}
	}()
	if x.Deadlock {
		viol("deadlock", "tsdb.dataFamily", x.WaitGraph)
		return
	}
	if x.Horizon {
		viol("livelock", "tsdb.dataFamily", x.WaitGraph)
		return
	}
	for _, p := range x.Panics {
		viol("panic", "tsdb.dataFamily", p)
	}
	if len(x.Panics) > 0 {
		return
	}
	for _, e := range w.errs {
		viol("operation-failed", "tsdb.dataFamily", e)
	}
	// a final sequential query, then flush everything and query again: every write exactly once
	w.query()
	w.obs[len(w.obs)-1].op = "final"
	w.flush()
	w.query()
	w.obs[len(w.obs)-1].op = "after-flush"
	for _, o := range w.obs {
		if o.err != "" {
			viol("query-error", "tsdb.dataFamily.Filter", fmt.Sprintf("%s (writes completed before: %d): %s", o.op, o.before, o.err))
			continue
		}
		d, ok := digits(o.total, w.started)
		desc := fmt.Sprintf("%s saw places %v, loaded total %v = per-write multiplicity %v; %d writes had completed when it started, %d had started when it ended", o.op, o.places, o.total, d, o.before, o.after)
		if !ok {
			viol("double-count", "tsdb.dataFamily.Filter", desc+": a write is contained three or more times")
			continue
		}
		for k, n := range d {
			switch {
			case n > 1:
				viol("double-count", "tsdb.dataFamily.Filter / Flush", fmt.Sprintf("write %d is contained %d times: %s", k, n, desc))
			case n == 0 && k < o.before:
				viol("completed-write-invisible", "tsdb.dataFamily.Filter / Flush", fmt.Sprintf("write %d completed before the query started and is not in its answer: %s", k, desc))
			case n == 1 && k >= o.after:
				viol("phantom", "tsdb.dataFamily.Filter", fmt.Sprintf("write %d had not started: %s", k, desc))
			}
		}
		if o.op == "query" {
			rep.Outcome(fmt.Sprintf("%s places=%v mult=%v", sc.Name, o.places, d))
		}
	}
}

func main() {
	f := vevid.ParseFlags()
	rep := vevid.New("C11")
	vsched.Strict = true
	engDir = f.Scratch + "/eng"
	day := time.Now().UTC().Truncate(24*time.Hour).UnixMilli() - 400*24*3600*1000
	base = day
	const horizon = 400000
	if f.Part == "seriesflush" {
		runSeriesFlush(f, rep)
		rep.Write()
		return
	}
	openWorld()
	defer func() {
		box.Close()
		os.RemoveAll(engDir)
	}()
	if f.Replay != "" {
		var r replay
		vevid.LoadReplay(f.Replay, &r)
		for i := 0; i < 5; i++ {
			x := vsched.Run(r.Choices, horizon, body(r.Scenario))
			finish(rep, r.Scenario, x)
		}
		rep.Evaluations = 5
		rep.Write()
		return
	}
	bound := 2
	scs := scenarios[:3]
	if f.Thorough() {
		bound = 3
		scs = scenarios
	}
	rep.Bounds["preemption_bound"] = bound
	rep.Rule = fmt.Sprintf("%d scenarios (quick: 3): 1-2 queries (DataFamily.Filter + load of every returned place, values added up) racing with 1-2 DataFamily.Flush calls and a write, on a fresh data family of a real engine per execution; every schedule with <=%d preemptions at the lock / atomic / sync.Map / WaitGroup operations of tsdb/data_family.go and tsdb/memdb/database.go; per query: every write completed before it started is contained exactly once, overlapping writes at most once; then a sequential query, a flush and another query: every write exactly once. distinct = (scenario, schedule)", len(scenarios), bound)
	for si, sc := range scs {
		sc := sc
		if only := os.Getenv("C11_ONLY"); only != "" && only != sc.Name {
			continue
		}
		e := &vsched.Explorer{Bound: bound, Horizon: horizon, Body: body(sc), Shard: f.Shard, Shards: f.Shards, Deadline: f.Deadline}
		e.Check = func(x *vsched.Result) {
			finish(rep, sc, x)
			if len(x.Points) > 0 {
				rep.DistinctNontrivial++
			}
			recycle()
		}
		e.Discard = func(x *vsched.Result) {
			if !x.Deadlock && !x.Horizon {
				w.flush()
			}
			recycle()
		}
		if si == 0 && f.Shard == 0 {
			a := vsched.Run(nil, horizon, body(sc))
			e.Discard(a)
			b := vsched.Run(nil, horizon, body(sc))
			e.Discard(b)
			if len(a.Points) != len(b.Points) || a.Steps != b.Steps {
				vevid.Fatal("nondeterministic replay: %d/%d points, %d/%d steps", len(a.Points), len(b.Points), a.Steps, b.Steps)
			}
			rep.Extra["determinism_replay"] = "ok"
		}
		e.Explore()
		if e.Diverged != "" {
			vevid.Fatal("replay divergence in %s: %s", sc.Name, e.Diverged)
		}
		if e.Capped {
			rep.Cap("deadline reached in scenario " + sc.Name)
		}
		rep.Evaluations += e.Executions
		rep.States += e.Executions
		rep.Transitions += e.Points
		rep.TracesValidated += e.Executions
		rep.Count("schedules["+sc.Name+"]", e.Executions)
		if mp, _ := rep.Extra["max_points_in_one_schedule"].(int); e.MaxPoints > mp {
			rep.Extra["max_points_in_one_schedule"] = e.MaxPoints
		}
		if f.Shard == 0 {
			rep.Sample(map[string]interface{}{"scenario": sc, "schedules_this_worker": e.Executions})
		}
	}
	rep.Write()
}
