// C18 harness: shard placement and shard leadership stay valid under any node churn.
//
//	part assign : master.ShardAssignment / ModifyShardAssignment, bounded exhaustive over live sets, shard
//	              counts, replica factors, every start position (fixed and every outcome of the two math/rand
//	              draws) and every growth step (assign.go)
//	part churn  : explicit-state BFS (engine/xstate) over the real master.stateManager driven through
//	              master.VerifProcessEvent on an in-memory state.Repository (churn.go)
//
// Nondeterminism owned by the harness: math/rand (seed table, oracle.go), map iteration (Canon and every
// check iterate in sorted order), time (the handlers only use it for a context deadline that the in-memory
// repository ignores), goroutines (the manager's consumer goroutine never receives an event).
package main

import (
	"encoding/json"
	"fmt"
	"os"
	"runtime/debug"
	"sort"
	"strings"
	"time"

	"github.com/lindb/common/pkg/logger"
	"go.uber.org/zap/zapcore"

	"github.com/lindb/lindb/internal/vevid"
	"github.com/lindb/lindb/internal/vxstate"
)

type churnReplay struct {
	Part    string   `json:"part"`
	Config  churnCfg `json:"config"`
	History []string `json:"history"`
}

type workItem struct {
	cfg   churnCfg
	shard int // index among cfg.Workers
}

func churnItems(thorough bool) []workItem {
	var cfgs []churnCfg
	if !thorough {
		cfgs = []churnCfg{
			{Name: "1db-n3-s3-rf2", Nodes: 3, DBs: []string{"a"}, MaxShards: 3, MaxRF: 2, Cost: 30},
			{Name: "2db-n2-s2-rf2", Nodes: 2, DBs: []string{"a", "b"}, MaxShards: 2, MaxRF: 2, Cost: 12},
			{Name: "2db-n3-s3-rf2-depth5", Nodes: 3, DBs: []string{"a", "b"}, MaxShards: 3, MaxRF: 2, MaxDepth: 5, Workers: 15, Cost: 8},
			{Name: "1db-n3-s1-rf2-lag1-depth11", Nodes: 3, DBs: []string{"a"}, MaxShards: 1, MaxRF: 2, Lag: 1, MaxDepth: 11, Workers: 5, Cost: 6},
			{Name: "1db-n2-s2-rf2-lag1-depth11", Nodes: 2, DBs: []string{"a"}, MaxShards: 2, MaxRF: 2, Lag: 1, MaxDepth: 11, Workers: 6, Cost: 6},
			{Name: "1db-n2-s1-rf2-lag1-failover-depth10", Nodes: 2, DBs: []string{"a"}, MaxShards: 1, MaxRF: 2, Lag: 1, MaxDepth: 10, Workers: 4, Cost: 6, Failover: true},
		}
	} else {
		cfgs = []churnCfg{
			{Name: "1db-n3-s4-rf3", Nodes: 3, DBs: []string{"a"}, MaxShards: 4, MaxRF: 3, Cost: 420},
			{Name: "1db-n4-s3-rf2", Nodes: 4, DBs: []string{"a"}, MaxShards: 3, MaxRF: 2, Cost: 400},
			{Name: "1db-n4-s2-rf3", Nodes: 4, DBs: []string{"a"}, MaxShards: 2, MaxRF: 3, Cost: 170},
			{Name: "2db-n2-s3-rf2", Nodes: 2, DBs: []string{"a", "b"}, MaxShards: 3, MaxRF: 2, Cost: 120},
			{Name: "2db-n3-s1-rf2", Nodes: 3, DBs: []string{"a", "b"}, MaxShards: 1, MaxRF: 2, Cost: 10},
			{Name: "1db-n4-s4-rf3-depth7", Nodes: 4, DBs: []string{"a"}, MaxShards: 4, MaxRF: 3, MaxDepth: 7, Workers: 16, Cost: 150},
			{Name: "2db-n3-s3-rf2-depth6", Nodes: 3, DBs: []string{"a", "b"}, MaxShards: 3, MaxRF: 2, MaxDepth: 6, Workers: 15, Cost: 60},
			{Name: "1db-n3-s2-rf2-lag1-depth13", Nodes: 3, DBs: []string{"a"}, MaxShards: 2, MaxRF: 2, Lag: 1, MaxDepth: 13, Workers: 7, Cost: 60},
			{Name: "1db-n2-s2-rf2-lag2-depth12", Nodes: 2, DBs: []string{"a"}, MaxShards: 2, MaxRF: 2, Lag: 2, MaxDepth: 12, Workers: 6, Cost: 60},
		}
	}
	var items []workItem
	for _, c := range cfgs {
		w := c.Workers
		if w < 1 {
			w = 1
		}
		for i := 0; i < w; i++ {
			items = append(items, workItem{cfg: c, shard: i})
		}
	}
	return items
}

// mine distributes the work items over the worker processes: longest (estimated) first onto the least loaded
// worker; a deterministic function of the item list and the number of workers.
func mine(items []workItem, shard, shards int) []workItem {
	order := make([]int, len(items))
	for i := range order {
		order[i] = i
	}
	sort.SliceStable(order, func(a, b int) bool { return items[order[a]].cfg.Cost > items[order[b]].cfg.Cost })
	load := make([]int, shards)
	var out []workItem
	for _, i := range order {
		w := 0
		for k := 1; k < shards; k++ {
			if load[k] < load[w] {
				w = k
			}
		}
		load[w] += items[i].cfg.Cost + 1
		if w == shard {
			out = append(out, items[i])
		}
	}
	return out
}

func runChurn(f *vevid.Flags, rep *vevid.Report) {
	items := churnItems(f.Thorough())
	rep.Rule = "breadth-first search over the real master.stateManager: environment events up(i) / down(i) / create(db, shards, rf) / grow(db, to) / " +
		"touch(db) / drop(db) (x every (start, shift) outcome of the two math/rand draws for the number of registered nodes), watcher events delivered " +
		"synchronously (lag 0) or from three bounded FIFO watcher queues in every order (lag k); states deduplicated by a canonical form of everything " +
		"the handlers read; every transition is executed on the real handlers by replaying its shortest history on a fresh manager. " +
		"non-trivial = a transition after which at least one shard exists; distinct = distinct canonical states"
	var cfgDesc []string
	seen := map[string]bool{}
	for _, it := range items {
		if !seen[it.cfg.Name] {
			seen[it.cfg.Name] = true
			js, _ := json.Marshal(it.cfg)
			cfgDesc = append(cfgDesc, string(js))
		}
	}
	rep.Bounds["searches"] = cfgDesc
	only := os.Getenv("C18_ONLY")                   // debugging aid: run a single search
	if adhoc := os.Getenv("C18_CFG"); adhoc != "" { // debugging aid: run one ad-hoc search given as JSON
		var c churnCfg
		if err := json.Unmarshal([]byte(adhoc), &c); err != nil {
			vevid.Fatal("C18_CFG: %v", err)
		}
		runSearch(f, rep, workItem{cfg: c})
		return
	}
	if only != "" {
		var sel []workItem
		for _, it := range items {
			if strings.Contains(it.cfg.Name, only) {
				sel = append(sel, it)
			}
		}
		items = sel
	}
	for _, it := range mine(items, f.Shard, f.Shards) {
		runSearch(f, rep, it)
	}
}

func runSearch(f *vevid.Flags, rep *vevid.Report, it workItem) {
	cfg := it.cfg
	t0 := time.Now()
	var nontrivial int64
	se := &vxstate.Search{
		New: func() (vxstate.System, error) {
			return &countingSys{sys: newSys(&cfg, rep), nontrivial: &nontrivial}, nil
		},
		MaxDepth: cfg.MaxDepth,
		Deadline: f.Deadline,
	}
	if cfg.Workers > 1 {
		se.Shard, se.Shards = it.shard, cfg.Workers
	}
	name := cfg.Name
	if cfg.Workers > 1 {
		name = fmt.Sprintf("%s[%d/%d]", cfg.Name, it.shard, cfg.Workers)
	}
	if err := se.Run(); err != nil {
		if len(se.Violations) == 0 {
			vevid.Fatal("search %s: %v", cfg.Name, err)
		}
		// The engine found that a history does not replay to the same canonical state, AFTER oracle clauses had
		// already failed on concrete executions of the real handlers. Those failures are observations of the code
		// under test (typically the reason why it is order dependent: handlers iterate over Go maps) and are reported;
		// the search itself is incomplete.
		se.Capped = "aborted: " + err.Error()
		if len(se.Capped) > 600 {
			se.Capped = se.Capped[:600]
		}
	}
	rep.States += se.States
	rep.Transitions += se.Transitions
	rep.TracesValidated += se.Transitions
	rep.Evaluations += se.Transitions
	rep.DistinctNontrivial += nontrivial
	res := map[string]interface{}{"states": se.States, "transitions": se.Transitions, "handler_calls_for_replay": se.Replays,
		"max_depth": se.MaxDepthSeen, "states_per_depth": se.DepthCount, "fixpoint": se.Fixpoint, "wall_s": time.Since(t0).Seconds()}
	switch {
	case se.Fixpoint:
		res["end"] = "fixpoint"
	case cfg.MaxDepth > 0 && strings.HasPrefix(se.Capped, "depth cap"):
		// a declared bound of this search (all histories up to MaxDepth events), not an interrupted enumeration
		res["end"] = se.Capped
	default:
		res["end"] = se.Capped
		rep.Cap("search " + name + ": " + se.Capped)
	}
	rep.Extra["search "+name] = res
	for _, v := range se.Violations {
		scen := cfg.Name
		rep.Violate(vevid.Violation{Clause: v.Clause, Scenario: scen, Site: v.Site,
			Detail: v.Detail + "\nhistory: " + strings.Join(v.History, " "),
			Replay: churnReplay{Part: "churn", Config: cfg, History: v.History}})
	}
}

// countingSys measures the non-trivial transitions (by the stated rule) without touching the system.
type countingSys struct {
	*sys
	nontrivial *int64
}

func (c *countingSys) Invariant(prev, ev string) []vxstate.Finding {
	out := c.sys.Invariant(prev, ev)
	st := c.sys.sm.GetStorageState()
	for _, a := range st.ShardAssignments {
		if len(a.Shards) > 0 {
			*c.nontrivial++
			break
		}
	}
	return out
}

func replayChurn(rep *vevid.Report, r churnReplay) {
	fails := 0
	for i := 0; i < 5; i++ {
		s := newSys(&r.Config, rep)
		bad := false
		for _, ev := range r.History {
			if err := s.Apply(ev); err != nil {
				vevid.Fatal("replay: %v", err)
			}
			rep.Evaluations++
			for _, fd := range s.Invariant("", ev) {
				bad = true
				rep.Violate(vevid.Violation{Clause: fd.Clause, Scenario: r.Config.Name, Site: fd.Site,
					Detail: fd.Detail + "\nhistory: " + strings.Join(s.hist, " "), Replay: r})
			}
		}
		rep.Extra["replay_final_state"] = s.Canon()
		s.Close()
		if bad {
			fails++
		}
	}
	rep.Extra["replay_failures_of_5"] = fails
}

func main() {
	f := vevid.ParseFlags()
	rep := vevid.New("C18")
	logger.RunningAtomicLevel.SetLevel(zapcore.FatalLevel)
	if devnull, err := os.OpenFile(os.DevNull, os.O_WRONLY, 0); err == nil {
		os.Stdout = devnull
	}
	initSeeds()
	debug.SetGCPercent(800) // many short-lived managers; the live heap is tiny

	if f.Replay != "" {
		var raw json.RawMessage
		vevid.LoadReplay(f.Replay, &raw)
		var head struct {
			Part string `json:"part"`
		}
		if err := json.Unmarshal(raw, &head); err != nil {
			vevid.Fatal("replay: %v", err)
		}
		switch head.Part {
		case "assign":
			var c assignCase
			_ = json.Unmarshal(raw, &c)
			replayAssign(rep, c)
		case "churn":
			var r churnReplay
			_ = json.Unmarshal(raw, &r)
			replayChurn(rep, r)
		default:
			vevid.Fatal("replay: unknown part %q", head.Part)
		}
		rep.Write()
		return
	}
	switch f.Part {
	case "assign":
		runAssign(f, rep)
	case "churn":
		runChurn(f, rep)
	default:
		vevid.Fatal("unknown part %q", f.Part)
	}
	rep.Write()
}
