package main

import (
	"fmt"

	"github.com/lindb/lindb/coordinator/master"
	"github.com/lindb/lindb/internal/vevid"
	"github.com/lindb/lindb/models"
)

// part "assign": master.ShardAssignment / master.ModifyShardAssignment, bounded exhaustive.

// startSel selects how the start position is chosen: Fixed >= 0 is passed as fixedStartIndex (start = shift =
// Fixed); Fixed < 0 passes -1 and owns the two rand.Intn draws so that they return (Start, Shift).
type startSel struct {
	Fixed int `json:"fixed"`
	Start int `json:"start"`
	Shift int `json:"shift"`
}

func (s startSel) String() string {
	if s.Fixed >= 0 {
		return fmt.Sprintf("fixed%d", s.Fixed)
	}
	return fmt.Sprintf("rand%d.%d", s.Start, s.Shift)
}

type growStep struct {
	Live []int    `json:"live"`
	To   int      `json:"to"`
	Sel  startSel `json:"sel"`
}

type assignCase struct {
	Part       string    `json:"part"`
	Live       []int     `json:"live"`
	Shards     int       `json:"shards"`
	RF         int       `json:"rf"`
	Sel        startSel  `json:"sel"`
	StartShard int       `json:"startShard"` // -1 (what the state manager passes) or 0
	Grow       *growStep `json:"grow,omitempty"`
}

func (c assignCase) Class() string {
	s := fmt.Sprintf("nodes=%d rf=%d", len(c.Live), c.RF)
	if c.Grow != nil {
		s += fmt.Sprintf(" grow(nodes=%d)", len(c.Grow.Live))
	}
	return s
}

var universe = []int{2, 3, 5, 7, 11} // node ids (deliberately not 0..n-1: an index is never a valid id)

func nodeIDs(l []int) []models.NodeID {
	out := make([]models.NodeID, len(l))
	for i, v := range l {
		out[i] = models.NodeID(v)
	}
	return out
}

func subsetsOf(u []int) [][]int {
	var out [][]int
	for m := 1; m < 1<<uint(len(u)); m++ {
		var s []int
		for i, v := range u {
			if m&(1<<uint(i)) != 0 {
				s = append(s, v)
			}
		}
		out = append(out, s)
	}
	return out
}

func selectors(n int) []startSel {
	var out []startSel
	for i := 0; i < n; i++ {
		out = append(out, startSel{Fixed: i})
	}
	for a := 0; a < n; a++ {
		for b := 0; b < n; b++ {
			out = append(out, startSel{Fixed: -1, Start: a, Shift: b})
		}
	}
	return out
}

func (s startSel) arm(n int) int {
	if s.Fixed >= 0 {
		return s.Fixed
	}
	ownRand(n, s.Start, s.Shift)
	return -1
}

func (s startSel) start() int {
	if s.Fixed >= 0 {
		return s.Fixed
	}
	return s.Start
}

type assignRun struct {
	rep             *vevid.Report
	maxShards       int
	predOK, predBad int64
}

func (r *assignRun) violate(c assignCase, fs []finding, site string) {
	for _, f := range fs {
		r.rep.Violate(vevid.Violation{Clause: f.Clause, Scenario: c.Class(), Site: site, Detail: f.Detail + fmt.Sprintf("\ncase: live=%v shards=%d rf=%d start=%s grow=%+v", c.Live, c.Shards, c.RF, c.Sel, c.Grow), Replay: c})
	}
}

// observeStart records which start position / effective shift the code really used (vacuity guard).
func (r *assignRun) observe(kind string, live []int, firstNew int, after shardMap, sel startSel) {
	reps := after[firstNew]
	if len(reps) == 0 {
		return
	}
	n := len(live)
	idx := -1
	for i, v := range live {
		if v == reps[0] {
			idx = i
		}
	}
	key := fmt.Sprintf("%s n=%d firstIdx=%d", kind, n, idx)
	if len(reps) > 1 {
		j := -1
		for i, v := range live {
			if v == reps[1] {
				j = i
			}
		}
		key += fmt.Sprintf(" secondOff=%d", ((j-idx)%n+n)%n)
	}
	r.rep.Outcome(key)
	if idx == (firstNew+sel.start())%n {
		r.predOK++
	} else {
		r.predBad++
	}
}

// base runs ShardAssignment for the case and returns the result (nil on error).
func (r *assignRun) base(c assignCase) (*models.ShardAssignment, error) {
	cfg := &models.Database{Name: "db", NumOfShard: c.Shards, ReplicaFactor: c.RF}
	fixed := c.Sel.arm(len(c.Live))
	return master.ShardAssignment(nodeIDs(c.Live), cfg, fixed, models.ShardID(c.StartShard))
}

func (r *assignRun) runBase(c assignCase) (ok bool) {
	defer func() {
		if p := recover(); p != nil {
			ok = false
			r.rep.Violate(vevid.Violation{Clause: "panic", Scenario: c.Class(), Site: "master.ShardAssignment", Detail: fmt.Sprint(p), Replay: c})
		}
	}()
	r.rep.Evaluations++
	a, err := r.base(c)
	if err != nil {
		r.rep.Outcome(fmt.Sprintf("create error n=%d rf=%d", len(c.Live), c.RF))
		if c.RF <= len(c.Live) {
			// the statement quantifies over replica factors 1..nodes: such a request must be assigned
			r.violate(c, []finding{{"every-shard-assigned", "ShardAssignment refused a legal request: " + err.Error()}}, "master.ShardAssignment")
		}
		return false
	}
	after := toShardMap(a)
	r.violate(c, checkStep(nil, after, c.Live, c.Shards, c.RF), "master.ShardAssignment")
	r.observe("create", c.Live, 0, after, c.Sel)
	if len(c.Live) >= 2 && (c.Shards >= 2 || c.RF >= 2) {
		r.rep.DistinctNontrivial++
	}
	if len(r.rep.Samples) < 3 && len(c.Live) >= 3 && c.Shards >= 4 && c.RF >= 2 && c.Sel.Fixed < 0 {
		r.rep.Sample(map[string]interface{}{"case": c, "assignment": after.String()})
	}
	return true
}

// cloneAssignment rebuilds an assignment through the exported API only.
func cloneAssignment(m shardMap, n int) *models.ShardAssignment {
	a := models.NewShardAssignment("db")
	for id := 0; id < n; id++ {
		for _, node := range m[id] {
			a.AddReplica(models.ShardID(id), models.NodeID(node))
		}
	}
	return a
}

// runGrow: base != nil is the (already checked) result of the base case, given as shard map; nil = recompute it.
func (r *assignRun) runGrow(c assignCase, want shardMap) {
	defer func() {
		if p := recover(); p != nil {
			r.rep.Violate(vevid.Violation{Clause: "panic", Scenario: c.Class(), Site: "master.ModifyShardAssignment", Detail: fmt.Sprint(p), Replay: c})
		}
	}()
	r.rep.Evaluations++
	var a *models.ShardAssignment
	var err error
	before := want
	if want != nil {
		a = cloneAssignment(want, c.Shards)
	} else {
		if a, err = r.base(c); err != nil {
			vevid.OpFailed("base assignment of a growth case failed: %v (%+v)", err, c)
		}
		before = toShardMap(a)
	}
	g := c.Grow
	cfg := &models.Database{Name: "db", NumOfShard: g.To, ReplicaFactor: c.RF}
	fixed := g.Sel.arm(len(g.Live))
	err = master.ModifyShardAssignment(nodeIDs(g.Live), cfg, a, fixed, models.ShardID(len(a.Shards)))
	after := toShardMap(a)
	if err != nil {
		r.rep.Outcome(fmt.Sprintf("grow error n=%d rf=%d", len(g.Live), c.RF))
		fs := checkKept(before, after)
		if len(after) != len(before) {
			fs = append(fs, finding{"grow-keeps-existing", fmt.Sprintf("failed growth changed the assignment: %v -> %v", before, after)})
		}
		if c.RF <= len(g.Live) {
			fs = append(fs, finding{"every-shard-assigned", "ModifyShardAssignment refused a legal request: " + err.Error()})
		}
		r.violate(c, fs, "master.ModifyShardAssignment")
		return
	}
	r.violate(c, checkStep(before, after, g.Live, g.To, c.RF), "master.ModifyShardAssignment")
	r.observe("grow", g.Live, len(before), after, g.Sel)
	// Observation only (NOT an oracle clause): the statement's round-robin clause speaks about "one assignment",
	// which this check reads as the shards handed out by one call. Over the WHOLE database the first replicas can
	// become unbalanced after a growth step, because ModifyShardAssignment starts from a fresh start index instead
	// of continuing the previous round. Counted for growth steps on the unchanged live set.
	if sameList(g.Live, c.Live) {
		cnt := map[int]int{}
		for _, reps := range after {
			if len(reps) > 0 {
				cnt[reps[0]]++
			}
		}
		mn, mx := 1<<30, 0
		for _, n := range g.Live {
			if cnt[n] < mn {
				mn = cnt[n]
			}
			if cnt[n] > mx {
				mx = cnt[n]
			}
		}
		r.rep.Count("obs_growth_same_live_set", 1)
		if mx-mn > 1 {
			r.rep.Count("obs_growth_same_live_set_whole_db_first_replica_counts_differ_by_more_than_1", 1)
			if _, ok := r.rep.Extra["obs_example_whole_db_imbalance_after_growth"]; !ok && c.Shards == 1 && g.To == 2 {
				r.rep.Extra["obs_example_whole_db_imbalance_after_growth"] = fmt.Sprintf("live %v rf %d: create %d shard(s) with %s -> %v; grow to %d with %s -> %v", c.Live, c.RF, c.Shards, c.Sel, before, g.To, g.Sel, after)
			}
		}
	}
	if len(g.Live) >= 2 {
		r.rep.DistinctNontrivial++
	}
	if len(r.rep.Samples) < 6 && g.To-c.Shards >= 2 && len(g.Live) >= 3 && c.RF >= 2 && !sameList(g.Live, c.Live) && g.Sel.Fixed < 0 {
		r.rep.Sample(map[string]interface{}{"case": c, "before": before.String(), "after": after.String()})
	}
}

func runAssign(f *vevid.Flags, rep *vevid.Report) {
	maxShards := 8
	r := &assignRun{rep: rep, maxShards: maxShards}
	subsets := subsetsOf(universe)
	rep.Rule = "every non-empty live set of a 5-node universe x shards 1..8 x replica factor 1..nodes+1 x every start selector " +
		"(fixedStartIndex 0..n-1, and -1 with the two rand.Intn draws owned through a seed table realising every (start, shift) in n x n) " +
		"x startShardID {-1, 0}; every successful assignment (quick tier: those created with a fixed start index) x every larger shard count <= 8 x every live set at growth time x every start selector " +
		"through ModifyShardAssignment. non-trivial = >=2 nodes and (>=2 shards or rf>=2) for creation, >=2 nodes at growth time for growth; " +
		"cases are distinct by construction (distinct parameter tuples)"
	rep.Bounds["universe_nodes"] = len(universe)
	rep.Bounds["live_sets"] = len(subsets)
	rep.Bounds["shards"] = "1..8"
	rep.Bounds["replica_factor"] = "1..nodes (+ nodes+1 as the refused request)"
	rep.Bounds["growth"] = "every (from,to) with from<to<=8, every live set at growth time, every start selector"

	var idx int64
	var baseCases, growCases int64
	stop := false
	for _, live := range subsets {
		n := len(live)
		for shards := 1; shards <= maxShards && !stop; shards++ {
			for rf := 1; rf <= n+1 && !stop; rf++ {
				for _, sel := range selectors(n) {
					for _, ss := range []int{-1, 0} {
						idx++
						if !f.Mine(idx) {
							continue
						}
						if f.Expired() {
							rep.Cap(fmt.Sprintf("deadline at base case %d", idx))
							stop = true
							break
						}
						c := assignCase{Part: "assign", Live: live, Shards: shards, RF: rf, Sel: sel, StartShard: ss}
						baseCases++
						if !r.runBase(c) || ss == 0 {
							continue // growth is driven from the startShardID=-1 variant (identical assignment)
						}
						if !f.Thorough() && sel.Fixed < 0 {
							continue // quick: growth steps start from the n fixed-start assignments of each (live, shards, rf)
						}
						a1, _ := r.base(c)
						a2, _ := r.base(c)
						want := toShardMap(a1)
						if got := toShardMap(a2); got.String() != want.String() {
							vevid.Fatal("un-owned randomness: the same seed produced %v and %v (%+v)", want, got, c)
						}
						for to := shards + 1; to <= maxShards; to++ {
							for _, glive := range subsets {
								for _, gsel := range selectors(len(glive)) {
									gc := c
									gc.Grow = &growStep{Live: glive, To: to, Sel: gsel}
									growCases++
									r.runGrow(gc, want)
								}
							}
						}
					}
					if stop {
						break
					}
				}
			}
		}
	}
	rep.Count("create_cases", baseCases)
	rep.Count("growth_cases", growCases)
	rep.Count("rand_start_as_predicted", r.predOK)
	rep.Count("rand_start_not_as_predicted", r.predBad)
}

func replayAssign(rep *vevid.Report, c assignCase) {
	r := &assignRun{rep: rep, maxShards: 8}
	for i := 0; i < 5; i++ {
		if c.Grow == nil {
			r.runBase(c)
		} else {
			r.runGrow(c, nil)
		}
	}
}
