package main

import (
	"fmt"
	"math/rand"
	"sort"
	"strings"

	"github.com/lindb/lindb/models"
)

// ---- owned randomness -------------------------------------------------------------------------------
//
// coordinator/master/shard_assign.go draws from the GLOBAL math/rand source, exactly twice per call when
// fixedStartIndex < 0:   startIndex = rand.Intn(numOfNode); nextReplicaShift = rand.Intn(numOfNode).
// The harness never lets that be random: before every call that may draw it executes rand.Seed(s) with a
// seed s taken from seedTab[n][a][b], the smallest seed >= 1 for which the first two Intn(n) values after
// rand.Seed(s) are (a, b). The table is computed at start-up by running exactly that draw sequence for
// s = 1, 2, ... until all n*n pairs are realised, so enumerating (a, b) over n x n enumerates every outcome
// the code can draw. That the code really consumed the predicted start value is re-checked on the result
// (first replica of the first new shard == nodes[(firstShardID+a) % n]) and counted in
// extra.rand_start_as_predicted / rand_start_not_as_predicted.
const maxSeedNodes = 6

var seedTab [maxSeedNodes + 1][][]int64

func initSeeds() {
	for n := 1; n <= maxSeedNodes; n++ {
		tab := make([][]int64, n)
		for i := range tab {
			tab[i] = make([]int64, n)
		}
		found := 0
		for s := int64(1); found < n*n; s++ {
			rand.Seed(s) //nolint:staticcheck // deliberate: owns the global source used by the code under test
			a, b := rand.Intn(n), rand.Intn(n)
			if tab[a][b] == 0 {
				tab[a][b] = s
				found++
			}
			if s > 1_000_000 {
				panic("seed table: pair not realised")
			}
		}
		seedTab[n] = tab
	}
}

// ownRand makes the next two global rand.Intn(n) calls return (a, b). n == 0: any fixed seed.
func ownRand(n, a, b int) {
	if n <= 0 || n > maxSeedNodes {
		rand.Seed(1) //nolint:staticcheck
		return
	}
	rand.Seed(seedTab[n][a%n][b%n]) //nolint:staticcheck
}

// ---- assignment oracle (statement, first sentence) ----------------------------------------------------

type finding struct{ Clause, Detail string }

type shardMap map[int][]int // shard id -> ordered replica node ids

func toShardMap(a *models.ShardAssignment) shardMap {
	if a == nil {
		return nil
	}
	m := shardMap{}
	for id, r := range a.Shards {
		var l []int
		if r != nil {
			for _, n := range r.Replicas {
				l = append(l, int(n))
			}
		}
		m[int(id)] = l
	}
	return m
}

func (m shardMap) String() string {
	ids := make([]int, 0, len(m))
	for id := range m {
		ids = append(ids, id)
	}
	sort.Ints(ids)
	var sb strings.Builder
	for i, id := range ids {
		if i > 0 {
			sb.WriteByte(' ')
		}
		fmt.Fprintf(&sb, "%d:%v", id, m[id])
	}
	return "{" + sb.String() + "}"
}

func sameList(a, b []int) bool {
	if len(a) != len(b) {
		return false
	}
	for i := range a {
		if a[i] != b[i] {
			return false
		}
	}
	return true
}

func contains(l []int, x int) bool {
	for _, v := range l {
		if v == x {
			return true
		}
	}
	return false
}

// checkKept: every shard of before is still in after with the identical (ordered) replica list.
func checkKept(before, after shardMap) []finding {
	var out []finding
	ids := make([]int, 0, len(before))
	for id := range before {
		ids = append(ids, id)
	}
	sort.Ints(ids)
	for _, id := range ids {
		got, ok := after[id]
		if !ok {
			out = append(out, finding{"grow-keeps-existing", fmt.Sprintf("shard %d disappeared: before %v after %v", id, before, after)})
			continue
		}
		if !sameList(before[id], got) {
			out = append(out, finding{"grow-keeps-existing", fmt.Sprintf("shard %d moved from %v to %v (before %v after %v)", id, before[id], got, before, after)})
		}
	}
	return out
}

// checkStep evaluates the placement clauses on the shards that one ShardAssignment / ModifyShardAssignment
// call produced: after must consist of the shards of before (unchanged) plus new shards so that the ids are
// exactly 0..numShards-1; every new shard has exactly rf distinct replicas, all of them in live (the nodes
// alive when the call was made); the first replicas of the new shards are spread round-robin over live
// (per-node counts, nodes with zero included, differ by at most one).
func checkStep(before, after shardMap, live []int, numShards, rf int) []finding {
	out := checkKept(before, after)
	if len(after) != numShards {
		out = append(out, finding{"every-shard-assigned", fmt.Sprintf("want shard ids 0..%d, got %v", numShards-1, after)})
	}
	first := map[int]int{}
	for _, n := range live {
		first[n] = 0
	}
	newCnt := 0
	for id := 0; id < numShards; id++ {
		reps, ok := after[id]
		if !ok {
			out = append(out, finding{"every-shard-assigned", fmt.Sprintf("shard %d missing in %v", id, after)})
			continue
		}
		if _, old := before[id]; old {
			continue
		}
		newCnt++
		seen := map[int]bool{}
		dup := false
		for _, n := range reps {
			if seen[n] {
				dup = true
			}
			seen[n] = true
			if !contains(live, n) {
				out = append(out, finding{"replicas-subset-of-live", fmt.Sprintf("shard %d replica %d not among the nodes alive at creation %v (assignment %v)", id, n, live, after)})
			}
		}
		if dup || len(reps) != rf {
			out = append(out, finding{"exactly-rf-distinct", fmt.Sprintf("shard %d has replicas %v, want exactly %d distinct (live %v, assignment %v)", id, reps, rf, live, after)})
		}
		if len(reps) > 0 {
			first[reps[0]]++
		}
	}
	if newCnt > 0 && len(live) > 0 {
		mn, mx := 1<<30, -1
		for _, n := range live {
			if first[n] < mn {
				mn = first[n]
			}
			if first[n] > mx {
				mx = first[n]
			}
		}
		if mx-mn > 1 {
			out = append(out, finding{"first-replica-round-robin", fmt.Sprintf("first replicas of the %d new shards per node %v differ by %d (live %v, before %v after %v)", newCnt, first, mx-mn, live, before, after)})
		}
	}
	return out
}
