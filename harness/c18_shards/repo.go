package main

import (
	"context"
	"errors"
	"sort"
	"strings"

	"github.com/lindb/lindb/pkg/state"
)

// memRepo is an in-memory state.Repository (the exported interface only; etcd is never started).
// It implements what the master code calls (Get / List / Put / Delete, etcd semantics: Get of a missing
// key = state.ErrNotExist, List = keys with the prefix in ascending key order, entries with an empty
// value skipped like etcdRepository.List does). Every mutation is reported to onChange, which is how the
// harness models the watchers of the master's discovery state machines (a Put below a watched prefix
// becomes a pending discovery event; nothing is delivered by the repository itself).
type memRepo struct {
	kv       map[string][]byte
	onChange func(del bool, key string, val []byte)
	calls    int
}

var errUnsupported = errors.New("memRepo: operation not used by the master state manager")

func newMemRepo() *memRepo { return &memRepo{kv: map[string][]byte{}} }

func (r *memRepo) Get(_ context.Context, key string) ([]byte, error) {
	r.calls++
	v, ok := r.kv[key]
	if !ok || len(v) == 0 {
		return nil, state.ErrNotExist
	}
	return append([]byte(nil), v...), nil
}

func (r *memRepo) keys(prefix string) []string {
	var ks []string
	for k := range r.kv {
		if strings.HasPrefix(k, prefix) {
			ks = append(ks, k)
		}
	}
	sort.Strings(ks)
	return ks
}

func (r *memRepo) List(_ context.Context, prefix string) ([]state.KeyValue, error) {
	r.calls++
	var out []state.KeyValue
	for _, k := range r.keys(prefix) {
		if v := r.kv[k]; len(v) > 0 {
			out = append(out, state.KeyValue{Key: k, Value: append([]byte(nil), v...)})
		}
	}
	return out, nil
}

func (r *memRepo) WalkEntry(_ context.Context, prefix string, fn func(key, value []byte)) error {
	for _, k := range r.keys(prefix) {
		fn([]byte(k), r.kv[k])
	}
	return nil
}

func (r *memRepo) Put(_ context.Context, key string, val []byte) error {
	r.calls++
	r.kv[key] = append([]byte(nil), val...)
	if r.onChange != nil {
		r.onChange(false, key, r.kv[key])
	}
	return nil
}

func (r *memRepo) Delete(_ context.Context, key string) error {
	r.calls++
	_, had := r.kv[key]
	delete(r.kv, key)
	if had && r.onChange != nil { // etcd notifies a delete only for an existing key
		r.onChange(true, key, nil)
	}
	return nil
}

func (r *memRepo) PutWithTX(context.Context, string, []byte, func([]byte) error) (bool, error) {
	return false, errUnsupported
}
func (r *memRepo) Heartbeat(context.Context, string, []byte, int64) (<-chan state.Closed, error) {
	return nil, errUnsupported
}
func (r *memRepo) Elect(context.Context, string, []byte, int64) (bool, <-chan state.Closed, error) {
	return false, nil, errUnsupported
}
func (r *memRepo) Watch(context.Context, string, bool) state.WatchEventChan       { return nil }
func (r *memRepo) WatchPrefix(context.Context, string, bool) state.WatchEventChan { return nil }
func (r *memRepo) Batch(context.Context, state.Batch) (bool, error)               { return false, errUnsupported }
func (r *memRepo) NextSequence(context.Context, string) (int64, error)            { return 0, errUnsupported }
func (r *memRepo) NewTransaction() state.Transaction                              { return nil }
func (r *memRepo) Commit(context.Context, state.Transaction) error                { return errUnsupported }
func (r *memRepo) Close() error                                                   { return nil }

var _ state.Repository = (*memRepo)(nil)
