package main

import (
	"context"
	"encoding/json"
	"fmt"
	"sort"
	"strconv"
	"strings"

	"github.com/lindb/lindb/constants"
	"github.com/lindb/lindb/coordinator/discovery"
	"github.com/lindb/lindb/coordinator/master"
	"github.com/lindb/lindb/internal/vevid"
	"github.com/lindb/lindb/internal/vxstate"
	"github.com/lindb/lindb/models"
)

// part "churn": explicit-state search over the REAL master.stateManager (real constructor, real
// processEvent, real storageCluster / replicaLeaderElector / models.StorageState) on top of memRepo.
//
// World model. The environment owns the repository keys a real cluster owns: storage nodes register /
// expire under /storage/live/nodes/<id>, the broker API writes / deletes /database/config/<name>. The
// master's discovery state machines are modelled by watcher queues: a change below a watched prefix
// (live nodes, database config, shard assignment - the latter written by the manager itself) appends the
// discovery.Event the corresponding state machine of state_machine_factory.go would emit. Lag = 0: the
// queue is one FIFO and is drained completely inside the environment event (what happens when the
// watchers are faster than the environment). Lag = k > 0: three queues (node / config / assignment
// watcher, each FIFO like one etcd watch stream), at most k pending events each, and the search chooses
// which queue delivers next (every interleaving of the three watcher goroutines feeding the manager's
// channel).
type churnCfg struct {
	Name      string   `json:"name"`
	Nodes     int      `json:"nodes"` // node ids 1..Nodes
	DBs       []string `json:"dbs"`
	MaxShards int      `json:"maxShards"`
	MaxRF     int      `json:"maxRF"`
	Lag       int      `json:"lag"`
	MaxDepth  int      `json:"maxDepth"` // 0 = until fixpoint
	Workers   int      `json:"workers"`  // >1: the depth-bounded search is split by depth-1 state over that many work items
	Cost      int      `json:"-"`        // rough seconds per work item, only used to balance the workers
	// Failover: once per path, while nothing is in flight, the master is replaced by a new state manager over the same
	// repository; the new manager's watchers deliver the existing live nodes, database configs and shard assignments
	// as their first events, in any order between the three watchers
	Failover bool `json:"failover,omitempty"`
}

const (
	qNode = iota
	qCfg
	qAssign
	numQ
)

var qName = [numQ]string{"node", "cfg", "assign"}

// handlerRec is what the harness recorded around one handler call (ghost data for the step clauses).
type handlerRec struct {
	ev         *discovery.Event
	db         string
	cfg        *models.Database
	liveAtCall []int
	repoBefore shardMap // assignment stored in the repository before / after the handler
	repoAfter  shardMap
	hadBefore  bool
	hasAfter   bool
	mgrBefore  map[string]shardMap // StorageState.ShardAssignments before / after
	mgrAfter   map[string]shardMap
	panicked   bool
}

type sys struct {
	cfg    *churnCfg
	repo   *memRepo
	sm     master.StateManager
	cancel context.CancelFunc
	queues [numQ][]*discovery.Event
	recs   []handlerRec
	// ghost: nodes whose last DELIVERED node event is a start ("alive" in the sense of the statement: after any
	// sequence of node start and failure events). Part of Canon; equals the manager's live set unless that is wrong.
	evLive map[int]bool
	hist   []string
	rep    *vevid.Report
	// failedOver: the state manager was replaced once on this path
	failedOver bool
}

func nodeKey(id int) string { return constants.GetStorageLiveNodePath(strconv.Itoa(id)) }

func nodeVal(id int) []byte {
	n := models.StatefulNode{ID: models.NodeID(id)}
	n.HostIP, n.HostName, n.GRPCPort, n.HTTPPort, n.OnlineTime, n.Version = fmt.Sprintf("10.0.0.%d", id), fmt.Sprintf("n%d", id), 2891, 2892, 1700000000000, "v"
	b, _ := json.Marshal(&n)
	return b
}

func newSys(cfg *churnCfg, rep *vevid.Report) *sys {
	s := &sys{cfg: cfg, repo: newMemRepo(), rep: rep, evLive: map[int]bool{}}
	ctx, cancel := context.WithCancel(context.Background())
	s.cancel = cancel
	// real constructor. Its consumeEvent goroutine stays parked on the (never used) channel: events are fed
	// synchronously through master.VerifProcessEvent -> processEvent, which takes the manager's own mutex.
	s.sm = master.NewStateManager(ctx, s.repo, nil)
	s.repo.onChange = s.onChange
	return s
}

func (s *sys) Close() {
	s.sm.Close()
	s.cancel()
}

func (s *sys) onChange(del bool, key string, val []byte) {
	var q int
	var e *discovery.Event
	switch {
	case strings.HasPrefix(key, constants.StorageLiveNodesPath+"/"):
		q = qNode
		if del {
			e = &discovery.Event{Type: discovery.NodeFailure, Key: key}
		} else {
			e = &discovery.Event{Type: discovery.NodeStartup, Key: key, Value: val}
		}
	case strings.HasPrefix(key, constants.DatabaseConfigPath+"/"):
		q = qCfg
		if del {
			e = &discovery.Event{Type: discovery.DatabaseConfigDeletion, Key: key}
		} else {
			e = &discovery.Event{Type: discovery.DatabaseConfigChanged, Key: key, Value: val}
		}
	case strings.HasPrefix(key, constants.ShardAssignmentPath+"/"):
		q = qAssign
		if del {
			e = &discovery.Event{Type: discovery.ShardAssignmentDeletion, Key: key}
		} else {
			e = &discovery.Event{Type: discovery.ShardAssignmentChanged, Key: key, Value: val}
		}
	default:
		return // /storage/state, /database/limit: not watched by the master's state machines that feed this manager
	}
	if s.cfg.Lag == 0 {
		q = 0
	}
	s.queues[q] = append(s.queues[q], e)
}

// ---- observation ----------------------------------------------------------------------------------------

func (s *sys) evLiveList() []int {
	var out []int
	for id := range s.evLive {
		out = append(out, id)
	}
	sort.Ints(out)
	return out
}

func (s *sys) repoLive() []int {
	var out []int
	for id := 1; id <= s.cfg.Nodes; id++ {
		if _, ok := s.repo.kv[nodeKey(id)]; ok {
			out = append(out, id)
		}
	}
	return out
}

func (s *sys) repoCfg(db string) *models.Database {
	v, ok := s.repo.kv[constants.GetDatabaseConfigPath(db)]
	if !ok {
		return nil
	}
	c := &models.Database{}
	if err := json.Unmarshal(v, c); err != nil {
		vevid.Fatal("harness wrote an undecodable database config: %v", err)
	}
	return c
}

func (s *sys) repoAssign(db string) (shardMap, bool) {
	v, ok := s.repo.kv[constants.GetDatabaseAssignPath(db)]
	if !ok {
		return nil, false
	}
	a := &models.ShardAssignment{}
	if err := json.Unmarshal(v, a); err != nil {
		return shardMap{-1: {-1}}, true // undecodable: shows up as a moved / missing shard
	}
	return toShardMap(a), true
}

func mgrAssignments(st *models.StorageState) map[string]shardMap {
	out := map[string]shardMap{}
	for db, a := range st.ShardAssignments {
		out[db] = toShardMap(a)
	}
	return out
}

func sortedKeys[V any](m map[string]V) []string {
	ks := make([]string, 0, len(m))
	for k := range m {
		ks = append(ks, k)
	}
	sort.Strings(ks)
	return ks
}

func stateName(t models.ShardStateType) string {
	switch t {
	case models.OnlineShard:
		return "on"
	case models.OfflineShard:
		return "off"
	default:
		return fmt.Sprintf("st%d", int(t))
	}
}

// Canon: every datum a handler reads is in here, so two histories with the same canonical form have the same
// futures: the handlers read (1) the manager's maps databases / shardAssignments and the StorageState
// (LiveNodes keys, ShardAssignments, ShardStates incl. leader and replica list), (2) the repository keys
// below /storage/live/nodes, /database/config, /database/assign, (3) the pending watcher events; node
// values are a function of the node id. /storage/state is only written, never read, and is left out; metric
// counters, loggers and the context are not state. All maps are emitted in sorted order.
func (s *sys) Canon() string {
	var sb strings.Builder
	st := s.sm.GetStorageState()
	var live []int
	for id := range st.LiveNodes {
		live = append(live, int(id))
	}
	sort.Ints(live)
	fmt.Fprintf(&sb, "L%v E%v R%v", live, s.evLiveList(), s.repoLive())
	if s.failedOver {
		sb.WriteString(" failed-over")
	}
	dbs := map[string]struct{}{}
	for _, d := range s.cfg.DBs {
		dbs[d] = struct{}{}
	}
	mdbs := map[string]models.Database{}
	for _, d := range s.sm.GetDatabases() {
		mdbs[d.Name] = d
		dbs[d.Name] = struct{}{}
	}
	masg := map[string]shardMap{}
	for _, a := range s.sm.GetShardAssignments() {
		a := a
		masg[a.Name] = toShardMap(&a)
		dbs[a.Name] = struct{}{}
	}
	for d := range st.ShardAssignments {
		dbs[d] = struct{}{}
	}
	for d := range st.ShardStates {
		dbs[d] = struct{}{}
	}
	for _, d := range sortedKeys(dbs) {
		fmt.Fprintf(&sb, " |%s", d)
		if c := s.repoCfg(d); c != nil {
			fmt.Fprintf(&sb, " cfg=%d/%d", c.NumOfShard, c.ReplicaFactor)
		}
		if a, ok := s.repoAssign(d); ok {
			fmt.Fprintf(&sb, " ra=%v", a)
		}
		if c, ok := mdbs[d]; ok {
			fmt.Fprintf(&sb, " mdb=%d/%d", c.NumOfShard, c.ReplicaFactor)
		}
		if a, ok := masg[d]; ok {
			fmt.Fprintf(&sb, " ma=%v", a)
		}
		if a, ok := st.ShardAssignments[d]; ok {
			fmt.Fprintf(&sb, " sa=%v", toShardMap(a))
		}
		if ss, ok := st.ShardStates[d]; ok {
			ids := make([]int, 0, len(ss))
			for id := range ss {
				ids = append(ids, int(id))
			}
			sort.Ints(ids)
			sb.WriteString(" ss={")
			for _, id := range ids {
				x := ss[models.ShardID(id)]
				fmt.Fprintf(&sb, "%d:%s,l%d,%v;", id, stateName(x.State), int(x.Leader), x.Replica.Replicas)
			}
			sb.WriteString("}")
		}
	}
	for q := 0; q < numQ; q++ {
		if len(s.queues[q]) == 0 {
			continue
		}
		fmt.Fprintf(&sb, " Q%s[", qName[q])
		for _, e := range s.queues[q] {
			fmt.Fprintf(&sb, "%s %s %s;", e.Type, e.Key, e.Value)
		}
		sb.WriteString("]")
	}
	return sb.String()
}

// ---- events -----------------------------------------------------------------------------------------------

func randVariants(n int) []string {
	if n <= 0 {
		return []string{"r0.0"}
	}
	var out []string
	for a := 0; a < n; a++ {
		for b := 0; b < n; b++ {
			out = append(out, fmt.Sprintf("r%d.%d", a, b))
		}
	}
	return out
}

func (s *sys) room(q int) bool { return s.cfg.Lag == 0 || len(s.queues[q]) < s.cfg.Lag }

// Enabled: the environment's moves (node registers / expires, database created / grown / dropped) plus, with
// Lag > 0, the delivery of the head of one watcher queue. A move whose handler may draw from math/rand comes
// in one variant per (start, shift) outcome for the number of nodes registered right now.
func (s *sys) Enabled() []string {
	var evs []string
	live := s.repoLive()
	sync := s.cfg.Lag == 0
	rv := []string{""}
	if sync {
		rv = randVariants(len(live))
	}
	if s.room(qNode) {
		for id := 1; id <= s.cfg.Nodes; id++ {
			if contains(live, id) {
				evs = append(evs, fmt.Sprintf("down:%d", id))
			} else {
				evs = append(evs, fmt.Sprintf("up:%d", id))
			}
		}
	}
	if s.room(qCfg) {
		for _, db := range s.cfg.DBs {
			c := s.repoCfg(db)
			if c == nil {
				for sh := 1; sh <= s.cfg.MaxShards; sh++ {
					for rf := 1; rf <= s.cfg.MaxRF; rf++ {
						for _, r := range rv {
							evs = append(evs, strings.TrimSuffix(fmt.Sprintf("create:%s:%d:%d:%s", db, sh, rf, r), ":"))
						}
					}
				}
				continue
			}
			for to := c.NumOfShard + 1; to <= s.cfg.MaxShards; to++ {
				for _, r := range rv {
					evs = append(evs, strings.TrimSuffix(fmt.Sprintf("grow:%s:%d:%s", db, to, r), ":"))
				}
			}
			// the same config written again (create issued twice / retried): one variant per rand outcome while no
			// assignment is stored (the handler then assigns), a single variant otherwise
			if _, has := s.repoAssign(db); has {
				evs = append(evs, strings.TrimSuffix("touch:"+db+":"+rv[0], ":"))
			} else {
				for _, r := range rv {
					evs = append(evs, strings.TrimSuffix("touch:"+db+":"+r, ":"))
				}
			}
			evs = append(evs, "drop:"+db)
		}
	}
	if s.cfg.Failover && !s.failedOver && s.quiescent() {
		for _, db := range s.cfg.DBs {
			if _, has := s.repoAssign(db); has {
				evs = append(evs, "failover")
				break
			}
		}
	}
	if !sync {
		for q := 0; q < numQ; q++ {
			if len(s.queues[q]) == 0 {
				continue
			}
			if s.queues[q][0].Type == discovery.DatabaseConfigChanged {
				for _, r := range randVariants(len(live)) {
					evs = append(evs, "deliver:"+qName[q]+":"+r)
				}
			} else {
				evs = append(evs, "deliver:"+qName[q])
			}
		}
	}
	return evs
}

func parseRand(f string) (a, b int, err error) {
	if !strings.HasPrefix(f, "r") {
		return 0, 0, fmt.Errorf("bad rand selector %q", f)
	}
	p := strings.Split(f[1:], ".")
	if len(p) != 2 {
		return 0, 0, fmt.Errorf("bad rand selector %q", f)
	}
	a, err = strconv.Atoi(p[0])
	if err != nil {
		return
	}
	b, err = strconv.Atoi(p[1])
	return
}

func dbOfKey(key string) string {
	i := strings.LastIndex(key, "/")
	return key[i+1:]
}

// deliver feeds one pending event into the real manager; (a, b) are the values its two rand.Intn draws (if any)
// will return.
func (s *sys) deliver(e *discovery.Event, a, b int) {
	rec := handlerRec{ev: e}
	st := s.sm.GetStorageState()
	rec.mgrBefore = mgrAssignments(st)
	switch e.Type {
	case discovery.DatabaseConfigChanged, discovery.DatabaseConfigDeletion:
		rec.db = dbOfKey(e.Key)
		rec.repoBefore, rec.hadBefore = s.repoAssign(rec.db)
		rec.liveAtCall = s.repoLive()
		if e.Type == discovery.DatabaseConfigChanged {
			rec.cfg = &models.Database{}
			if err := json.Unmarshal(e.Value, rec.cfg); err != nil {
				vevid.Fatal("undecodable config event: %v", err)
			}
		}
	}
	switch e.Type {
	case discovery.NodeStartup, discovery.NodeFailure:
		id, err := strconv.Atoi(dbOfKey(e.Key))
		if err != nil {
			vevid.Fatal("node event with key %q", e.Key)
		}
		if e.Type == discovery.NodeStartup {
			s.evLive[id] = true
		} else {
			delete(s.evLive, id)
		}
	}
	if e.Type == discovery.DatabaseConfigChanged {
		// the only handler that reaches shard_assign.go. (Seeding costs ~10us; should another handler ever draw from
		// math/rand, its outcome would differ between replays and the engine reports the nondeterministic replay.)
		ownRand(len(rec.liveAtCall), a, b)
	}
	rec.panicked = master.VerifProcessEvent(s.sm, e)
	if rec.db != "" {
		rec.repoAfter, rec.hasAfter = s.repoAssign(rec.db)
	}
	rec.mgrAfter = mgrAssignments(s.sm.GetStorageState())
	s.recs = append(s.recs, rec)
}

func (s *sys) Apply(ev string) error {
	s.recs = s.recs[:0]
	s.hist = append(s.hist, ev)
	p := strings.Split(ev, ":")
	ctx := context.Background()
	a, b := 0, 0
	var err error
	switch p[0] {
	case "up", "down":
		id, e := strconv.Atoi(p[1])
		if e != nil {
			return e
		}
		if p[0] == "up" {
			_ = s.repo.Put(ctx, nodeKey(id), nodeVal(id))
		} else {
			_ = s.repo.Delete(ctx, nodeKey(id))
		}
	case "create", "grow", "touch":
		db := p[1]
		var c models.Database
		ri := 0
		if p[0] == "create" {
			if len(p) < 4 {
				return fmt.Errorf("bad event %q", ev)
			}
			c.Name = db
			c.NumOfShard, _ = strconv.Atoi(p[2])
			c.ReplicaFactor, _ = strconv.Atoi(p[3])
			ri = 4
		} else {
			old := s.repoCfg(db)
			if old == nil {
				return fmt.Errorf("%s of unknown database %q", p[0], db)
			}
			c = *old
			ri = 2
			if p[0] == "grow" {
				c.NumOfShard, _ = strconv.Atoi(p[2])
				ri = 3
			}
		}
		if len(p) > ri {
			if a, b, err = parseRand(p[ri]); err != nil {
				return err
			}
		}
		js, _ := json.Marshal(&c)
		_ = s.repo.Put(ctx, constants.GetDatabaseConfigPath(db), js)
	case "drop":
		_ = s.repo.Delete(ctx, constants.GetDatabaseConfigPath(p[1]))
	case "failover":
		s.sm.Close()
		s.cancel()
		nctx, cancel := context.WithCancel(context.Background())
		s.cancel = cancel
		s.sm = master.NewStateManager(nctx, s.repo, nil)
		s.failedOver = true
		s.evLive = map[int]bool{} // the new manager has seen no node event yet
		for _, id := range s.repoLive() {
			s.queues[qNode] = append(s.queues[qNode], &discovery.Event{Type: discovery.NodeStartup, Key: nodeKey(id), Value: nodeVal(id)})
		}
		for _, db := range s.cfg.DBs {
			if v, err := s.repo.Get(ctx, constants.GetDatabaseConfigPath(db)); err == nil {
				s.queues[qCfg] = append(s.queues[qCfg], &discovery.Event{Type: discovery.DatabaseConfigChanged, Key: constants.GetDatabaseConfigPath(db), Value: v})
			}
			if v, err := s.repo.Get(ctx, constants.GetDatabaseAssignPath(db)); err == nil {
				s.queues[qAssign] = append(s.queues[qAssign], &discovery.Event{Type: discovery.ShardAssignmentChanged, Key: constants.GetDatabaseAssignPath(db), Value: v})
			}
		}
		return nil
	case "deliver":
		q := -1
		for i := range qName {
			if qName[i] == p[1] {
				q = i
			}
		}
		if q < 0 || len(s.queues[q]) == 0 {
			return fmt.Errorf("nothing to deliver for %q", ev)
		}
		if len(p) > 2 {
			if a, b, err = parseRand(p[2]); err != nil {
				return err
			}
		}
		e := s.queues[q][0]
		s.queues[q] = s.queues[q][1:]
		s.deliver(e, a, b)
		return nil
	default:
		return fmt.Errorf("unknown event %q", ev)
	}
	if s.cfg.Lag == 0 {
		for n := 0; len(s.queues[0]) > 0; n++ {
			if n > 64 {
				return fmt.Errorf("watch events do not quiesce after %q", ev)
			}
			e := s.queues[0][0]
			s.queues[0] = s.queues[0][1:]
			s.deliver(e, a, b)
		}
	}
	return nil
}

// ---- oracle -------------------------------------------------------------------------------------------------

func (s *sys) quiescent() bool {
	for q := 0; q < numQ; q++ {
		if len(s.queues[q]) > 0 {
			return false
		}
	}
	return true
}

func (s *sys) Invariant(_ string, ev string) []vxstate.Finding {
	var out []vxstate.Finding
	add := func(clause, site, detail string) {
		out = append(out, vxstate.Finding{Clause: clause, Site: site, Detail: detail})
	}
	st := s.sm.GetStorageState()
	alive := func(n int) bool { _, ok := st.LiveNodes[models.NodeID(n)]; return ok }
	var live []int
	for id := range st.LiveNodes {
		live = append(live, int(id))
	}
	sort.Ints(live)

	// (0) the manager's live set is the set of nodes whose last delivered event is a start
	if ev := s.evLiveList(); !sameList(ev, live) {
		add("live-set-follows-node-events", "StorageState.LiveNodes", fmt.Sprintf("manager live set %v, nodes whose last delivered event is a start %v", live, ev))
	}

	// (1) state clauses, w.r.t. the manager's own live set, on every shard the manager knows.
	nOn, nOff := 0, 0
	dbs := map[string]struct{}{}
	for d := range st.ShardAssignments {
		dbs[d] = struct{}{}
	}
	for d := range st.ShardStates {
		dbs[d] = struct{}{}
	}
	for _, d := range sortedKeys(dbs) {
		asg := toShardMap(st.ShardAssignments[d])
		states := st.ShardStates[d]
		ids := map[int]struct{}{}
		for id := range asg {
			ids[id] = struct{}{}
		}
		for id := range states {
			ids[int(id)] = struct{}{}
		}
		var sids []int
		for id := range ids {
			sids = append(sids, id)
		}
		sort.Ints(sids)
		for _, id := range sids {
			reps, assigned := asg[id]
			x, has := states[models.ShardID(id)]
			if !assigned {
				for _, n := range x.Replica.Replicas {
					reps = append(reps, int(n))
				}
			}
			anyAlive := false
			for _, n := range reps {
				if alive(n) {
					anyAlive = true
				}
			}
			online := has && x.State == models.OnlineShard
			where := fmt.Sprintf("db %s shard %d replicas %v state %s leader %d, manager live set %v", d, id, reps, stateName(x.State), int(x.Leader), live)
			if !has {
				where = fmt.Sprintf("db %s shard %d replicas %v has no shard state, manager live set %v", d, id, reps, live)
			}
			if online != anyAlive {
				add("online-iff-replica-alive", "StorageState.ShardStates", where)
			}
			if online {
				nOn++
				if !contains(reps, int(x.Leader)) || !alive(int(x.Leader)) {
					add("leader-is-alive-replica", "StorageState.ShardStates", where)
				}
			} else {
				nOff++
				if has && alive(int(x.Leader)) {
					add("offline-claims-no-leader", "StorageState.ShardStates", where)
				}
			}
		}
		// placement clause on the manager's view: exactly rf distinct replicas per shard (synchronous model only:
		// with lagging watchers the manager's config and its assignment may legitimately belong to two incarnations
		// of the database; there the clause is checked on the handler call that creates the shards)
		if c := s.cfgOf(d); c != nil && s.cfg.Lag == 0 {
			for _, id := range sids {
				reps, ok := asg[id]
				if !ok {
					continue
				}
				seen := map[int]bool{}
				for _, n := range reps {
					seen[n] = true
				}
				if len(seen) != len(reps) || len(reps) != c.ReplicaFactor {
					add("exactly-rf-distinct", "StorageState.ShardAssignments", fmt.Sprintf("db %s shard %d replicas %v, replica factor %d", d, id, reps, c.ReplicaFactor))
				}
			}
		}
	}

	// (2) step clauses on every handler call of this transition
	for i := range s.recs {
		r := &s.recs[i]
		site := "stateManager." + r.ev.Type.String()
		if r.panicked {
			add("panic", site, fmt.Sprintf("handler panicked (recovered by processEvent, state lost) for %s %s", r.ev.Type, r.ev.Key))
		}
		// no handler may move a shard that exists before and after it. With lagging watchers the manager's view may be
		// REPLACED by the assignment of a newer incarnation of the database (drop + create while an old
		// ShardAssignmentChanged is still in flight), which is not a moved shard: there the clause is evaluated for all
		// other handlers, and for the assignment itself on the stored assignment (grow-keeps-existing below).
		for _, d := range sortedKeys(r.mgrBefore) {
			if s.cfg.Lag > 0 && r.ev.Type == discovery.ShardAssignmentChanged {
				break
			}
			if after, ok := r.mgrAfter[d]; ok {
				keep := shardMap{}
				for id, l := range r.mgrBefore[d] {
					if _, still := after[id]; still {
						keep[id] = l
					}
				}
				for _, f := range checkKept(keep, after) {
					add("existing-shards-stay", site, "manager view of db "+d+": "+f.Detail)
				}
			}
		}
		switch r.ev.Type {
		case discovery.DatabaseConfigChanged:
			switch {
			case r.hasAfter && (!r.hadBefore || len(r.repoAfter) != len(r.repoBefore)):
				for _, f := range checkStep(r.repoBefore, r.repoAfter, r.liveAtCall, r.cfg.NumOfShard, r.cfg.ReplicaFactor) {
					add(f.Clause, site, fmt.Sprintf("db %s: %s", r.db, f.Detail))
				}
			case r.hadBefore:
				if !r.hasAfter {
					add("grow-keeps-existing", site, fmt.Sprintf("db %s: stored assignment %v removed by a config change", r.db, r.repoBefore))
				}
				for _, f := range checkKept(r.repoBefore, r.repoAfter) {
					add(f.Clause, site, fmt.Sprintf("db %s: %s", r.db, f.Detail))
				}
			}
			if r.cfg.ReplicaFactor <= len(r.liveAtCall) && (!r.hasAfter || len(r.repoAfter) != r.cfg.NumOfShard) {
				add("every-shard-assigned", site, fmt.Sprintf("db %s: %d shards x rf %d requested with nodes %v registered, stored assignment afterwards: %v", r.db, r.cfg.NumOfShard, r.cfg.ReplicaFactor, r.liveAtCall, r.repoAfter))
			}
		case discovery.DatabaseConfigDeletion:
			if msg := s.traces(r.db, st); msg != "" {
				add("dropped-db-leaves-no-state", site, "after the deletion handler of db "+r.db+": "+msg)
			}
		}
	}

	// (4) after a fail-over, once the new manager has received everything: every database that has a config and a
	// shard assignment in the repository is known to it, with a state for every assigned shard (the state clauses of
	// (1) then apply to it)
	if s.failedOver && s.quiescent() {
		for _, d := range s.cfg.DBs {
			asg, has := s.repoAssign(d)
			if !has || s.repoCfg(d) == nil {
				continue
			}
			for id := range asg {
				if _, ok := st.ShardStates[d][models.ShardID(id)]; !ok {
					add("failover-database-known", "StorageState.ShardStates", fmt.Sprintf("after the fail-over db %s shard %d (assigned in the repository) has no shard state in the new manager; history %v", d, id, s.hist))
					break
				}
			}
		}
	}
	// (3) synchronous model: whenever nothing is in flight, a database without a config key has no state
	if s.quiescent() {
		for _, d := range s.allDBs(st) {
			if s.repoCfg(d) != nil {
				continue
			}
			if msg := s.traces(d, st); msg != "" {
				if s.cfg.Lag == 0 {
					add("dropped-db-leaves-no-state", "StorageState", "db "+d+" has no config key: "+msg)
				} else {
					// with lagging watchers a stale ShardAssignmentChanged can be delivered after the deletion; the
					// statement does not speak about that, it is only counted
					s.rep.Count("async_quiescent_states_with_state_of_a_dropped_db", 1)
				}
			}
		}
	}

	s.rep.Outcome(fmt.Sprintf("live=%d on=%d off=%d", len(live), nOn, nOff))
	if len(out) == 0 {
		for i := range s.recs {
			r := &s.recs[i]
			switch r.ev.Type {
			case discovery.NodeFailure:
				s.classifyFailover(r, st)
			case discovery.NodeStartup:
				s.rep.Count("node_startup_handled", 1)
			case discovery.DatabaseConfigChanged:
				if r.hasAfter && !r.hadBefore {
					s.rep.Count("assignments_created", 1)
				} else if r.hasAfter && len(r.repoAfter) > len(r.repoBefore) {
					s.rep.Count("assignments_grown", 1)
				} else if !r.hasAfter {
					s.rep.Count("assignments_refused", 1)
				}
			case discovery.DatabaseConfigDeletion:
				s.rep.Count("databases_dropped", 1)
			}
		}
		if nOff > 0 && nOn > 0 && len(s.hist) >= 4 {
			s.rep.Sample(map[string]interface{}{"config": s.cfg.Name, "history": append([]string{}, s.hist...), "state": s.Canon()})
		}
	}
	_ = ev
	return out
}

func (s *sys) classifyFailover(r *handlerRec, st *models.StorageState) {
	s.rep.Count("node_failure_handled", 1)
}

// cfgOf returns the database config the manager holds for db (nil if none).
func (s *sys) cfgOf(db string) *models.Database {
	for _, d := range s.sm.GetDatabases() {
		if d.Name == db {
			d := d
			return &d
		}
	}
	return nil
}

func (s *sys) allDBs(st *models.StorageState) []string {
	m := map[string]struct{}{}
	for _, d := range s.cfg.DBs {
		m[d] = struct{}{}
	}
	for d := range st.ShardAssignments {
		m[d] = struct{}{}
	}
	for d := range st.ShardStates {
		m[d] = struct{}{}
	}
	for _, d := range s.sm.GetDatabases() {
		m[d.Name] = struct{}{}
	}
	for _, a := range s.sm.GetShardAssignments() {
		m[a.Name] = struct{}{}
	}
	return sortedKeys(m)
}

// traces lists what is still known about db ("" = nothing).
func (s *sys) traces(db string, st *models.StorageState) string {
	var t []string
	if _, ok := st.ShardAssignments[db]; ok {
		t = append(t, "StorageState.ShardAssignments")
	}
	if _, ok := st.ShardStates[db]; ok {
		t = append(t, "StorageState.ShardStates")
	}
	for _, d := range s.sm.GetDatabases() {
		if d.Name == db {
			t = append(t, "stateManager.databases")
		}
	}
	for _, a := range s.sm.GetShardAssignments() {
		if a.Name == db {
			t = append(t, "stateManager.shardAssignments")
		}
	}
	if _, ok := s.repo.kv[constants.GetDatabaseAssignPath(db)]; ok {
		t = append(t, "repository "+constants.GetDatabaseAssignPath(db))
	}
	return strings.Join(t, ", ")
}
