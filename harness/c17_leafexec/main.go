// C17 part leafexec: "a leaf node executes the statement the root planned", observed on the real root and leaf.
// A real root (RootMetricContext: plan + send stages) plans each statement of a grid of time ranges (past, across
// the current moment, in the future), intervals, functions and group-by; the request it sends is handed to the real
// leaf task processor of a node that holds data before and after the current moment. The leaf's answer carries the
// time range and interval it executed (TimeSeriesList.Start/End/Interval): they must be the ones of the statement
// the root planned (= the payload it sent), and the points it returns must be exactly the written points inside that
// range.
package main

import (
	"fmt"
	"os"
	"sort"
	"strings"
	"time"

	"github.com/lindb/lindb/internal/vbox"
	"github.com/lindb/lindb/internal/vevid"
	"github.com/lindb/lindb/models"
	"github.com/lindb/lindb/pkg/option"
	"github.com/lindb/lindb/pkg/timeutil"
	protoCommonV1 "github.com/lindb/lindb/proto/gen/v1/common"
	"github.com/lindb/lindb/sql/stmt"
)

type Case struct {
	StartMin int    `json:"start_min"` // minutes relative to the harness' "now"
	EndMin   int    `json:"end_min"`
	Interval string `json:"interval"` // "" | 10s | 1m | 5m
	Select   string `json:"select"`
	GroupBy  bool   `json:"group_by_host"`
}

func (c Case) sql() string {
	s := "select " + c.Select + " from m"
	var gb []string
	if c.GroupBy {
		gb = append(gb, "host")
	}
	if c.Interval != "" {
		gb = append(gb, "time("+c.Interval+")")
	}
	if len(gb) > 0 {
		s += " group by " + strings.Join(gb, ",")
	}
	return s
}

func (c Case) String() string {
	return fmt.Sprintf("range=[now%+dm, now%+dm] %s", c.StartMin, c.EndMin, c.sql())
}

var node = "10.0.0.1:2891"

// written points: minutes relative to now (one point per host and minute offset), value = 3^k
var pointMin = []int{-50, -20, -3, 4, 12, 25, 40}

func main() {
	f := vevid.ParseFlags()
	rep := vevid.New("C17")
	rep.Rule = "case = (time range start x end relative to the current moment, interval, select item, group by); the real root plans the statement, the real leaf task processor of a node holding points before and after the current moment answers the request the root sent; oracle: the leaf's executed time range / interval (carried by its answer) equal those of the planned statement, the payload the root sent equals its planned statement, and the answer holds exactly the written points inside the planned range. non-trivial = the planned range ends after the current moment"
	opt := &option.DatabaseOption{Intervals: option.Intervals{{Interval: timeutil.Interval(10_000), Retention: timeutil.Interval(3000 * 24 * 3600 * 1000)}}, AutoCreateNS: true}
	c, err := vbox.OpenCluster(f.Scratch+"/eng", "db", opt, []string{node}, []models.ShardID{0})
	if err != nil {
		vevid.OpFailed("open: %v", err)
	}
	defer func() {
		c.Close()
		os.RemoveAll(f.Scratch + "/eng")
	}()
	now := time.Now().UnixMilli() / 60_000 * 60_000 // the harness' "now": the current minute
	type pt struct {
		host string
		ts   int64
		v    float64
	}
	var pts []pt
	v := 1.0
	for _, host := range []string{"a", "b"} {
		for _, m := range pointMin {
			p := pt{host, now + int64(m)*60_000 + 20_000, v}
			v *= 3
			pts = append(pts, p)
			vp := vbox.Point{Metric: "m", Tags: map[string]string{"host": host}, Field: "f", Type: "sum", Value: p.v, Timestamp: p.ts}
			_, block, err := vbox.Route(vp, 1)
			if err != nil {
				vevid.OpFailed("route: %v", err)
			}
			if err := c.Nodes[node].WriteBlock(0, vp.Timestamp, block); err != nil {
				vevid.OpFailed("write: %v", err)
			}
		}
	}
	rep.Bounds["points"] = len(pts)
	leaves := []vbox.Leaf{{Node: node, Shards: []models.ShardID{0}}}
	run := func(cs Case) {
		viol := func(clause, detail string) {
			rep.Violate(vevid.Violation{Clause: clause, Scenario: fmt.Sprintf("end=now%+dm interval=%q", cs.EndMin, cs.Interval), Site: "query.leafTaskProcessor", Detail: cs.String() + ": " + detail, Replay: cs})
		}
		rep.Evaluations++
		defer func() {
			if r := recover(); r != nil {
				viol("panic", fmt.Sprint(r))
			}
		}()
		tr := timeutil.TimeRange{Start: now + int64(cs.StartMin)*60_000, End: now + int64(cs.EndMin)*60_000}
		lr, planErr, err := c.LeafResponses(cs.sql(), tr, leaves)
		if err != nil {
			vevid.OpFailed("leaf responses: %v", err)
		}
		if planErr != nil {
			viol("plan-failed", planErr.Error())
			return
		}
		var planned, sent stmt.Query
		if err := planned.UnmarshalJSON(lr.Planned); err != nil {
			vevid.OpFailed("planned statement: %v", err)
		}
		if err := sent.UnmarshalJSON(lr.Payloads[0]); err != nil {
			viol("payload-unreadable", err.Error())
			return
		}
		if string(lr.Planned) != string(lr.Payloads[0]) {
			viol("payload-is-planned-statement", fmt.Sprintf("the root planned %s but sent %s", lr.Planned, lr.Payloads[0]))
		}
		if planned.TimeRange.End > now {
			rep.DistinctNontrivial++
		}
		// the reference: written points inside the planned range, in the planned interval's buckets
		ivl := planned.Interval.Int64()
		if ivl <= 0 {
			vevid.OpFailed("planned interval %d", ivl)
		}
		want := map[string]float64{}
		for _, p := range pts {
			if p.ts < planned.TimeRange.Start || p.ts > planned.TimeRange.End {
				continue
			}
			host := ""
			if cs.GroupBy {
				host = p.host
			}
			k := fmt.Sprintf("%s@%d", host, (p.ts-planned.TimeRange.Start)/ivl)
			if cs.Select == "max(f)" {
				if old, ok := want[k]; !ok || p.v > old {
					want[k] = p.v
				}
			} else {
				want[k] += p.v
			}
		}
		resp := lr.Resps[0]
		if resp.ErrMsg != "" {
			if len(want) == 0 {
				rep.Outcome("no data: " + short(resp.ErrMsg))
				return
			}
			viol("leaf-error", fmt.Sprintf("the leaf answered %q, %d points lie inside the planned range", resp.ErrMsg, len(want)))
			return
		}
		var tsl protoCommonV1.TimeSeriesList
		if err := tsl.Unmarshal(resp.Payload); err != nil {
			viol("leaf-answer-unreadable", err.Error())
			return
		}
		if tsl.Start != planned.TimeRange.Start || tsl.End != planned.TimeRange.End || tsl.Interval != ivl {
			viol("leaf-executes-planned-range", fmt.Sprintf("the root planned range [%d,%d] (now%+ds, now%+ds) interval %d, the leaf executed [%d,%d] (now%+ds, now%+ds) interval %d",
				planned.TimeRange.Start, planned.TimeRange.End, (planned.TimeRange.Start-now)/1000, (planned.TimeRange.End-now)/1000, ivl,
				tsl.Start, tsl.End, (tsl.Start-now)/1000, (tsl.End-now)/1000, tsl.Interval))
		}
		// the merged answer (one leaf): exactly the written points inside the planned range
		rs, err := c.Deliver(cs.sql(), tr, lr, []int{0}, 0)
		if err != nil {
			if len(want) != 0 {
				viol("answer", fmt.Sprintf("root answer: %v; %d points lie inside the planned range", err, len(want)))
			}
			return
		}
		got := map[string]float64{}
		for _, s := range rs.Series {
			for _, fpts := range s.Fields {
				for ts, val := range fpts {
					got[fmt.Sprintf("%s@%d", s.Tags["host"], (ts-planned.TimeRange.Start)/ivl)] += val
				}
			}
		}
		var bad []string
		for k, w := range want {
			if g, ok := got[k]; !ok {
				bad = append(bad, "missing "+k)
			} else if g != w {
				bad = append(bad, fmt.Sprintf("%s = %v want %v", k, g, w))
			}
		}
		for k, g := range got {
			if _, ok := want[k]; !ok {
				bad = append(bad, fmt.Sprintf("unexpected %s = %v", k, g))
			}
		}
		if len(bad) > 0 {
			sort.Strings(bad)
			viol("answer", strings.Join(bad, "; ")+fmt.Sprintf(" (planned range now%+ds..now%+ds, bucket = (t-start)/%dms)", (planned.TimeRange.Start-now)/1000, (planned.TimeRange.End-now)/1000, ivl))
		}
		rep.Outcome(fmt.Sprintf("points=%d future=%v ivl=%d", len(want), planned.TimeRange.End > now, ivl))
	}
	if f.Replay != "" {
		var cs Case
		vevid.LoadReplay(f.Replay, &cs)
		run(cs)
		rep.Write()
		return
	}
	var idx int64
	for _, st := range []int{-55, -30, -10, -2, 3, 10} {
		for _, en := range []int{-25, -5, 0, 1, 8, 15, 30, 59, 120} {
			if en <= st {
				continue
			}
			for _, iv := range []string{"", "10s", "1m", "5m"} {
				for _, sel := range []string{"f", "sum(f)", "max(f)"} {
					for _, gb := range []bool{false, true} {
						idx++
						if !f.Mine(idx) {
							continue
						}
						if f.Expired() {
							rep.Cap("deadline")
							rep.Write()
							return
						}
						run(Case{StartMin: st, EndMin: en, Interval: iv, Select: sel, GroupBy: gb})
					}
				}
			}
		}
	}
	rep.Write()
}

func short(s string) string {
	if len(s) > 40 {
		return s[:40]
	}
	return s
}
