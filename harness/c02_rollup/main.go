// C02 part rollup: "no file that a pending rollup still needs is ever deleted". A kv source store (10 s) with one or
// two rollup targets (5 m, 1 h); every sequence up to a length bound over
//
//	F        flush one more file (it gets a rollup mark per configured target)
//	C        level-0 compaction of the source family (inputs leave the version; only their marks keep them on disk)
//	O        close and reopen the source store
//	R{S}     one rollup job while exactly the target stores in S are open (S = every subset of the configured targets:
//	         a target whose store is not open is skipped by the job and stays pending)
//
// is executed on real stores. After EVERY step: the live rollup marks of the source family equal the model (file ->
// targets not yet completed), every file with a pending mark is on disk and opens, the source family reads every
// flushed letter exactly once, and each target holds exactly the letters of the files whose rollup to it completed.
package main

import (
	"fmt"
	"os"
	"path/filepath"
	"sort"
	"strings"
	"time"

	"github.com/lindb/lindb/internal/vevid"
	"github.com/lindb/lindb/kv"
	"github.com/lindb/lindb/kv/table"
	"github.com/lindb/lindb/kv/version"
	"github.com/lindb/lindb/pkg/timeutil"
)

const (
	i10s = timeutil.Interval(10 * 1000)
	i5m  = timeutil.Interval(5 * 60 * 1000)
	i1h  = timeutil.Interval(60 * 60 * 1000)
)

type catMerger struct{ flusher kv.Flusher }

func (m *catMerger) Init(_ map[string]interface{}) {}
func (m *catMerger) Merge(key uint32, values [][]byte) error {
	var out []byte
	for _, v := range values {
		out = append(out, v...)
	}
	return m.flusher.Add(key, out)
}

type Case struct {
	Targets []string `json:"targets"` // configured rollup targets: 5m, 1h
	Steps   []string `json:"steps"`   // F, C, O, R:<available targets joined by +> (R: = none available)
}

func (c Case) String() string {
	return "targets=" + strings.Join(c.Targets, "+") + " " + strings.Join(c.Steps, " ")
}

var intervalOf = map[string]timeutil.Interval{"5m": i5m, "1h": i1h}
var nameOf = map[timeutil.Interval]string{i5m: "5m", i1h: "1h"}

func sortLetters(s string) string {
	b := []byte(s)
	sort.Slice(b, func(i, j int) bool { return b[i] < b[j] })
	return string(b)
}

func load(f kv.Family, key uint32) (string, error) {
	snap := f.GetSnapshot()
	defer snap.Close()
	var rs string
	err := snap.Load(key, func(value []byte) error {
		rs += string(value)
		return nil
	})
	return sortLetters(rs), err
}

var runNo int

// idle waits for the family's background job and for its "job running" flag: the flag is cleared after the wait
// group is released, and a job triggered while it is still set is skipped silently
func idle(f kv.Family) {
	kv.VerifFamilyWait(f)
	for t0 := time.Now(); kv.VerifFamilyRolluping(f); {
		if time.Since(t0) > 60*time.Second {
			vevid.OpFailed("family job flag still set 60 s after its job finished")
		}
		time.Sleep(20 * time.Microsecond)
	}
}

func runCase(rep *vevid.Report, f *vevid.Flags, c Case) {
	rep.Evaluations++
	scen := "targets=" + strings.Join(c.Targets, "+")
	done := ""
	viol := func(clause, site, detail string) {
		rep.Violate(vevid.Violation{Clause: clause, Scenario: scen, Site: site, Detail: fmt.Sprintf("%s: after [%s]: %s", c, done, detail), Replay: c})
	}
	defer func() {
		if r := recover(); r != nil {
			viol("panic", "kv", fmt.Sprint(r))
		}
	}()
	runNo++
	root := filepath.Join(f.Scratch, fmt.Sprintf("r%d", runNo))
	_ = os.RemoveAll(root)
	defer os.RemoveAll(root)
	srcName := filepath.Join(root, "day", "20190702")
	tgtName := map[string]string{"1h": filepath.Join(root, "year", "2019"), "5m": filepath.Join(root, "month", "201907")}
	mgr := kv.GetStoreManager()
	srcOpt := kv.DefaultStoreOption()
	srcOpt.Source = i10s
	for _, t := range c.Targets {
		srcOpt.Rollup = append(srcOpt.Rollup, intervalOf[t])
	}
	famOpt := kv.FamilyOption{Merger: "c02cat", CompactThreshold: 2}
	open := map[string]bool{}
	closeAll := func() {
		_ = mgr.CloseStore(srcName)
		for t, n := range tgtName {
			if open[t] {
				_ = mgr.CloseStore(n)
				open[t] = false
			}
		}
	}
	defer closeAll()
	openSrc := func() (kv.Family, error) {
		src, err := mgr.CreateStore(srcName, srcOpt)
		if err != nil {
			return nil, err
		}
		// an empty sibling family first: the source family gets kv family id 2, the target families have id 1 - a record
		// written into a target store under the source family's id does not survive the target's next open
		if _, err := src.CreateFamily("09", famOpt); err != nil {
			return nil, err
		}
		return src.CreateFamily("10", famOpt)
	}
	fam, err := openSrc()
	if err != nil {
		vevid.OpFailed("open source store: %v", err)
	}
	familyPath := filepath.Join(srcName, "10")
	setTargets := func(avail map[string]bool) error {
		for _, t := range c.Targets {
			switch {
			case avail[t] && !open[t]:
				o := kv.DefaultStoreOption()
				o.Source = intervalOf[t]
				if _, err := mgr.CreateStore(tgtName[t], o); err != nil {
					return err
				}
				open[t] = true
			case !avail[t] && open[t]:
				if err := mgr.CloseStore(tgtName[t]); err != nil {
					return err
				}
				open[t] = false
			}
		}
		return nil
	}
	// model
	letters := ""                                     // every flushed letter
	fileOf := map[byte]table.FileNumber{}             // letter -> source file
	pending := map[table.FileNumber]map[string]bool{} // file -> targets not yet completed
	rolled := map[string]string{}                     // target -> letters rolled up into it
	nFlush := 0
	l0 := 0
	check := func() bool {
		// 1. marks
		marks := kv.VerifFamilyVersion(fam).GetLiveRollupFiles()
		for file, ts := range pending {
			var want, got []string
			for t := range ts {
				want = append(want, t)
			}
			for _, iv := range marks[file] {
				got = append(got, nameOf[iv])
			}
			sort.Strings(want)
			sort.Strings(got)
			if strings.Join(want, "+") != strings.Join(got, "+") {
				viol("pending-rollup-mark", "kv/version rollup bookkeeping", fmt.Sprintf("file %d: pending rollup targets [%s], the family reports [%s]", file, strings.Join(want, "+"), strings.Join(got, "+")))
				return false
			}
			if len(want) > 0 {
				p := filepath.Join(familyPath, version.Table(file))
				if _, err := os.Stat(p); err != nil {
					viol("pending-rollup-file-alive", "kv deleteObsoleteFiles", fmt.Sprintf("file %d still has pending rollup targets [%s] but is not on disk", file, strings.Join(want, "+")))
					return false
				}
			}
		}
		for file, ivs := range marks {
			if len(pending[file]) == 0 && len(ivs) > 0 {
				viol("pending-rollup-mark", "kv/version rollup bookkeeping", fmt.Sprintf("file %d has no pending rollup but the family reports %v", file, ivs))
				return false
			}
		}
		// 2. source content
		got, err := load(fam, 1)
		if err != nil || got != sortLetters(letters) {
			viol("source-content", "kv snapshot", fmt.Sprintf("source family reads %q (err %v), flushed %q", got, err, sortLetters(letters)))
			return false
		}
		// 3. targets that are open hold exactly what was rolled up into them
		for _, t := range c.Targets {
			if !open[t] {
				continue
			}
			st, ok := mgr.GetStoreByName(tgtName[t])
			if !ok {
				continue
			}
			var all string
			for _, name := range st.ListFamilyNames() {
				tf := st.GetFamily(name)
				if tf == nil {
					continue
				}
				kv.VerifFamilyWait(tf)
				s, err := load(tf, 1)
				if err != nil {
					viol("target-content", "kv rollup", fmt.Sprintf("target %s unreadable: %v", t, err))
					return false
				}
				all += s
			}
			if sortLetters(all) != sortLetters(rolled[t]) {
				viol("target-content", "kv rollup", fmt.Sprintf("target %s holds %q, the completed rollups carried %q", t, sortLetters(all), sortLetters(rolled[t])))
				return false
			}
		}
		return true
	}
	for _, st := range c.Steps {
		switch {
		case st == "F":
			l := byte('a' + nFlush)
			nFlush++
			before := map[table.FileNumber]bool{}
			snap := fam.GetSnapshot()
			for _, fm := range snap.GetCurrent().GetFiles(0) {
				before[fm.GetFileNumber()] = true
			}
			snap.Close()
			fl := fam.NewFlusher()
			if err := fl.Add(1, []byte{l}); err != nil {
				vevid.OpFailed("flush add: %v", err)
			}
			if err := fl.Commit(); err != nil {
				vevid.OpFailed("flush commit: %v", err)
			}
			fl.Release()
			snap = fam.GetSnapshot()
			for _, fm := range snap.GetCurrent().GetFiles(0) {
				if !before[fm.GetFileNumber()] {
					fileOf[l] = fm.GetFileNumber()
					pending[fm.GetFileNumber()] = map[string]bool{}
					for _, t := range c.Targets {
						pending[fm.GetFileNumber()][t] = true
					}
				}
			}
			snap.Close()
			letters += string(l)
			l0++
		case st == "C":
			idle(fam)
			fam.Compact()
			idle(fam)
			if l0 >= 2 {
				l0 = 0
			}
		case st == "O":
			if err := mgr.CloseStore(srcName); err != nil {
				vevid.OpFailed("close source: %v", err)
			}
			if fam, err = openSrc(); err != nil {
				viol("reopen-failed", "kv store", err.Error())
				return
			}
		case strings.HasPrefix(st, "R:"):
			avail := map[string]bool{}
			for _, t := range strings.Split(st[2:], "+") {
				if t != "" {
					avail[t] = true
				}
			}
			if err := setTargets(avail); err != nil {
				vevid.OpFailed("target stores: %v", err)
			}
			idle(fam)
			kv.VerifFamilyRollup(fam)
			idle(fam)
			for l, file := range fileOf {
				for t := range avail {
					if pending[file][t] {
						delete(pending[file], t)
						rolled[t] += string(l)
					}
				}
			}
		default:
			vevid.Fatal("unknown step %q", st)
		}
		done = strings.TrimSpace(done + " " + st)
		if !check() {
			rep.Outcome("violation")
			return
		}
	}
	np := 0
	for _, ts := range pending {
		np += len(ts)
	}
	if np > 0 && strings.Contains(done, "R:") {
		rep.DistinctNontrivial++
	}
	rep.Outcome(fmt.Sprintf("files=%d pending=%d rolled5m=%d rolled1h=%d", len(pending), np, len(rolled["5m"]), len(rolled["1h"])))
}

func main() {
	f := vevid.ParseFlags()
	rep := vevid.New("C02")
	kv.RegisterMerger("c02cat", func(flusher kv.Flusher) (kv.Merger, error) { return &catMerger{flusher: flusher}, nil })
	maxLen := 5
	if f.Thorough() {
		maxLen = 7
	}
	rep.Bounds["max_steps"] = maxLen
	rep.Rule = fmt.Sprintf("every step sequence of length <=%d that starts with a flush over {F flush, C compact level 0, O reopen the source store, R{S} one rollup job with exactly the target stores S open, S over all subsets of the configured targets} x configured targets {5m}, {1h}, {5m,1h}; real kv stores; after every step: live rollup marks == model, files with a pending mark on disk, source content complete, open targets hold exactly the letters whose rollup completed. non-trivial = a rollup job ran and some mark is still pending at the end", maxLen)
	if f.Replay != "" {
		var c Case
		vevid.LoadReplay(f.Replay, &c)
		runCase(rep, f, c)
		rep.Write()
		return
	}
	var idx int64
	for _, targets := range [][]string{{"5m", "1h"}, {"5m"}, {"1h"}} {
		ops := []string{"F", "C", "O"}
		for mask := 0; mask < 1<<len(targets); mask++ {
			var s []string
			for i, t := range targets {
				if mask&(1<<i) != 0 {
					s = append(s, t)
				}
			}
			ops = append(ops, "R:"+strings.Join(s, "+"))
		}
		var rec func(prefix []string)
		stop := false
		rec = func(prefix []string) {
			if stop {
				return
			}
			if len(prefix) > 0 {
				idx++
				if f.Mine(idx) {
					if f.Expired() {
						rep.Cap("deadline")
						stop = true
						return
					}
					runCase(rep, f, Case{Targets: targets, Steps: append([]string(nil), prefix...)})
				}
			}
			if len(prefix) == maxLen {
				return
			}
			for _, op := range ops {
				if len(prefix) == 0 && op != "F" {
					continue
				}
				if n := len(prefix); n > 0 && (op == "O" || op == "C") && prefix[n-1] == op {
					continue
				}
				rec(append(prefix, op))
			}
		}
		rec(nil)
	}
	rep.Write()
}
