// C19 part "leaf": each request handed to the real leaf task processor produces exactly one response
// (never none, never two), and a request that cannot be answered produces an error response, not a
// successful empty one. Bounded-exhaustive enumeration of (data placement, statement, target shards,
// request corruption) on a real engine.
package main

import (
	"fmt"
	"os"
	"path/filepath"
	"strings"
	"time"

	"github.com/lindb/lindb/internal/vbox"
	"github.com/lindb/lindb/internal/vevid"
	"github.com/lindb/lindb/models"
	"github.com/lindb/lindb/pkg/option"
	"github.com/lindb/lindb/pkg/timeutil"
	protoCommonV1 "github.com/lindb/lindb/proto/gen/v1/common"
)

type lcase struct {
	Data    string `json:"data"`  // memory | flushed | mixed
	Query   string `json:"query"` // name of the statement
	SQL     string `json:"sql"`
	Shards  []int  `json:"shards"`
	Corrupt string `json:"corrupt"` // "", payload, plan, node, db, type
	Expect  string `json:"expect"`  // ok | error | any
}

var noResponses int

type qdef struct {
	name, sql, expect string
}

func queries(metric string) []qdef {
	return []qdef{
		{"plain", "select f1 from " + metric, "ok"},
		{"by-host", "select f1 from " + metric + " group by host", "ok"},
		{"sum", "select sum(f1) from " + metric, "ok"},
		{"filter-hit", "select f1 from " + metric + " where host='a'", "any"},    // ok on shard 1, not found on shard 2
		{"filter-miss", "select f1 from " + metric + " where host='zzz'", "any"}, // no matching series: an empty answer or a not-found error are both legitimate
		{"unknown-metric", "select f1 from nosuchmetric", "error"},
		{"unknown-field", "select nosuchfield from " + metric, "error"},
		{"unknown-tagkey", "select f1 from " + metric + " where nokey='a'", "error"},
		{"unknown-groupby", "select f1 from " + metric + " group by nokey", "error"},
		{"two-fields-one-unknown", "select f1,nosuchfield from " + metric, "ok"},
		{"explain", "explain select f1 from " + metric + " group by host", "ok"},
	}
}

func main() {
	f := vevid.ParseFlags()
	rep := vevid.New("C19")
	opt := &option.DatabaseOption{Intervals: option.Intervals{{Interval: timeutil.Interval(10_000), Retention: timeutil.Interval(3000 * 24 * 3600 * 1000)}}, AutoCreateNS: true}
	b, err := vbox.Open(f.Scratch+"/eng", "db", opt, []models.ShardID{1, 2})
	if err != nil {
		vevid.OpFailed("open: %v", err)
	}
	defer b.Close()
	day := time.Now().UTC().Truncate(24*time.Hour).UnixMilli() - 24*3600*1000
	base := day + 10*3600*1000
	tr := timeutil.TimeRange{Start: base, End: base + 60000}
	node := "10.0.0.1:2891"
	horizon, quiet := 20*time.Second, 30*time.Millisecond
	rep.Rule = "data placements {memory, flushed, flushed+memory} x 11 statements (valid, filter without match, unknown metric / field / tag key / group-by key, mixed known+unknown field, explain) x target shard sets {[1],[2],[1,2],[3 missing],[1,3],[]} x request corruptions {none, payload, physical plan, not my node, unknown database}; each request through the real leafTaskProcessor on a real engine; oracle: exactly one response (or Process itself returns the error the rpc layer answers with), error expected => error reported. non-trivial = the request reached the pipeline (Process returned nil)"
	if f.Replay != "" {
		vevid.Fatal("replay of leaf cases: re-run the part (cases are deterministic and cheap)")
	}
	var idx int64
	for di, data := range []string{"memory", "flushed", "mixed"} {
		metric := fmt.Sprintf("cpu%d", di)
		pts := []vbox.Point{{Metric: metric, Tags: map[string]string{"host": "a"}, Field: "f1", Type: "sum", Value: 1, Timestamp: base + 5000}}
		pts2 := []vbox.Point{{Metric: metric, Tags: map[string]string{"host": "b"}, Field: "f1", Type: "sum", Value: 2, Timestamp: base + 15000}}
		if err := b.Write(1, pts); err != nil {
			vevid.OpFailed("write: %v", err)
		}
		if err := b.Write(2, pts2); err != nil {
			vevid.OpFailed("write: %v", err)
		}
		if data != "memory" {
			if err := b.Flush(1, tr); err != nil {
				vevid.OpFailed("flush: %v", err)
			}
			if err := b.Flush(2, tr); err != nil {
				vevid.OpFailed("flush: %v", err)
			}
		}
		if data == "mixed" {
			_ = b.Write(1, []vbox.Point{{Metric: metric, Tags: map[string]string{"host": "a"}, Field: "f1", Type: "sum", Value: 4, Timestamp: base + 25000}})
		}
		for _, q := range queries(metric) {
			for _, shards := range [][]int{{1}, {2}, {1, 2}, {3}, {1, 3}, {}} {
				for _, corrupt := range []string{"", "payload", "plan", "node", "db"} {
					idx++
					if !f.Mine(idx) {
						continue
					}
					if noResponses >= 2 {
						rep.Cap("stopped after 2 requests without any response (each costs the full horizon)")
						continue
					}
					c := lcase{Data: data, Query: q.name, SQL: q.sql, Shards: shards, Corrupt: corrupt, Expect: q.expect}
					runLeafCase(rep, b, c, tr, node, idx, horizon, quiet)
				}
			}
		}
	}
	// one shard of the request exceeds the database's series limit while the other one does not: the failing branch
	// must not take the other branch's stages (still to be submitted to the worker pools) with it - exactly one
	// response, carrying the error. The stages run on free goroutines: every request is sent 12 times.
	idx++
	if f.Mine(idx) && noResponses < 2 {
		metric := "cpulim"
		for i, h := range []string{"a", "b", "c"} {
			if err := b.Write(1, []vbox.Point{{Metric: metric, Tags: map[string]string{"host": h}, Field: "f1", Type: "sum", Value: float64(i + 1), Timestamp: base + 5000}}); err != nil {
				vevid.OpFailed("write: %v", err)
			}
		}
		if err := b.Write(2, []vbox.Point{{Metric: metric, Tags: map[string]string{"host": "d"}, Field: "f1", Type: "sum", Value: 8, Timestamp: base + 15000}}); err != nil {
			vevid.OpFailed("write: %v", err)
		}
		lim := models.NewDefaultLimits()
		lim.MaxSeriesPerQuery = 2
		models.SetDatabaseLimits(b.DBName, lim)
		for _, q := range []qdef{{"limit-by-host", "select f1 from " + metric + " group by host", ""}, {"limit-plain", "select f1 from " + metric, ""}} {
			for _, sh := range []struct {
				shards []int
				expect string
			}{{[]int{1}, "error"}, {[]int{2}, "ok"}, {[]int{1, 2}, "error"}, {[]int{2, 1}, "error"}} {
				for rnd := 0; rnd < 12 && noResponses < 2; rnd++ {
					idx++
					c := lcase{Data: "memory, series limit 2, shard 1 holds 3 series, shard 2 holds 1", Query: q.name, SQL: q.sql, Shards: sh.shards, Expect: sh.expect}
					runLeafCase(rep, b, c, tr, node, idx, horizon, quiet)
				}
			}
		}
		models.SetDatabaseLimits(b.DBName, models.NewDefaultLimits())
	}
	// a leaf whose metadata cannot be read: the table files of the tag value dictionary (family "tv" of the metadata
	// store) are gone after a restart; a group-by query finds its series and fails when it collects the tag values of
	// the groups - still exactly one response
	idx++
	if f.Mine(idx) && noResponses < 2 {
		metric := "cpubroken"
		if err := b.Write(1, []vbox.Point{{Metric: metric, Tags: map[string]string{"host": "a"}, Field: "f1", Type: "sum", Value: 1, Timestamp: base + 5000}}); err != nil {
			vevid.OpFailed("write: %v", err)
		}
		if err := b.Write(2, []vbox.Point{{Metric: metric, Tags: map[string]string{"host": "b"}, Field: "f1", Type: "sum", Value: 2, Timestamp: base + 15000}}); err != nil {
			vevid.OpFailed("write: %v", err)
		}
		for _, sh := range []models.ShardID{1, 2} {
			if err := b.Flush(sh, tr); err != nil {
				vevid.OpFailed("flush: %v", err)
			}
		}
		// Box.Close also stops the worker pools of the database: the pools of the database object opened next count
		// their live workers in the same gauges (registered under the database's name), and stopping them at the end
		// would wait for the lingering workers of this one
		b.Close()
		removed := 0
		_ = filepath.Walk(f.Scratch+"/eng", func(p string, info os.FileInfo, err error) error {
			if err == nil && !info.IsDir() && strings.HasSuffix(p, ".sst") && filepath.Base(filepath.Dir(p)) == "tv" {
				if os.Remove(p) == nil {
					removed++
				}
			}
			return nil
		})
		rep.Count("tag_value_tables_removed", int64(removed))
		nb, err := vbox.Open(b.Dir, b.DBName, b.Opt, b.ShardIDs)
		if err != nil {
			// the engine refuses to start without the files: nothing to ask
			rep.Count("engine_does_not_open_without_tag_value_tables", 1)
		} else {
			b.Engine, b.DB = nb.Engine, nb.DB
			if removed > 0 {
				for _, q := range []qdef{{"by-host", "select f1 from " + metric + " group by host", "any"}, {"plain", "select f1 from " + metric, "any"},
					{"filter-hit", "select f1 from " + metric + " where host='a'", "any"}} {
					for _, shards := range [][]int{{1}, {1, 2}} {
						idx++
						c := lcase{Data: "flushed, tag value tables removed", Query: q.name, SQL: q.sql, Shards: shards, Expect: "any"}
						runLeafCase(rep, b, c, tr, node, idx, horizon, quiet)
					}
				}
			}
		}
	}
	rep.Write()
}

func runLeafCase(rep *vevid.Report, b *vbox.Box, c lcase, tr timeutil.TimeRange, node string, idx int64, horizon, quiet time.Duration) {
	scen := fmt.Sprintf("data=%s query=%s corrupt=%s", c.Data, c.Query, c.Corrupt)
	viol := func(clause, detail string) {
		rep.Violate(vevid.Violation{Clause: clause, Scenario: scen, Site: "query.leafTaskProcessor.Process", Detail: fmt.Sprintf("%s (shards %v, sql %q)", detail, c.Shards, c.SQL), Replay: c})
	}
	defer func() {
		if r := recover(); r != nil {
			viol("panic", fmt.Sprint(r))
		}
	}()
	rep.Evaluations++
	var shards []models.ShardID
	for _, s := range c.Shards {
		shards = append(shards, models.ShardID(s))
	}
	req, err := b.LeafRequest(c.SQL, tr, node, shards, fmt.Sprintf("req-%d", idx))
	if err != nil {
		vevid.OpFailed("request %q: %v", c.SQL, err)
	}
	procNode := node
	switch c.Corrupt {
	case "payload":
		req.Payload = []byte("{broken")
	case "plan":
		req.PhysicalPlan = []byte("{broken")
	case "node":
		procNode = "10.0.0.9:2891" // the plan does not name this node
	case "db":
		req.PhysicalPlan = []byte(strings.Replace(string(req.PhysicalPlan), `"database":"db"`, `"database":"nodb"`, 1))
	}
	resps := b.LeafOnce(procNode, req, horizon, quiet)
	if len(resps) == 0 {
		// a wall-clock limit is no oracle: only a request that stays unanswered twice in a row is reported
		rep.Count("requests_asked_twice_after_no_response", 1)
		req.RequestID += "-again"
		resps = b.LeafOnce(procNode, req, horizon, quiet)
	}
	rep.DistinctNontrivial++
	if c.Corrupt != "" {
		// a corrupted request must not be answered with a successful response
		for _, r := range resps {
			if r.ErrMsg == "" {
				viol("corrupt-request-answered-ok", fmt.Sprintf("corrupted request (%s) got a successful response", c.Corrupt))
			}
		}
	}
	switch {
	case len(resps) == 0:
		noResponses++
		viol("no-response", fmt.Sprintf("no response within %s", horizon))
		return
	case len(resps) > 1:
		viol("two-responses", fmt.Sprintf("%d responses for one request", len(resps)))
	}
	r := resps[0]
	if !r.Completed || r.RequestID != req.RequestID || r.RequestType != protoCommonV1.RequestType_Data {
		viol("response-shape", fmt.Sprintf("response completed=%v requestID=%q type=%v", r.Completed, r.RequestID, r.RequestType))
	}
	hasMine := false
	for _, s := range c.Shards {
		if s == 1 || s == 2 {
			hasMine = true
		}
	}
	if c.Corrupt == "" && c.Expect == "error" && hasMine && r.ErrMsg == "" {
		viol("error-not-reported", "the statement cannot be answered but the response carries no error")
	}
	if c.Corrupt == "" && c.Expect == "ok" && hasMine && r.ErrMsg != "" {
		viol("spurious-error", "valid statement on shards with data answered with error: "+r.ErrMsg)
	}
	rep.Outcome(fmt.Sprintf("q=%s err=%v", c.Query, r.ErrMsg != ""))
	rep.Sample(c)
}
