package main

// ---------------------------------------------------------------------------------------------------
// bounds and enumeration of histories

// classBounds limits the histories of one class (only series a / both series).
type classBounds struct {
	MaxWrites    int      `json:"max_writes"`
	MaxGapOps    []int    `json:"max_gap_ops_by_writes"` // index = number of writes of the history (0 unused)
	Slots        []string `json:"slots"`                 // slot choices of a write
	FarWrites    int      `json:"far_slot_up_to_writes"` // the slot "far" (beyond the memdb write window) only in histories up to this length
	ReopenWrites int      `json:"reopen_up_to_writes"`   // a reopen (~0.5 s) only in histories up to this length
	// histories up to this length are also run with each of the five one-field metrics
	OneFieldWrites int `json:"one_field_metric_up_to_writes"`
}

type bounds struct {
	// histories that write only series a (time / place structure) may be longer than histories with two series
	// (filtering / grouping structure)
	One, Two classBounds
}

func boundsOf(tier string) bounds {
	all := []string{"same", "next", "prev", "fam2", "far"}
	if tier == "thorough" {
		return bounds{
			One: classBounds{Slots: all, MaxWrites: 5, MaxGapOps: []int{0, 3, 3, 3, 3, 1}, FarWrites: 4, ReopenWrites: 3, OneFieldWrites: 3},
			Two: classBounds{Slots: all, MaxWrites: 4, MaxGapOps: []int{0, 3, 3, 3, 1}, FarWrites: 2, ReopenWrites: 3, OneFieldWrites: 2}}
	}
	return bounds{
		One: classBounds{Slots: all, MaxWrites: 4, MaxGapOps: []int{0, 2, 2, 2, 1}, FarWrites: 3, ReopenWrites: 2, OneFieldWrites: 2},
		Two: classBounds{Slots: []string{"same", "next", "fam2"}, MaxWrites: 3, MaxGapOps: []int{0, 2, 2, 2}, FarWrites: 0, ReopenWrites: 2, OneFieldWrites: 2}}
}

// gap operations that may follow a write
var gapOps = []string{"", "F", "FC", "R"}

// forEachCase enumerates every history within the bounds: a history is a sequence of writes (series x slot), each
// followed by one gap operation out of {nothing, flush, flush+compact, reopen}.
// Symmetry / no-op pruning (each pruned history has the same storage state as an enumerated one):
//   - the first write goes to series a (a and b are interchangeable until then);
//   - "FC" is only emitted when the flush leaves >= 2 level-0 files of the case in some family (otherwise
//     Family.Compact is a no-op and the history equals the one with "F");
//   - at most one reopen per history.
//
// Every prefix that ends after a gap operation is a case of its own (the menu runs after the last step).
func forEachCase(b bounds, emit func(Case) bool) {
	type frame struct {
		steps   []Step
		writes  int
		usesB   bool
		usesFar bool
		slots   []string
		gapOps  int
		reopens int
	}
	replay := func(steps []Step) *model {
		m := newModel()
		wi := 0
		for _, s := range steps {
			switch s.Op {
			case "w":
				m.write(s.Series, slotOf(s.Slot), writeValues[wi])
				wi++
			case "F":
				m.flush()
			case "R":
				m.reopen()
			case "C":
				m.compact()
			}
		}
		return m
	}
	within := func(f frame) bool {
		cb := b.One
		if f.usesB {
			cb = b.Two
		}
		if f.writes > cb.MaxWrites || f.gapOps > cb.MaxGapOps[f.writes] || f.reopens > 1 {
			return false
		}
		if f.usesFar && f.writes > cb.FarWrites {
			return false
		}
		for _, sl := range f.slots {
			ok := false
			for _, x := range cb.Slots {
				ok = ok || x == sl
			}
			if !ok {
				return false
			}
		}
		if f.reopens > 0 && f.writes > cb.ReopenWrites {
			return false
		}
		return true
	}
	var rec func(f frame) bool
	rec = func(f frame) bool {
		for _, series := range []string{"a", "b"} {
			if f.writes == 0 && series == "b" {
				continue
			}
			for _, slot := range b.One.Slots {
				for _, gap := range gapOps {
					n := frame{steps: append(append([]Step{}, f.steps...), Step{Op: "w", Series: series, Slot: slot}),
						writes: f.writes + 1, usesB: f.usesB || series == "b", usesFar: f.usesFar || slot == "far",
						gapOps: f.gapOps, reopens: f.reopens, slots: append(append([]string{}, f.slots...), slot)}
					switch gap {
					case "F":
						n.steps = append(n.steps, Step{Op: "F"})
						n.gapOps++
					case "R":
						n.steps = append(n.steps, Step{Op: "R"})
						n.gapOps++
						n.reopens++
					case "FC":
						n.steps = append(n.steps, Step{Op: "F"})
						if !replay(n.steps).compactable() {
							continue
						}
						n.steps = append(n.steps, Step{Op: "C"})
						n.gapOps++
					}
					if !within(n) {
						continue
					}
					if !emit(Case{Steps: n.steps}) {
						return false
					}
					ofw := b.One.OneFieldWrites
					if n.usesB {
						ofw = b.Two.OneFieldWrites
					}
					if n.writes <= ofw && n.reopens == 0 {
						for _, ft := range fieldTypes {
							if !emit(Case{Steps: n.steps, Schema: ft}) {
								return false
							}
						}
					}
					if !rec(n) {
						return false
					}
				}
			}
		}
		return true
	}
	rec(frame{})
}

// ---------------------------------------------------------------------------------------------------
// query menu

// selectLists: every supported (field type, function) pair of the copied tables appears
//   - in one of five multi-field lists (bare references; r-th supported function of every type), and
//   - alone (single-field plan);
//
// one more list holds every supported function of every field at once (several functions of one field).
func selectLists() (multi, single [][]Sel, all []Sel) {
	bare := []Sel{}
	for _, t := range fieldTypes {
		bare = append(bare, Sel{F: t})
	}
	multi = append(multi, bare)
	for r := 0; r < 4; r++ {
		var sl []Sel
		for _, t := range fieldTypes {
			if fs := supportedFuncs[t]; r < len(fs) {
				sl = append(sl, Sel{F: t, Fn: fs[r]})
			}
		}
		multi = append(multi, sl)
	}
	for _, t := range fieldTypes {
		single = append(single, []Sel{{F: t}})
		for _, fn := range supportedFuncs[t] {
			single = append(single, []Sel{{F: t, Fn: fn}})
			all = append(all, Sel{F: t, Fn: fn})
		}
	}
	return
}

var menuCache = map[string][]Query{}

// menuFor returns the queries evaluated after the history. The menu is the product
//
//	select lists x ranges x intervals {storage, 20s, 1m} x condition {none, host='a', host='b'} x group by {none, host}
//
// restricted to what the history can distinguish:
//   - the ranges that reach into the second family are only used when the history wrote into it;
//   - with one series only, condition and group-by are used together or not at all;
//   - single-field lists run on the whole-family range (or both families) as (storage interval, condition, no group)
//     and (20s, no condition, group by host);
//   - the all-functions list runs like a multi-field list on the whole-family range.
func menuFor(c Case) []Query {
	twoFam, twoSeries := false, false
	for _, s := range c.Steps {
		if s.Op == "w" && s.Slot == "fam2" {
			twoFam = true
		}
		if s.Op == "w" && s.Series == "b" {
			twoSeries = true
		}
	}
	if c.Menu == "extra" {
		return menuCache["extra"]
	}
	key := "1" + c.Schema
	if twoFam {
		key = "2" + c.Schema
	}
	if twoSeries {
		key += "s"
	}
	if q, ok := menuCache[key]; ok {
		return q
	}
	multi, single, all := selectLists()
	if c.Schema != "" {
		// a one-field metric: the bare reference, each supported function, and all functions at once
		multi, single, all = nil, nil, nil
		multi = append(multi, []Sel{{F: c.Schema}})
		for _, fn := range supportedFuncs[c.Schema] {
			multi = append(multi, []Sel{{F: c.Schema, Fn: fn}})
			all = append(all, Sel{F: c.Schema, Fn: fn})
		}
	}
	type cg struct {
		cond string
		gb   bool
	}
	cgs := []cg{{"", false}, {"a", true}}
	if twoSeries {
		cgs = []cg{{"", false}, {"", true}, {"a", false}, {"a", true}, {"b", false}, {"b", true}}
	}
	rs := []int{0, 2}
	if twoFam {
		rs = []int{0, 1, 2, 3}
	}
	var out []Query
	for _, sl := range multi {
		for _, r := range rs {
			for iv := 0; iv < mainIntervals; iv++ {
				for _, x := range cgs {
					out = append(out, Query{Sels: sl, Range: r, Ivl: iv, Cond: x.cond, GB: x.gb})
				}
			}
		}
	}
	if len(all) > 1 {
		for iv := 0; iv < mainIntervals; iv++ {
			for _, x := range cgs {
				out = append(out, Query{Sels: all, Range: 0, Ivl: iv, Cond: x.cond, GB: x.gb})
			}
		}
	}
	sr := 0
	if twoFam {
		sr = 1
	}
	for _, sl := range single {
		out = append(out, Query{Sels: sl, Range: sr, Ivl: 0, Cond: "a", GB: false})
		out = append(out, Query{Sels: sl, Range: sr, Ivl: 1, Cond: "", GB: true})
	}
	menuCache[key] = out
	return out
}
