package main

import (
	"fmt"
	"runtime"
	"sort"
	"strings"
	"time"

	"github.com/lindb/common/pkg/fasttime"

	"github.com/lindb/lindb/internal/vbox"
	"github.com/lindb/lindb/internal/vevid"
	"github.com/lindb/lindb/models"
	"github.com/lindb/lindb/pkg/option"
	"github.com/lindb/lindb/pkg/timeutil"
)

// ---------------------------------------------------------------------------------------------------
// cases

// Step is one operation of a history.
type Step struct {
	Op     string `json:"op"`               // w | F (flush every family) | C (compact every family) | R (close + reopen the engine)
	Series string `json:"series,omitempty"` // a | b
	Slot   string `json:"slot,omitempty"`   // prev | same | next | far | fam2
}

// Case is one history; the whole query menu of its tier is evaluated after the last step.
type Case struct {
	Steps []Step `json:"steps"`
	Menu  string `json:"menu"` // quick | thorough
	// Schema "" = every row carries all five simple field types; else the metric has only the field of this type
	// (table files and memory pages of a one-field metric take their own code paths).
	Schema string `json:"schema,omitempty"`
	// Only is set in replays of a single failing query (empty = whole menu).
	Only *Query `json:"only,omitempty"`
	// Special names the scripted scenarios (special.go) in a replay.
	Special string `json:"special,omitempty"`
}

// losesNamesAtReopen: the history flushes metadata while nothing new was created since the previous flush, creates a
// new name afterwards (the first write of series b: tag value, series) and reopens the engine later. On the unchanged
// tree every metadata flush after an empty one is a no-op (clause empty-meta-flush-stops-persistence).
func (c Case) losesNamesAtReopen() bool {
	poison, newSince, lost, seenB, first := false, false, false, false, true
	for _, s := range c.Steps {
		switch s.Op {
		case "w":
			isNew := first || (s.Series == "b" && !seenB)
			first = false
			if s.Series == "b" {
				seenB = true
			}
			if isNew {
				newSince = true
				if poison {
					lost = true
				}
			}
		case "F":
			if !newSince {
				poison = true
			}
			newSince = false
		case "R":
			if lost {
				return true
			}
			poison, newSince = false, false
		}
	}
	return false
}

// values of the i-th write: distinct powers of two (every subset has its own sum) in a non-monotone order
// (so that max != last and min != first).
var writeValues = []float64{4, 1, 16, 0, 8, 32} // the fourth write carries 0: a slot that holds 0 is not an empty slot

// slotOf maps a slot choice to the slot start relative to the base hour.
func slotOf(name string) int64 {
	switch name {
	case "prev":
		return (s0 - 1) * slotMs // out of order after "same": leaves the memdb slot window backwards
	case "same":
		return s0 * slotMs
	case "next":
		return (s0 + 1) * slotMs
	case "far":
		return (s0 + 15) * slotMs // beyond the 15-slot write window of the memdb page
	case "fam2":
		return familyMs + s0*slotMs // the next hour = another data family
	}
	panic("unknown slot " + name)
}

func (c Case) String() string {
	var sb strings.Builder
	if c.Schema != "" {
		sb.WriteString("[only " + fieldName(c.Schema) + "] ")
	}
	for i, s := range c.Steps {
		if i > 0 {
			sb.WriteByte(' ')
		}
		if s.Op == "w" {
			sb.WriteString(s.Series + "@" + s.Slot)
		} else {
			sb.WriteString(s.Op)
		}
	}
	return sb.String()
}

// opKinds names the storage operations of the history (coarse class used in violation scenarios).
func (c Case) opKinds() string {
	seen := map[string]bool{}
	for _, s := range c.Steps {
		if s.Op != "w" {
			seen[s.Op] = true
		}
	}
	out := ""
	for _, k := range []string{"F", "C", "R"} {
		if seen[k] {
			out += k
		}
	}
	if out == "" {
		return "mem"
	}
	return out
}

// ---------------------------------------------------------------------------------------------------
// world: the one engine of this process

type world struct {
	box     *vbox.Box
	base    int64 // start of the first family (yesterday 10:00 UTC), computed once per process
	seq     int
	prefix  string
	queryNs int64
	queries int64
	stepNs  int64
	// lastCreate is a fast-clock reading taken after the last write that may have created a memory database
	lastCreate int64
	// flushedSinceOpen: some history flushed metadata since the engine was (re)opened
	flushedSinceOpen bool
	healReopens      int64
	timeouts         int // queries that did not complete within vbox.QueryTimeout
	slowQueries      int // queries that timed out once and were asked again
}

const shardID = models.ShardID(1)

func openWorld(dir, prefix string) *world {
	opt := &option.DatabaseOption{Intervals: option.Intervals{{Interval: timeutil.Interval(slotMs), Retention: timeutil.Interval(3000 * 24 * 3600 * 1000)}}, AutoCreateNS: true}
	var b *vbox.Box
	var err error
	withPoolWorkers(func() { b, err = vbox.Open(dir, "db", opt, []models.ShardID{shardID}) })
	if err != nil {
		vevid.OpFailed("open engine: %v", err)
	}
	vbox.DupWait = 0 // one-response-per-request is not a clause of this property
	// a hung query is a verdict (the leaf never answers), a slow machine is not: generous limit, and a query that
	// times out is asked once more before it counts (see world.query)
	vbox.QueryTimeout = 45 * time.Second
	day := time.Now().UTC().Truncate(24*time.Hour).UnixMilli() - 24*3600*1000
	return &world{box: b, base: day + 10*3600*1000, prefix: prefix}
}

// withPoolWorkers runs an engine open with GOMAXPROCS raised: a database sizes its query worker pools by GOMAXPROCS
// at creation, and a one-worker pool polls with sleeps whenever a stage submits its successor. The process itself runs
// on ONE processor (the check sets GOMAXPROCS=1), so that the stages of a query never run in parallel: their
// interleaving is not a dimension of this (sequential) check.
func withPoolWorkers(open func()) {
	old := runtime.GOMAXPROCS(4)
	defer runtime.GOMAXPROCS(old)
	open()
}

// reopen closes the engine and opens it again on the same directory.
func (w *world) reopen() error {
	var err error
	withPoolWorkers(func() { err = w.box.ReopenEngine() })
	return err
}

func (w *world) bothFamilies() timeutil.TimeRange {
	return timeutil.TimeRange{Start: w.base, End: w.base + 2*familyMs - 1}
}

// housekeeping keeps the number of table files per family bounded (files of earlier cases' metrics).
func (w *world) housekeeping() {
	for _, ts := range []int64{w.base, w.base + familyMs} {
		l0, _, err := w.box.FamilyFiles(shardID, ts)
		if err != nil {
			vevid.OpFailed("family files: %v", err)
		}
		if l0 >= 6 {
			if _, after, err := w.box.CompactFamily(shardID, ts); err != nil || after > 1 {
				vevid.OpFailed("housekeeping compaction: err=%v level0 after=%d", err, after)
			}
		}
	}
}

// newTick waits until the 5 ms fast clock (github.com/lindb/common/pkg/fasttime) has advanced past the reading
// taken after the previous memdb-creating write: the main enumeration fixes "every memory database of the shard is
// created in its own clock tick" (memdb.createdTime is the key of its per-metric slot range); the opposite choice is
// the scripted scenario same-tick (special.go).
func (w *world) newTick() {
	for fasttime.UnixNano() <= w.lastCreate {
		time.Sleep(200 * time.Microsecond)
	}
}

// isolate makes a history that contains a reopen independent of the histories that ran before it in this process:
// what an earlier history left in the in-memory metadata / index stores is persisted and reloaded first.
func (w *world) isolate(c Case) error {
	has := false
	for _, s := range c.Steps {
		if s.Op == "R" {
			has = true
		}
	}
	if !has || !w.flushedSinceOpen {
		return nil
	}
	w.healReopens++
	w.flushedSinceOpen = false
	return w.reopen()
}

// apply runs the history on the real engine and on the model.
func (w *world) apply(c Case, metric string) (*model, error) {
	m := newModel()
	wi := 0
	t0 := time.Now()
	defer func() { w.stepNs += time.Since(t0).Nanoseconds() }()
	if err := w.isolate(c); err != nil {
		return nil, fmt.Errorf("reopen before the history: %w", err)
	}
	for i, s := range c.Steps {
		switch s.Op {
		case "w":
			t := slotOf(s.Slot)
			v := writeValues[wi]
			creates := m.fams[t/familyMs].mem == nil
			if creates {
				w.newTick()
			}
			p := vbox.MultiPoint{Metric: metric, Tags: map[string]string{"host": s.Series},
				Timestamp: w.base + t + int64(wi+1)*1000}
			for _, ft := range fieldTypes {
				if c.Schema == "" || c.Schema == ft {
					p.Fields = append(p.Fields, vbox.FieldValue{Name: fieldName(ft), Type: ft, Value: v})
				}
			}
			if err := w.box.WriteMulti(shardID, p); err != nil {
				return nil, fmt.Errorf("step %d write: %w", i, err)
			}
			if creates {
				w.lastCreate = fasttime.UnixNano()
			}
			m.write(s.Series, t, v)
			wi++
		case "F":
			w.flushedSinceOpen = true
			if err := w.box.Flush(shardID, w.bothFamilies()); err != nil {
				return nil, fmt.Errorf("step %d flush: %w", i, err)
			}
			m.flush()
		case "C":
			for fam, ts := range []int64{w.base, w.base + familyMs} {
				before, after, err := w.box.CompactFamily(shardID, ts)
				if err != nil || after > 1 {
					return nil, fmt.Errorf("step %d compact: err=%v level-0 files after compaction=%d", i, err, after)
				}
				if before >= 2 {
					m.compacted(fam)
				}
			}
		case "R":
			if err := w.reopen(); err != nil {
				return nil, fmt.Errorf("step %d reopen: %w", i, err)
			}
			w.flushedSinceOpen = false
			m.reopen() // Close flushes every memory database
		default:
			return nil, fmt.Errorf("unknown op %q", s.Op)
		}
	}
	return m, nil
}

// observed result of one query: "tags|item|ts-relative-to-base" -> value
func (w *world) query(q Query, metric string) (map[string]float64, error) {
	out, err := w.queryOnce(q, metric)
	if err != nil && isTimeout(err) {
		// wall-clock limits are no oracle: only a query that does not complete twice in a row is reported
		w.slowQueries++
		out, err = w.queryOnce(q, metric)
	}
	return out, err
}

func (w *world) queryOnce(q Query, metric string) (map[string]float64, error) {
	return w.queryText(q.sql(metric), q.Range)
}

// querySQL runs a literal statement over the whole first family (a timed-out query is asked once more).
func (w *world) querySQL(sql string) (map[string]float64, error) {
	out, err := w.queryText(sql, 0)
	if err != nil && isTimeout(err) {
		w.slowQueries++
		out, err = w.queryText(sql, 0)
	}
	return out, err
}

func (w *world) queryText(sql string, rangeIdx int) (map[string]float64, error) {
	r := ranges[rangeIdx]
	tr := timeutil.TimeRange{Start: w.base + r.start, End: w.base + r.end}
	t0 := time.Now()
	res := w.box.Query(sql, tr, vbox.Layout{Leaves: []vbox.Leaf{{Node: "10.0.0.1:2891", Shards: []models.ShardID{shardID}}}, CompleteAt: -1})
	w.queryNs += time.Since(t0).Nanoseconds()
	w.queries++
	if res.Err != nil {
		return nil, res.Err
	}
	out := map[string]float64{}
	if res.Result == nil {
		return out, nil
	}
	for _, s := range res.Result.Series {
		var tags []string
		for k, v := range s.Tags {
			tags = append(tags, k+"="+v)
		}
		sort.Strings(tags)
		tg := strings.Join(tags, ",")
		for fname, pts := range s.Fields {
			for ts, v := range pts {
				k := fmt.Sprintf("%s|%s|%d", tg, fname, ts-w.base)
				if _, dup := out[k]; dup {
					return nil, fmt.Errorf("result holds two series with the same tags %q", tg)
				}
				out[k] = v
			}
		}
	}
	return out, nil
}
