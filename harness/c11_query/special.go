package main

import (
	"fmt"
	"sort"
	"strings"
	"time"

	"github.com/lindb/common/pkg/fasttime"

	"github.com/lindb/lindb/internal/vbox"
	"github.com/lindb/lindb/internal/vevid"
)

// ---------------------------------------------------------------------------------------------------
// Scripted scenarios: choices the main enumeration fixes the other way round (they concern process-level state that
// one history per fresh metric cannot express). Each is a tiny exhaustive set of its own and has its own clause.
//
//	same-tick          two memory databases of the shard (two families) are created in the same tick of the 5 ms fast
//	                   clock; histories: both first writes, then {nothing, flush, reopen}; + one more write after it
//	empty-meta-flush   a metadata flush that has nothing to write happens before a NEW metric is written; then the
//	                   engine is reopened; histories: metric X: write, flush, flush; metric Y: write, {reopen, flush+reopen}

// threeSeriesP1: the first-level choice of threeSeries a worker runs (-1: all of them); the set is the largest one and
// is spread over eight workers.
var threeSeriesP1 = -1

func threeSeriesSlice(p1 int) func(w *world, rep *vevid.Report) {
	return func(w *world, rep *vevid.Report) {
		threeSeriesP1 = p1
		threeSeries(w, rep)
		threeSeriesP1 = -1
	}
}

var specials = []func(w *world, rep *vevid.Report){sameTick, emptyMetaFlush, partialFields, unalignedFamilies, missingGroupTag, compressedWindow,
	threeSeriesSlice(0), threeSeriesSlice(1), threeSeriesSlice(2), threeSeriesSlice(3), threeSeriesSlice(4), threeSeriesSlice(5), threeSeriesSlice(6), threeSeriesSlice(7)}

// runSpecials runs the scripted sets of worker `shard` of `shards` (set i belongs to worker i mod shards); shards <= 1: all.
func runSpecials(w *world, rep *vevid.Report, shard, shards int) {
	for i, f := range specials {
		if shards <= 1 || i%shards == shard {
			t0 := time.Now()
			f(w, rep)
			rep.Extra[fmt.Sprintf("max_special_%d_ms", i)] = time.Since(t0).Milliseconds()
		}
	}
}

// threeSeries: three series (host=a,b,c; series ids in this order) and tag conditions that select two of them. The
// first pass writes every series once, each into the queried family or into the next one (so the queried family's
// places may hold any subset of the three ids); then {nothing, flush, reopen}; a second pass writes any subset again
// into the queried family; then {nothing, flush}. Every two-series condition (in / not in / !=) and one-series
// condition, with and without group by host, must return exactly the selected series' own sums: a place that lacks
// one of the selected ids (the smallest, a middle or the largest one) must not shift the others.
func threeSeries(w *world, rep *vevid.Report) {
	hosts := []string{"a", "b", "c"}
	v1 := []float64{1, 3, 9}
	v2 := []float64{27, 81, 243}
	f := fieldName("sum")
	write := func(metric, host, slot string, off int, v float64) {
		w.newTick()
		mp := vbox.MultiPoint{Metric: metric, Tags: map[string]string{"host": host}, Timestamp: w.base + slotOf(slot) + int64(off+1)*1000}
		mp.Fields = append(mp.Fields, vbox.FieldValue{Name: f, Type: "sum", Value: v})
		if err := w.box.WriteMulti(shardID, mp); err != nil {
			vevid.OpFailed("special write: %v", err)
		}
		w.lastCreate = fasttime.UnixNano()
	}
	do := func(op string) {
		switch op {
		case "F":
			if err := w.box.Flush(shardID, w.bothFamilies()); err != nil {
				vevid.OpFailed("special flush: %v", err)
			}
			w.flushedSinceOpen = true
		case "R":
			if err := w.reopen(); err != nil {
				vevid.OpFailed("special reopen: %v", err)
			}
			w.flushedSinceOpen = false
		}
	}
	type cond struct {
		sql string
		sel [3]bool
	}
	conds := []cond{
		{"host in ('b','c')", [3]bool{false, true, true}},
		{"host in ('a','c')", [3]bool{true, false, true}},
		{"host in ('a','b')", [3]bool{true, true, false}},
		{"host!='a'", [3]bool{false, true, true}},
		{"host not in ('b')", [3]bool{true, false, true}},
		{"host='c'", [3]bool{false, false, true}},
		{"host='b'", [3]bool{false, true, false}},
		// one tag filter twice in a condition (each occurrence is evaluated on its own)
		{"(host='a' or host='b') and (host='a' or host='c')", [3]bool{true, false, false}},
		{"(host in ('a','b') and host!='b') or (host in ('a','b') and host!='a')", [3]bool{true, true, false}},
	}
	for p1 := 0; p1 < 8; p1++ { // bit i: the first write of series i goes into the next family
		if threeSeriesP1 >= 0 && p1 != threeSeriesP1 {
			continue
		}
		for _, mid := range []string{"", "F", "R"} {
			for p2 := 0; p2 < 8; p2++ { // bit i: series i is written again into the queried family
				for _, end := range []string{"", "F"} {
					if w.timeouts >= 3 {
						return
					}
					w.seq++
					metric := fmt.Sprintf("%st%d", w.prefix, w.seq)
					var sum [3]float64
					var has [3]bool
					var hist []string
					for i, h := range hosts {
						if p1&(1<<i) != 0 {
							write(metric, h, "fam2", i, v1[i])
							hist = append(hist, h+"@fam2")
						} else {
							write(metric, h, "same", i, v1[i])
							sum[i] += v1[i]
							has[i] = true
							hist = append(hist, h)
						}
					}
					do(mid)
					hist = append(hist, mid)
					for i, h := range hosts {
						if p2&(1<<i) != 0 {
							write(metric, h, "same", 3+i, v2[i])
							sum[i] += v2[i]
							has[i] = true
							hist = append(hist, h)
						}
					}
					do(end)
					hist = append(hist, end)
					scenario := fmt.Sprintf("three-series/%s|%s", mid, end)
					for _, c := range conds {
						for _, gb := range []bool{false, true} {
							want := map[string]float64{}
							for i, h := range hosts {
								if !c.sel[i] || !has[i] {
									continue
								}
								if gb {
									want[fmt.Sprintf("host=%s|%s|%d", h, f, slotOf("same"))] = sum[i]
								} else {
									want[fmt.Sprintf("|%s|%d", f, slotOf("same"))] += sum[i]
								}
							}
							sql := "select " + f + " from " + metric + " where " + c.sql
							if gb {
								sql += " group by host"
							}
							rep.Evaluations++
							rep.DistinctNontrivial++
							got, err := w.querySQL(sql)
							var bad []string
							if err != nil {
								if isTimeout(err) {
									w.timeouts++
									bad = append(bad, "query failed: "+err.Error())
								} else if len(want) != 0 { // nothing selected in the queried family: an error answer is as good as an empty one
									bad = append(bad, "query failed: "+err.Error())
								}
							} else {
								for k, v := range want {
									if g, ok := got[k]; !ok {
										bad = append(bad, "missing "+k)
									} else if g != v {
										bad = append(bad, fmt.Sprintf("%s = %v want %v", k, g, v))
									}
								}
								for k, g := range got {
									if _, ok := want[k]; !ok {
										bad = append(bad, fmt.Sprintf("unexpected %s = %v", k, g))
									}
								}
							}
							rep.Outcome(fmt.Sprintf("special:three-series:%d", len(want)))
							if len(bad) > 0 {
								sort.Strings(bad)
								rep.Count("viol three-series "+scenario, 1)
								rep.Violate(vevid.Violation{Clause: "three-series-condition", Scenario: scenario, Site: "scripted", Replay: Case{Special: "all"},
									Detail: fmt.Sprintf("%s\nwant: %v\nlindb: %s\nhistory: %s (first pass values 1,3,9; second pass 27,81,243)\nquery: %s", strings.Join(bad, "; "), want, renderGot(got), strings.Join(hist, " "), strings.Replace(sql, metric, "M", 1))})
							}
						}
					}
				}
			}
		}
	}
}

// missingGroupTag: one series of the metric does not carry the tag key the query groups by (r: region=x, a: host=a).
// Exhaustive over the write order, the slot of the second write (same / next), what happens between ({nothing, flush,
// reopen}) and after ({nothing, flush}) x {group by host, group by region, no group by}: a group-by returns exactly
// the series that carry the key, with their own values, wherever the other series is stored.
func missingGroupTag(w *world, rep *vevid.Report) {
	type pw struct {
		tags map[string]string
		v    float64
	}
	r := pw{map[string]string{"region": "x"}, 4}
	a := pw{map[string]string{"host": "a"}, 16}
	write := func(metric string, p pw, slot string, off int) {
		w.newTick()
		mp := vbox.MultiPoint{Metric: metric, Tags: p.tags, Timestamp: w.base + slotOf(slot) + int64(off+1)*1000}
		mp.Fields = append(mp.Fields, vbox.FieldValue{Name: fieldName("sum"), Type: "sum", Value: p.v})
		if err := w.box.WriteMulti(shardID, mp); err != nil {
			vevid.OpFailed("special write: %v", err)
		}
		w.lastCreate = fasttime.UnixNano()
	}
	do := func(op string) {
		switch op {
		case "F":
			if err := w.box.Flush(shardID, w.bothFamilies()); err != nil {
				vevid.OpFailed("special flush: %v", err)
			}
			w.flushedSinceOpen = true
		case "R":
			if err := w.reopen(); err != nil {
				vevid.OpFailed("special reopen: %v", err)
			}
			w.flushedSinceOpen = false
		}
	}
	for _, order := range []string{"ra", "ar"} {
		for _, slot2 := range []string{"same", "next"} {
			for _, mid := range []string{"", "F", "R"} {
				for _, end := range []string{"", "F"} {
					if w.timeouts >= 3 {
						return
					}
					w.seq++
					metric := fmt.Sprintf("%sg%d", w.prefix, w.seq)
					first, second := r, a
					if order == "ar" {
						first, second = a, r
					}
					write(metric, first, "same", 0)
					do(mid)
					write(metric, second, slot2, 1)
					do(end)
					slotOfPW := map[string]int64{}
					if order == "ra" {
						slotOfPW["r"], slotOfPW["a"] = slotOf("same"), slotOf(slot2)
					} else {
						slotOfPW["a"], slotOfPW["r"] = slotOf("same"), slotOf(slot2)
					}
					history := fmt.Sprintf("%s@same %s %s@%s %s (r: region=x, a: host=a)", order[:1], mid, order[1:], slot2, end)
					scenario := fmt.Sprintf("missing-group-tag/%s|%s", order, mid+end)
					type qd struct {
						sql  string
						want map[string]float64
					}
					f := fieldName("sum")
					all := map[string]float64{}
					all[fmt.Sprintf("|%s|%d", f, slotOfPW["r"])] += 4
					all[fmt.Sprintf("|%s|%d", f, slotOfPW["a"])] += 16
					qs := []qd{
						{"select " + f + " from " + metric + " group by host", map[string]float64{fmt.Sprintf("host=a|%s|%d", f, slotOfPW["a"]): 16}},
						{"select " + f + " from " + metric + " group by region", map[string]float64{fmt.Sprintf("region=x|%s|%d", f, slotOfPW["r"]): 4}},
						{"select " + f + " from " + metric, all},
					}
					for _, q := range qs {
						rep.Evaluations++
						rep.DistinctNontrivial++
						got, err := w.querySQL(q.sql)
						var bad []string
						if err != nil {
							if isTimeout(err) {
								w.timeouts++
							}
							bad = append(bad, "query failed: "+err.Error())
						} else {
							for k, v := range q.want {
								if g, ok := got[k]; !ok {
									bad = append(bad, "missing "+k)
								} else if g != v {
									bad = append(bad, fmt.Sprintf("%s = %v want %v", k, g, v))
								}
							}
							for k, g := range got {
								if _, ok := q.want[k]; !ok {
									bad = append(bad, fmt.Sprintf("unexpected %s = %v", k, g))
								}
							}
						}
						rep.Outcome(fmt.Sprintf("special:missing-group-tag:%d", len(q.want)))
						if len(bad) > 0 {
							sort.Strings(bad)
							rep.Count("viol missing-group-tag "+scenario, 1)
							rep.Violate(vevid.Violation{Clause: "missing-group-tag", Scenario: scenario, Site: "scripted", Replay: Case{Special: "all"},
								Detail: fmt.Sprintf("%s\nwant: %v\nlindb: %s\nhistory: %s\nquery: %s", strings.Join(bad, "; "), q.want, renderGot(got), history, strings.Replace(q.sql, metric, "M", 1))})
						}
					}
				}
			}
		}
	}
}

// unalignedFamilies: a query range that is aligned to the storage interval but not to the query interval, over two data
// families, with points at the head and at the very end of each family (the query bucket that holds the last slots
// of a family straddles the family boundary). Exhaustive over the non-empty subsets of five points (written in
// time order) x {memory, flushed} x two ranges x intervals {20s, 1m, 5m} x the two multi-field select lists.
func unalignedFamilies(w *world, rep *vevid.Report) {
	type wp struct {
		name string
		t    int64
	}
	last := int64(familyMs/slotMs - 1)
	pts := []wp{{"f1@20", s0 * slotMs}, {"f1@last", last * slotMs}, {"f2@0", familyMs}, {"f2@last-1", familyMs + (last-1)*slotMs}, {"f2@last", familyMs + last*slotMs}}
	multi, _, _ := selectLists()
	var menu []Query
	for _, sl := range multi[:2] {
		for _, r := range []int{mainRanges, mainRanges + 1} {
			for _, iv := range []int{1, 2, 3} {
				menu = append(menu, Query{Sels: sl, Range: r, Ivl: iv, GB: true})
			}
		}
	}
	for mask := 1; mask < 1<<len(pts); mask++ {
		for _, after := range []string{"", "F"} {
			if w.timeouts >= 3 {
				return
			}
			if err := w.box.Flush(shardID, w.bothFamilies()); err != nil {
				vevid.OpFailed("special flush: %v", err)
			}
			w.flushedSinceOpen = true
			w.seq++
			metric := fmt.Sprintf("%su%d", w.prefix, w.seq)
			m := newModel()
			var names []string
			k := 0
			for i, p := range pts {
				if mask&(1<<i) == 0 {
					continue
				}
				w.newTick()
				v := writeValues[k%len(writeValues)]
				if err := w.writePoint(metric, "a", p.t, v, 0); err != nil {
					vevid.OpFailed("special write: %v", err)
				}
				w.lastCreate = fasttime.UnixNano()
				m.write("a", p.t, v)
				names = append(names, p.name)
				k++
			}
			if after == "F" {
				if err := w.box.Flush(shardID, w.bothFamilies()); err != nil {
					vevid.OpFailed("special flush: %v", err)
				}
				m.flush()
			}
			specialEvalMenu(w, rep, "unaligned-range-families", "unaligned-families/"+after, strings.Join(names, " ")+" "+after, m, metric, menu)
		}
	}
}

// compressedWindow: one series whose slots leave the 15-slot write window of the memory database (a later slot moves
// the window on; the slots behind it go to the series' compressed block, which is decoded sequentially from its first
// slot), queried over ranges that start before, at and behind the first compressed slot. Exhaustive over the non-empty
// subsets of seven slots (s0-1, s0, s0+1, s0+2 | s0+15, s0+17 | s0+31) written in time order and, for >= 2 slots, with
// the earliest slot written last (out of order) x {memory, flushed} x five ranges x intervals {storage, 1m}.
func compressedWindow(w *world, rep *vevid.Report) {
	slots := []int64{s0 - 1, s0, s0 + 1, s0 + 2, s0 + 15, s0 + 17, s0 + 31}
	multi, _, _ := selectLists()
	var menu []Query
	for r := windowRanges; r < windowRanges+5; r++ {
		for _, iv := range []int{0, 2} {
			menu = append(menu, Query{Sels: multi[0], Range: r, Ivl: iv, GB: true})
		}
	}
	for mask := 1; mask < 1<<len(slots); mask++ {
		var sel []int64
		for i, sl := range slots {
			if mask&(1<<i) != 0 {
				sel = append(sel, sl)
			}
		}
		orders := [][]int64{sel}
		if len(sel) >= 2 {
			orders = append(orders, append(append([]int64(nil), sel[1:]...), sel[0]))
		}
		for oi, order := range orders {
			for _, after := range []string{"", "F"} {
				if w.timeouts >= 3 {
					return
				}
				if err := w.box.Flush(shardID, w.bothFamilies()); err != nil {
					vevid.OpFailed("special flush: %v", err)
				}
				w.flushedSinceOpen = true
				w.seq++
				metric := fmt.Sprintf("%scw%d", w.prefix, w.seq)
				m := newModel()
				var names []string
				for k, sl := range order {
					w.newTick()
					v := writeValues[k%len(writeValues)]
					if err := w.writePoint(metric, "a", sl*slotMs, v, 0); err != nil {
						vevid.OpFailed("special write: %v", err)
					}
					w.lastCreate = fasttime.UnixNano()
					m.write("a", sl*slotMs, v)
					names = append(names, fmt.Sprintf("a@%d", sl))
				}
				if after == "F" {
					if err := w.box.Flush(shardID, w.bothFamilies()); err != nil {
						vevid.OpFailed("special flush: %v", err)
					}
					m.flush()
				}
				specialEvalMenu(w, rep, "compressed-window", fmt.Sprintf("compressed-window/%d%s", oi, after), strings.Join(names, " ")+" "+after, m, metric, menu)
			}
		}
	}
}

// partialFields: the rows of one series do not all carry the same fields, so table files (and memory databases)
// hold different field subsets of the metric. Exhaustive over: the field subset of two writes ({sum}, {max},
// {sum,max} each), the slot of the second write (same / next), what happens between them ({nothing, flush, reopen})
// and after them ({nothing, flush}) x the select lists {vsum}, {vmax}, {vsum,vmax}.
func partialFields(w *world, rep *vevid.Report) {
	subsets := [][]string{{"sum"}, {"max"}, {"sum", "max"}}
	write := func(metric string, slot string, v float64, fts []string, off int) {
		w.newTick()
		p := vbox.MultiPoint{Metric: metric, Tags: map[string]string{"host": "a"}, Timestamp: w.base + slotOf(slot) + int64(off+1)*1000}
		for _, ft := range fts {
			p.Fields = append(p.Fields, vbox.FieldValue{Name: fieldName(ft), Type: ft, Value: v})
		}
		if err := w.box.WriteMulti(shardID, p); err != nil {
			vevid.OpFailed("special write: %v", err)
		}
		w.lastCreate = fasttime.UnixNano()
	}
	do := func(op string) {
		switch op {
		case "F":
			if err := w.box.Flush(shardID, w.bothFamilies()); err != nil {
				vevid.OpFailed("special flush: %v", err)
			}
			w.flushedSinceOpen = true
		case "R":
			if err := w.reopen(); err != nil {
				vevid.OpFailed("special reopen: %v", err)
			}
			w.flushedSinceOpen = false
		case "FC": // flush, then compact the queried family (blocks with different field sets go through the merger)
			if err := w.box.Flush(shardID, w.bothFamilies()); err != nil {
				vevid.OpFailed("special flush: %v", err)
			}
			w.flushedSinceOpen = true
			if _, _, err := w.box.CompactFamily(shardID, w.base); err != nil {
				vevid.OpFailed("special compaction: %v", err)
			}
		}
	}
	for _, s1 := range subsets {
		for _, s2 := range subsets {
			for _, slot2 := range []string{"same", "next"} {
				for _, mid := range []string{"", "F", "R"} {
					for _, end := range []string{"", "F", "FC"} {
						if w.timeouts >= 3 {
							return
						}
						w.seq++
						metric := fmt.Sprintf("%sp%d", w.prefix, w.seq)
						write(metric, "same", 4, s1, 0)
						do(mid)
						write(metric, slot2, 16, s2, 1)
						do(end)
						// expected cells per field
						exp := map[string]map[int64]float64{"sum": {}, "max": {}}
						add := func(ft string, t int64, v float64) {
							old, ok := exp[ft][t]
							switch {
							case !ok:
								exp[ft][t] = v
							case ft == "sum":
								exp[ft][t] = old + v
							case v > old:
								exp[ft][t] = v
							}
						}
						for _, ft := range s1 {
							add(ft, slotOf("same"), 4)
						}
						for _, ft := range s2 {
							add(ft, slotOf(slot2), 16)
						}
						history := fmt.Sprintf("a@same{%s} %s a@%s{%s} %s", strings.Join(s1, ","), mid, slot2, strings.Join(s2, ","), end)
						scenario := fmt.Sprintf("partial-fields/%s|%s|%s", strings.Join(s1, "+"), mid+end, strings.Join(s2, "+"))
						for _, sl := range subsets {
							rep.Evaluations++
							q := Query{Range: 0, Ivl: 0, GB: true}
							want := map[string]float64{}
							for _, ft := range sl {
								q.Sels = append(q.Sels, Sel{F: ft})
								for t, v := range exp[ft] {
									want[fmt.Sprintf("host=a|%s|%d", fieldName(ft), t)] = v
								}
							}
							got, err := w.query(q, metric)
							var bad []string
							if err != nil {
								if isTimeout(err) {
									w.timeouts++
								}
								if len(want) > 0 || isTimeout(err) {
									bad = append(bad, "query failed: "+err.Error())
								}
							} else {
								for k, v := range want {
									if g, ok := got[k]; !ok {
										bad = append(bad, "missing "+k)
									} else if g != v {
										bad = append(bad, fmt.Sprintf("%s = %v want %v", k, g, v))
									}
								}
								for k, g := range got {
									if _, ok := want[k]; !ok {
										bad = append(bad, fmt.Sprintf("unexpected %s = %v", k, g))
									}
								}
							}
							rep.Outcome(fmt.Sprintf("special:partial-fields:%d", len(want)))
							if len(want) > 0 {
								rep.DistinctNontrivial++
							}
							if len(bad) > 0 {
								sort.Strings(bad)
								rep.Count("viol partial-field-places "+scenario, 1)
								rep.Violate(vevid.Violation{Clause: "partial-field-places", Scenario: scenario, Site: "scripted", Replay: Case{Special: "all"},
									Detail: fmt.Sprintf("%s\nwant: %v\nlindb: %s\nhistory: %s\nquery: %s", strings.Join(bad, "; "), want, renderGot(got), history, q.sql("M"))})
							}
						}
					}
				}
			}
		}
	}
}

func (w *world) writePoint(metric, series string, t int64, v float64, off int) error {
	p := vbox.MultiPoint{Metric: metric, Tags: map[string]string{"host": series}, Timestamp: w.base + t + int64(off+1)*1000}
	for _, ft := range fieldTypes {
		p.Fields = append(p.Fields, vbox.FieldValue{Name: fieldName(ft), Type: ft, Value: v})
	}
	return w.box.WriteMulti(shardID, p)
}

// specialMenu: bare multi-field list and the sum of every field on every range, storage interval and 1m.
func specialMenu() []Query {
	multi, _, _ := selectLists()
	var out []Query
	for _, sl := range multi[:2] {
		for r := 0; r < mainRanges; r++ {
			for _, iv := range []int{0, 2} {
				out = append(out, Query{Sels: sl, Range: r, Ivl: iv, GB: true})
			}
		}
	}
	return out
}

func specialEval(w *world, rep *vevid.Report, clause, scenario, history string, m *model, metric string) {
	specialEvalMenu(w, rep, clause, scenario, history, m, metric, specialMenu())
}

func specialEvalMenu(w *world, rep *vevid.Report, clause, scenario, history string, m *model, metric string, menu []Query) {
	for _, q := range menu {
		rep.Evaluations++
		exp := m.eval(q)
		got, err := w.query(q, metric)
		var bad []string
		timedOut := false
		if err != nil {
			if isTimeout(err) {
				w.timeouts++
				timedOut = true
				bad = append(bad, fmt.Sprintf("query did not complete within %v: %v", vbox.QueryTimeout, err))
			} else if len(exp) > 0 {
				bad = append(bad, fmt.Sprintf("query failed: %v", err))
			}
		} else {
			for k, e := range exp {
				if g, ok := got[k]; !ok {
					bad = append(bad, "missing "+k)
				} else if !e.cands.has(g) {
					bad = append(bad, fmt.Sprintf("%s = %v want %v", k, g, []float64(e.cands)))
				}
			}
			for k := range got {
				if _, ok := exp[k]; !ok {
					bad = append(bad, "unexpected "+k)
				}
			}
		}
		rep.Outcome(fmt.Sprintf("special:%s:%d", clause, len(exp)))
		if len(exp) > 0 {
			rep.DistinctNontrivial++
		}
		if len(bad) > 0 {
			// a disagreement the as-built place model reproduces item by item is an instance of the two recorded
			// deviations, not of the scripted scenario's own clause
			cl, sc, site := clause, scenario, "scripted"
			if err == nil {
				alt := m.alts[0].eval(q)
				names := map[string]bool{}
				for _, sel := range q.Sels {
					if c := classify(q, sel, sel.String(), exp, alt, got); c != "result-differs" {
						names[c] = true
					} else if itemBad(sel.String(), exp, got) {
						names = map[string]bool{"": true}
						break
					}
				}
				if len(names) == 1 && !names[""] {
					for c := range names {
						cl = c
					}
					sc, site = "multi", "leaf"
					if len(q.Sels) == 1 {
						sc = q.Sels[0].F + "." + q.Sels[0].Fn
					}
				}
			}
			rep.Count("viol "+cl+" "+scenario, 1)
			rep.Violate(vevid.Violation{Clause: cl, Scenario: sc, Site: site, Replay: Case{Special: "all"},
				Detail: fmt.Sprintf("%s\nreference: %s\nlindb:     %s\nhistory: %s\nquery: %s", strings.Join(bad, "; "), renderExp(exp), renderGot(got), history, q.sql("M"))})
		}
		if timedOut {
			return // the rest of the menu would only wait for more timeouts
		}
	}
}

// itemBad: lindb's answer for one select item differs from the reference.
func itemBad(item string, exp map[string]*expPoint, got map[string]float64) bool {
	for k, e := range exp {
		if strings.Split(k, "|")[1] != item {
			continue
		}
		if g, ok := got[k]; !ok || !e.cands.has(g) {
			return true
		}
	}
	for k := range got {
		if strings.Split(k, "|")[1] == item {
			if _, ok := exp[k]; !ok {
				return true
			}
		}
	}
	return false
}

func isTimeout(err error) bool {
	msg := err.Error()
	return strings.Contains(msg, "timeout") || strings.Contains(msg, "no response from leaves") || strings.Contains(msg, "deadline exceeded")
}

// sameTick: see above. Both writes are verified to fall between two readings of the fast clock that are equal; if the
// scheduler never lets that happen the scenario is counted as skipped (never a violation).
func sameTick(w *world, rep *vevid.Report) {
	for _, after := range []string{"", "F", "R", "F w", "R w"} {
		if w.timeouts >= 3 {
			return
		}
		scenario := "same-tick/" + strings.ReplaceAll(after, " ", "")
		ok := false
		for try := 0; try < 40 && !ok; try++ {
			// both families must be without a memory database: flush what is there
			if err := w.box.Flush(shardID, w.bothFamilies()); err != nil {
				vevid.OpFailed("special flush: %v", err)
			}
			w.flushedSinceOpen = true
			w.seq++
			metric := fmt.Sprintf("%st%d", w.prefix, w.seq)
			m := newModel()
			// start right after a tick
			t := fasttime.UnixNano()
			for fasttime.UnixNano() == t {
				time.Sleep(50 * time.Microsecond)
			}
			t0 := fasttime.UnixNano()
			if err := w.writePoint(metric, "a", slotOf("same"), 4, 0); err != nil {
				vevid.OpFailed("special write: %v", err)
			}
			if err := w.writePoint(metric, "a", slotOf("fam2"), 1, 1); err != nil {
				vevid.OpFailed("special write: %v", err)
			}
			t1 := fasttime.UnixNano()
			w.lastCreate = t1
			m.write("a", slotOf("same"), 4)
			m.write("a", slotOf("fam2"), 1)
			if t0 != t1 {
				// the two writes did not fall into one tick of the fast clock: try again
				rep.Count("same-tick retries", 1)
				continue
			}
			ok = true
			history := "a@same a@fam2 (both memory databases created in one clock tick) " + after
			for _, op := range strings.Fields(after) {
				switch op {
				case "F":
					if err := w.box.Flush(shardID, w.bothFamilies()); err != nil {
						vevid.OpFailed("special flush: %v", err)
					}
					m.flush()
				case "R":
					if err := w.reopen(); err != nil {
						vevid.OpFailed("special reopen: %v", err)
					}
					w.flushedSinceOpen = false
					m.reopen()
				case "w":
					w.newTick()
					if err := w.writePoint(metric, "a", slotOf("next"), 16, 2); err != nil {
						vevid.OpFailed("special write: %v", err)
					}
					w.lastCreate = fasttime.UnixNano()
					m.write("a", slotOf("next"), 16)
				}
			}
			specialEval(w, rep, "memdb-same-tick-slot-range", scenario, history, m, metric)
		}
		if !ok {
			rep.Count("same-tick skipped", 1)
		}
	}
}

// emptyMetaFlush: see above.
func emptyMetaFlush(w *world, rep *vevid.Report) {
	for _, after := range []string{"R", "F R"} {
		if w.timeouts >= 3 {
			return
		}
		// fresh in-memory metadata stores
		if err := w.reopen(); err != nil {
			vevid.OpFailed("special reopen: %v", err)
		}
		w.flushedSinceOpen = false
		w.seq++
		x := fmt.Sprintf("%sx%d", w.prefix, w.seq)
		y := fmt.Sprintf("%sy%d", w.prefix, w.seq)
		w.newTick()
		if err := w.writePoint(x, "a", slotOf("same"), 4, 0); err != nil {
			vevid.OpFailed("special write: %v", err)
		}
		w.lastCreate = fasttime.UnixNano()
		for i := 0; i < 2; i++ { // the second flush has nothing new to write
			if err := w.box.Flush(shardID, w.bothFamilies()); err != nil {
				vevid.OpFailed("special flush: %v", err)
			}
		}
		m := newModel()
		w.newTick()
		if err := w.writePoint(y, "a", slotOf("same"), 1, 0); err != nil {
			vevid.OpFailed("special write: %v", err)
		}
		w.lastCreate = fasttime.UnixNano()
		m.write("a", slotOf("same"), 1)
		for _, op := range strings.Fields(after) {
			switch op {
			case "F":
				if err := w.box.Flush(shardID, w.bothFamilies()); err != nil {
					vevid.OpFailed("special flush: %v", err)
				}
				m.flush()
			case "R":
				if err := w.reopen(); err != nil {
					vevid.OpFailed("special reopen: %v", err)
				}
				m.reopen()
			}
		}
		specialEval(w, rep, "empty-meta-flush-stops-persistence", "empty-meta-flush/"+strings.ReplaceAll(after, " ", ""),
			"metric X: a@same F F; metric Y: a@same "+after+" (query Y)", m, y)
	}
}
