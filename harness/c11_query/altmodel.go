package main

import (
	"fmt"
	"sort"
)

// ---------------------------------------------------------------------------------------------------
// The "as built" model: it is NOT the oracle. It mirrors how the leaf combines the storage places of a family
// (each place - compressed buffer of a series, write buffer of a series, every table file - is down-sampled on its own
// into the query buckets with the aggregate the FUNCTION selects, and the partial results are merged with that same
// aggregate) and is only used to give a disagreement with the reference its stable clause id:
//
//	place-partial-aggregate      values of one slot that live in different places are combined by the function's
//	                             aggregate instead of the field type's (sum/min/max are computed over partial values)
//	first-last-bucket-order      the first/last value of a bucket is chosen by place order, not by slot order
//	first-last-slot-merge-order  the memdb merges write buffer and compressed buffer of a first/last field with the
//	                             operands swapped (flush / window compaction keep the older value for last)
//	(repaired in the tree, the model no longer mirrors it)
//	memdb-miss-hides-files       a memory database that knows the metric but none of the filtered series fails the
//	                             whole family filter, the family's files are not read; the same the other way round:
//	                             files that hold the metric but none of the filtered series hide the memory database
//	write-buffer-end-shrinks     a write of a NEW slot inside the memdb write window sets the buffer's end marker to that
//	                             slot even when later slots are already present: they become invisible to queries,
//	                             window compaction and flush (second instance of this model, endBug = true)
//
// A disagreement that this model does not reproduce exactly keeps the clause result-differs.

type avals map[string]vset // field type -> accepted values

func newVals(v float64) avals {
	a := avals{}
	for _, t := range fieldTypes {
		a[t] = single(v)
	}
	return a
}

// inWindow: a second write of the same slot inside the write buffer (exact, ordered).
func (a avals) inWindow(v float64) {
	a["sum"] = combine(a["sum"], single(v), "sum", true)
	a["min"] = combine(a["min"], single(v), "min", true)
	a["max"] = combine(a["max"], single(v), "max", true)
	a["last"] = single(v)
}

// mergeVals combines the values of one cell held by two places with the field type's aggregate
// (first/last: either operand - this covers the swapped operands of memdb.merge and the file merger).
func mergeVals(a, b avals) avals {
	if a == nil {
		return b
	}
	if b == nil {
		return a
	}
	out := avals{}
	for _, t := range fieldTypes {
		out[t] = combine(a[t], b[t], typeAgg[t], false)
	}
	return out
}

type aplace struct {
	cells map[ckey]avals
}

type aseries struct {
	compress map[int64]avals // slot start (relative ms) -> values
	buf      map[int64]avals
	start    int64 // first slot index of the write window
	end      int64 // end marker of the write buffer (delta to start)
}

// visible returns the cells of the write buffer a reader sees.
func (s *aseries) visible(endBug bool) map[int64]avals {
	if !endBug {
		return s.buf
	}
	out := map[int64]avals{}
	for t, v := range s.buf {
		if (t%familyMs)/slotMs <= s.start+s.end {
			out[t] = v
		}
	}
	return out
}

type afam struct {
	mem          map[string]*aseries
	memLo, memHi int64 // metric level slot range of the current memory database (slot indexes)
	files        []*aplace
}

type altModel struct {
	fams        [2]afam
	sinceReopen map[string]bool
	endBug      bool // also mirror write-buffer-end-shrinks
}

const memWindow = 15 // (pageSize 128 - header 8) / 8 slots per series/field write buffer

func newAlt(endBug bool) *altModel { return &altModel{sinceReopen: map[string]bool{}, endBug: endBug} }

func (m *altModel) write(series string, t int64, v float64) {
	f := &m.fams[t/familyMs]
	slot := (t % familyMs) / slotMs
	if f.mem == nil {
		f.mem = map[string]*aseries{}
		f.memLo, f.memHi = slot, slot
	}
	if slot < f.memLo {
		f.memLo = slot
	}
	if slot > f.memHi {
		f.memHi = slot
	}
	m.sinceReopen[series] = true
	s := f.mem[series]
	if s == nil {
		s = &aseries{compress: map[int64]avals{}, buf: map[int64]avals{}}
		f.mem[series] = s
	}
	switch {
	case len(s.buf) == 0:
		s.start, s.end = slot, 0
		s.buf[t] = newVals(v)
	case slot < s.start || slot > s.start+memWindow-1:
		for bt, bv := range s.visible(m.endBug) {
			s.compress[bt] = mergeVals(bv, s.compress[bt])
		}
		s.buf = map[int64]avals{t: newVals(v)}
		s.start, s.end = slot, 0
	default:
		if c := s.buf[t]; c != nil {
			c.inWindow(v)
		} else {
			s.buf[t] = newVals(v)
			if m.endBug || slot-s.start > s.end {
				s.end = slot - s.start
			}
		}
	}
}

func (m *altModel) flush() {
	for i := range m.fams {
		f := &m.fams[i]
		if f.mem == nil {
			continue
		}
		p := &aplace{cells: map[ckey]avals{}}
		for name, s := range f.mem {
			for t, v := range s.compress {
				p.cells[ckey{name, t}] = v
			}
			for t, v := range s.visible(m.endBug) {
				k := ckey{name, t}
				p.cells[k] = mergeVals(v, p.cells[k])
			}
		}
		f.files = append(f.files, p)
		f.mem = nil
	}
}

// compact: the family's files were merged into one (the caller knows from the real file counts that the job ran).
func (m *altModel) compact(fam int) {
	f := &m.fams[fam]
	if len(f.files) < 2 {
		return
	}
	p := &aplace{cells: map[ckey]avals{}}
	for _, fp := range f.files {
		for k, v := range fp.cells {
			p.cells[k] = mergeVals(p.cells[k], v)
		}
	}
	f.files = []*aplace{p}
}

func (m *altModel) reopen() {
	m.flush()
	m.sinceReopen = map[string]bool{}
}

// eval returns, per result key, the values the as-built combination can produce.
func (m *altModel) eval(q Query) map[string]vset {
	start, end, ivl := q.plan()
	out := map[string]vset{}
	for _, it := range q.Sels {
		agg := aggOf(it.F, it.Fn)
		acc := map[string]map[int64]vset{} // group -> bucket -> values
		addPlace := func(cells map[ckey]avals) {
			keys := make([]ckey, 0, len(cells))
			for k := range cells {
				if k.t < start || k.t > end || (q.Cond != "" && k.series != q.Cond) {
					continue
				}
				keys = append(keys, k)
			}
			sort.Slice(keys, func(i, j int) bool {
				if keys[i].series != keys[j].series {
					return keys[i].series < keys[j].series
				}
				return keys[i].t < keys[j].t
			})
			part := map[string]map[int64]vset{}
			for _, k := range keys {
				group := ""
				if q.GB {
					group = "host=" + k.series
				}
				// the place is down-sampled per series; series of one group share the aggregator afterwards
				pk := group + "\x00" + k.series
				if part[pk] == nil {
					part[pk] = map[int64]vset{}
				}
				b := (k.t - start) / ivl
				part[pk][b] = combine(part[pk][b], cells[k][it.F], agg, true)
			}
			for pk, bs := range part {
				group := pk[:len(pk)-2]
				if acc[group] == nil {
					acc[group] = map[int64]vset{}
				}
				for b, v := range bs {
					acc[group][b] = combine(acc[group][b], v, agg, false)
				}
			}
		}
		for fi := range m.fams {
			f := &m.fams[fi]
			famStart := int64(fi) * familyMs
			if end < famStart || start > famStart+familyMs-1 {
				continue
			}
			// query slot range inside this family
			lo, hi := int64(0), int64(familyMs/slotMs-1)
			if start > famStart {
				lo = (start - famStart) / slotMs
			}
			if end < famStart+familyMs-1 {
				hi = (end - famStart) / slotMs
			}
			// (memdb-miss-hides-files is repaired in the tree, commit 133f709: a place without the filtered series no
			// longer drops the other places of the family)
			_, _ = lo, hi
			for name, s := range f.mem {
				c := map[ckey]avals{}
				for t, v := range s.compress {
					c[ckey{name, t}] = v
				}
				addPlace(c)
				b := map[ckey]avals{}
				for t, v := range s.visible(m.endBug) {
					b[ckey{name, t}] = v
				}
				addPlace(b)
			}
			for _, p := range f.files {
				addPlace(p.cells)
			}
		}
		for group, bs := range acc {
			for b, v := range bs {
				vv := append(vset{}, v...)
				if it.Fn == "rate" {
					for i := range vv {
						vv[i] = vv[i] / float64(ivl/1000)
					}
				}
				out[fmt.Sprintf("%s|%s|%d", group, it.String(), start+b*ivl)] = vv
			}
		}
	}
	return out
}
