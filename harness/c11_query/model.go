package main

import (
	"fmt"
	"sort"
)

// ---------------------------------------------------------------------------------------------------
// The naive reference model: it stores every accepted point.
//
// A "place" is one generation of a family's memory database (it ends with the flush / close that turns it into a
// file). Inside one place the order of writes is known, so the value of a first/last cell is exact. Values of one
// cell that come from different places (memdb vs. file vs. another file, or what compaction made of them) may be
// combined in any order for first/last fields ("one of the contributed values", as C03 states); for sum/min/max the
// combination is exact everywhere. Compaction therefore does not change the model at all.

const (
	slotMs   = 10_000
	familyMs = 3_600_000
)

type ckey struct {
	series string
	t      int64 // slot start, ms relative to the base hour (family 0 start)
}

// cell is what one place holds for one (series, slot): every field type's value, the row wrote the same value
// into all five fields.
type cell struct {
	sum, min, max float64
	last, first   float64
	n             int
}

type place struct {
	cells map[ckey]*cell
}

type famState struct {
	mem   *place
	files []*place
	l0    int // level-0 files the case itself produced since the last effective compaction
}

type model struct {
	fams   [2]famState
	points int
	// the "as built" models used only to name known deviations (altmodel.go): without / with the end-marker defect
	alts [2]*altModel
}

func newModel() *model { return &model{alts: [2]*altModel{newAlt(false), newAlt(true)}} }

func (m *model) write(series string, t int64, v float64) {
	f := &m.fams[t/familyMs]
	if f.mem == nil {
		f.mem = &place{cells: map[ckey]*cell{}}
	}
	k := ckey{series, t}
	c := f.mem.cells[k]
	if c == nil {
		f.mem.cells[k] = &cell{sum: v, min: v, max: v, last: v, first: v, n: 1}
	} else {
		c.sum += v
		if v < c.min {
			c.min = v
		}
		if v > c.max {
			c.max = v
		}
		c.last = v
		c.n++
	}
	m.points++
	for _, a := range m.alts {
		a.write(series, t, v)
	}
}

// reopen: Close flushes every memory database; the in-memory index starts empty.
func (m *model) reopen() {
	m.flush()
	for _, a := range m.alts {
		a.reopen()
	}
}

// flush ends the current place of every family that has one; it reports whether anything was flushed.
func (m *model) flush() bool {
	any := false
	for i := range m.fams {
		f := &m.fams[i]
		if f.mem != nil {
			f.files = append(f.files, f.mem)
			f.mem = nil
			f.l0++
			any = true
		}
	}
	for _, a := range m.alts {
		a.flush()
	}
	return any
}

// compactable reports whether Family.Compact() would merge files the case produced (>= 2 level-0 files).
func (m *model) compactable() bool {
	for i := range m.fams {
		if m.fams[i].l0 >= 2 {
			return true
		}
	}
	return false
}

// compact is the enumeration's view (only the case's own files count).
func (m *model) compact() {
	for i := range m.fams {
		if m.fams[i].l0 >= 2 {
			m.compacted(i)
		}
	}
}

// compacted: the family's compaction job really ran (it merges every level-0 file with the overlapping level-1 files).
func (m *model) compacted(fam int) {
	m.fams[fam].l0 = 0
	for _, a := range m.alts {
		a.compact(fam)
	}
}

func (m *model) hasMem() bool {
	for i := range m.fams {
		if m.fams[i].mem != nil {
			return true
		}
	}
	return false
}

// ---------------------------------------------------------------------------------------------------
// candidate sets (small sorted sets of float64)

type vset []float64

func single(v float64) vset { return vset{v} }

func (a vset) norm() vset {
	sort.Float64s(a)
	out := a[:0]
	for i, v := range a {
		if i == 0 || v != a[i-1] {
			out = append(out, v)
		}
	}
	return out
}

func union(a, b vset) vset {
	out := make(vset, 0, len(a)+len(b))
	out = append(out, a...)
	out = append(out, b...)
	return out.norm()
}

func (a vset) has(v float64) bool {
	for _, x := range a {
		if x == v {
			return true
		}
	}
	return false
}

// combine folds b into a with the aggregate; ordered = "a precedes b in a known order"
// (only relevant for first/last).
func combine(a, b vset, agg string, ordered bool) vset {
	if a == nil {
		return b
	}
	if b == nil {
		return a
	}
	switch agg {
	case "last":
		if ordered {
			return b
		}
		return union(a, b)
	case "first":
		if ordered {
			return a
		}
		return union(a, b)
	}
	out := make(vset, 0, len(a)*len(b))
	for _, x := range a {
		for _, y := range b {
			switch agg {
			case "sum":
				out = append(out, x+y)
			case "min":
				if y < x {
					out = append(out, y)
				} else {
					out = append(out, x)
				}
			case "max":
				if y > x {
					out = append(out, y)
				} else {
					out = append(out, x)
				}
			default:
				panic("unknown aggregate " + agg)
			}
		}
	}
	return out.norm()
}

func (c *cell) value(ftype string) float64 {
	switch ftype {
	case "sum":
		return c.sum
	case "min":
		return c.min
	case "max":
		return c.max
	case "last":
		return c.last
	case "first":
		return c.first
	}
	panic("unknown field type " + ftype)
}

// slotValue is level 1: the points of one storage slot of one series combined by the field type's aggregate.
// nplaces reports from how many places the slot received values.
func (m *model) slotValue(ftype string, k ckey) (v vset, nplaces int) {
	f := &m.fams[k.t/familyMs]
	agg := typeAgg[ftype]
	add := func(p *place) {
		if p == nil {
			return
		}
		if c := p.cells[k]; c != nil {
			v = combine(v, single(c.value(ftype)), agg, false)
			nplaces++
		}
	}
	for _, p := range f.files {
		add(p)
	}
	add(f.mem)
	return
}

// cells returns every (series, slot) that holds at least one point, sorted by series then time.
func (m *model) cellKeys() []ckey {
	seen := map[ckey]bool{}
	for i := range m.fams {
		f := &m.fams[i]
		ps := append([]*place{}, f.files...)
		ps = append(ps, f.mem)
		for _, p := range ps {
			if p == nil {
				continue
			}
			for k := range p.cells {
				seen[k] = true
			}
		}
	}
	out := make([]ckey, 0, len(seen))
	for k := range seen {
		out = append(out, k)
	}
	sort.Slice(out, func(i, j int) bool {
		if out[i].series != out[j].series {
			return out[i].series < out[j].series
		}
		return out[i].t < out[j].t
	})
	return out
}

// ---------------------------------------------------------------------------------------------------
// queries

// Sel is one select item: a field (named by its type) and an optional function.
type Sel struct {
	F  string `json:"f"`
	Fn string `json:"fn,omitempty"`
}

func (s Sel) String() string {
	if s.Fn == "" {
		return fieldName(s.F)
	}
	return s.Fn + "(" + fieldName(s.F) + ")"
}

// Query is one entry of the query menu. Range and Ivl index the tables below.
type Query struct {
	Sels  []Sel  `json:"sels"`
	Range int    `json:"range"`
	Ivl   int    `json:"ivl"`
	Cond  string `json:"cond"` // "" | a | b: where host='<cond>'
	GB    bool   `json:"gb"`   // group by host
}

type rangeDef struct {
	name       string
	start, end int64 // ms relative to the base hour, end inclusive, as given to the statement
}

// S0 is the "same" slot; see slotOf.
const s0 = 20

var ranges = []rangeDef{
	{"family", 0, familyMs - 1},                                   // the whole first family (diff < 1h)
	{"two-families", 0, 2*familyMs - 1},                           // both families (diff >= 1h: interval re-calculation)
	{"partial", (s0-1)*slotMs + 5000, s0*slotMs + 5000},           // unaligned, only slots s0-1 and s0
	{"family2-partial", familyMs + s0*slotMs, familyMs + 300_000}, // starts inside the second family
	// only used by the scripted scenario unaligned-families (special.go): aligned to the storage interval, not to the
	// query interval, over both families up to the end of the second one / into the second one
	{"unaligned-two-families", 30_000, 2*familyMs - 1},
	{"unaligned-into-family2", 70_000, familyMs + (s0+1)*slotMs},
	// only used by the scripted scenario compressed-window (special.go): ranges that start at / behind slots which the
	// memory database has already moved from its write window into the compressed block of the series
	{"from-prev", (s0 - 1) * slotMs, familyMs - 1},
	{"from-same", s0 * slotMs, familyMs - 1},
	{"from-next", (s0 + 1) * slotMs, familyMs - 1},
	{"from-far", (s0 + 15) * slotMs, familyMs - 1},
	{"same-to-next2", s0 * slotMs, (s0+2)*slotMs + 5000},
}

const windowRanges = 6 // index of "from-prev"

// mainRanges / mainIntervals: what the enumerated menus use (the tables' tails belong to scripted scenarios).
const (
	mainRanges    = 4
	mainIntervals = 3
)

var intervals = []int64{0, 20_000, 60_000, 300_000} // 0 = not given (storage interval); 5m only in scripted scenarios

// plan reproduces what the statement documents as the effective range / interval: start and end are truncated to
// the storage interval, the query interval is a multiple of it, both ends are inclusive.
func (q Query) plan() (start, end, ivl int64) {
	r := ranges[q.Range]
	start = r.start / slotMs * slotMs
	end = r.end / slotMs * slotMs
	ivl = intervals[q.Ivl]
	if ivl == 0 {
		ivl = slotMs
	}
	return
}

func (q Query) sql(metric string) string {
	s := "select "
	for i, it := range q.Sels {
		if i > 0 {
			s += ","
		}
		s += it.String()
	}
	s += " from " + metric
	if q.Cond != "" {
		s += " where host='" + q.Cond + "'"
	}
	var gb []string
	if q.GB {
		gb = append(gb, "host")
	}
	if iv := intervals[q.Ivl]; iv != 0 {
		gb = append(gb, fmt.Sprintf("time(%ds)", iv/1000))
	}
	for i, g := range gb {
		if i == 0 {
			s += " group by "
		} else {
			s += ","
		}
		s += g
	}
	return s
}

func (q Query) class() string {
	c, g := "all", "nogroup"
	if q.Cond != "" {
		c = "cond-" + q.Cond
	}
	if q.GB {
		g = "groupby"
	}
	multi := "single"
	if len(q.Sels) > 1 {
		multi = "multi"
	}
	return fmt.Sprintf("range=%s ivl=%ds %s %s %s", ranges[q.Range].name, intervals[q.Ivl]/1000, c, g, multi)
}

// expectation of one result point
type expPoint struct {
	cands   vset
	nplaces int // max number of places one contributing slot received values from
	nslots  int
	nseries int
	// maxSeriesSlots is the largest number of slots one series contributes to the bucket
	maxSeriesSlots int
}

// eval is level 2 + function application: storage slots of one query bucket and then the series of one group are
// combined by the aggregate the function selects for the field type; then the function is applied.
// The result maps "tags|item|timestamp-relative-to-base" to the accepted values.
func (m *model) eval(q Query) map[string]*expPoint {
	start, end, ivl := q.plan()
	out := map[string]*expPoint{}
	keys := m.cellKeys()
	for _, it := range q.Sels {
		agg := aggOf(it.F, it.Fn)
		// group -> bucket -> series -> value
		type acc struct {
			v       vset
			nplaces int
			nslots  int
		}
		perSeries := map[string]map[int64]map[string]*acc{}
		for _, k := range keys { // sorted by series, time: slots of one series arrive in time order
			if k.t < start || k.t > end {
				continue
			}
			if q.Cond != "" && k.series != q.Cond {
				continue
			}
			group := ""
			if q.GB {
				group = "host=" + k.series
			}
			bucket := (k.t - start) / ivl
			sv, np := m.slotValue(it.F, k)
			g := perSeries[group]
			if g == nil {
				g = map[int64]map[string]*acc{}
				perSeries[group] = g
			}
			b := g[bucket]
			if b == nil {
				b = map[string]*acc{}
				g[bucket] = b
			}
			a := b[k.series]
			if a == nil {
				a = &acc{}
				b[k.series] = a
			}
			a.v = combine(a.v, sv, agg, true) // later slot of the same series: ordered
			if np > a.nplaces {
				a.nplaces = np
			}
			a.nslots++
		}
		for group, g := range perSeries {
			for bucket, b := range g {
				names := make([]string, 0, len(b))
				for s := range b {
					names = append(names, s)
				}
				sort.Strings(names)
				ep := &expPoint{nseries: len(names)}
				for _, s := range names {
					ep.cands = combine(ep.cands, b[s].v, agg, false) // no order between series
					if b[s].nplaces > ep.nplaces {
						ep.nplaces = b[s].nplaces
					}
					ep.nslots += b[s].nslots
					if b[s].nslots > ep.maxSeriesSlots {
						ep.maxSeriesSlots = b[s].nslots
					}
				}
				if it.Fn == "rate" {
					for i := range ep.cands {
						ep.cands[i] = ep.cands[i] / float64(ivl/1000)
					}
				}
				out[fmt.Sprintf("%s|%s|%d", group, it.String(), start+bucket*ivl)] = ep
			}
		}
	}
	return out
}
