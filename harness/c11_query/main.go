package main

import (
	"fmt"
	"os"
	"time"

	"github.com/lindb/lindb/internal/vbox"
	"github.com/lindb/lindb/internal/vevid"
	"github.com/lindb/lindb/models"
	"github.com/lindb/lindb/pkg/option"
	"github.com/lindb/lindb/pkg/timeutil"
)

func main() {
	f := vevid.ParseFlags()
	rep := vevid.New("C11")
	opt := &option.DatabaseOption{Intervals: option.Intervals{{Interval: timeutil.Interval(10_000), Retention: timeutil.Interval(3000 * 24 * 3600 * 1000)}}, AutoCreateNS: true}
	b, err := vbox.Open(f.Scratch+"/eng", "db", opt, []models.ShardID{1, 2})
	if err != nil {
		vevid.Fatal("open: %v", err)
	}
	defer b.Close()
	day := time.Now().UTC().Truncate(24*time.Hour).UnixMilli() - 24*3600*1000
	base := day + 10*3600*1000
	pts := []vbox.Point{
		{Metric: "cpu", Tags: map[string]string{"host": "a"}, Field: "f1", Type: "sum", Value: 1, Timestamp: base + 5000},
		{Metric: "cpu", Tags: map[string]string{"host": "a"}, Field: "f1", Type: "sum", Value: 2, Timestamp: base + 6000},
		{Metric: "cpu", Tags: map[string]string{"host": "b"}, Field: "f1", Type: "sum", Value: 10, Timestamp: base + 25000},
	}
	if err := b.Write(1, pts); err != nil {
		vevid.Fatal("write: %v", err)
	}
	if err := b.Write(2, []vbox.Point{{Metric: "cpu", Tags: map[string]string{"host": "a"}, Field: "f1", Type: "sum", Value: 100, Timestamp: base + 15000}}); err != nil {
		vevid.Fatal("write: %v", err)
	}
	tr := timeutil.TimeRange{Start: base, End: base + 60000}
	if err := b.Flush(1, tr); err != nil {
		vevid.Fatal("flush: %v", err)
	}
	_ = b.Write(1, []vbox.Point{{Metric: "cpu", Tags: map[string]string{"host": "a"}, Field: "f1", Type: "sum", Value: 7, Timestamp: base + 35000},
		{Metric: "cpu", Tags: map[string]string{"host": "a"}, Field: "f1", Type: "sum", Value: 4, Timestamp: base + 5000}})
	t0 := time.Now()
	r := b.Query("select f1 from cpu group by host", tr, vbox.Layout{Leaves: []vbox.Leaf{{Node: "10.0.0.1:2891", Shards: []models.ShardID{1, 2}}}, CompleteAt: -1})
	fmt.Fprintln(os.Stderr, "query took", time.Since(t0), "err", r.Err, "leafErrs", r.LeafErrs)
	for _, l := range vbox.Canon(r.Result) {
		fmt.Fprintln(os.Stderr, l)
	}
	r = b.Query("select f1 from cpu group by host", tr, vbox.Layout{Leaves: []vbox.Leaf{{Node: "10.0.0.1:2891", Shards: []models.ShardID{1}}, {Node: "10.0.0.2:2891", Shards: []models.ShardID{2}}}, Order: []int{1, 0}, CompleteAt: 2})
	fmt.Fprintln(os.Stderr, "2 leaves: err", r.Err, "leafErrs", r.LeafErrs)
	for _, l := range vbox.Canon(r.Result) {
		fmt.Fprintln(os.Stderr, l)
	}
	rep.Evaluations = 2
	rep.DistinctNontrivial = 2
	rep.Sample("smoke")
	rep.Write()
}
