// C11 harness: a query returns what a naive model computes from the written points.
//
// Bounded exhaustive enumeration of write / flush / compact / reopen histories on a real tsdb.Engine ("node in a
// box": real memdb, real kv files, real leaf task processor, real root plan / merge / expression evaluation), each
// followed by a menu of queries whose results are compared with a reference model that stores every point
// (model.go) and knows only the literal copies of the specification tables (tables.go).
package main

import (
	"fmt"
	"os"
	"sort"
	"strings"

	"github.com/lindb/lindb/internal/vbox"
	"github.com/lindb/lindb/internal/vevid"
)

func main() {
	f := vevid.ParseFlags()
	rep := vevid.New("C11")
	rep.Rule = "a case = one history over {write(series,slot), flush, compact, reopen} + the whole query menu; every (case, query) pair is one evaluation; " +
		"a pair is non-trivial when the reference result is non-empty and at least one result point combines >= 2 points (same slot, same bucket or same group)"
	checkTables()
	w := openWorld(f.Scratch+"/eng", fmt.Sprintf("m%d_", f.Shard))
	defer w.box.Close()

	if len(f.Args) > 0 && f.Args[0] == "count" {
		for _, tier := range []string{"quick", "thorough"} {
			n, q, r := 0, 0, 0
			by := map[string][2]int{}
			forEachCase(boundsOf(tier), func(c Case) bool {
				n++
				c.Menu = tier
				q += len(menuFor(c))
				wr, two := 0, "one"
				for _, s := range c.Steps {
					if s.Op == "w" {
						wr++
						if s.Series == "b" {
							two = "two"
						}
					}
				}
				k := fmt.Sprintf("%s w=%d schema=%v", two, wr, c.Schema != "")
				v := by[k]
				v[0]++
				v[1] += len(menuFor(c))
				by[k] = v
				for _, s := range c.Steps {
					if s.Op == "R" {
						r++
					}
				}
				return true
			})
			fmt.Fprintf(os.Stderr, "%s: cases=%d queries=%d reopens=%d\n", tier, n, q, r)
			var ks []string
			for k := range by {
				ks = append(ks, k)
			}
			sort.Strings(ks)
			for _, k := range ks {
				fmt.Fprintf(os.Stderr, "   %-28s cases=%6d queries=%8d\n", k, by[k][0], by[k][1])
			}
		}
		return
	}
	if len(f.Args) > 0 && f.Args[0] == "probe" {
		probe(w, rep, f.Args[1:])
		return
	}
	if f.Replay != "" {
		var c Case
		vevid.LoadReplay(f.Replay, &c)
		for i := 0; i < 5; i++ {
			if c.Special != "" {
				runSpecials(w, rep, 0, 1)
			} else {
				runCase(w, rep, c)
			}
		}
		rep.Write()
		return
	}
	tier := "quick"
	if f.Thorough() {
		tier = "thorough"
	}
	b := boundsOf(tier)
	rep.Bounds["histories_one_series"] = b.One
	rep.Bounds["histories_two_series"] = b.Two
	rep.Bounds["series"] = []string{"a", "b"}
	rep.Bounds["gap_ops"] = gapOps
	rep.Bounds["field_types"] = fieldTypes
	rep.Bounds["ranges"] = rangeNames()
	rep.Bounds["intervals_ms"] = intervals
	runSpecials(w, rep, f.Shard, f.Shards)
	var idx, mine int64
	forEachCase(b, func(c Case) bool {
		idx++
		if !f.Mine(idx) {
			return true
		}
		if f.Expired() {
			rep.Cap(fmt.Sprintf("deadline at case %d", idx))
			return false
		}
		if w.timeouts >= 3 {
			rep.Cap(fmt.Sprintf("3 queries did not complete (reported as query-timeout), stopped at case %d", idx))
			return false
		}
		c.Menu = tier
		runCase(w, rep, c)
		mine++
		return true
	})
	rep.Extra["cases_total"] = idx
	rep.Extra["sum_cases"] = mine
	rep.Extra["sum_queries"] = w.queries
	rep.Extra["sum_queries_asked_twice_after_a_timeout"] = w.slowQueries
	rep.Extra["sum_query_ms"] = w.queryNs / 1e6
	rep.Extra["sum_step_ms"] = w.stepNs / 1e6
	rep.Extra["sum_isolation_reopens"] = w.healReopens
	rep.Write()
}

func rangeNames() []string {
	var out []string
	for _, r := range ranges {
		out = append(out, r.name)
	}
	return out
}

// checkTables: the copied tables must be self-consistent (a bare field reference is planned with
// DownSamplingFunc and read with GetDefaultFuncFieldParams).
func checkTables() {
	for _, t := range fieldTypes {
		if aggOf(t, "") != defaultAgg[t] {
			vevid.Fatal("copied tables inconsistent for %s: %s vs %s", t, aggOf(t, ""), defaultAgg[t])
		}
	}
}

// ---------------------------------------------------------------------------------------------------

func runCase(w *world, rep *vevid.Report, c Case) {
	w.seq++
	metric := fmt.Sprintf("%s%d", w.prefix, w.seq)
	defer func() { // a panic inside lindb code for a legal input is a violation, not a harness crash
		if r := recover(); r != nil {
			rep.Violate(vevid.Violation{Clause: "panic", Scenario: c.opKinds(), Site: "case", Detail: fmt.Sprintf("%v\ncase: %s", r, c), Replay: c})
		}
	}()
	w.housekeeping()
	if os.Getenv("C11_LOGCASES") != "" {
		fmt.Fprintf(os.Stderr, "CASE %s: %s\n", metric, c)
	}
	m, err := w.apply(c, metric)
	if err != nil {
		// a write / flush / compaction / reopen that fails for a legal history: the points were not "accepted"
		// the way the property assumes - report it, it is not a harness error
		rep.Evaluations++
		rep.Violate(vevid.Violation{Clause: "history-step-failed", Scenario: c.opKinds(), Site: "engine", Detail: fmt.Sprintf("%v\ncase: %s", err, c), Replay: c})
		return
	}
	rep.Sample(map[string]interface{}{"history": c.String(), "metric": metric})
	qs := menuFor(c)
	if c.Only != nil {
		qs = []Query{*c.Only}
	}
	for _, q := range qs {
		if selFilter != "" && !strings.Contains(q.sql("M"), selFilter) {
			continue
		}
		if !evalQuery(w, rep, c, m, q, metric) {
			return // a query hung: the rest of the menu would only wait for more timeouts
		}
		for i := 1; i < repeatQueries; i++ {
			evalQuery(w, rep, c, m, q, metric)
		}
	}
}

// repeatQueries re-issues every query (development aid: schedule-dependent behaviour).
var repeatQueries = func() int { n := 1; fmt.Sscan(os.Getenv("C11_REPEAT"), &n); return n }()

// traceClause prints the first violations of one clause to stderr (development aid).
var traceClause = os.Getenv("C11_TRACE")
var traced int

// selFilter restricts the menu in probe mode (development aid).
var selFilter = os.Getenv("C11_SEL")

// evalQuery returns false when the query did not complete (the case is abandoned).
func evalQuery(w *world, rep *vevid.Report, c Case, m *model, q Query, metric string) bool {
	rep.Evaluations++
	exp := m.eval(q)
	got, qerr := w.query(q, metric)
	rc := c
	rc.Only = &q
	ftfn := q.Sels[0].F + "." + q.Sels[0].Fn
	if len(q.Sels) > 1 {
		ftfn = "multi"
	}
	viol := func(clause, ft, detail string) {
		rep.Count("viol "+clause+" "+ft+"/"+c.opKinds(), 1)
		scenario, site := ft+"/"+c.opKinds(), q.class()
		if traceClause != "" && traceClause == clause && traced < 30 {
			traced++
			fmt.Fprintf(os.Stderr, "TRACE %s %s | %s | %s\n   %s\n", clause, ft, c, q.sql("M"), strings.ReplaceAll(detail, "\n", "\n   "))
		}
		if knownDeviation[clause] {
			// a named deviation is one finding per (field type, function): keep the report small
			scenario, site = ft, "leaf"
		}
		rep.Violate(vevid.Violation{Clause: clause, Scenario: scenario, Site: site,
			Detail: fmt.Sprintf("%s\nhistory: %s\nquery: %s", detail, c, q.sql("M")), Replay: rc})
	}
	if qerr != nil {
		if isTimeout(qerr) {
			w.timeouts++
			viol("query-timeout", ftfn, fmt.Sprintf("query did not complete within %v: %v", vbox.QueryTimeout, qerr))
			rep.Outcome("timeout")
			return false
		}
		if len(exp) == 0 {
			rep.Outcome("empty:error")
			return true
		}
		cl := "query-error"
		viol(cl, ftfn, fmt.Sprintf("query failed: %v; reference expects %d points: %s", qerr, len(exp), renderExp(exp)))
		rep.Outcome("error")
		return true
	}
	nontrivial := false
	bad := map[string][]string{} // item -> messages
	var keys []string
	for k := range exp {
		keys = append(keys, k)
	}
	sort.Strings(keys)
	outcome := map[string]bool{}
	for _, k := range keys {
		e := exp[k]
		if e.nslots > 1 || e.nplaces > 1 || e.nseries > 1 {
			nontrivial = true
		}
		item := strings.Split(k, "|")[1]
		g, ok := got[k]
		if !ok {
			bad[item] = append(bad[item], fmt.Sprintf("missing %s want %v", k, []float64(e.cands)))
			continue
		}
		if !e.cands.has(g) {
			bad[item] = append(bad[item], fmt.Sprintf("%s = %v want %v", k, g, []float64(e.cands)))
		}
		outcome[fmt.Sprintf("%s:s%dp%dg%d", item, min3(e.nslots), min3(e.nplaces), min3(e.nseries))] = true
	}
	var extra []string
	for k := range got {
		if _, ok := exp[k]; !ok {
			extra = append(extra, k)
		}
	}
	sort.Strings(extra)
	for _, k := range extra {
		item := strings.Split(k, "|")[1]
		bad[item] = append(bad[item], fmt.Sprintf("unexpected %s = %v", k, got[k]))
	}
	if nontrivial {
		rep.DistinctNontrivial++
	}
	if len(exp) == 0 {
		rep.Outcome("empty")
	}
	for k := range outcome {
		rep.Outcome(k)
	}
	if len(bad) > 0 {
		alts := []map[string]vset{m.alts[0].eval(q), m.alts[1].eval(q)}
		var items []string
		for it := range bad {
			items = append(items, it)
		}
		sort.Strings(items)
		for _, it := range items {
			ft := it
			var sel Sel
			for _, s := range q.Sels {
				if s.String() == it {
					ft = s.F + "." + s.Fn
					sel = s
				}
			}
			clause := classify(q, sel, it, exp, alts[0], got)
			if clause == "result-differs" && classify(q, sel, it, exp, alts[1], got) != "result-differs" {
				clause = "write-buffer-end-shrinks"
			}
			// (a history in which a metadata flush without new names precedes a new name and a reopen used to lose
			// that name - repaired in the tree; such a disagreement now is whatever classify says, a regression of the
			// repair shows as result-differs)
			viol(clause, ft, strings.Join(bad[it], "; ")+"\nreference: "+renderExp(exp)+"\nlindb:     "+renderGot(got))
		}
	}
	return true
}

var knownDeviation = map[string]bool{"place-partial-aggregate": true, "first-last-bucket-order": true}

// classify names the clause of a disagreement on one select item: a known deviation if the "as built" model
// (altmodel.go) reproduces EVERY point of the item that lindb returned (and every missing one), else result-differs.
func classify(q Query, sel Sel, item string, exp map[string]*expPoint, alt map[string]vset, got map[string]float64) string {
	// (multi-function-same-field, memdb-miss-hides-files and first-last-slot-merge-order are repaired in the tree:
	// what is left of them is result-differs)
	clauses := map[string]bool{}
	for k, e := range exp {
		if strings.Split(k, "|")[1] != item {
			continue
		}
		g, ok := got[k]
		a, aok := alt[k]
		switch {
		case ok && e.cands.has(g):
			continue
		case !ok || !aok || !a.has(g):
			return "result-differs"
		default:
			agg := aggOf(sel.F, sel.Fn)
			switch {
			case agg != "last" && agg != "first":
				clauses["place-partial-aggregate"] = true
			default:
				clauses["first-last-bucket-order"] = true
			}
		}
	}
	for k := range got {
		if strings.Split(k, "|")[1] == item {
			if _, ok := exp[k]; !ok {
				return "result-differs"
			}
		}
	}
	for _, c := range []string{"place-partial-aggregate", "first-last-bucket-order"} {
		if clauses[c] {
			return c
		}
	}
	return "result-differs"
}

func min3(n int) int {
	if n > 3 {
		return 3
	}
	return n
}

func renderExp(exp map[string]*expPoint) string {
	var keys []string
	for k := range exp {
		keys = append(keys, k)
	}
	sort.Strings(keys)
	var sb strings.Builder
	for _, k := range keys {
		fmt.Fprintf(&sb, "%s=%v ", k, []float64(exp[k].cands))
	}
	return sb.String()
}

func renderGot(got map[string]float64) string {
	var keys []string
	for k := range got {
		keys = append(keys, k)
	}
	sort.Strings(keys)
	var sb strings.Builder
	for _, k := range keys {
		fmt.Fprintf(&sb, "%s=%v ", k, got[k])
	}
	return sb.String()
}

// probe: ad-hoc experiments while developing (./h probe <history> ; history like "a@same F a@same")
func probe(w *world, rep *vevid.Report, args []string) {
	c := Case{Menu: "quick"}
	for _, a := range args {
		if a == "/" { // several histories in one process: run the earlier ones with the same menu
			runCase(w, rep, c)
			c = Case{Menu: "quick"}
			continue
		}
		if strings.Contains(a, "@") {
			p := strings.Split(a, "@")
			c.Steps = append(c.Steps, Step{Op: "w", Series: p[0], Slot: p[1]})
		} else {
			c.Steps = append(c.Steps, Step{Op: a})
		}
	}
	c.Schema = os.Getenv("C11_SCHEMA")
	if os.Getenv("C11_MENU") != "" {
		c.Menu = os.Getenv("C11_MENU")
	}
	if ex := os.Getenv("C11_EXTRA"); ex != "" { // e.g. "sum:sum,sum:max" = one select list with two functions of one field
		var sl []Sel
		for _, it := range strings.Split(ex, ",") {
			p := strings.Split(it, ":")
			sl = append(sl, Sel{F: p[0], Fn: p[1]})
		}
		var qs []Query
		for iv := 0; iv < mainIntervals; iv++ {
			for _, gb := range []bool{false, true} {
				qs = append(qs, Query{Sels: sl, Range: 0, Ivl: iv, GB: gb})
			}
		}
		menuCache["extra"] = qs
		c.Menu = "extra"
	}
	runCase(w, rep, c)
	fmt.Fprintf(os.Stderr, "evaluations=%d nontrivial=%d violations=%d queries=%d query_ms=%.2f/query step_ms=%d\n", rep.Evaluations, rep.DistinctNontrivial, rep.ViolationCount,
		w.queries, float64(w.queryNs)/1e6/float64(w.queries), w.stepNs/1e6)
	var cn []string
	for k, n := range rep.Counters {
		cn = append(cn, fmt.Sprintf("%s = %d", k, n))
	}
	sort.Strings(cn)
	fmt.Fprintln(os.Stderr, strings.Join(cn, "\n"))
	for _, v := range rep.Violations {
		if os.Getenv("C11_VERBOSE") == "" {
			break
		}
		fmt.Fprintf(os.Stderr, "VIOL %s | %s | %s\n   %s\n", v.Clause, v.Scenario, v.Site, strings.ReplaceAll(v.Detail, "\n", "\n   "))
	}
	rep.Write()
}
