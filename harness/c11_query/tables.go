package main

// The specification tables of the property, copied LITERALLY (as data) from series/field/type.go at the time the
// harness was written. The reference model uses only these copies, so a change of the tree's tables shows up as a
// disagreement between lindb and the model.

// fieldTypes is the order in which the simple field types are written into every row.
var fieldTypes = []string{"sum", "min", "max", "last", "first"}

// fieldName is the field that carries the given simple field type in the harness's rows.
func fieldName(ftype string) string { return "v" + ftype }

// typeAgg: field.Type.AggType() - how points of one storage slot are combined.
var typeAgg = map[string]string{"sum": "sum", "min": "min", "max": "max", "last": "last", "first": "first"}

// downSamplingFunc: field.Type.DownSamplingFunc() - the function a bare field reference stands for.
var downSamplingFunc = map[string]string{"sum": "sum", "min": "min", "max": "max", "last": "last", "first": "first"}

// supportedFuncs: field.Type.IsFuncSupported(f) == true, in the order of the switch statement.
var supportedFuncs = map[string][]string{
	"sum":   {"sum", "min", "max", "rate"},
	"min":   {"min"},
	"max":   {"max"},
	"last":  {"sum", "min", "max", "last"},
	"first": {"sum", "min", "max", "first"},
}

// funcAgg: field.Type.GetFuncFieldParams(f) - the aggregate a function selects for a field type
// ("*" = the default branch of the switch).
var funcAgg = map[string]map[string]string{
	"sum":   {"max": "max", "min": "min", "*": "sum"},
	"max":   {"min": "min", "*": "max"},
	"min":   {"max": "max", "*": "min"},
	"first": {"max": "max", "min": "min", "sum": "sum", "*": "first"},
	"last":  {"max": "max", "min": "min", "sum": "sum", "*": "last"},
}

// defaultAgg: field.Type.GetDefaultFuncFieldParams() - the aggregate read for a bare field reference.
var defaultAgg = map[string]string{"sum": "sum", "min": "min", "last": "last", "first": "first", "max": "max"}

// aggOf returns the aggregate the (field type, function) pair selects; fn "" = bare field reference.
func aggOf(ftype, fn string) string {
	if fn == "" {
		fn = downSamplingFunc[ftype]
	}
	t := funcAgg[ftype]
	if a, ok := t[fn]; ok {
		return a
	}
	return t["*"]
}
