// C04 part rollrace: "a source file contributes to a given target exactly once, also when the rollup is triggered
// repeatedly" - under concurrent triggers. A kv source store (10 s) with one rollup target (5 m) holds one or two
// flushed files; two (or three) threads trigger the family's rollup (what ForceRollup and the store's periodic job
// do), optionally next to a flush commit; the rollup jobs themselves run as controlled threads. Every schedule with a
// bounded number of preemptions at the lock / atomic operations of kv, kv/version, kv/table is executed on the real
// stores; afterwards one more (sequential) trigger runs, and the target must hold every flushed value exactly once,
// no mark may be pending and the source must be complete.
package main

import (
	"fmt"
	"os"
	"path/filepath"
	"sort"
	"strings"
	"time"

	"github.com/lindb/lindb/internal/vevid"
	"github.com/lindb/lindb/internal/vsched"
	"github.com/lindb/lindb/kv"
	"github.com/lindb/lindb/kv/version"
	"github.com/lindb/lindb/pkg/timeutil"
)

const (
	i10s = timeutil.Interval(10 * 1000)
	i5m  = timeutil.Interval(5 * 60 * 1000)
)

type catMerger struct{ flusher kv.Flusher }

func (m *catMerger) Init(_ map[string]interface{}) {}
func (m *catMerger) Merge(key uint32, values [][]byte) error {
	var out []byte
	for _, v := range values {
		out = append(out, v...)
	}
	return m.flusher.Add(key, out)
}

type world struct {
	root    string
	srcName string
	tgtName string
	fam     kv.Family
	letters string
	wOK     bool
	held    version.Snapshot
}

var (
	w       *world
	execNo  int
	scratch string
)

func sortLetters(s string) string {
	b := []byte(s)
	sort.Slice(b, func(i, j int) bool { return b[i] < b[j] })
	return string(b)
}

func flushOne(fam kv.Family, l byte) error {
	fl := fam.NewFlusher()
	defer fl.Release()
	if err := fl.Add(1, []byte{l}); err != nil {
		return err
	}
	return fl.Commit()
}

func setup(files int) {
	execNo++
	root := filepath.Join(scratch, fmt.Sprintf("e%d", execNo))
	_ = os.RemoveAll(root)
	w = &world{root: root, srcName: filepath.Join(root, "day", "20190702"), tgtName: filepath.Join(root, "month", "201907")}
	mgr := kv.GetStoreManager()
	so := kv.DefaultStoreOption()
	so.Source = i10s
	so.Rollup = []timeutil.Interval{i5m}
	src, err := mgr.CreateStore(w.srcName, so)
	if err != nil {
		vevid.OpFailed("create source store: %v", err)
	}
	to := kv.DefaultStoreOption()
	to.Source = i5m
	if _, err := mgr.CreateStore(w.tgtName, to); err != nil {
		vevid.OpFailed("create target store: %v", err)
	}
	fam, err := src.CreateFamily("10", kv.FamilyOption{Merger: "rrcat", CompactThreshold: 0})
	if err != nil {
		vevid.OpFailed("create family: %v", err)
	}
	w.fam = fam
	for i := 0; i < files; i++ {
		l := byte('a' + i)
		if err := flushOne(fam, l); err != nil {
			vevid.OpFailed("flush: %v", err)
		}
		w.letters += string(l)
	}
}

func teardown() {
	if w.held != nil {
		w.held.Close()
		w.held = nil
	}
	mgr := kv.GetStoreManager()
	_ = mgr.CloseStore(w.srcName)
	_ = mgr.CloseStore(w.tgtName)
	_ = os.RemoveAll(w.root)
}

func tT() { kv.VerifFamilyRollup(w.fam) }
func tW() {
	if err := flushOne(w.fam, 'w'); err == nil {
		w.wOK = true
	}
}

var threadFns = map[string]func(){"T": tT, "W": tW}

type scenario struct {
	Files   int      `json:"files"`
	Threads []string `json:"threads"`
	// Held: a reader holds a snapshot of the source family, taken before the triggers start, until everything is over
	// (an older version of the family stays active next to the ones the rollups install)
	Held bool `json:"held,omitempty"`
}

func (s scenario) String() string {
	h := ""
	if s.Held {
		h = " held-snapshot"
	}
	return fmt.Sprintf("files=%d threads=%s%s", s.Files, strings.Join(s.Threads, ","), h)
}

func body(sc scenario) func() {
	return func() {
		setup(sc.Files)
		if sc.Held {
			w.held = w.fam.GetSnapshot()
		}
		for i, t := range sc.Threads {
			vsched.Spawn(fmt.Sprintf("%s%d", t, i), threadFns[t])
		}
	}
}

type replay struct {
	Scenario scenario `json:"scenario"`
	Choices  []int    `json:"choices"`
}

func idle(f kv.Family) {
	kv.VerifFamilyWait(f)
	for t0 := time.Now(); kv.VerifFamilyRolluping(f); {
		if time.Since(t0) > 60*time.Second {
			vevid.OpFailed("family job flag still set 60 s after its job finished")
		}
		time.Sleep(20 * time.Microsecond)
	}
}

func targetLetters() (string, error) {
	st, ok := kv.GetStoreManager().GetStoreByName(w.tgtName)
	if !ok {
		return "", fmt.Errorf("target store not open")
	}
	var all string
	for _, name := range st.ListFamilyNames() {
		tf := st.GetFamily(name)
		if tf == nil {
			continue
		}
		kv.VerifFamilyWait(tf)
		snap := tf.GetSnapshot()
		err := snap.Load(1, func(v []byte) error { all += string(v); return nil })
		snap.Close()
		if err != nil {
			return "", err
		}
	}
	return sortLetters(all), nil
}

func finish(rep *vevid.Report, sc scenario, x *vsched.Result) {
	defer teardown()
	viol := func(clause, site, detail string) {
		rep.Violate(vevid.Violation{Clause: clause, Scenario: sc.String(), Site: site, Detail: detail + "\nlog: " + strings.Join(x.Log, " | "),
			Replay: replay{Scenario: sc, Choices: x.Choices()}})
	}
	defer func() {
		if r := recover(); r != nil {
			viol("panic", "kv", fmt.Sprintf("panic in kv code after the explored schedule: %v", r))
		}
	}()
	if x.Deadlock {
		viol("deadlock", "kv", x.WaitGraph)
		return
	}
	if x.Horizon {
		viol("livelock", "kv", x.WaitGraph)
		return
	}
	for _, p := range x.Panics {
		viol("panic", "kv", p)
	}
	idle(w.fam)
	mid, err := targetLetters()
	if err != nil {
		viol("target-unreadable", "kv rollup", err.Error())
		return
	}
	want := w.letters
	if w.wOK {
		want += "w"
	}
	// whatever the triggers have rolled up so far: nothing twice, nothing that was never flushed
	seen := map[byte]int{}
	for i := 0; i < len(mid); i++ {
		seen[mid[i]]++
	}
	for l, n := range seen {
		if n > 1 || !strings.ContainsRune(want, rune(l)) {
			viol("rolled-up-exactly-once", "kv.family.rollup", fmt.Sprintf("after the concurrent triggers the target holds %q (flushed: %q): value %q is there %d times", mid, sortLetters(want), string(l), n))
			return
		}
	}
	// one more trigger (sequential): now everything is rolled up, once. It runs as a controlled execution without
	// branching: the job goes on for two atomic stores after it released the family's wait group, and on a free
	// goroutine those stores would be taken for steps of the next explored execution (a flaky replay divergence)
	vsched.Run(nil, 400000, func() {
		vsched.Quiet(true)
		kv.VerifFamilyRollup(w.fam)
		kv.VerifFamilyWait(w.fam)
	})
	end, err := targetLetters()
	if err != nil {
		viol("target-unreadable", "kv rollup", err.Error())
		return
	}
	if end != sortLetters(want) {
		viol("rolled-up-exactly-once", "kv.family.rollup", fmt.Sprintf("after one more trigger the target holds %q, the flushed files carry %q (after the concurrent triggers: %q)", end, sortLetters(want), mid))
	}
	if marks := kv.VerifFamilyVersion(w.fam).GetLiveRollupFiles(); len(marks) != 0 {
		viol("marks-left", "kv/version", fmt.Sprintf("rollup marks left after everything was rolled up: %v", marks))
	}
	snap := w.fam.GetSnapshot()
	var src string
	err = snap.Load(1, func(v []byte) error { src += string(v); return nil })
	snap.Close()
	if err != nil || sortLetters(src) != sortLetters(want) {
		viol("source-content", "kv snapshot", fmt.Sprintf("source family reads %q (err %v), flushed %q", sortLetters(src), err, sortLetters(want)))
	}
	rep.Outcome(fmt.Sprintf("mid=%d end=%d", len(mid), len(end)))
}

func main() {
	f := vevid.ParseFlags()
	rep := vevid.New("C04")
	devnull, _ := os.OpenFile(os.DevNull, os.O_WRONLY, 0)
	os.Stdout = devnull
	scratch = f.Scratch
	kv.RegisterMerger("rrcat", func(fl kv.Flusher) (kv.Merger, error) { return &catMerger{flusher: fl}, nil })
	if f.Replay != "" {
		var r replay
		vevid.LoadReplay(f.Replay, &r)
		fails := 0
		for i := 0; i < 5; i++ {
			x := vsched.Run(r.Choices, 400000, body(r.Scenario))
			before := rep.ViolationCount
			finish(rep, r.Scenario, x)
			if rep.ViolationCount > before {
				fails++
			}
		}
		rep.Extra["replay_failures_of_5"] = fails
		rep.Evaluations = 5
		rep.Write()
		return
	}
	// (the large scenario last: the time left is split over the scenarios still to run)
	scenarios := []scenario{{Files: 1, Threads: []string{"T", "T"}}, {Files: 2, Threads: []string{"T", "T"}},
		{Files: 2, Threads: []string{"T", "T"}, Held: true}, {Files: 1, Threads: []string{"T", "W"}, Held: true}, {Files: 1, Threads: []string{"T", "T", "W"}}}
	bound := 2
	if f.Thorough() {
		scenarios = append(scenarios, scenario{Files: 1, Threads: []string{"T", "T", "T"}}, scenario{Files: 2, Threads: []string{"T", "T", "W"}}, scenario{Files: 2, Threads: []string{"T", "T", "W"}, Held: true})
		bound = 3
	}
	rep.Rule = fmt.Sprintf("scenarios: a source family with 1 or 2 flushed files (rollup target 5m open) x threads {T,T}, {T,T,W} (thorough also {T,T,T}) - T = trigger of the family's rollup, W = flush commit of one more file; the rollup jobs run as controlled threads; every schedule with <=%d preemptions; then the jobs are awaited, one more trigger runs sequentially; oracle: the target never holds a value twice, at the end it holds every flushed value exactly once, no mark is left, the source is complete", bound)
	rep.Bounds["preemption_bound"] = bound
	first := true
	for pass := 1; pass <= bound; pass++ {
		for si, sc := range scenarios {
			sc := sc
			dl := f.Deadline
			if pass == bound && !dl.IsZero() {
				if left := time.Until(dl); left > 0 {
					dl = time.Now().Add(left / time.Duration(len(scenarios)-si))
				}
			}
			e := &vsched.Explorer{Bound: pass, Horizon: 400000, Body: body(sc), Shard: f.Shard, Shards: f.Shards, Deadline: dl}
			e.Check = func(x *vsched.Result) {
				finish(rep, sc, x)
				if len(x.Points) > 0 {
					rep.DistinctNontrivial++
				}
			}
			e.Discard = func(x *vsched.Result) {
				if !x.Deadlock && !x.Horizon {
					idle(w.fam)
				}
				teardown()
			}
			if first && f.Shard == 0 {
				a := vsched.Run(nil, 400000, body(sc))
				idle(w.fam)
				teardown()
				b := vsched.Run(nil, 400000, body(sc))
				idle(w.fam)
				teardown()
				if strings.Join(a.Log, "|") != strings.Join(b.Log, "|") || len(a.Points) != len(b.Points) {
					vevid.Fatal("nondeterministic replay:\n%v\n%v", a.Log, b.Log)
				}
				rep.Extra["determinism_replay"] = "ok"
			}
			first = false
			e.Explore()
			if e.Diverged != "" {
				vevid.Fatal("replay divergence in %s: %s", sc, e.Diverged)
			}
			if e.Capped {
				rep.Cap(fmt.Sprintf("deadline reached in scenario %s with <=%d preemptions", sc, pass))
			}
			rep.Evaluations += e.Executions
			rep.States += e.Executions
			rep.Transitions += e.Points
			rep.TracesValidated += e.Executions
			rep.Count(fmt.Sprintf("schedules[%s,bound=%d]", sc, pass), e.Executions)
		}
	}
	rep.Write()
}
