// c11_metarace: a row written while the metadata flush cycle (PrepareFlush, Flush, the memory store gc that follows
// the flush callback) runs must stay resolvable: metric id -> memory metric id -> metric store with persisted
// fields -> series of the memory database. That chain is what memoryDatabase.Filter (query) and
// memoryDatabase.FlushFamilyTo (persistence) walk; when it breaks, a completed write is invisible to every later
// query and is never flushed.
//
// Real index.MetricMetaDatabase / MetricIndexDatabase on a fresh directory, real memdb.MetadataDatabase,
// IndexDatabase and MemoryDatabase per execution; package tsdb/memdb and series/metric/row_storage.go are
// rewritten (locks, atomics, sync.Map, WaitGroup and go statements are scheduling points; the two event channels
// are receive/send points through overlay helpers), so the event-loop goroutines of lindb are controlled threads.
package main

import (
	"fmt"
	"github.com/lindb/lindb/internal/vcrashfs"
	"github.com/lindb/lindb/series/metric"
	"os"
	"path/filepath"
	"runtime"
	"sort"
	"strings"
	"time"

	"github.com/lindb/common/pkg/timeutil"

	"github.com/lindb/lindb/index"
	vbox "github.com/lindb/lindb/internal/vbox"
	vevid "github.com/lindb/lindb/internal/vevid"
	"github.com/lindb/lindb/internal/vsched"
	"github.com/lindb/lindb/models"
	"github.com/lindb/lindb/pkg/encoding"
	pkgtimeutil "github.com/lindb/lindb/pkg/timeutil"
	"github.com/lindb/lindb/series/field"
	"github.com/lindb/lindb/tsdb/memdb"
)

type op struct {
	Kind   string `json:"kind"` // write | flushMeta | flushIndex
	Metric string `json:"metric,omitempty"`
	Host   string `json:"host,omitempty"`
	Field  string `json:"field,omitempty"`
}

type scenario struct {
	Name    string `json:"name"`
	Pre     []op   `json:"pre"`
	Threads [][]op `json:"threads"`
}

func w(m, h, f string) op { return op{Kind: "write", Metric: m, Host: h, Field: f} }

var (
	fm = op{Kind: "flushMeta"}
	fi = op{Kind: "flushIndex"}
)

var scenarios = []scenario{
	{Name: "first-metric-vs-meta-flush", Threads: [][]op{{w("m1", "a", "f")}, {fm}}},
	{Name: "new-metric-vs-meta-flush", Pre: []op{w("m0", "a", "f")}, Threads: [][]op{{w("m1", "a", "f")}, {fm}}},
	{Name: "new-field-vs-meta-flush", Pre: []op{w("m0", "a", "f")}, Threads: [][]op{{w("m0", "a", "g")}, {fm}}},
	{Name: "new-series-vs-flushes", Pre: []op{w("m0", "a", "f")}, Threads: [][]op{{w("m0", "b", "f")}, {fm, fi}}},
	{Name: "two-writers-vs-meta-flush", Pre: []op{w("m0", "a", "f")}, Threads: [][]op{{w("m1", "a", "f")}, {w("m2", "a", "f")}, {fm}}},
	{Name: "two-flushes", Pre: []op{w("m0", "a", "f")}, Threads: [][]op{{w("m1", "a", "f"), w("m1", "b", "f")}, {fm, fm}}},
}

type world struct {
	dir     string
	meta    index.MetricMetaDatabase
	idx     index.MetricIndexDatabase
	memMeta memdb.MetadataDatabase
	memIdx  memdb.IndexDatabase
	md      memdb.MemoryDatabase
	bufMgr  memdb.BufferManager
	written []op
	errs    []string
}

var (
	wd       *world
	execNo   int
	scratch  string
	baseTime int64
	family   int64
	interval = pkgtimeutil.Interval(10_000)
)

func setup() {
	execNo++
	dir := filepath.Join(scratch, fmt.Sprintf("e%d", execNo))
	_ = os.RemoveAll(dir)
	x := &world{dir: dir}
	var err error
	if x.meta, err = index.NewMetricMetaDatabase("db", filepath.Join(dir, "meta")); err != nil {
		vevid.OpFailed("meta db: %v", err)
	}
	if x.idx, err = index.NewMetricIndexDatabase(filepath.Join(dir, "index"), x.meta); err != nil {
		vevid.OpFailed("index db: %v", err)
	}
	x.memMeta = memdb.NewMetadataDatabase(&models.DatabaseConfig{Name: "db"}, x.meta)
	x.memIdx = memdb.NewIndexDatabase(x.memMeta, x.idx)
	x.bufMgr = memdb.NewBufferManager(filepath.Join(dir, "buf"))
	x.md, err = memdb.NewMemoryDatabase(&memdb.MemoryDatabaseCfg{
		IntervalCalc:  interval.Calculator(),
		BufferMgr:     x.bufMgr,
		IndexDatabase: x.memIdx,
		Name:          "db/1",
		Interval:      interval,
		FamilyTime:    family,
	})
	if err != nil {
		vevid.OpFailed("memory db: %v", err)
	}
	wd = x
}

func (x *world) do(o op) {
	switch o.Kind {
	case "write":
		rows, err := vbox.Rows([]vbox.Point{{Namespace: "ns", Metric: o.Metric, Tags: map[string]string{"host": o.Host}, Field: o.Field, Type: "sum", Value: 1, Timestamp: baseTime}})
		if err != nil {
			vevid.OpFailed("rows: %v", err)
		}
		// what dataFamily.WriteRows does for one row
		x.md.AcquireWrite()
		err = x.md.WriteRow(rows[0])
		rows[0].Wait()
		x.md.CompleteWrite()
		if err != nil {
			x.errs = append(x.errs, fmt.Sprintf("write %s{host=%s}.%s: %v", o.Metric, o.Host, o.Field, err))
			return
		}
		x.written = append(x.written, o)
	case "flushMeta", "flushIndex":
		done := false
		var ferr error
		ev := &memdb.FlushEvent{Callback: func(err error) { ferr = err; done = true }}
		if o.Kind == "flushMeta" {
			x.memMeta.Notify(ev) // database.flushMeta
		} else {
			x.memIdx.Notify(ev) // shard.FlushIndex
		}
		vsched.Block("flush.callback", func() bool { return done })
		if ferr != nil {
			x.errs = append(x.errs, o.Kind+": "+ferr.Error())
		}
	}
}

func body(sc scenario) func() {
	return func() {
		vsched.Quiet(true) // the pre-phase needs the event loops, its interleavings are not part of the scenario
		setup()
		for _, o := range sc.Pre {
			wd.do(o)
		}
		vsched.Quiet(false)
		left := len(sc.Threads)
		for ti, ops := range sc.Threads {
			ops := ops
			vsched.Spawn(fmt.Sprintf("T%d", ti+1), func() {
				for _, o := range ops {
					wd.do(o)
				}
				left--
			})
		}
		vsched.Block("threads.done", func() bool { return left == 0 })
		// the event loops end when their channels are closed and drained; flush goroutines (and the gc that
		// follows the flush callback) end on their own: the execution is complete when every thread has ended
		wd.memIdx.Close()
		wd.memMeta.Close()
	}
}

// recording flusher ---------------------------------------------------------------------------------

type recFlusher struct {
	encs    map[int]*encoding.TSDEncoder
	metas   field.Metas
	metric  uint32
	pending int // non-nil fields of the current series
	out     map[string]int
}

func (r *recFlusher) PrepareMetric(metricID uint32, fieldMetas field.Metas) {
	r.metric, r.metas = metricID, fieldMetas
}
func (r *recFlusher) FlushField(data []byte) error {
	if len(data) > 0 {
		r.pending++
	}
	return nil
}
func (r *recFlusher) FlushSeries(seriesID uint32) error {
	r.out[fmt.Sprintf("%d/%d", r.metric, seriesID)] += r.pending
	r.pending = 0
	return nil
}
func (r *recFlusher) CommitMetric(_ pkgtimeutil.SlotRange) error { return nil }
func (r *recFlusher) GetFieldMetas() field.Metas                 { return r.metas }
func (r *recFlusher) GetEncoder(i int) *encoding.TSDEncoder {
	if r.encs[i] == nil {
		r.encs[i] = encoding.NewTSDEncoder(0)
	}
	return r.encs[i]
}
func (r *recFlusher) Close() error { return nil }

type replay struct {
	Scenario scenario `json:"scenario"`
	Choices  []int    `json:"choices"`
}

var cleanups int

func cleanup(x *vsched.Result) {
	if wd == nil {
		return
	}
	cleanups++
	if os.Getenv("C11_MEMDEBUG") != "" && cleanups%2000 == 0 {
		var ms runtime.MemStats
		runtime.ReadMemStats(&ms)
		fmt.Fprintf(os.Stderr, "MEMDEBUG exec=%d goroutines=%d heapAlloc=%dMB heapObjects=%d sys=%dMB\n", cleanups, runtime.NumGoroutine(), ms.HeapAlloc>>20, ms.HeapObjects, ms.Sys>>20)
	}
	if !x.Deadlock && !x.Horizon {
		_ = wd.md.Close()
		_ = wd.idx.Close()
		_ = wd.meta.Close()
	}
	wd.bufMgr.Cleanup() // every field buffer is a 128 MiB mapping of a temp file
	_ = os.RemoveAll(wd.dir)
}

func finish(rep *vevid.Report, sc scenario, x *vsched.Result) {
	scen := "scenario=" + sc.Name
	viol := func(clause, site, detail string) {
		rep.Violate(vevid.Violation{Clause: clause, Scenario: scen, Site: site, Detail: detail, Replay: replay{Scenario: sc, Choices: x.Choices()}})
	}
	defer func() {
		if r := recover(); r != nil {
			viol("panic", "memdb", fmt.Sprint(r))
		}
		cleanup(x)
	}()
	if x.Deadlock {
		viol("deadlock", "memdb", x.WaitGraph)
		return
	}
	if x.Horizon {
		viol("livelock", "memdb", x.WaitGraph)
		return
	}
	for _, p := range x.Panics {
		viol("panic", "memdb", p)
	}
	if len(x.Panics) > 0 {
		return
	}
	for _, e := range wd.errs {
		viol("operation-failed", "memdb", e)
	}
	rec := &recFlusher{encs: map[int]*encoding.TSDEncoder{}, out: map[string]int{}}
	if err := wd.md.FlushFamilyTo(rec); err != nil {
		viol("operation-failed", "memdb.FlushFamilyTo", err.Error())
	}
	var all []op
	for _, o := range append(append([]op{}, sc.Pre...), wd.written...) {
		if o.Kind == "write" {
			all = append(all, o)
		}
	}
	// fields written per series
	want := map[[2]string]map[string]bool{}
	for _, o := range all {
		k := [2]string{o.Metric, o.Host}
		if want[k] == nil {
			want[k] = map[string]bool{}
		}
		want[k][o.Field] = true
	}
	var sig []string
	for k, fields := range want {
		name := fmt.Sprintf("%s{host=%s}", k[0], k[1])
		mid, err := wd.meta.GetMetricID("ns", k[0])
		if err != nil {
			viol("write-unresolvable", "metric-id", fmt.Sprintf("%s: completed write, GetMetricID: %v", name, err))
			continue
		}
		memID, ok := wd.memMeta.GetMemMetricID(uint32(mid))
		if !ok {
			viol("write-unresolvable", "mem-metric-id", fmt.Sprintf("%s: completed write, but metric id %d has no memory metric id: memoryDatabase.Filter answers nothing and FlushFamilyTo skips the metric", name, mid))
			sig = append(sig, "no-mem-id")
			continue
		}
		ms, ok := wd.memMeta.GetMetricMeta(memID)
		if !ok {
			viol("write-unresolvable", "metric-store", fmt.Sprintf("%s: completed write, but the metric store of memory metric id %d is gone", name, memID))
			sig = append(sig, "no-store")
			continue
		}
		got := map[string]bool{}
		for _, f := range ms.GetFields() {
			if f.Persisted {
				got[string(f.Name)] = true
			}
		}
		for f := range fields {
			if !got[f] {
				viol("write-unresolvable", "field-meta", fmt.Sprintf("%s: completed write of field %s, the metric store has no persisted meta for it (fields %v)", name, f, ms.GetFields()))
				sig = append(sig, "no-field")
			}
		}
		// the series must come out of FlushFamilyTo with all its fields
		sids, err := wd.idx.GetSeriesIDsForMetric(mid)
		if err != nil || sids == nil || sids.IsEmpty() {
			viol("write-unresolvable", "series-id", fmt.Sprintf("%s: no series ids for metric %d (%v)", name, mid, err))
			continue
		}
		n := 0
		it := sids.Iterator()
		for it.HasNext() {
			n += rec.out[fmt.Sprintf("%d/%d", mid, it.Next())]
		}
		// all series of the metric together carry one value per (series, field) written
		wantN := 0
		for k2, f2 := range want {
			if k2[0] == k[0] {
				wantN += len(f2)
			}
		}
		if n != wantN {
			viol("write-not-flushable", "FlushFamilyTo", fmt.Sprintf("metric %s: %d (series, field) values were written and completed, FlushFamilyTo of the memory database emits %d", k[0], wantN, n))
			sig = append(sig, "flush-miss")
		}
	}
	if crashOracle {
		var before map[string]uint32
		if completedCycle(sc) && len(wd.errs) == 0 {
			// the ids the running node uses (the names exist: nothing is created here)
			var err error
			if before, err = nameIDs(wd.meta, all); err != nil {
				viol("name-lookup-failed", "index.MetricMetaDatabase", err.Error())
			}
		}
		sig = append(sig, seriesOracle(viol, all, before)...)
	}
	sort.Strings(sig)
	rep.Outcome(fmt.Sprintf("%s written=%d flushed-series=%d %s", sc.Name, len(wd.written), len(rec.out), strings.Join(sig, ",")))
}

// ---------------------------------------------------------------------------------------------------
// C09 part memrace: name -> id stays injective across a crash, whatever the memory level's event loops interleaved

var crashOracle bool

var c09Scenarios = []scenario{
	{Name: "new-series-vs-index-flush", Pre: []op{w("m0", "a", "f")}, Threads: [][]op{{w("m0", "b", "f")}, {fi}}},
	{Name: "two-new-series-vs-index-flush", Pre: []op{w("m0", "a", "f")}, Threads: [][]op{{w("m0", "b", "f"), w("m0", "c", "f")}, {fi}}},
	{Name: "new-series-vs-both-flushes", Pre: []op{w("m0", "a", "f")}, Threads: [][]op{{w("m0", "b", "f")}, {fm, fi}}},
	{Name: "new-metric-vs-both-flushes", Pre: []op{w("m0", "a", "f")}, Threads: [][]op{{w("m1", "a", "f")}, {fm, fi}}},
	// a complete flush cycle (metadata, then index) after the last write, one thread: what the cycle wrote is durable -
	// the names of a cycle that only brought new series (tag values) of a known metric as well
	{Name: "completed-cycle-new-series", Pre: []op{w("m0", "a", "f"), fm, fi}, Threads: [][]op{{w("m0", "b", "f"), fm, fi}}},
	{Name: "completed-cycle-new-metric", Pre: []op{w("m0", "a", "f"), fm, fi}, Threads: [][]op{{w("m1", "a", "f"), fm, fi}}},
}

// completedCycle: the scenario ends with a whole flush cycle after its last write (one thread, program order)
func completedCycle(sc scenario) bool { return strings.HasPrefix(sc.Name, "completed-cycle") }

// nameIDs reads (creating nothing new when the names exist) the ids of every written name from a metadata database
func nameIDs(meta index.MetricMetaDatabase, all []op) (map[string]uint32, error) {
	out := map[string]uint32{}
	for _, o := range all {
		mid, err := meta.GenMetricID([]byte("ns"), []byte(o.Metric))
		if err != nil {
			return nil, err
		}
		out["metric "+o.Metric] = uint32(mid)
		kid, err := meta.GenTagKeyID(mid, []byte("host"))
		if err != nil {
			return nil, err
		}
		out["tagkey "+o.Metric+".host"] = uint32(kid)
		vid, err := meta.GenTagValueID(kid, []byte(o.Host))
		if err != nil {
			return nil, err
		}
		out["tagvalue "+o.Metric+".host="+o.Host] = vid
	}
	return out, nil
}

func seriesRow(m, host string) *metric.StorageRow {
	rows, err := vbox.Rows([]vbox.Point{{Namespace: "ns", Metric: m, Tags: map[string]string{"host": host}, Field: "f", Type: "sum", Value: 1, Timestamp: baseTime}})
	if err != nil {
		vevid.Fatal("rows: %v", err)
	}
	return rows[0]
}

// seriesOracle: the directory as it is now (what the flush events made durable; everything in memory is lost) is
// recovered by fresh index databases: for every metric found there, two new series and every series written before
// get series ids - different tag sets never share one.
func seriesOracle(viol func(clause, site, detail string), all []op, durable map[string]uint32) []string {
	var sig []string
	img := vcrashfs.Snap(wd.dir, func(rel string) bool { return strings.HasSuffix(rel, "LOCK") || strings.HasPrefix(rel, "buf") })
	croot := filepath.Join(scratch, "crash")
	_ = os.RemoveAll(croot)
	defer os.RemoveAll(croot)
	if err := img.Materialize(croot); err != nil {
		vevid.Fatal("materialize: %v", err)
	}
	meta, err := index.NewMetricMetaDatabase("db", filepath.Join(croot, "meta"))
	if err != nil {
		viol("reopen-failed", "index.NewMetricMetaDatabase", err.Error())
		return sig
	}
	defer meta.Close()
	idx, err := index.NewMetricIndexDatabase(filepath.Join(croot, "index"), meta)
	if err != nil {
		viol("reopen-failed", "index.NewMetricIndexDatabase", err.Error())
		return sig
	}
	defer idx.Close()
	if durable != nil {
		// a whole flush cycle completed after the last write: every name has the id it had before the crash
		// (a brand-new tag value is created first on every tag key: a name that got lost would otherwise simply be
		// handed its old id again by the recovered sequence)
		for _, o := range all {
			if mid, err := meta.GetMetricID("ns", o.Metric); err == nil {
				if kid, err := meta.GenTagKeyID(mid, []byte("host")); err == nil {
					if vid, err := meta.GenTagValueID(kid, []byte("zz-new")); err == nil {
						for n, id := range durable {
							if strings.HasPrefix(n, "tagvalue "+o.Metric+".host=") && id == vid {
								viol("durable-after-completed-cycle", "memdb.MetadataDatabase flush event", fmt.Sprintf("a complete flush cycle ran after the last write; after a crash a new tag value of %s.host gets id %d, the id %s had before the crash (the recovered index refers to it)", o.Metric, vid, n))
								sig = append(sig, "id-reused")
							}
						}
					}
				}
			}
		}
		after, err := nameIDs(meta, all)
		if err != nil {
			viol("name-lookup-failed", "index.MetricMetaDatabase (recovered)", err.Error())
		}
		var names []string
		for n := range durable {
			names = append(names, n)
		}
		sort.Strings(names)
		for _, n := range names {
			if after != nil && after[n] != durable[n] {
				viol("durable-after-completed-cycle", "memdb.MetadataDatabase flush event", fmt.Sprintf("a complete flush cycle (metadata, then index) ran after the last write; after a crash %s has id %d, before the crash it had id %d", n, after[n], durable[n]))
				sig = append(sig, "name-not-durable")
			}
		}
	}
	hostsOf := map[string][]string{}
	for _, o := range all {
		dup := false
		for _, h := range hostsOf[o.Metric] {
			dup = dup || h == o.Host
		}
		if !dup {
			hostsOf[o.Metric] = append(hostsOf[o.Metric], o.Host)
		}
	}
	for m, hosts := range hostsOf {
		mid, err := meta.GetMetricID("ns", m)
		if err != nil {
			sig = append(sig, "metric-not-durable")
			continue // the name did not make it to disk: nothing refers to it
		}
		got := map[uint32]string{}
		for _, h := range append([]string{"new0", "new1"}, hosts...) {
			id, err := idx.GenSeriesID(mid, seriesRow(m, h))
			if err != nil {
				viol("create-after-recovery-failed", "index.GenSeriesID", fmt.Sprintf("%s{host=%s}: %v", m, h, err))
				continue
			}
			if other, dup := got[id]; dup {
				viol("recovered-injective", "index.GenSeriesID", fmt.Sprintf("after a crash at the end of the schedule the series %s{host=%s} and %s{host=%s} both have series id %d", m, other, m, h, id))
				sig = append(sig, "id-shared")
			}
			got[id] = h
		}
	}
	return sig
}

func main() {
	f := vevid.ParseFlags()
	// the same harness is part memrace of C09 (METARACE_PROP=C09): scenarios around new series and the index flush
	// event, plus the crash oracle on series ids (seriesOracle)
	prop := os.Getenv("METARACE_PROP")
	if prop == "" {
		prop = "C11"
	}
	if prop == "C09" {
		scenarios = c09Scenarios
		crashOracle = true
	}
	rep := vevid.New(prop)
	scratch = f.Scratch
	vsched.Strict = true
	day := timeutil.Now()/86400000*86400000 - 86400000
	baseTime = day + 10*3600*1000
	family = interval.Calculator().CalcFamilyTime(baseTime)
	const horizon = 400000
	if os.Getenv("C11_TRACE") != "" {
		vsched.TraceOn = true
		x := vsched.Run(nil, horizon, body(scenarios[1]))
		cleanup(x)
		for _, t := range x.Trace {
			fmt.Fprintln(os.Stderr, "TRACE", t)
		}
		return
	}
	if f.Replay != "" {
		var r replay
		vevid.LoadReplay(f.Replay, &r)
		for i := 0; i < 5; i++ {
			x := vsched.Run(r.Choices, horizon, body(r.Scenario))
			finish(rep, r.Scenario, x)
		}
		rep.Evaluations = 5
		rep.Write()
		return
	}
	// quick: the three small scenarios with <=1 preemption; thorough: every scenario with <=1 preemption, then
	// the small ones again with <=2 as far as the deadline allows (each pass reports its own cap)
	type pass struct {
		bound int
		scs   []scenario
	}
	small := []scenario{scenarios[1], scenarios[2], scenarios[3]}
	if crashOracle {
		small = scenarios
	}
	passes := []pass{{1, small}}
	if f.Thorough() {
		passes = []pass{{1, scenarios}, {2, small}}
	}
	rep.Bounds["preemption_bound"] = passes[len(passes)-1].bound
	rep.Rule = fmt.Sprintf("%d scenarios (quick: 3): 1-2 writers (WriteRow + wait for the metadata/index event loops, as dataFamily.WriteRows) of new metrics / fields / series racing with the metadata flush event (PrepareFlush, background Flush, callback, gc of the memory metric stores) and the index flush event, on fresh real index + memory databases per execution; every schedule with <=1 preemption (thorough: then <=2 for the 3 small scenarios) at the lock / atomic / sync.Map / WaitGroup / channel operations of tsdb/memdb's metadata, index, metric-store and time-series-index files; after each schedule: metric id -> memory metric id -> metric store -> persisted fields, and FlushFamilyTo emits every completed (series, field). distinct = (scenario, bound, schedule)", len(scenarios))
	first := true
	todo := 0
	for _, ps := range passes {
		todo += len(ps.scs)
	}
	for _, ps := range passes {
		for _, sc := range ps.scs {
			sc := sc
			// the time left is split evenly over the explorations still to run
			dl := f.Deadline
			if !dl.IsZero() && todo > 0 {
				if left := time.Until(dl); left > 0 {
					dl = time.Now().Add(left / time.Duration(todo))
				}
			}
			todo--
			if only := os.Getenv("C11_ONLY"); only != "" && only != sc.Name {
				continue
			}
			e := &vsched.Explorer{Bound: ps.bound, Horizon: horizon, Body: body(sc), Shard: f.Shard, Shards: f.Shards, Deadline: dl}
			e.Check = func(x *vsched.Result) {
				finish(rep, sc, x)
				if len(x.Points) > 0 {
					rep.DistinctNontrivial++
				}
			}
			e.Discard = cleanup
			if first && f.Shard == 0 {
				a := vsched.Run(nil, horizon, body(sc))
				cleanup(a)
				b := vsched.Run(nil, horizon, body(sc))
				cleanup(b)
				if len(a.Points) != len(b.Points) || a.Steps != b.Steps {
					vevid.Fatal("nondeterministic replay: %d/%d points, %d/%d steps", len(a.Points), len(b.Points), a.Steps, b.Steps)
				}
				rep.Extra["determinism_replay"] = "ok"
			}
			first = false
			e.Explore()
			if e.Diverged != "" {
				vevid.Fatal("replay divergence in %s: %s", sc.Name, e.Diverged)
			}
			key := fmt.Sprintf("%s,bound=%d", sc.Name, ps.bound)
			if e.Capped {
				rep.Cap("deadline reached in " + key)
			}
			rep.Evaluations += e.Executions
			rep.States += e.Executions
			rep.Transitions += e.Points
			rep.TracesValidated += e.Executions
			rep.Count("schedules["+key+"]", e.Executions)
			if mp, _ := rep.Extra["max_points_in_one_schedule"].(int); e.MaxPoints > mp {
				rep.Extra["max_points_in_one_schedule"] = e.MaxPoints
			}
			if f.Shard == 0 {
				rep.Sample(map[string]interface{}{"scenario": sc, "bound": ps.bound, "schedules_this_worker": e.Executions})
			}
		}
	}
	rep.Write()
}
