// C12: query results do not depend on sharding, node placement or response order.
//
// Part "layouts": bounded-exhaustive metamorphic enumeration on the real code (tsdb engine, leaf task
// processor, root metric context). For every data set (subset of a sharp point alphabet) and every query
// of a menu the reference run is: all points in ONE shard on ONE leaf node, natural delivery, root pipeline
// completion before the response. Every other physical layout (shard count, partition of the shards over
// leaf nodes, extra leaves without data, unknown shard ids) x every permutation of response delivery x every
// position of the root pipeline's Complete(nil) must give the same answer and the same error verdict.
package main

import (
	"fmt"
	"os"
	"sort"
	"strings"
	"time"

	"github.com/cespare/xxhash/v2"
	commonmodels "github.com/lindb/common/models"

	"github.com/lindb/lindb/internal/vbox"
	"github.com/lindb/lindb/internal/venum"
	"github.com/lindb/lindb/internal/vevid"
	"github.com/lindb/lindb/models"
	"github.com/lindb/lindb/pkg/option"
	"github.com/lindb/lindb/pkg/timeutil"
)

var debug = os.Getenv("C12_DEBUG") != ""
var noInterEnv = os.Getenv("C12_NO_INTERMEDIATE") != ""

// ------------------------------------------------------------------------------------------------
// alphabets

// pt is one point of the alphabet: host, field, slot (10 s slots from the start of the query range), value.
type pt struct {
	Host  string  `json:"host"`
	Field string  `json:"field"`
	Slot  int     `json:"slot"`
	Val   float64 `json:"val"`
	DC    string  `json:"dc,omitempty"` // second tag (not grouped by): the same host group then lives on two shards
}

// f1 is a sum field known to every series, f2 a max field that only hosts b and c ever report (so with
// several shards/nodes some of them never hear of f2). Values are distinct powers of two: every partial
// sum / max identifies the subset it came from, and order-by keys never tie.
var alphabet = []pt{
	{"a", "f1", 0, 1, ""},
	{"a", "f1", 1, 2, ""},
	{"a", "f1", 0, 4, ""}, // second write to the same series/slot
	{"b", "f1", 0, 8, ""},
	{"b", "f2", 0, 16, ""},
	{"b", "f2", 1, 32, ""},
	{"c", "f1", 3, 64, ""}, // slot 3: with group by time(20s) a second query bucket (its timestamp depends on the interval the answer carries)
	{"c", "f2", 0, 128, ""},
	// host b again, but another series (dc=2) that reports only f2: the group host=b then exists on two shards with
	// different field sets (one node creates the group without f2, another one brings f2 for it later)
	{"b", "f2", 0, 256, "2"},
	// a min field whose value in one series is exactly 0 (a slot that holds 0 is not an empty slot) and larger in
	// another series of the same group (no group by)
	{"a", "f3", 0, 0, ""},
	{"c", "f3", 0, 7, ""},
	// a series whose only point lies in the queried data family but after the end of the query range (slot 9 = +90 s,
	// the range ends at +50 s): a leaf may or may not report an empty group for it, depending on what else its shard
	// holds - the answer must not
	{"d", "f1", 9, 512, ""},
}

var fieldType = map[string]string{"f1": "sum", "f2": "max", "f3": "min"}

// query menu; $m = the case's metric name.
type queryT struct {
	ID  string
	SQL string
}

var menu = []queryT{
	{"plain", "select f1 from $m"},
	{"plain_by_host", "select f1 from $m group by host"},
	{"f2_by_host", "select f2 from $m group by host"},
	{"f1f2_by_host", "select f1,f2 from $m group by host"},
	{"f1f2", "select f1,f2 from $m"},
	{"sum", "select sum(f1) from $m"},
	{"max_by_host", "select max(f1) from $m group by host"},
	{"min", "select min(f1) from $m"},
	{"expr_by_host", "select f1+f2 as s from $m group by host"},
	{"avg", "select avg(f1) from $m"},
	{"max_f2", "select max(f2) from $m"},
	{"f3", "select f3 from $m"},
	{"where_a", "select f1 from $m where host='a'"},
	{"where_b_by_host", "select f1 from $m where host='b' group by host"},
	{"where_in", "select f1 from $m where host in ('a','c') group by host"},
	{"where_none", "select f1 from $m where host='zz'"},
	{"top1_desc", "select f1 from $m group by host order by f1 desc limit 1"},
	{"top2_asc", "select f1 from $m group by host order by max(f1) asc limit 2"},
	{"top1_f2", "select f2 from $m group by host order by f2 desc limit 1"},
	{"star_by_host", "select * from $m group by host"},
	{"star", "select * from $m"},
	{"by_time", "select f1 from $m group by host,time(20s)"},
	{"where_not_a", "select f1 from $m where host!='a' group by host"},
	{"no_metric", "select f1 from nosuch_$m"},
	{"no_field", "select f9 from $m"},
	{"no_tagkey", "select f1 from $m group by rack"},
}

// layoutT is one physical layout: the points are routed over NumShards shards with the broker's own routing
// code; Blocks is a partition of the shard ids 0..NumShards-1 over leaf nodes (block i lives on node i);
// Extra adds leaves/shards that hold no data of the metric.
type layoutT struct {
	NumShards int     `json:"shards"`
	Blocks    [][]int `json:"blocks"`
	Extra     string  `json:"extra"` // "", "emptyleaf", "ghostshard", "ghostleaf"
}

func (l layoutT) String() string {
	var bs []string
	for _, b := range l.Blocks {
		bs = append(bs, strings.Trim(strings.ReplaceAll(fmt.Sprint(b), " ", ","), "[]"))
	}
	s := fmt.Sprintf("%dsh{%s}", l.NumShards, strings.Join(bs, "|"))
	if l.Extra != "" {
		s += "+" + l.Extra
	}
	return s
}

var nodeNames = []string{"10.0.0.1:2891", "10.0.0.2:2891", "10.0.0.3:2891", "10.0.0.4:2891"}

const (
	ghostShard = models.ShardID(7) // exists on no node
	emptyShard = models.ShardID(5) // exists on every node, never written
)

// leaves of a layout.
func (l layoutT) leaves() []vbox.Leaf {
	var out []vbox.Leaf
	for i, b := range l.Blocks {
		lf := vbox.Leaf{Node: nodeNames[i]}
		for _, s := range b {
			lf.Shards = append(lf.Shards, models.ShardID(s))
		}
		out = append(out, lf)
	}
	switch l.Extra {
	case "emptyleaf": // one more node that owns a shard which never saw the metric
		out = append(out, vbox.Leaf{Node: nodeNames[len(l.Blocks)], Shards: []models.ShardID{emptyShard}})
	case "ghostshard": // the first leaf is also asked for a shard id it does not have
		out[0].Shards = append(out[0].Shards, ghostShard)
	case "ghostleaf": // one more node that is asked only for a shard id it does not have
		out = append(out, vbox.Leaf{Node: nodeNames[len(l.Blocks)], Shards: []models.ShardID{ghostShard}})
	}
	return out
}

// setPartitions enumerates all partitions of {0..n-1} into non-empty blocks (restricted growth strings),
// blocks ordered by their smallest element.
func setPartitions(n int) [][][]int {
	var out [][][]int
	rgs := make([]int, n)
	var rec func(i, maxb int)
	rec = func(i, maxb int) {
		if i == n {
			blocks := make([][]int, maxb)
			for e, b := range rgs {
				blocks[b] = append(blocks[b], e)
			}
			out = append(out, blocks)
			return
		}
		for b := 0; b <= maxb; b++ {
			rgs[i] = b
			nb := maxb
			if b == maxb {
				nb++
			}
			rec(i+1, nb)
		}
	}
	rec(0, 0)
	return out
}

// allLayouts: every shard count 1..3 x every partition of the shards over leaf nodes x every extra;
// maxLeaves bounds the number of responses (quick 3, thorough 4).
func allLayouts(maxLeaves int) []layoutT {
	var out []layoutT
	for n := 1; n <= 3; n++ {
		for _, blocks := range setPartitions(n) {
			for _, extra := range []string{"", "emptyleaf", "ghostshard", "ghostleaf"} {
				if (extra == "emptyleaf" || extra == "ghostleaf") && len(blocks)+1 > maxLeaves {
					continue
				}
				out = append(out, layoutT{NumShards: n, Blocks: blocks, Extra: extra})
			}
		}
	}
	return out
}

// ------------------------------------------------------------------------------------------------

type caseT struct {
	Data   []int   `json:"data"`   // indexes into the alphabet
	Query  string  `json:"query"`  // menu id
	Layout layoutT `json:"layout"` // the layout that disagreed
	Order  []int   `json:"order"`
	CompAt int     `json:"complete_at"`
	Inter  int     `json:"intermediates,omitempty"`
	Points []pt    `json:"points,omitempty"` // readable copy
}

type world struct {
	c     *vbox.Cluster
	base  int64
	tr    timeutil.TimeRange
	seq   int
	rep   *vevid.Report
	perms map[int][][]int

	noInter bool
}

func (w *world) permsOf(n int) [][]int {
	if p, ok := w.perms[n]; ok {
		return p
	}
	var out [][]int
	venum.Permutations(n, func(p []int) bool {
		out = append(out, append([]int(nil), p...))
		return true
	})
	w.perms[n] = out
	return out
}

// write routes the data set over the layout's shards (broker routing code) into a fresh metric.
func (w *world) write(data []int, lay layoutT) (metric string, used map[int]bool) {
	var pts []pt
	for _, di := range data {
		pts = append(pts, alphabet[di])
	}
	return w.writePts(pts, lay)
}

func (w *world) writePts(data []pt, lay layoutT) (metric string, used map[int]bool) {
	w.seq++
	metric = fmt.Sprintf("m%d", w.seq)
	owner := map[int]string{}
	for i, b := range lay.Blocks {
		for _, s := range b {
			owner[s] = nodeNames[i]
		}
	}
	used = map[int]bool{}
	for _, p := range data {
		tags := map[string]string{"host": p.Host}
		if p.DC != "" {
			tags["dc"] = p.DC
		}
		vp := vbox.Point{Metric: metric, Tags: tags, Field: p.Field, Type: fieldType[p.Field],
			Value: p.Val, Timestamp: w.base + int64(p.Slot)*10_000 + 3000}
		idx, block, err := vbox.Route(vp, int32(lay.NumShards))
		if err != nil {
			vevid.OpFailed("route: %v", err)
		}
		if idx < 0 || idx >= lay.NumShards {
			// replica/channel_database.go Write: no channel for that shard -> the row is dropped (error only logged)
			w.rep.Count("rows_routed_to_missing_shard", 1)
			continue
		}
		used[idx] = true
		if err := w.c.Nodes[owner[idx]].WriteBlock(models.ShardID(idx), vp.Timestamp, block); err != nil {
			vevid.OpFailed("write: %v", err)
		}
	}
	return metric, used
}

// canon renders the data of a result set order-insensitively: series tags, field, timestamp=value.
func canon(rs *commonmodels.ResultSet) string {
	return strings.Join(vbox.Canon(rs), ";")
}

type verdict struct {
	Err   string
	Canon string
}

func (v verdict) key() string {
	if v.Err != "" {
		return "E"
	}
	if v.Canon == "" {
		return "empty"
	}
	return "data"
}

func (v verdict) String() string {
	if v.Err != "" {
		return "error(" + v.Err + ")"
	}
	if v.Canon == "" {
		return "empty result"
	}
	return v.Canon
}

// grid is the outcome of one query on one layout for every delivery order x completion position.
type grid struct {
	planErr  bool
	orders   [][]int
	v        [][]verdict // [order index][completeAt 0..n]
	leafErrs []string
	eager    *eagerDiff
	early    *eagerDiff // order = the leaves that answered during their send call
}

// eagerDiff: the answer depends on when the goroutine waiting in WaitResponse gets to run.
type eagerDiff struct {
	order             []int
	compAt            int
	doneAfter, events int
	lazy, eager       verdict
}

func toVerdict(rs *commonmodels.ResultSet, err error) verdict {
	if err != nil {
		return verdict{Err: err.Error()}
	}
	return verdict{Canon: canon(rs)}
}

// run executes one query on one layout: the leaves answer once (their answers do not depend on delivery),
// then a fresh real root is driven for every delivery order and completion position. Order 0 is the natural
// order; its completeAt=0 run uses a freshly parsed statement, the others a JSON clone of it.
func (w *world) run(sql string, lay layoutT) *grid {
	leaves := lay.leaves()
	run, planErr, err := w.c.LeafResponses(sql, w.tr, leaves)
	if err != nil {
		vevid.OpFailed("leaf run %q on %s: %v", sql, lay, err)
	}
	if planErr != nil {
		return &grid{planErr: true, orders: [][]int{nil}, v: [][]verdict{{{Err: planErr.Error()}}}}
	}
	if run.Extra > 0 {
		vevid.Fatal("a leaf sent more than one response")
	}
	n := len(leaves)
	g := &grid{leafErrs: run.Errs}
	for oi, order := range w.permsOf(n) {
		row := make([]verdict, n+1)
		for compAt := 0; compAt <= n; compAt++ {
			r := w.c.DeliverX(sql, w.tr, run, vbox.DeliverOpt{Order: order, CompleteAt: compAt, Clone: !(oi == 0 && compAt == 0)})
			row[compAt] = toVerdict(r.Result, r.Err)
			if r.DoneAfter >= 0 && r.DoneAfter < r.Events {
				// the context was done before the last event: the waiting goroutine may already run then
				w.rep.Count("done_before_last_event", 1)
				e := w.c.DeliverX(sql, w.tr, run, vbox.DeliverOpt{Order: order, CompleteAt: compAt, Clone: true, Eager: true})
				w.rep.Evaluations++
				if ev := toVerdict(e.Result, e.Err); !same(ev, row[compAt]) && g.eager == nil {
					g.eager = &eagerDiff{order: order, compAt: compAt, doneAfter: r.DoneAfter, events: r.Events, lazy: row[compAt], eager: ev}
				}
			}
			w.rep.Evaluations++
		}
		g.orders = append(g.orders, order)
		g.v = append(g.v, row)
		if oi == 0 && n >= 2 {
			// answers that arrive while the root is still sending: every non-empty set of leaves answers inside the send
			// call of its own request, the other answers and the completion follow; the waiter runs as early as it can
			for set := 1; set < 1<<n; set++ {
				var during []int
				for i := 0; i < n; i++ {
					if set&(1<<i) != 0 {
						during = append(during, i)
					}
				}
				e := w.c.DeliverX(sql, w.tr, run, vbox.DeliverOpt{Order: order, CompleteAt: n, Clone: true, Eager: true, DuringSend: during})
				w.rep.Evaluations++
				if ev := toVerdict(e.Result, e.Err); !same(ev, row[n]) && g.early == nil {
					g.early = &eagerDiff{order: during, compAt: n, doneAfter: e.DoneAfter, events: e.Events, lazy: row[n], eager: ev}
				}
			}
		}
	}
	return g
}

// viaIntermediates: the same query and layout through 1 intermediate node (every delivery order of the leaf
// answers at that node) and through 2 intermediate nodes (natural order), against the reference run.
func (w *world) viaIntermediates(sql string, lay layoutT, want verdict, viol func(clause string, nInter int, order []int, wantS string, got verdict, note string)) {
	leaves := lay.leaves()
	var oneReceiver map[string][]string // leaf -> its groups when it answers to one receiver
	for nInter := 1; nInter <= 2; nInter++ {
		cache := &vbox.TierCache{}
		var base verdict
		for oi, order := range w.permsOf(len(leaves)) {
			if nInter == 2 && oi > 0 {
				break
			}
			tr, err := w.c.QueryViaIntermediates(sql, w.tr, leaves, nInter, order, cache)
			if err != nil {
				vevid.OpFailed("intermediate run %q on %s: %v", sql, lay, err)
			}
			w.rep.Evaluations++
			var got verdict
			if tr.Err != nil {
				got.Err = tr.Err.Error()
			} else {
				got.Canon = canon(tr.Result)
			}
			w.rep.Outcome(fmt.Sprintf("inter=%d:%s:dropped=%v", nInter, got.key(), tr.DroppedResps > 0))
			note := ""
			if tr.DroppedResps > 0 || len(tr.ReceiveOnly) > 0 {
				note = fmt.Sprintf(" (receive-only nodes %v never answer the root; %d leaf responses addressed to them were dropped)", tr.ReceiveOnly, tr.DroppedResps)
			}
			if oi == 0 {
				// the split of a leaf's groups over the receivers: every group of the leaf's one-receiver answer goes to
				// exactly one receiver, with the same data, and equal tags of different leaves go to the same receiver
				if bad := splitOracle(tr, nInter, &oneReceiver); bad != "" {
					viol("intermediate.leaf_split", nInter, order, "every group of a leaf's answer at exactly one receiver", verdict{Err: bad}, "")
				}
				base = got
				if !same(got, want) {
					clause := "intermediate.different_answer"
					if got.Err == vbox.ErrRootNotDone.Error() {
						clause = "intermediate.root_never_completes"
					}
					if tr.InterStuck {
						clause = "intermediate.compute_node_never_completes"
					}
					viol(clause, nInter, order, "(reference run: 1 shard, 1 leaf, no intermediate) "+want.String(), got, note)
				}
				continue
			}
			if !same(got, base) {
				viol("intermediate.response_order", nInter, order, fmt.Sprintf("(same layout, natural order) %s", base), got, note)
				break
			}
		}
	}
}

// splitOracle compares what the leaves answered to nInter receivers with what they answered to one.
func splitOracle(tr *vbox.TierResult, nInter int, oneReceiver *map[string][]string) string {
	perLeaf := map[string][]string{}
	home := map[string]string{} // tags -> receiver
	for _, la := range tr.LeafAnswers {
		if la.Err != "" {
			perLeaf[la.Leaf] = append(perLeaf[la.Leaf], "error:"+errClass(la.Err))
			continue
		}
		for _, g := range la.Groups {
			perLeaf[la.Leaf] = append(perLeaf[la.Leaf], g)
			tags := g[:strings.Index(g, "{")]
			if h, ok := home[tags]; ok && h != la.Receiver {
				return fmt.Sprintf("group %s is sent to receiver %s by one leaf and to %s by leaf %s", tags, h, la.Receiver, la.Leaf)
			}
			home[tags] = la.Receiver
		}
	}
	for _, gs := range perLeaf {
		sort.Strings(gs)
		// an error answer is repeated for every receiver
		for i := len(gs) - 1; i > 0; i-- {
			if strings.HasPrefix(gs[i], "error:") && gs[i] == gs[i-1] {
				gs = append(gs[:i], gs[i+1:]...)
			}
		}
	}
	if nInter == 1 {
		*oneReceiver = perLeaf
		return ""
	}
	if *oneReceiver == nil {
		return ""
	}
	var leaves []string
	for l := range *oneReceiver {
		leaves = append(leaves, l)
	}
	for l := range perLeaf {
		if _, ok := (*oneReceiver)[l]; !ok {
			leaves = append(leaves, l)
		}
	}
	sort.Strings(leaves)
	for _, l := range leaves {
		a, b := dedupErrs((*oneReceiver)[l]), dedupErrs(perLeaf[l])
		if strings.Join(a, ";") != strings.Join(b, ";") {
			return fmt.Sprintf("leaf %s answers %v to one receiver and, over %d receivers %v, %v", l, a, nInter, tr.Receivers, b)
		}
	}
	return ""
}

func dedupErrs(gs []string) []string {
	var out []string
	for i, g := range gs {
		if i > 0 && strings.HasPrefix(g, "error:") && g == gs[i-1] {
			continue
		}
		out = append(out, g)
	}
	sort.Strings(out)
	return out
}

func same(a, b verdict) bool { return a.key() == b.key() && a.Canon == b.Canon }

func errClass(msg string) string {
	switch {
	case msg == "":
		return ""
	case strings.Contains(msg, "not found"):
		return "not found"
	case strings.Contains(msg, "not completed after all responses"):
		return "root never completes"
	default:
		return "other"
	}
}

func main() {
	f := vevid.ParseFlags()
	rep := vevid.New("C12")
	rep.Rule = "case = (data set, query, layout, delivery order, completion position); non-trivial = the reference answer is non-empty and the layout has >= 2 responses or >= 2 shards"
	opt := &option.DatabaseOption{Intervals: option.Intervals{{Interval: timeutil.Interval(10_000), Retention: timeutil.Interval(3000 * 24 * 3600 * 1000)}}, AutoCreateNS: true}
	c, err := vbox.OpenCluster(f.Scratch+"/eng", "db", opt, nodeNames, []models.ShardID{0, 1, 2, emptyShard})
	if err != nil {
		vevid.OpFailed("open: %v", err)
	}
	defer func() {
		c.Close()
		os.RemoveAll(f.Scratch + "/eng")
	}()
	day := time.Now().UTC().Truncate(24*time.Hour).UnixMilli() - 24*3600*1000
	base := day + 10*3600*1000
	w := &world{c: c, base: base, tr: timeutil.TimeRange{Start: base, End: base + 50_000}, rep: rep, perms: map[int][][]int{}, noInter: noInterEnv}

	if f.Part == "sched" {
		runSched(f, rep, w)
		return
	}
	// vacuity guard: the hosts of the alphabet must really be spread by the routing code
	splitHost := false
	for n := int32(2); n <= 3; n++ {
		seen := map[int]bool{}
		for _, h := range []string{"a", "b", "c"} {
			idx, _, err := vbox.Route(vbox.Point{Metric: "probe", Tags: map[string]string{"host": h}, Field: "f1", Type: "sum", Value: 1, Timestamp: base}, n)
			if err != nil {
				vevid.OpFailed("route: %v", err)
			}
			seen[idx] = true
			rep.Outcome(fmt.Sprintf("route:%d:%s->%d", n, h, idx))
		}
		b1, _, _ := vbox.Route(vbox.Point{Metric: "probe", Tags: map[string]string{"host": "b"}, Field: "f1", Type: "sum", Value: 1, Timestamp: base}, n)
		b2, _, _ := vbox.Route(vbox.Point{Metric: "probe", Tags: map[string]string{"host": "b", "dc": "2"}, Field: "f2", Type: "max", Value: 1, Timestamp: base}, n)
		rep.Outcome(fmt.Sprintf("route:%d:b->%d b/dc=2->%d", n, b1, b2))
		if b1 != b2 {
			splitHost = true
		}
		if len(seen) < 2 {
			vevid.Fatal("vacuous: the routing code sends hosts a,b,c to one shard of %d - sharding would not be exercised", n)
		}
	}
	if !splitHost {
		vevid.Fatal("vacuous: the routing code keeps host=b and host=b,dc=2 on one shard for every shard count")
	}
	maxPts := 3
	if f.Thorough() {
		maxPts = 5
	}
	maxLeaves := 3
	if f.Thorough() {
		maxLeaves = 4
	}
	layouts := allLayouts(maxLeaves)
	rep.Bounds["alphabet_points"] = len(alphabet)
	rep.Bounds["max_points"] = maxPts
	rep.Bounds["queries"] = len(menu)
	rep.Bounds["layouts"] = len(layouts)
	rep.Bounds["max_leaves"] = maxLeaves

	if f.Replay != "" {
		var cs caseT
		vevid.LoadReplay(f.Replay, &cs)
		for i := 0; i < 5; i++ {
			if cs.Query == splitQuery.ID {
				w.splitCase(cs.Points, []layoutT{cs.Layout})
				continue
			}
			w.checkData(cs.Data, []layoutT{cs.Layout}, cs.Query)
		}
		rep.Write()
		return
	}

	var idx int64
	venum.Subsets(len(alphabet), func(mask uint64) bool {
		var sub []int
		for i := range alphabet {
			if mask&(1<<uint(i)) != 0 {
				sub = append(sub, i)
			}
		}
		if len(sub) == 0 || len(sub) > maxPts {
			return true
		}
		idx++
		if !f.Mine(idx) {
			return true
		}
		if f.Expired() {
			rep.Cap(fmt.Sprintf("deadline at data set %d", idx))
			return false
		}
		w.checkData(sub, layouts, "")
		return true
	})
	rep.Count("data_sets", idx)
	if !w.noInter {
		maxG := 5
		if f.Thorough() {
			maxG = 7
		}
		rep.Bounds["split_max_groups"] = maxG
		w.splitStage(f, &idx, maxG)
	}
	rep.Write()
}

// checkData: reference run + every layout for every query of the menu (or only query `only`).
func (w *world) checkData(data []int, layouts []layoutT, only string) {
	rep := w.rep
	var pts []pt
	for _, d := range data {
		pts = append(pts, alphabet[d])
	}
	refLay := layoutT{NumShards: 1, Blocks: [][]int{{0}}}
	refMetric, _ := w.write(data, refLay)
	// reference verdict per query
	ref := map[string]verdict{}
	for _, q := range menu {
		if only != "" && q.ID != only {
			continue
		}
		sql := strings.ReplaceAll(q.SQL, "$m", refMetric)
		leaves := refLay.leaves()
		run, planErr, err := w.c.LeafResponses(sql, w.tr, leaves)
		if err != nil {
			vevid.OpFailed("reference leaf run: %v", err)
		}
		var v verdict
		if planErr != nil {
			v.Err = planErr.Error()
		} else {
			// "a function of the written data only": the same run repeated must give the same answer
			for rnd := 0; rnd < 3; rnd++ {
				var vi verdict
				rs, err := w.c.Deliver(sql, w.tr, run, nil, -1)
				if err != nil {
					vi.Err = err.Error()
				} else {
					vi.Canon = canon(rs)
				}
				rep.Evaluations++
				if rnd > 0 && !same(vi, v) {
					cs := caseT{Data: data, Query: q.ID, Layout: refLay, CompAt: -1, Points: pts}
					rep.Violate(vevid.Violation{Clause: "nondeterministic_answer", Scenario: q.ID, Site: "query/context.RootMetricContext.makeResultSet",
						Detail: fmt.Sprintf("points %v query %q, reference layout, identical delivery, run 1: %s run %d: %s", pts, q.SQL, v, rnd+1, vi), Replay: cs})
				}
				v = vi
			}
		}
		ref[q.ID] = v
		rep.Outcome("ref:" + q.ID + ":" + v.key())
		if debug {
			fmt.Fprintf(os.Stderr, "REF %v %s -> %s\n", pts, q.ID, v)
		}
		// "not found everywhere is an error"
		if (q.ID == "no_metric" || q.ID == "no_field" || q.ID == "no_tagkey") && v.Err == "" {
			rep.Violate(vevid.Violation{Clause: "notfound_everywhere_is_error", Scenario: q.ID, Site: "query/context.MetricContext.checkError",
				Detail: fmt.Sprintf("query %q on a metric/field/tag key that exists nowhere answered %s instead of an error", q.SQL, v),
				Replay: caseT{Data: data, Query: q.ID, Layout: refLay, CompAt: -1, Points: pts}})
		}
	}
	for _, lay := range layouts {
		metric, used := w.write(data, lay)
		nLeaves := len(lay.leaves())
		for _, q := range menu {
			if only != "" && q.ID != only {
				continue
			}
			want := ref[q.ID]
			sql := strings.ReplaceAll(q.SQL, "$m", metric)
			g := w.run(sql, lay)
			var lec []string
			for _, e := range g.leafErrs {
				lec = append(lec, errClass(e))
			}
			viol := func(clause, site string, order []int, compAt int, wantS string, got verdict) {
				cs := caseT{Data: data, Query: q.ID, Layout: lay, Order: order, CompAt: compAt, Points: pts}
				rep.Sample(cs)
				// scenario: the query for layout / order dependence (tells the defects apart); for the delivery
				// schedule clauses the kind of answer that gets lost (they do not depend on the query)
				scenario := q.ID
				if clause == "completion_position" || clause == "waiter_schedule" {
					scenario = "lost:" + wantS[strings.LastIndex(wantS, ") ")+2:]
					if i := strings.IndexAny(scenario, "(["); i > 0 {
						scenario = scenario[:i]
					}
					scenario = strings.TrimSpace(scenario) + "/got:" + got.key()
				}
				rep.Violate(vevid.Violation{Clause: clause, Scenario: scenario, Site: site,
					Detail: fmt.Sprintf("points %v query %q layout %s (shards holding data %v) leaf answers %q delivery order %v Complete(nil) at %d: want %s got %s",
						pts, q.SQL, lay, keys(used), lec, order, compAt, wantS, got),
					Replay: cs})
			}
			// 1. sharding / placement: natural order, completion before every response, against the reference run
			base := g.v[0][0]
			rep.Outcome(fmt.Sprintf("%s:%s:leaves=%d", q.ID, base.key(), nLeaves))
			if want.key() == "data" && (nLeaves >= 2 || len(used) >= 2) {
				rep.DistinctNontrivial += int64(len(g.v) * len(g.v[0]))
			}
			if !same(base, want) {
				clause := "layout.different_data"
				switch {
				case want.key() == "data" && base.key() == "E":
					clause = "layout.answer_turned_into_error"
				case want.key() == "data" && base.key() == "empty":
					clause = "layout.answer_turned_into_empty"
				case want.key() == "E":
					clause = "layout.error_lost"
				case base.key() == "E":
					clause = "layout.spurious_error"
				}
				if base.Err == vbox.ErrRootNotDone.Error() {
					clause = "layout.root_never_completes"
				}
				viol(clause, "query/context.MetricContext.handleResponse", g.orders[0], 0, "(reference run: 1 shard, 1 leaf) "+want.String(), base)
			}
			if g.planErr {
				continue
			}
			// 2. response order: every permutation (completion first) against the natural order of the same layout
			for oi := 1; oi < len(g.v); oi++ {
				if !same(g.v[oi][0], base) {
					clause := "response_order"
					if g.v[oi][0].Err == vbox.ErrRootNotDone.Error() {
						clause = "response_order.root_never_completes"
					}
					viol(clause, "query/context.MetricContext.handleResponse", g.orders[oi], 0, fmt.Sprintf("(same layout, order %v) %s", g.orders[0], base), g.v[oi][0])
					break
				}
			}
			// 5. the moment the waiter runs: released as soon as the context is done vs after all events
			if g.eager != nil {
				e := g.eager
				viol("waiter_schedule", "query/context.baseTaskContext.tryClose", e.order, e.compAt,
					fmt.Sprintf("(waiter runs after all %d events) %s", e.events, e.lazy),
					verdict{Err: e.eager.Err, Canon: e.eager.Canon})
				_ = e.doneAfter
			}
			// 6. answers that arrive while the root is still sending
			if g.early != nil {
				e := g.early
				viol("answer_during_send", "query/context.baseTaskContext.SendRequest", e.order, e.compAt,
					fmt.Sprintf("(all answers after the send stage) %s", e.lazy),
					verdict{Err: e.eager.Err, Canon: e.eager.Canon})
			}
			// 4. intermediate tier (group by queries; the broker uses it only with more than one storage node)
			if strings.Contains(q.SQL, "group by") && nLeaves >= 2 && !w.noInter {
				w.viaIntermediates(sql, lay, want, w.interViol(data, pts, q, lay))
			}
			// 3. completion position (H16): every position against "completion first" of the same order
			func() {
				for oi := range g.v {
					for compAt := 1; compAt < len(g.v[oi]); compAt++ {
						if !same(g.v[oi][compAt], g.v[oi][0]) {
							viol("completion_position", "query/context.baseTaskContext.Complete", g.orders[oi], compAt,
								"(same layout and order, Complete(nil) first) "+g.v[oi][0].String(), g.v[oi][compAt])
							return
						}
					}
				}
			}()
		}
	}
	rep.Sample(caseT{Data: data, Points: pts})
}

// interViol reports a disagreement of a run through the intermediate tier.
func (w *world) interViol(data []int, pts []pt, q queryT, lay layoutT) func(clause string, nInter int, order []int, wantS string, got verdict, note string) {
	rep := w.rep
	return func(clause string, nInter int, order []int, wantS string, got verdict, note string) {
		cs := caseT{Data: data, Query: q.ID, Layout: lay, Order: order, CompAt: 0, Inter: nInter, Points: pts}
		rep.Sample(cs)
		scenario := q.ID
		if clause == "intermediate.root_never_completes" || clause == "intermediate.compute_node_never_completes" {
			scenario = fmt.Sprintf("intermediates=%d", nInter)
		}
		rep.Violate(vevid.Violation{Clause: clause, Scenario: scenario, Site: "query.intermediateTaskProcessor.Process",
			Detail: fmt.Sprintf("points %v query %q layout %s via %d intermediate node(s), leaf answers delivered to the compute node in order %v%s: want %s got %s",
				pts, q.SQL, lay, nInter, order, note, wantS, got),
			Replay: cs})
	}
}

// splitStage: group-by answers of a leaf split over two receivers, for every number of groups G <= maxG and every
// split shape (k groups hash to receiver 0, G-k to receiver 1): the host names are picked by the hash the leaf uses.
// Layouts: all groups on one leaf (plus a leaf without data), and the groups routed over two shards on two leaves.
func (w *world) splitStage(f *vevid.Flags, idx *int64, maxG int) {
	rep := w.rep
	var class [2][]string
	for i := 0; len(class[0]) < maxG || len(class[1]) < maxG; i++ {
		h := fmt.Sprintf("h%d", i)
		c := int(xxhash.Sum64String(h) % 2)
		if len(class[c]) < maxG {
			class[c] = append(class[c], h)
		}
	}
	lays := []layoutT{{NumShards: 1, Blocks: [][]int{{0}}, Extra: "emptyleaf"}, {NumShards: 2, Blocks: [][]int{{0}, {1}}}}
	for g := 1; g <= maxG; g++ {
		for k := 0; k <= g; k++ {
			*idx++
			if !f.Mine(*idx) {
				continue
			}
			if f.Expired() {
				rep.Cap(fmt.Sprintf("deadline at split case %d", *idx))
				return
			}
			var pts []pt
			for i := 0; i < g; i++ {
				h := class[1][(i-k+maxG)%maxG]
				if i < k {
					h = class[0][i]
				}
				pts = append(pts, pt{Host: h, Field: "f1", Slot: i % 3, Val: float64(int(1) << uint(i))})
			}
			want := w.splitCase(pts, lays)
			rep.Outcome(fmt.Sprintf("split:g=%d:k=%d:%s", g, k, want.key()))
		}
	}
}

var splitQuery = queryT{ID: "split_by_host", SQL: "select f1 from $m group by host"}

func (w *world) splitCase(pts []pt, lays []layoutT) verdict {
	q := splitQuery
	refLay := layoutT{NumShards: 1, Blocks: [][]int{{0}}}
	refMetric, _ := w.writePts(pts, refLay)
	sql := strings.ReplaceAll(q.SQL, "$m", refMetric)
	run, planErr, err := w.c.LeafResponses(sql, w.tr, refLay.leaves())
	if err != nil || planErr != nil {
		vevid.OpFailed("split reference leaf run: %v %v", err, planErr)
	}
	var want verdict
	if rs, err := w.c.Deliver(sql, w.tr, run, nil, -1); err != nil {
		want.Err = err.Error()
	} else {
		want.Canon = canon(rs)
	}
	for _, lay := range lays {
		metric, _ := w.writePts(pts, lay)
		w.viaIntermediates(strings.ReplaceAll(q.SQL, "$m", metric), lay, want, w.interViol(nil, pts, q, lay))
	}
	return want
}

func keys(m map[int]bool) []int {
	var out []int
	for k := range m {
		out = append(out, k)
	}
	sort.Ints(out)
	return out
}
