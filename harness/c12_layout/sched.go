package main

// Part "sched": schedule exploration of the root's task context. For a handful of (data, layout, query)
// scenarios the leaves answer once (real engine, real leaf processors, scheduler inactive); then, under
// engine/vsched with query/context/task_context.go and metric_context.go rebuilt on the scheduling shims,
// HandleResponse(r1) || HandleResponse(r2) || HandleResponse(r3) || Complete(nil) || waiter run on a fresh
// real root for every schedule within the preemption bound. The waiter is production's WaitResponse caller:
// it becomes enabled when doneCh is closed and then builds the answer - possibly while other threads are still
// inside HandleResponse. Oracle: no deadlock (the waiter is released), and the waiter's answer is the answer
// of the sequential natural-order delivery of the same responses.

import (
	"fmt"
	"strings"

	commonmodels "github.com/lindb/common/models"

	"github.com/lindb/lindb/internal/vbox"
	"github.com/lindb/lindb/internal/vevid"
	"github.com/lindb/lindb/internal/vsched"
)

type schedScenario struct {
	Name   string  `json:"name"`
	Data   []int   `json:"data"`
	Layout layoutT `json:"layout"`
	Query  string  `json:"query"`
}

var schedScenarios = []schedScenario{
	// a -> one shard, b,c -> another, third leaf never heard of the metric
	{"data_data_notfound", []int{0, 3, 6}, layoutT{NumShards: 2, Blocks: [][]int{{0}, {1}}, Extra: "emptyleaf"}, "plain_by_host"},
	{"three_shards", []int{0, 3, 6}, layoutT{NumShards: 3, Blocks: [][]int{{0}, {1}, {2}}}, "plain_by_host"},
	{"all_notfound", []int{0, 3}, layoutT{NumShards: 3, Blocks: [][]int{{0}, {1}, {2}}}, "no_metric"},
	{"real_errors", []int{0, 3}, layoutT{NumShards: 2, Blocks: [][]int{{0}, {1}}, Extra: "emptyleaf"}, "avg"},
	{"different_fields_star", []int{0, 4, 7}, layoutT{NumShards: 2, Blocks: [][]int{{0}, {1}}, Extra: "emptyleaf"}, "star_by_host"},
	{"different_fields_list", []int{0, 3, 4, 7}, layoutT{NumShards: 2, Blocks: [][]int{{0}, {1}}, Extra: "emptyleaf"}, "f1f2_by_host"},
	{"topn", []int{0, 3, 6}, layoutT{NumShards: 2, Blocks: [][]int{{0}, {1}}, Extra: "ghostleaf"}, "top1_desc"},
	{"two_leaves_sum", []int{0, 1, 3, 6}, layoutT{NumShards: 2, Blocks: [][]int{{0}, {1}}}, "sum"},
}

type schedReplay struct {
	Scenario string `json:"scenario"`
	Choices  []int  `json:"choices"`
}

type schedObs struct {
	rr     *vbox.RootRun
	waited bool
	v      verdict
	err    string
}

func menuByID(id string) queryT {
	for _, q := range menu {
		if q.ID == id {
			return q
		}
	}
	vevid.Fatal("unknown query id %s", id)
	return queryT{}
}

func runSched(f *vevid.Flags, rep *vevid.Report, w *world) {
	rep.Rule = "case = (scenario, schedule); every schedule of {HandleResponse x leaves, Complete(nil), waiter} within the preemption bound runs on a fresh real root; all are distinct; non-trivial = the scenario has >= 2 responses (all have)"
	pb := 2
	if f.Thorough() {
		pb = 3
	}
	rep.Bounds["preemption_bound"] = pb
	rep.Bounds["scenarios"] = len(schedScenarios)

	type prepared struct {
		sc   schedScenario
		sql  string
		run  *vbox.LeafRun
		want verdict
	}
	var preps []prepared
	for _, sc := range schedScenarios {
		metric, _ := w.write(sc.Data, sc.Layout)
		sql := strings.ReplaceAll(menuByID(sc.Query).SQL, "$m", metric)
		run, planErr, err := w.c.LeafResponses(sql, w.tr, sc.Layout.leaves())
		if err != nil || planErr != nil {
			vevid.OpFailed("sched scenario %s: %v %v", sc.Name, err, planErr)
		}
		// sequential reference of the SAME responses: natural order, completion first
		r := w.c.DeliverX(sql, w.tr, run, vbox.DeliverOpt{CompleteAt: 0, Clone: true})
		preps = append(preps, prepared{sc, sql, run, toVerdict(r.Result, r.Err)})
		rep.Outcome("sched-ref:" + sc.Name + ":" + preps[len(preps)-1].want.key())
	}

	body := func(p prepared, o *schedObs) func() {
		return func() {
			*o = schedObs{}
			rr, err := w.c.NewRootRun(p.sql, w.tr, p.run, true)
			if err != nil {
				o.err = err.Error()
				return
			}
			o.rr = rr
			for i := range p.run.Resps {
				i := i
				vsched.Spawn(fmt.Sprintf("resp%d", i), func() { rr.Respond(i) })
			}
			vsched.Spawn("complete", func() { rr.Complete() })
			vsched.Spawn("waiter", func() {
				vsched.Block("WaitResponse(<-doneCh)", rr.Done)
				var rs *commonmodels.ResultSet
				rs, err := rr.Wait()
				o.v = toVerdict(rs, err)
				o.waited = true
				vsched.Logf("waiter: %s", o.v.key())
			})
		}
	}
	check := func(p prepared, o *schedObs, x *vsched.Result) {
		if o.rr != nil {
			defer o.rr.Close()
		}
		if o.err != "" {
			vevid.Fatal("sched body: %s", o.err)
		}
		rp := schedReplay{Scenario: p.sc.Name, Choices: x.Choices()}
		for _, pn := range x.Panics {
			rep.Violate(vevid.Violation{Clause: "sched.panic", Scenario: p.sc.Name, Site: "query/context", Detail: pn, Replay: rp})
		}
		if x.Horizon {
			vevid.Fatal("step horizon exceeded in scenario %s", p.sc.Name)
		}
		rep.Outcome(fmt.Sprintf("sched:%s:deadlock=%v:%s", p.sc.Name, x.Deadlock, o.v.key()))
		if x.Deadlock || !o.waited {
			rep.Violate(vevid.Violation{Clause: "sched.waiter_never_released", Scenario: p.sc.Name, Site: "query/context.baseTaskContext.tryClose",
				Detail: fmt.Sprintf("every response and the completion were delivered, WaitResponse still blocks; leaf answers %q; wait graph: %s", p.run.Errs, x.WaitGraph), Replay: rp})
			return
		}
		if !same(o.v, p.want) {
			rep.Violate(vevid.Violation{Clause: "sched.different_answer", Scenario: p.sc.Name, Site: "query/context.MetricContext.HandleResponse",
				Detail: fmt.Sprintf("query %q layout %s leaf answers %q: sequential natural-order delivery answers %s, this schedule (choices %v) answers %s",
					p.sql, p.sc.Layout, p.run.Errs, p.want, x.Choices(), o.v), Replay: rp})
		}
	}

	if f.Replay != "" {
		var r schedReplay
		vevid.LoadReplay(f.Replay, &r)
		for _, p := range preps {
			if p.sc.Name != r.Scenario {
				continue
			}
			for i := 0; i < 5; i++ {
				o := &schedObs{}
				x := vsched.Run(r.Choices, 100000, body(p, o))
				check(p, o, x)
				rep.Evaluations++
			}
		}
		rep.Write()
		return
	}

	for si, p := range preps {
		p := p
		o := &schedObs{}
		e := &vsched.Explorer{Bound: pb, Horizon: 100000, Body: body(p, o), Deadline: f.Deadline, Shard: f.Shard, Shards: f.Shards}
		e.Check = func(x *vsched.Result) { check(p, o, x) }
		e.Discard = func(x *vsched.Result) {
			if o.rr != nil {
				o.rr.Close()
			}
		}
		if si == 0 {
			if err := e.Determinism(nil); err != nil {
				vevid.Fatal("determinism: %v", err)
			}
			if o.rr != nil {
				o.rr.Close()
			}
			rep.Extra["determinism_replay"] = "ok"
		}
		e.Explore()
		if e.Diverged != "" {
			vevid.Fatal("replay divergence in %s: %s", p.sc.Name, e.Diverged)
		}
		if e.Capped {
			rep.Cap("deadline reached inside scenario " + p.sc.Name)
		}
		rep.Evaluations += e.Executions
		rep.DistinctNontrivial += e.Executions
		rep.States += e.Executions
		rep.Transitions += e.Points
		rep.TracesValidated += e.Executions
		rep.Count("schedules:"+p.sc.Name, e.Executions)
		if mp, _ := rep.Extra["max_points_in_one_schedule"].(int); e.MaxPoints > mp {
			rep.Extra["max_points_in_one_schedule"] = e.MaxPoints
		}
		rep.Sample(map[string]interface{}{"scenario": p.sc, "leaf_answers": p.run.Errs, "sequential_answer": p.want.String(), "schedules": e.Executions})
		if e.Capped {
			break
		}
	}
	rep.Write()
}
