package main

// Part "race" of C07: a data-family flush racing with local replication. The local replicator steps and
// Flush() run as controlled threads (tsdb/data_family.go rebuilt with scheduling shims, strict goroutine
// identity because the engine has worker goroutines of its own); every schedule within the preemption
// bound; after each schedule the node directory is captured as it is (the memory database is lost - that
// is the crash), recovered by a real node, replayed and queried: every entry exactly once, and the WAL
// acknowledgement not ahead of the stored sequence.

import (
	"fmt"
	"math"
	"os"
	"path/filepath"

	"github.com/lindb/lindb/internal/vbox"
	"github.com/lindb/lindb/internal/vcrashfs"
	"github.com/lindb/lindb/internal/vevid"
	"github.com/lindb/lindb/internal/vsched"
	"github.com/lindb/lindb/models"
	"github.com/lindb/lindb/replica"
)

type raceScenario struct {
	Name    string     `json:"name"`
	Pending int        `json:"pending"` // entries appended (not replicated) before the threads start
	Threads [][]string `json:"threads"` // ops: "step" (one replicator step if an entry is pending), "flush"
	// Restart: the node is stopped and started again after the first complete flush cycle, so the race runs on a data
	// family that was recovered from disk (its sequences come from the stored version, not from a first write)
	Restart bool `json:"restart,omitempty"`
}

var raceScenarios = []raceScenario{
	{"step|flush", 1, [][]string{{"step"}, {"flush"}}, false},
	{"step,step|flush", 2, [][]string{{"step", "step"}, {"flush"}}, false},
	{"step|flush|flush", 1, [][]string{{"step"}, {"flush"}, {"flush"}}, false},
	{"step,step|flush,flush", 2, [][]string{{"step", "step"}, {"flush", "flush"}}, false},
	{"restart;step,step|flush,flush", 2, [][]string{{"step", "step"}, {"flush", "flush"}}, true},
	{"restart;step|flush|flush", 1, [][]string{{"step"}, {"flush"}, {"flush"}}, true},
}

// all race entries go to the same, already durable series m1{host=a}: value 3^k
func raceMsg(k int) []byte {
	rows, err := vbox.Block([]vbox.Point{{Metric: "m1", Tags: map[string]string{"host": "a"}, Field: "f", Type: "sum", Value: math.Pow(3, float64(k)), Timestamp: baseTime + 5000}})
	if err != nil {
		vevid.OpFailed("block: %v", err)
	}
	return compressBlock(rows)
}

type raceWorld struct {
	root     string
	n        *node
	appended int
	errs     []string
}

var rw *raceWorld

var raceSeen = map[string]bool{}

func raceSetup(sc raceScenario) {
	runNo++
	root := filepath.Join(scratch, fmt.Sprintf("r%d", runNo))
	_ = os.RemoveAll(root)
	n, err := openNode(root)
	if err != nil {
		vevid.OpFailed("open node: %v", err)
	}
	rw = &raceWorld{root: root, n: n}
	// entry 0 creates every name, is replicated and flushed by a complete flush cycle
	if err := n.part.WriteLog(raceMsg(0)); err != nil {
		vevid.OpFailed("append: %v", err)
	}
	rw.appended = 1
	replica.VerifReplicaOnce(n.part)
	if err := n.box.Flush(models.ShardID(1), queryRange); err != nil {
		vevid.OpFailed("flush: %v", err)
	}
	if sc.Restart {
		n.close()
		if n, err = openNode(root); err != nil {
			vevid.OpFailed("restart before the race: %v", err)
		}
		rw.n = n
	}
	for i := 0; i < sc.Pending; i++ {
		if err := n.part.WriteLog(raceMsg(rw.appended)); err != nil {
			vevid.OpFailed("append: %v", err)
		}
		rw.appended++
	}
}

func raceBody(sc raceScenario) func() {
	return func() {
		raceSetup(sc)
		for ti, ops := range sc.Threads {
			ops := ops
			vsched.Spawn(fmt.Sprintf("T%d", ti+1), func() {
				for _, op := range ops {
					switch op {
					case "step":
						if rw.n.cgConsumed() < rw.n.appended() {
							replica.VerifReplicaOnce(rw.n.part)
						}
					case "flush":
						shard, _ := rw.n.box.DB.GetShard(models.ShardID(1))
						f, err := shard.GetOrCrateDataFamily(familyTime)
						if err == nil {
							err = f.Flush()
						}
						if err != nil {
							rw.errs = append(rw.errs, err.Error())
						}
					}
				}
			})
		}
	}
}

type raceReplay struct {
	Scenario raceScenario `json:"scenario"`
	Choices  []int        `json:"choices"`
}

func raceFinish(rep *vevid.Report, sc raceScenario, x *vsched.Result) {
	scen := "race=" + sc.Name
	viol := func(clause, site, detail string) {
		rep.Violate(vevid.Violation{Clause: clause, Scenario: scen, Site: site, Detail: detail, Replay: raceReplay{Scenario: sc, Choices: x.Choices()}})
	}
	w := rw
	closed := false
	defer func() {
		if r := recover(); r != nil {
			viol("panic", "node", fmt.Sprintf("%v\n%s", r, stack()))
		}
		if !closed && !x.Deadlock && !x.Horizon {
			w.n.close()
		}
		_ = os.RemoveAll(w.root)
	}()
	if x.Deadlock {
		viol("deadlock", "tsdb.dataFamily", x.WaitGraph)
		return
	}
	if x.Horizon {
		viol("livelock", "tsdb.dataFamily", x.WaitGraph)
		return
	}
	for _, p := range x.Panics {
		viol("panic", "tsdb.dataFamily", p)
	}
	for _, e := range w.errs {
		viol("flush-failed", "tsdb.dataFamily.Flush", e)
	}
	// the crash: the directory as it is now (memory databases are lost)
	img := vcrashfs.Snap(w.root, skipFile)
	liveAck, liveStored := w.n.cgAck(), w.n.storedSeq()
	w.n.close()
	closed = true
	rep.Outcome(fmt.Sprintf("ack=%d stored=%d", liveAck, liveStored))
	// the verdict of a crash image depends on the image (and on how many entries were appended) only: recover
	// each distinct image once per scenario (the oracle is a function of the recovered node)
	ikey := fmt.Sprintf("%s|%s|%d", sc.Name, img.Hash(), w.appended)
	if raceSeen[ikey] {
		rep.Count("race_images_seen_before", 1)
		return
	}
	raceSeen[ikey] = true
	rep.Count("race_images_recovered", 1)
	croot := filepath.Join(scratch, "crash")
	_ = os.RemoveAll(croot)
	defer os.RemoveAll(croot)
	if err := img.Materialize(croot); err != nil {
		vevid.Fatal("materialize: %v", err)
	}
	n, err := openNode(croot)
	if err != nil {
		viol("restart-failed", "node", err.Error())
		return
	}
	defer n.close()
	ack, stored := n.cgAck(), n.storedSeq()
	if ack > stored {
		viol("ack-ahead-of-stored-sequence", "tsdb.dataFamily.Flush", fmt.Sprintf("after the crash the WAL is acknowledged up to %d, the flushed data carries sequence %d", ack, stored))
	}
	if err := n.replayAll(); err != nil {
		viol("replay-stuck", "replica.Partition", err.Error())
		return
	}
	digits := n.digits("m1", "a", w.appended)
	for k, d := range digits {
		if d < 1 {
			viol("entry-lost", "tsdb.dataFamily.Flush / replica.localReplicator.Replica", fmt.Sprintf("entry %d was appended before the crash but is missing after recovery and replay (stored sequence %d, ack %d; before the crash: stored %d, ack %d)", k, stored, ack, liveStored, liveAck))
		} else if d > 1 {
			viol("entry-applied-twice", "tsdb.dataFamily.Flush / replica.localReplicator.Replica", fmt.Sprintf("entry %d is contained %d times after recovery and replay (stored sequence %d, ack %d; before the crash: stored %d, ack %d)", k, d, stored, ack, liveStored, liveAck))
		}
	}
}

// digits returns the base-3 digits of the sum of series metric{host}: digit k = how often entry k was applied
func (n *node) digits(metric, host string, entries int) []int {
	r := n.box.Query("select f from "+metric+" group by host", queryRange, vbox.Layout{Leaves: []vbox.Leaf{{Node: "10.0.0.1:2891", Shards: []models.ShardID{1}}}, CompleteAt: 1})
	out := make([]int, entries)
	if r.Err != nil || r.Result == nil {
		return out
	}
	var sum float64
	for _, s := range r.Result.Series {
		if s.Tags["host"] != host {
			continue
		}
		for _, pts := range s.Fields {
			for _, v := range pts {
				sum += v
			}
		}
	}
	iv := int64(math.Round(sum))
	for k := 0; k < entries; k++ {
		out[k] = int(iv % 3)
		iv /= 3
	}
	if iv != 0 && entries > 0 {
		out[entries-1] += 3 // overflow: something was applied three times or more
	}
	return out
}

func runRacePart(rep *vevid.Report, f *vevid.Flags) {
	vsched.Strict = true
	bound := 2
	if f.Thorough() {
		bound = 3
	}
	rep.Bounds["preemption_bound"] = bound
	rep.Rule = fmt.Sprintf("%d scenarios: local replicator steps (1-2 pending entries of an already durable series) racing with 1-2 DataFamily.Flush calls on a real node; every schedule with <=%d preemptions at the lock/atomic operations of tsdb/data_family.go; after each schedule the node directory is taken as crash image, recovered, replayed, queried: every entry exactly once, WAL ack <= stored sequence. distinct = (scenario, schedule)", len(raceScenarios), bound)
	if f.Replay != "" {
		var r raceReplay
		vevid.LoadReplay(f.Replay, &r)
		for i := 0; i < 3; i++ {
			raceSeen = map[string]bool{}
			x := vsched.Run(r.Choices, 2000000, raceBody(r.Scenario))
			raceFinish(rep, r.Scenario, x)
		}
		rep.Evaluations = 3
		rep.Write()
		return
	}
	scs := raceScenarios
	for _, sc := range scs {
		sc := sc
		e := &vsched.Explorer{Bound: bound, Horizon: 2000000, Body: raceBody(sc), Shard: f.Shard, Shards: f.Shards, Deadline: f.Deadline}
		e.Check = func(x *vsched.Result) {
			raceFinish(rep, sc, x)
			if len(x.Points) > 0 {
				rep.DistinctNontrivial++
			}
		}
		e.Discard = func(x *vsched.Result) {
			if !x.Deadlock && !x.Horizon {
				rw.n.close()
			}
			_ = os.RemoveAll(rw.root)
		}
		e.Explore()
		if e.Diverged != "" {
			vevid.Fatal("replay divergence in %s: %s", sc.Name, e.Diverged)
		}
		if e.Capped {
			rep.Cap(e.CapReason + " cap reached in scenario " + sc.Name)
		}
		rep.Evaluations += e.Executions
		rep.States += e.Executions
		rep.Transitions += e.Points
		rep.TracesValidated += e.Executions
		rep.Count("schedules["+sc.Name+"]", e.Executions)
		if f.Shard == 0 {
			rep.Sample(map[string]interface{}{"scenario": sc, "schedules_this_worker": e.Executions, "max_points": e.MaxPoints})
		}
	}
	rep.Write()
}
