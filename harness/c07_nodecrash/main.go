// C07 harness: one real storage node in a box - real WAL (fan-out queue, scaled page geometry), real
// partition with its local replicator (step driven), real tsdb engine (meta db, index db, data family).
// Histories of WAL appends, local replication steps, the production flush procedure split into its three
// steps (metadata -> index -> data) with appends/replication allowed in between, WAL sync+GC and
// restarts; a crash image of the whole node directory after EVERY seam call of every involved store
// (kv manifest/table writers, CURRENT/OPTIONS renames, removals, queue/consumer-group page stores,
// sequence-file sync). Every distinct image is recovered by a real node, replayed to quiescence and
// queried by name and tags.
package main

import (
	"context"
	"fmt"
	"hash/fnv"
	"math"
	"os"
	"path/filepath"
	"runtime"
	"sort"
	"strings"
	"time"

	"github.com/lindb/common/pkg/ltoml"

	"github.com/lindb/lindb/config"
	"github.com/lindb/lindb/index"
	"github.com/lindb/lindb/internal/vbox"
	"github.com/lindb/lindb/internal/vcrashfs"
	"github.com/lindb/lindb/internal/vevid"
	vos "github.com/lindb/lindb/internal/vos"
	"github.com/lindb/lindb/kv"
	"github.com/lindb/lindb/kv/table"
	"github.com/lindb/lindb/kv/version"
	"github.com/lindb/lindb/models"
	"github.com/lindb/lindb/pkg/bufioutil"
	"github.com/lindb/lindb/pkg/compress"
	"github.com/lindb/lindb/pkg/option"
	"github.com/lindb/lindb/pkg/queue"
	"github.com/lindb/lindb/pkg/queue/page"
	"github.com/lindb/lindb/pkg/timeutil"
	"github.com/lindb/lindb/replica"
	"github.com/lindb/lindb/verif_h/qpages"
)

// ---------------------------------------------------------------------------------------------------
// operations

const (
	opAppend     = iota // append the next entry to the WAL (partition.WriteLog)
	opReplicate         // one step of the local replicator (consume one entry, write rows, commit sequence)
	opFlushMeta         // production flush procedure, step 1
	opFlushIndex        // step 2
	opFlushData         // step 3 (stores the replica sequence with the data, then acknowledges the WAL)
	opWalGC             // partition.IsExpire: sync consumer-group acks to the queue, GC pages
	opReopen            // clean restart
	nOps
)

var opName = []string{"append", "replicate", "flushMeta", "flushIndex", "flushData", "walGC", "reopen"}

// entry k -> (metric, host); value 3^k in field f (sum): the digits of a series' sum in base 3 tell how
// often each entry was applied
var entryTarget = [][2]string{{"m1", "a"}, {"m1", "b"}, {"m2", "a"}, {"m1", "a"}, {"m2", "b"}, {"m3", "a"}}

const maxEntries = 6

type model struct {
	Appended   int // entries whose append returned
	Replicated int // entries handed to the engine by the local replicator
	FlushStage int // 0 idle, 1 metadata flushed, 2 index flushed
}

func (m model) enabled(op int) bool {
	switch op {
	case opAppend:
		return m.Appended < maxEntries
	case opReplicate:
		return m.Replicated < m.Appended
	case opFlushMeta:
		return m.FlushStage == 0 && m.Appended > 0
	case opFlushIndex:
		return m.FlushStage == 1
	case opFlushData:
		return m.FlushStage == 2
	case opWalGC:
		return m.Appended > 0
	case opReopen:
		return true
	}
	return false
}

func (m model) apply(op int) model {
	switch op {
	case opAppend:
		m.Appended++
	case opReplicate:
		m.Replicated++
	case opFlushMeta:
		m.FlushStage = 1
	case opFlushIndex:
		m.FlushStage = 2
	case opFlushData:
		m.FlushStage = 0
	case opReopen:
		m.FlushStage = 0
		// after a restart the replicator starts again from ack+1: the harness' "replicated" counter is reset
		// by the node itself (see reopen), the model only needs it for preconditions
	}
	return m
}

type history struct {
	Ops     []int `json:"ops"`
	Corrupt []int `json:"corrupt,omitempty"` // entries (by index) whose log message cannot be decompressed: the replicator skips them
	// Late: the database accepts writes up to 3 days behind (option Behind), so the history's family (yesterday) is
	// still writable and the log garbage collector must keep its log. Without it (default window, 1h) the family is
	// past its writable window: the collector removes the log once everything is acknowledged, and no write arrives
	// for the family after that (the history ends at the first append after a removal).
	Late bool `json:"late_writes,omitempty"`
	// FailData: the n-th flushData of the history (0-based) fails when it creates its table file (a full disk): the
	// flush reports the error, the memory database it froze stays pending, the node goes on
	FailData []int `json:"fail_data,omitempty"`
}

func (h history) String() string {
	var s []string
	for _, o := range h.Ops {
		s = append(s, opName[o])
	}
	out := strings.Join(s, ";")
	if len(h.Corrupt) > 0 {
		out += fmt.Sprintf(" corrupt-entries=%v", h.Corrupt)
	}
	if len(h.FailData) > 0 {
		out += fmt.Sprintf(" failing-data-flushes=%v", h.FailData)
	}
	if h.Late {
		out += " [writable 3d behind]"
	}
	return out
}

// corrupt: the entries of the running history that are garbage on the log (they hold no row and must never show up)
var corrupt = map[int]bool{}

// ---------------------------------------------------------------------------------------------------
// the node

var walPageSize int

var (
	baseTime                int64
	familyTime              int64
	queryRange              timeutil.TimeRange
	dbOpt                   *option.DatabaseOption // the option of the running history: dbOptDefault or dbOptLate
	dbOptDefault, dbOptLate *option.DatabaseOption
	scratch                 string
	rec                     *vcrashfs.Recorder // nil = not recording
	pageRec                 *qpages.Recorder
	realPageFn              func(path string, pageSize int) (page.Factory, error)
)

type node struct {
	metrics []string // metric names to query (those some appended entry may have created)
	root    string
	box     *vbox.Box
	ctx     context.Context
	cancel  context.CancelFunc
	wal     replica.WriteAheadLogManager
	part    replica.Partition
	// recreated counts the partitions the write path created again after the log garbage collector removed one
	recreated int
}

var tOpen, tClose, tQuery, tReplay time.Duration
var nOpen int

func openNode(root string) (*node, error) {
	t0 := time.Now()
	defer func() { tOpen += time.Since(t0); nOpen++ }()
	n := &node{root: root, metrics: []string{"m1", "m2", "m3"}}
	b, err := vbox.Open(filepath.Join(root, "tsdb"), "db", dbOpt, []models.ShardID{1})
	if err != nil {
		return nil, fmt.Errorf("engine: %w", err)
	}
	n.box = b
	n.ctx, n.cancel = context.WithCancel(context.Background())
	n.wal = replica.NewWriteAheadLogManager(n.ctx, config.WAL{Dir: filepath.Join(root, "wal"), PageSize: ltoml.Size(walPageSize), RemoveTaskInterval: ltoml.Duration(100000 * time.Hour)},
		models.NodeID(1), b.Engine, nil, nil)
	if fileExists(filepath.Join(root, "wal")) {
		if err := n.wal.Recovery(); err != nil {
			n.close()
			return nil, fmt.Errorf("wal recovery: %w", err)
		}
	}
	if err := n.acquirePartition(); err != nil {
		n.close()
		return nil, err
	}
	return n, nil
}

// acquirePartition does what the write path does before every append: get or create the family's partition and
// build the local replicator (a partition the log garbage collector removed is created again by the next write).
func (n *node) acquirePartition() error {
	log := n.wal.GetOrCreateLog("db")
	p, err := log.GetOrCreatePartition(models.ShardID(1), familyTime, models.NodeID(1))
	if err != nil {
		return fmt.Errorf("partition: %w", err)
	}
	if err := p.BuildReplicaForLeader(models.NodeID(1), []models.NodeID{1}); err != nil {
		return fmt.Errorf("build replica: %w", err)
	}
	if n.part != nil && p != n.part {
		n.recreated++
	}
	n.part = p
	return nil
}

func fileExists(p string) bool { _, err := os.Stat(p); return err == nil }

func (n *node) close() {
	t0 := time.Now()
	defer func() { tClose += time.Since(t0) }()
	// engine first: closing a data family flushes its memory database and acknowledges the WAL, which
	// must still be mapped at that moment
	if n.box != nil {
		n.box.Close()
	}
	if n.wal != nil {
		_ = n.wal.Close()
	}
	if n.cancel != nil {
		n.cancel()
	}
}

func entryMsg(k int) []byte {
	if corrupt[k] {
		return []byte{0xff, 0xfe, 0xfd, byte(k), 0x00, 0x01, 0x02, 0x03} // not a snappy stream
	}
	t := entryTarget[k]
	rows, err := vbox.Block([]vbox.Point{{Metric: t[0], Tags: map[string]string{"host": t[1]}, Field: "f", Type: "sum", Value: math.Pow(3, float64(k)), Timestamp: baseTime + 5000}})
	if err != nil {
		vevid.OpFailed("block: %v", err)
	}
	return compressBlock(rows)
}

// compressBlock builds a WAL message the way replica.chunk does: snappy writer, Close, Bytes
func compressBlock(block []byte) []byte {
	w := compress.NewSnappyWriter()
	if _, err := w.Write(block); err != nil {
		vevid.Fatal("snappy: %v", err)
	}
	if err := w.Close(); err != nil {
		vevid.Fatal("snappy close: %v", err)
	}
	return w.Bytes()
}

func (n *node) cgAck() int64 {
	cg, err := replica.VerifPartitionLog(n.part).GetOrCreateConsumerGroup("1")
	if err != nil {
		return -99
	}
	return cg.AcknowledgedSeq()
}

func (n *node) cgConsumed() int64 {
	cg, err := replica.VerifPartitionLog(n.part).GetOrCreateConsumerGroup("1")
	if err != nil {
		return -99
	}
	return cg.ConsumedSeq()
}

func (n *node) appended() int64 { return replica.VerifPartitionLog(n.part).Queue().AppendedSeq() }

// storedSeq returns the replica sequence stored durably with the flushed data (-1 if none)
func (n *node) storedSeq() int64 {
	shard, _ := n.box.DB.GetShard(models.ShardID(1))
	f, err := shard.GetOrCrateDataFamily(familyTime)
	if err != nil {
		return -99
	}
	snap := f.Family().GetSnapshot()
	defer snap.Close()
	if s, ok := snap.GetCurrent().GetSequences()[1]; ok {
		return s
	}
	return -1
}

// replayAll steps the local replicator until everything appended was consumed
func (n *node) replayAll() error {
	for i := 0; i < 64; i++ {
		if n.cgConsumed() >= n.appended() {
			return nil
		}
		replica.VerifReplicaOnce(n.part)
	}
	return fmt.Errorf("local replication did not reach the appended sequence %d (consumed %d)", n.appended(), n.cgConsumed())
}

// counts returns, per entry, how often it is contained in what a query by name and tags returns
func (n *node) counts() ([]int, []string) {
	t0 := time.Now()
	defer func() { tQuery += time.Since(t0) }()
	var problems []string
	sums := map[[2]string]float64{}
	for _, m := range n.metrics {
		r := n.box.Query("select f from "+m+" group by host", queryRange, vbox.Layout{Leaves: []vbox.Leaf{{Node: "10.0.0.1:2891", Shards: []models.ShardID{1}}}, CompleteAt: 1})
		if os.Getenv("C07_DEBUG") != "" {
			fmt.Fprintf(os.Stderr, "QUERY %s err=%v leafErrs=%v result=%v\n", m, r.Err, r.LeafErrs, vbox.Canon(r.Result))
		}
		if r.Err != nil {
			if strings.Contains(r.Err.Error(), "not found") {
				continue
			}
			problems = append(problems, fmt.Sprintf("query %s: %v", m, r.Err))
			continue
		}
		if r.Result == nil {
			continue
		}
		for _, s := range r.Result.Series {
			for _, pts := range s.Fields {
				for _, v := range pts {
					sums[[2]string{m, s.Tags["host"]}] += v
				}
			}
		}
	}
	out := make([]int, maxEntries+1)
	for key, v := range sums {
		if key[0] == "mz" {
			out[maxEntries] = int(math.Round(v / 1e6))
			continue
		}
		iv := int64(math.Round(v))
		for k := 0; k < maxEntries; k++ {
			d := int(iv % 3)
			iv /= 3
			if d == 0 {
				continue
			}
			if entryTarget[k] != key {
				problems = append(problems, fmt.Sprintf("series %s{host=%s} contains the value of entry %d which was written for %s{host=%s} (sum %v)", key[0], key[1], k, entryTarget[k][0], entryTarget[k][1], v))
				continue
			}
			out[k] += d
		}
		if iv != 0 {
			problems = append(problems, fmt.Sprintf("series %s{host=%s} has sum %v: an entry was applied 3 or more times", key[0], key[1], v))
		}
	}
	return out, problems
}

// ---------------------------------------------------------------------------------------------------
// seams

type note struct {
	Acked    model
	InFlight int // op in flight (-1 none)
	LogBase  int // entries appended to logs the garbage collector has removed since (entry k has sequence k-LogBase)
}

// logBase: see note.LogBase (of the running history)
var logBase int

var cur note

type wWriter struct {
	bufioutil.BufioWriter
	name string
}

func (w *wWriter) Write(p []byte) (int, error) {
	n, err := w.BufioWriter.Write(p)
	rec.At("write " + w.name)
	return n, err
}
func (w *wWriter) Sync() error  { err := w.BufioWriter.Sync(); rec.At("sync " + w.name); return err }
func (w *wWriter) Flush() error { err := w.BufioWriter.Flush(); rec.At("flush " + w.name); return err }
func (w *wWriter) Close() error { err := w.BufioWriter.Close(); rec.At("close " + w.name); return err }

func short(p string) string {
	if rec != nil {
		if r, err := filepath.Rel(rec.Root, p); err == nil {
			return r
		}
	}
	return filepath.Base(p)
}

func installSeams() {
	// every os-level mutation of the rewritten packages is a crash point as well (also calls a later change adds)
	vos.Hook = func(op, path string) { rec.At("os." + op + " " + short(path)) }
	ks := kv.VerifGetSeams()
	kv.VerifSetSeams(kv.VerifSeams{
		RemoveDir: func(p string) error { err := ks.RemoveDir(p); rec.At("removeDir " + short(p)); return err },
		Remove:    func(p string) error { err := ks.Remove(p); rec.At("remove " + short(p)); return err },
		MkDir:     func(p string) error { err := ks.MkDir(p); rec.At("mkdir " + short(p)); return err },
		EncodeToml: func(f string, v interface{}) error {
			err := ks.EncodeToml(f, v)
			rec.At("encodeToml " + short(f))
			return err
		},
	})
	vs := version.VerifGetSeams()
	version.VerifSetSeams(version.VerifSeams{
		WriteFile: func(name string, data []byte, perm os.FileMode) error {
			err := vs.WriteFile(name, data, perm)
			rec.At("writeFile " + short(name))
			return err
		},
		Rename: func(o, n string) error { err := vs.Rename(o, n); rec.At("rename ->" + short(n)); return err },
		NewBufferWriter: func(f string) (bufioutil.BufioWriter, error) {
			w, err := vs.NewBufferWriter(f)
			rec.At("create " + short(f))
			if err != nil {
				return nil, err
			}
			return &wWriter{BufioWriter: w, name: short(f)}, nil
		},
	})
	ts := table.VerifGetSeams()
	table.VerifSetSeams(table.VerifSeams{
		NewBufioWriter: func(f string) (bufioutil.BufioWriter, error) {
			if failNextTable && strings.Contains(f, "/segment/") {
				failNextTable = false
				failedTable = true
				return nil, fmt.Errorf("injected: cannot create table file %s", short(f))
			}
			w, err := ts.NewBufioWriter(f)
			rec.At("create " + short(f))
			if err != nil {
				return nil, err
			}
			return &wWriter{BufioWriter: w, name: short(f)}, nil
		},
	})
	realSync := index.VerifSetSequenceSync(nil)
	index.VerifSetSequenceSync(func(buf []byte) error { err := realSync(buf); rec.At("sequence sync"); return err })
	realPageFn = queue.VerifSetPageFactory(nil)
	queue.VerifSetPageFactory(func(path string, pageSize int) (page.Factory, error) {
		if pageRec == nil {
			return realPageFn(path, pageSize)
		}
		return pageRec.Wrap(realPageFn)(path, pageSize)
	})
}

func skipFile(rel string) bool {
	return strings.HasSuffix(rel, "LOCK") || strings.Contains(rel, "buffer")
}

// ---------------------------------------------------------------------------------------------------

var seenImages = map[string]bool{}
var runNo int

func stack() string {
	buf := make([]byte, 2500)
	return string(buf[:runtime.Stack(buf, false)])
}

// classify tells whether the history creates a metric / tag value name while a flush cycle is in progress
// (after flushMeta started the cycle, before flushData ended it): the known design-level finding H14.
func classify(h history) string {
	durM, durH := map[string]bool{}, map[string]bool{} // names covered by a completed metadata flush
	memM, memH := map[string]bool{}, map[string]bool{} // names created so far
	stage, appended, replicated := 0, 0, 0
	class := "plain"
	for _, op := range h.Ops {
		switch op {
		case opAppend:
			appended++
		case opReplicate:
			if replicated < appended && replicated < maxEntries {
				t := entryTarget[replicated]
				if stage != 0 && (!durM[t[0]] || !durH[t[1]]) {
					class = "name-created-during-flush-cycle"
				}
				memM[t[0]], memH[t[1]] = true, true
				replicated++
			}
		case opFlushMeta:
			stage = 1
			for k := range memM {
				durM[k] = true
			}
			for k := range memH {
				durH[k] = true
			}
		case opFlushIndex:
			stage = 2
		case opFlushData:
			stage = 0
		case opReopen:
			stage = 0
		}
	}
	return class
}

func runHistory(rep *vevid.Report, h history) {
	if runHistoryOnce(rep, h) && !h.Late {
		// the collector removed the log of the (expired) family: the same history on a database whose writable
		// window still covers the family, where the log must stay and later appends must not be lost
		h.Late = true
		runHistoryOnce(rep, h)
	}
}

// runHistoryOnce reports whether the log garbage collector removed the family's log during the history.
func runHistoryOnce(rep *vevid.Report, h history) (logRemoved bool) {
	dbOpt = dbOptDefault
	if h.Late {
		dbOpt = dbOptLate
	}
	corrupt = map[int]bool{}
	for _, k := range h.Corrupt {
		corrupt[k] = true
	}
	scen := "class=" + classify(h) + " history=" + h.String()
	viol := func(clause, site, detail string) {
		rep.Violate(vevid.Violation{Clause: clause, Scenario: scen, Site: site, Detail: detail, Replay: h})
	}
	runNo++
	root := filepath.Join(scratch, fmt.Sprintf("n%d", runNo))
	_ = os.RemoveAll(root)
	defer os.RemoveAll(root)
	rec = vcrashfs.NewRecorder(root)
	rec.Skip = skipFile
	rec.Note = func() interface{} { return cur }
	pageRec = qpages.NewRecorder(root)
	pageRec.After = func(op, rel string) { rec.At("page " + op + " " + rel) }
	defer func() { rec = nil; pageRec = nil }()
	acked := model{}
	nDataFlush := 0
	logBase = 0
	cur = note{Acked: acked, InFlight: -1, LogBase: logBase}
	rec.Pause()
	n, err := openNode(root)
	if err != nil {
		vevid.OpFailed("open node: %v", err)
	}
	defer func() {
		if r := recover(); r != nil {
			viol("panic", "node", fmt.Sprintf("%v\n%s", r, stack()))
		}
		r := rec
		rec = nil
		if n != nil {
			n.close()
		}
		rec = r
	}()
	rec.Resume()
	rec.At("node created")
	for _, op := range h.Ops {
		cur = note{Acked: acked, InFlight: op, LogBase: logBase}
		var opErr error
		if op == opAppend && logRemoved && !h.Late {
			break // no write arrives for a family whose writable window has passed
		}
		switch op {
		case opAppend:
			opErr = n.part.WriteLog(entryMsg(acked.Appended))
		case opReplicate:
			// Consume blocks while nothing is available: a step is only taken when an entry is pending
			if n.cgConsumed() < n.appended() {
				replica.VerifReplicaOnce(n.part)
			}
		case opFlushMeta:
			opErr = n.box.DB.FlushMeta()
		case opFlushIndex:
			shard, _ := n.box.DB.GetShard(models.ShardID(1))
			opErr = shard.FlushIndex()
		case opFlushData:
			shard, _ := n.box.DB.GetShard(models.ShardID(1))
			f, err := shard.GetOrCrateDataFamily(familyTime)
			failing := false
			for _, k := range h.FailData {
				if k == nDataFlush {
					failing = true
				}
			}
			nDataFlush++
			if err == nil {
				failNextTable, failedTable = failing, false
				err = f.Flush()
				failNextTable = false
				if failing && failedTable {
					rep.Count("data_flushes_failed_by_injection", 1)
					err = nil // the failure is the scenario, not a finding
				}
			}
			opErr = err
		case opWalGC:
			// one round of the log garbage-collect task: partition.IsExpire (sync consumer-group acks to the queue, GC
			// pages, expiry decision - the family of the history is older than the writable window) and the removal
			// of a partition that reports expired; then what the next write does first
			replica.VerifGarbageCollect(n.wal)
			before := n.recreated
			opErr = n.acquirePartition()
			if n.recreated > before {
				rep.Count("log_partitions_removed_by_gc", 1)
				logBase = acked.Appended
				logRemoved = true
				if h.Late {
					viol("log-removed-while-writable", "replica.partition.IsExpire", fmt.Sprintf("the database accepts writes 3 days behind, the family (%s) is inside that window, but the log garbage collector removed its write-ahead log: the next write starts a new log at sequence 0 while the family already stores sequence %d, and is dropped as a stale sequence", time.UnixMilli(familyTime).UTC().Format("2006-01-02 15:04"), n.storedSeq()))
				}
			}
		case opReopen:
			n.close()
			n, opErr = openNode(root)
		}
		if opErr != nil {
			viol("operation-failed", opName[op], opErr.Error())
			return
		}
		acked = acked.apply(op)
		cur = note{Acked: acked, InFlight: -1, LogBase: logBase}
		rec.At("ack " + opName[op])
	}
	// live check at the end of the history: replay everything, query
	rec.Pause()
	if os.Getenv("C07_DEBUG") != "" {
		fmt.Fprintf(os.Stderr, "LIVE before replay: consumed=%d appended=%d ack=%d stored=%d\n", n.cgConsumed(), n.appended(), n.cgAck(), n.storedSeq())
	}
	if err := n.replayAll(); err != nil {
		viol("live-replay", "replica.Partition", err.Error())
	}
	if os.Getenv("C07_DEBUG") != "" {
		fmt.Fprintf(os.Stderr, "LIVE after replay: consumed=%d appended=%d ack=%d stored=%d\n", n.cgConsumed(), n.appended(), n.cgAck(), n.storedSeq())
	}
	got, probs := n.counts()
	for _, p := range probs {
		viol("live-query", "query", p)
	}
	for k := 0; k < maxEntries; k++ {
		want := 0
		if k < acked.Appended && !corrupt[k] {
			want = 1
		}
		if got[k] != want {
			viol("live-exactly-once", "node", fmt.Sprintf("running node: entry %d is contained %d times in the query answer, expected %d", k, got[k], want))
		}
	}
	rep.Outcome(fmt.Sprintf("live appended=%d ack=%d stored=%d", acked.Appended, n.cgAck(), n.storedSeq()))
	points := rec.Points
	calls := rec.Calls
	rec = nil
	pageRec = nil
	n.close()
	n = nil
	rep.Count("seam_calls", int64(calls))
	rep.Count("histories", 1)
	if os.Getenv("C07_DEBUG") != "" && len(points) > 0 {
		last := points[len(points)-1].Image
		var tot int
		for _, b := range last.Files {
			tot += len(b)
		}
		fmt.Fprintf(os.Stderr, "IMAGE files=%d bytes=%d: %s\n", len(last.Files), tot, last.Describe())
	}

	for _, p := range points {
		nt := p.Note.(note)
		key := fmt.Sprintf("%s|%d|%d", p.Image.Hash(), nt.Acked.Appended, nt.InFlight)
		if !mineKey(key) {
			continue // another worker recovers this image (every worker runs every history; images are dealt by hash)
		}
		rep.Count("crash_points_total", 1)
		if seenImages[key] {
			continue
		}
		seenImages[key] = true
		if vevid.F.Expired() {
			rep.Cap("deadline while recovering the images of history " + h.String())
			break
		}
		rep.Evaluations++
		if nt.InFlight >= 0 {
			rep.DistinctNontrivial++
		}
		recoverImage(rep, h, p, nt)
	}
	if len(rep.Samples) < 6 {
		rep.Sample(map[string]interface{}{"history": h.String(), "seam_calls": calls, "crash_points": len(points)})
	}
	return logRemoved
}

func mineKey(key string) bool {
	if vevid.F.Shards <= 1 {
		return true
	}
	h := fnv.New32a()
	_, _ = h.Write([]byte(key))
	return int(h.Sum32()%uint32(vevid.F.Shards)) == vevid.F.Shard
}

func recoverImage(rep *vevid.Report, h history, p *vcrashfs.Point, nt note) {
	scen := "class=" + classify(h) + " history=" + h.String()
	inflight := "none"
	if nt.InFlight >= 0 {
		inflight = opName[nt.InFlight]
	}
	where := fmt.Sprintf("crash after seam call #%d [%s] (entries appended %d, in flight: %s): ", p.Seq, p.Label, nt.Acked.Appended, inflight)
	viol := func(clause, site, detail string) {
		rep.Violate(vevid.Violation{Clause: clause, Scenario: scen, Site: site, Detail: where + detail, Replay: h})
	}
	root := filepath.Join(scratch, "crash")
	_ = os.RemoveAll(root)
	defer os.RemoveAll(root)
	if err := p.Image.Materialize(root); err != nil {
		vevid.Fatal("materialize: %v", err)
	}
	var n *node
	defer func() {
		if r := recover(); r != nil {
			viol("crash-panic", "node", fmt.Sprintf("%v\n%s", r, stack()))
		}
		if n != nil {
			n.close()
		}
	}()
	var err error
	n, err = openNode(root)
	if err != nil {
		viol("restart-failed", "node", err.Error())
		n = nil
		return
	}
	// 1. the log's acknowledged position never runs ahead of the sequence stored with the flushed data
	ack, stored, app := n.cgAck(), n.storedSeq(), n.appended()
	// (a log entry that cannot be decompressed holds no write: the replicator acknowledges it when it is the next one
	// after the acknowledged position - such entries directly above the stored sequence do not count)
	allowed := stored
	for nt.LogBase == 0 && corrupt[int(allowed+1)] {
		allowed++
	}
	if ack > allowed {
		viol("ack-ahead-of-stored-sequence", "replica.localReplicator / tsdb.dataFamily.Flush",
			fmt.Sprintf("after restart the WAL consumer group is acknowledged up to %d but the flushed data carries sequence %d", ack, stored))
	}
	// 1b. the recovered family rejects every sequence at or below the stored one (it must never be applied again,
	// whatever makes the log hand it out a second time)
	if stored >= 0 {
		shard, _ := n.box.DB.GetShard(models.ShardID(1))
		if fam, err := shard.GetOrCrateDataFamily(familyTime); err == nil {
			for s := stored; s >= 0 && s >= stored-1; s-- {
				if fam.ValidateSequence(1, s) {
					viol("stale-sequence-accepted", "tsdb.dataFamily.ValidateSequence",
						fmt.Sprintf("after restart the flushed data carries sequence %d, the family accepts sequence %d again", stored, s))
					fam.CommitSequence(1, s) // releases the sequence lock the accepted validation holds
				}
			}
		}
	}
	// 2. every entry appended before the crash is still there
	// (entries of a log the garbage collector removed are not in the log any more: they must be in the flushed data,
	// which the query below decides; while the collector is at work either log may be found)
	minApp := int64(nt.Acked.Appended-nt.LogBase) - 1
	if app < minApp && nt.InFlight != opWalGC {
		viol("wal-entry-lost", "pkg/queue", fmt.Sprintf("%d appends had returned, recovered appended sequence is %d", nt.Acked.Appended, app))
	}
	// 3. replay to quiescence, then a query by name and tags returns every entry exactly once
	if err := n.replayAll(); err != nil {
		viol("replay-stuck", "replica.Partition", err.Error())
		return
	}
	got, probs := n.counts()
	for _, pr := range probs {
		viol("recovered-query", "query", pr)
	}
	for k := 0; k < maxEntries; k++ {
		lo, hi := 0, 0
		if k < nt.Acked.Appended {
			lo, hi = 1, 1
		} else if k == nt.Acked.Appended && nt.InFlight == opAppend {
			lo, hi = 0, 1
		}
		if corrupt[k] {
			lo, hi = 0, 0
		}
		if got[k] < lo {
			viol("entry-lost", "node", fmt.Sprintf("entry %d (%s{host=%s}) was appended before the crash but a query after recovery and replay does not contain it (ack %d, stored sequence %d, appended %d)", k, entryTarget[k][0], entryTarget[k][1], ack, stored, app))
		} else if got[k] > hi {
			viol("entry-applied-twice", "node", fmt.Sprintf("entry %d is contained %d times in the query answer after recovery and replay (ack %d, stored sequence %d)", k, got[k], ack, stored))
		}
	}
	rep.Outcome(fmt.Sprintf("rec ack=%d stored=%d app=%d got=%v", ack, stored, app, got))
	if !h.Late && stored > app {
		// the collector removed the log of the family (default writable window: the family is past it): no write
		// arrives for it any more
		rep.Outcome("rec log removed")
		return
	}
	// 4. a metric created after recovery must not collide with ids used by recovered files
	rows, _ := vbox.Block([]vbox.Point{{Metric: "mz", Tags: map[string]string{"host": "z"}, Field: "f", Type: "sum", Value: 1e6, Timestamp: baseTime + 5000}})
	n.metrics = append(n.metrics, "mz")
	if err := n.part.WriteLog(compressBlock(rows)); err != nil {
		viol("post-recovery-append-failed", "replica.Partition.WriteLog", err.Error())
		return
	}
	if err := n.replayAll(); err != nil {
		viol("replay-stuck", "replica.Partition", "after post-recovery append: "+err.Error())
		return
	}
	got2, probs2 := n.counts()
	for _, pr := range probs2 {
		viol("post-recovery-query", "query", pr)
	}
	if got2[maxEntries] != 1 {
		viol("post-recovery-metric", "index", fmt.Sprintf("a metric created after recovery is contained %d times in its query answer", got2[maxEntries]))
	}
	for k := 0; k < maxEntries; k++ {
		if got2[k] != got[k] {
			viol("post-recovery-metric", "index", fmt.Sprintf("creating a new metric after recovery changed entry %d from %d to %d occurrences", k, got[k], got2[k]))
		}
	}
	// 5. flush everything, restart cleanly, same answer
	shard, _ := n.box.DB.GetShard(models.ShardID(1))
	if err := n.box.Flush(models.ShardID(1), queryRange); err != nil {
		viol("post-recovery-flush-failed", "tsdb", err.Error())
		return
	}
	_ = shard
	n.close()
	n, err = openNode(root)
	if err != nil {
		viol("restart-failed", "node", "second restart: "+err.Error())
		n = nil
		return
	}
	n.metrics = append(n.metrics, "mz")
	if err := n.replayAll(); err != nil {
		viol("replay-stuck", "replica.Partition", "after second restart: "+err.Error())
		return
	}
	got3, probs3 := n.counts()
	for _, pr := range probs3 {
		viol("post-recovery-query", "query", "after second restart: "+pr)
	}
	for k := 0; k <= maxEntries; k++ {
		if got3[k] != got2[k] {
			viol("post-recovery-durable", "node", fmt.Sprintf("after flush and a clean restart entry %d is contained %d times, before the restart %d times", k, got3[k], got2[k]))
		}
	}
}

func histories(n int, f func(h history) bool) {
	var rec func(prefix []int, m model) bool
	rec = func(prefix []int, m model) bool {
		if len(prefix) == n {
			return f(history{Ops: append([]int(nil), prefix...)})
		}
		for op := 0; op < nOps; op++ {
			if !m.enabled(op) {
				continue
			}
			if op == opReopen && (len(prefix) == 0 || prefix[len(prefix)-1] == opReopen) {
				continue
			}
			if op == opWalGC && len(prefix) > 0 && prefix[len(prefix)-1] == opWalGC {
				continue
			}
			m2 := m.apply(op)
			if op == opReopen {
				m2.Replicated = 0 // precondition bookkeeping only: after a restart replication restarts from ack+1
			}
			if !rec(append(prefix, op), m2) {
				return false
			}
		}
		return true
	}
	rec(nil, model{})
}

const (
	A = opAppend
	R = opReplicate
	M = opFlushMeta
	I = opFlushIndex
	D = opFlushData
	G = opWalGC
	O = opReopen
)

// failNextTable: the next table file of a data family cannot be created; failedTable: that happened
var failNextTable, failedTable bool

var curated = []history{
	// a data flush that fails (table file cannot be created), more entries, then the next flush cycle
	{Ops: []int{A, A, R, R, M, I, D, A, R, M, I, D}, FailData: []int{0}},
	{Ops: []int{A, R, M, I, D, A, A, R, R, M, I, D, G}, FailData: []int{0}},
	{Ops: []int{A, R, M, I, D, A, R, M, I, D, A, R, M, I, D}, FailData: []int{1}},
	// a corrupt log entry (cannot be decompressed) behind a good, still unflushed one: skipping it must not
	// acknowledge what is not flushed yet
	{Ops: []int{A, A, R, R}, Corrupt: []int{1}},
	{Ops: []int{A, A, R, R, M, I, D}, Corrupt: []int{1}},
	{Ops: []int{A, R, M, I, D, A, A, R, R, G, O}, Corrupt: []int{2}},
	{Ops: []int{A, A, A, R, R, R, M, I, D}, Corrupt: []int{0, 2}},
	{Ops: []int{A, R, M, I, D}},
	{Ops: []int{A, A, R, R, M, I, D, G, O, A, R}},
	{Ops: []int{A, R, M, A, R, I, D}},          // a new series arrives between the metadata flush and the data flush
	{Ops: []int{A, A, A, R, M, R, R, I, D, G}}, // a new metric (entry 2) replicated after the metadata flush, flushed with the data
	{Ops: []int{A, R, M, I, A, A, R, R, D, G}}, // new series and new metric after metadata AND index flush
	{Ops: []int{A, R, M, I, D, A, R, M, I, D, G, O}},
	{Ops: []int{A, A, R, M, I, D, R, O, M, I, D}},
	{Ops: []int{A, R, O, A, R, M, I, D, G, A, R}},
	{Ops: []int{A, A, A, A, R, R, R, R, M, I, D, G, A, R, M, I, D, G}},
}

func main() {
	f := vevid.ParseFlags()
	rep := vevid.New("C07")
	scratch = f.Scratch
	dp, ii, _, _ := queue.VerifConstants()
	if dp > 4096 || ii > 16 {
		vevid.Fatal("page geometry not scaled: dataPageSize=%d indexItemsPerPage=%d", dp, ii)
	}
	walPageSize = dp
	rep.Bounds["dataPageSize"] = dp
	rep.Bounds["indexItemsPerPage"] = ii
	day := time.Now().UTC().Truncate(24*time.Hour).UnixMilli() - 24*3600*1000
	baseTime = day + 10*3600*1000
	dbOptDefault = &option.DatabaseOption{Intervals: option.Intervals{{Interval: timeutil.Interval(10_000), Retention: timeutil.Interval(3000 * 24 * 3600 * 1000)}}, AutoCreateNS: true}
	dbOptLate = &option.DatabaseOption{Intervals: option.Intervals{{Interval: timeutil.Interval(10_000), Retention: timeutil.Interval(3000 * 24 * 3600 * 1000)}}, AutoCreateNS: true, Ahead: "1h", Behind: "3d"}
	if err := dbOptLate.Validate(); err != nil {
		vevid.Fatal("late-writes option: %v", err)
	}
	if _, behind := dbOptLate.GetAcceptWritableRange(); behind != 3*24*3600*1000 {
		vevid.Fatal("late-writes option: behind = %d ms", behind)
	}
	dbOpt = dbOptDefault
	familyTime = timeutil.Interval(10_000).Calculator().CalcFamilyTime(baseTime)
	queryRange = timeutil.TimeRange{Start: baseTime, End: baseTime + 60000}
	for k := 0; k < maxEntries; k++ {
		if l := len(entryMsg(k)); l > dp {
			vevid.Fatal("entry %d is %d bytes, larger than the scaled data page %d", k, l, dp)
		}
	}
	replica.VerifDisableReplicaLoop()
	if f.Part == "jobs" {
		runJobsPart(rep, f)
		return
	}
	if f.Part == "race" {
		runRacePart(rep, f)
		return
	}
	installSeams()

	if f.Replay != "" {
		var h history
		vevid.LoadReplay(f.Replay, &h)
		for i := 0; i < 3; i++ {
			seenImages = map[string]bool{}
			runHistory(rep, h)
		}
		rep.Write()
		return
	}
	maxLen := 3
	if f.Thorough() {
		maxLen = 6
	}
	rep.Bounds["max_history_length_exhaustive"] = maxLen
	rep.Rule = fmt.Sprintf("%d curated histories + all histories of length <=%d over {append (6 entries: existing series, new series, new metric), replicate (one local replicator step), flushMeta -> flushIndex -> flushData (production order, other ops allowed in between), walGC (one round of the log garbage-collect task: sync acks, page GC, removal of the expired partition when everything is acknowledged - then no append follows; histories with a removal run again with a 3-day writable window where the log must stay), reopen} respecting preconditions; a crash image of the whole node directory after EVERY seam call (kv manifest/table writers, renames, removals, queue and consumer-group page stores, sequence sync); evaluations = distinct (image, entries appended, op in flight) recovered by a real node, replayed and queried; non-trivial = an operation was in flight", len(curated), maxLen)
	var idx int64
	run := func(h history) bool {
		idx++
		if f.Expired() {
			rep.Cap(fmt.Sprintf("deadline at history #%d", idx))
			return false
		}
		runHistory(rep, h)
		return true
	}
	for _, h := range curated {
		if !run(h) {
			break
		}
	}
	for n := 1; n <= maxLen && rep.Exhaustive; n++ {
		histories(n, run)
	}
	_ = sort.Ints
	rep.Extra["time_open_s"] = tOpen.Seconds()
	rep.Extra["time_close_s"] = tClose.Seconds()
	rep.Extra["time_query_s"] = tQuery.Seconds()
	rep.Extra["node_opens"] = nOpen
	rep.Write()
}
