package main

// Part "jobs" of C07: two flush jobs of one shard in flight at the same time (the flush checker has several workers;
// its duplicate check is not atomic), each run by the checker's own doFlush (metadata -> shard index -> family data,
// with the wait steps in between). The entry being flushed creates a NEW series, so the order "index before data"
// matters. The job threads are controlled (tsdb/data_family.go, shard.go, database.go, data_flush_checker.go rebuilt
// with lock / atomic points); the flush events of the memory metadata / index databases are handled on the calling
// thread (overlay: PrepareFlush, a scheduling point while "the flush runs in the background", Flush - what the event
// loops do), so "the index flush of one job is still running while the other job goes on" is a state the search
// visits, deterministically. Whenever a
// job returns - that is when the log has been acknowledged - the node directory is taken as a crash image; every
// distinct image is recovered, replayed and queried: every entry exactly once, ack <= stored sequence.

import (
	"fmt"
	"math"
	"os"
	"path/filepath"
	"strings"

	"github.com/lindb/lindb/internal/vbox"
	"github.com/lindb/lindb/internal/vcrashfs"
	"github.com/lindb/lindb/internal/vevid"
	"github.com/lindb/lindb/internal/vsched"
	"github.com/lindb/lindb/models"
	"github.com/lindb/lindb/replica"
	"github.com/lindb/lindb/tsdb"
)

type jobsScenario struct {
	Name string `json:"name"`
	Jobs int    `json:"jobs"`
}

var jobsScenarios = []jobsScenario{{"job|job", 2}}

type jobsReplay struct {
	Part     string       `json:"part"`
	Scenario jobsScenario `json:"scenario"`
	Choices  []int        `json:"choices"`
}

type jobImage struct {
	img   *vcrashfs.Image
	label string
}

var (
	jw       *raceWorld
	jImages  []jobImage
	jobsSeen = map[string]bool{}
)

// entry k: 3^k into series m1{host=a} (k=0, durable before the threads start) or m1{host=b} (k>=1: a new series)
func jobMsg(k int) []byte {
	host := "a"
	if k >= 1 {
		host = "b"
	}
	rows, err := vbox.Block([]vbox.Point{{Metric: "m1", Tags: map[string]string{"host": host}, Field: "f", Type: "sum", Value: math.Pow(3, float64(k)), Timestamp: baseTime + 5000}})
	if err != nil {
		vevid.OpFailed("block: %v", err)
	}
	return compressBlock(rows)
}

func jobsBody(sc jobsScenario) func() {
	return func() {
		vsched.Quiet(true)
		runNo++
		root := filepath.Join(scratch, fmt.Sprintf("j%d", runNo))
		_ = os.RemoveAll(root)
		n, err := openNode(root)
		if err != nil {
			vevid.OpFailed("open node: %v", err)
		}
		jw = &raceWorld{root: root, n: n}
		jImages = nil
		if err := n.part.WriteLog(jobMsg(0)); err != nil {
			vevid.OpFailed("append: %v", err)
		}
		replica.VerifReplicaOnce(n.part)
		if err := n.box.Flush(models.ShardID(1), queryRange); err != nil {
			vevid.OpFailed("flush: %v", err)
		}
		// the entry with the new series: appended and applied to the memory databases, nothing of it flushed
		if err := n.part.WriteLog(jobMsg(1)); err != nil {
			vevid.OpFailed("append: %v", err)
		}
		replica.VerifReplicaOnce(n.part)
		jw.appended = 2
		shard, _ := n.box.DB.GetShard(models.ShardID(1))
		fam, err := shard.GetOrCrateDataFamily(familyTime)
		if err != nil {
			vevid.OpFailed("family: %v", err)
		}
		vsched.Quiet(false)
		for i := 0; i < sc.Jobs; i++ {
			i := i
			vsched.Spawn(fmt.Sprintf("job%d", i+1), func() {
				tsdb.VerifFlushJob(n.box.DB, shard, []tsdb.DataFamily{fam})
				// the job returned: the log is acknowledged up to what the family stored - a crash now must lose nothing
				jImages = append(jImages, jobImage{img: vcrashfs.Snap(root, skipFile), label: fmt.Sprintf("job%d returned", i+1)})
			})
		}
	}
}

func jobsFinish(rep *vevid.Report, sc jobsScenario, x *vsched.Result) {
	scen := "jobs=" + sc.Name
	viol := func(clause, site, detail string) {
		rep.Violate(vevid.Violation{Clause: clause, Scenario: scen, Site: site, Detail: detail + "\nlog: " + strings.Join(x.Log, " | "),
			Replay: jobsReplay{Part: "jobs", Scenario: sc, Choices: x.Choices()}})
	}
	w := jw
	closed := false
	defer func() {
		if r := recover(); r != nil {
			viol("panic", "node", fmt.Sprintf("%v\n%s", r, stack()))
		}
		if !closed && !x.Deadlock && !x.Horizon {
			w.n.close()
		}
		_ = os.RemoveAll(w.root)
	}()
	if x.Deadlock {
		viol("deadlock", "tsdb flush job", x.WaitGraph)
		return
	}
	if x.Horizon {
		viol("livelock", "tsdb flush job", x.WaitGraph)
		return
	}
	for _, p := range x.Panics {
		viol("panic", "tsdb flush job", p)
	}
	images := append([]jobImage(nil), jImages...)
	images = append(images, jobImage{img: vcrashfs.Snap(w.root, skipFile), label: "all jobs returned"})
	w.n.close()
	closed = true
	for _, ji := range images {
		ikey := sc.Name + "|" + ji.img.Hash()
		if jobsSeen[ikey] {
			rep.Count("job_images_seen_before", 1)
			continue
		}
		jobsSeen[ikey] = true
		rep.Count("job_images_recovered", 1)
		croot := filepath.Join(scratch, "jcrash")
		_ = os.RemoveAll(croot)
		if err := ji.img.Materialize(croot); err != nil {
			vevid.Fatal("materialize: %v", err)
		}
		func() {
			defer os.RemoveAll(croot)
			n, err := openNode(croot)
			if err != nil {
				viol("restart-failed", "node", fmt.Sprintf("crash when %s: %v", ji.label, err))
				return
			}
			defer n.close()
			ack, stored := n.cgAck(), n.storedSeq()
			if ack > stored {
				viol("ack-ahead-of-stored-sequence", "tsdb flush job", fmt.Sprintf("crash when %s: the WAL is acknowledged up to %d, the flushed data carries sequence %d", ji.label, ack, stored))
			}
			if err := n.replayAll(); err != nil {
				viol("replay-stuck", "replica.Partition", fmt.Sprintf("crash when %s: %v", ji.label, err))
				return
			}
			da, db := n.digits("m1", "a", w.appended), n.digits("m1", "b", w.appended)
			for k := 0; k < w.appended; k++ {
				d := da[k] + db[k]
				if d < 1 {
					viol("entry-lost", "tsdb flush job (metadata -> index -> data)", fmt.Sprintf("crash when %s: entry %d (series host=%s) was appended and acknowledged (ack %d, stored sequence %d) but a query by name and tags does not return it after recovery and replay", ji.label, k, map[bool]string{true: "b", false: "a"}[k >= 1], ack, stored))
				} else if d > 1 {
					viol("entry-applied-twice", "tsdb flush job", fmt.Sprintf("crash when %s: entry %d is contained %d times after recovery and replay (ack %d, stored %d)", ji.label, k, d, ack, stored))
				}
			}
			rep.Outcome(fmt.Sprintf("jobs ack=%d stored=%d", ack, stored))
		}()
	}
}

func runJobsPart(rep *vevid.Report, f *vevid.Flags) {
	vsched.Strict = true
	bound := 2
	if f.Thorough() {
		bound = 3
	}
	rep.Bounds["preemption_bound"] = bound
	rep.Rule = fmt.Sprintf("two flush jobs of one shard (tsdb.dataFlushChecker.doFlush: FlushMeta, wait, FlushIndex, wait, DataFamily.Flush) in flight at once on a real node whose last entry created a new series; every schedule with <=%d preemptions at the lock / atomic / channel operations of tsdb/data_family.go, shard.go, database.go, data_flush_checker.go (the flush events of the memory metadata / index databases are handled on the calling thread with a scheduling point while the flush runs); a crash image whenever a job returns and at the end, each distinct one recovered, replayed, queried by name and tags: every entry exactly once, ack <= stored sequence", bound)
	if f.Replay != "" {
		var r jobsReplay
		vevid.LoadReplay(f.Replay, &r)
		for i := 0; i < 3; i++ {
			jobsSeen = map[string]bool{}
			x := vsched.Run(r.Choices, 2000000, jobsBody(r.Scenario))
			jobsFinish(rep, r.Scenario, x)
		}
		rep.Evaluations = 3
		rep.Write()
		return
	}
	for _, sc := range jobsScenarios {
		sc := sc
		e := &vsched.Explorer{Bound: bound, Horizon: 2000000, Body: jobsBody(sc), Shard: f.Shard, Shards: f.Shards, Deadline: f.Deadline}
		e.Check = func(x *vsched.Result) {
			jobsFinish(rep, sc, x)
			rep.DistinctNontrivial++
		}
		e.Discard = func(x *vsched.Result) {
			if !x.Deadlock && !x.Horizon {
				jw.n.close()
			}
			_ = os.RemoveAll(jw.root)
		}
		e.Explore()
		if e.Diverged != "" {
			vevid.Fatal("replay divergence in %s: %s", sc.Name, e.Diverged)
		}
		if e.Capped {
			rep.Cap("deadline reached in scenario " + sc.Name)
		}
		rep.Evaluations += e.Executions
		rep.States += e.Executions
		rep.Transitions += e.Points
		rep.TracesValidated += e.Executions
		rep.Count("schedules["+sc.Name+"]", e.Executions)
	}
	rep.Write()
}
