package main

import (
	"bytes"
	"fmt"

	"github.com/lindb/lindb/pkg/bit"
	"github.com/lindb/lindb/pkg/bufioutil"
	"github.com/lindb/lindb/pkg/encoding"
)

// ---------------------------------------------------------------------------------------------------
// XOR codec driven directly (XOREncoder on a bit.Writer, XORDecoder on a bit.Reader)

func faVals(s []int64) []uint64 {
	v := make([]uint64, len(s))
	for i, x := range s {
		v[i] = FA[x]
	}
	return v
}

// xorEncode writes `align` marker bits and then the values.
func xorEncode(bw *bit.Writer, e *encoding.XOREncoder, align int, vals []uint64) error {
	for i := 0; i < align; i++ {
		if err := bw.WriteBit(i%2 == 0); err != nil {
			return err
		}
	}
	for _, v := range vals {
		if err := e.Write(v); err != nil {
			return err
		}
	}
	return bw.Flush()
}

func xorDecodeCheck(c *ctx, br *bit.Reader, d *encoding.XORDecoder, align int, vals []uint64, scen string) bool {
	for i := 0; i < align; i++ {
		b, err := br.ReadBit()
		if err != nil || bool(b) != (i%2 == 0) {
			c.viol("roundtrip", scen, "bit.Reader.ReadBit", "alignment bit %d: got %v err %v", i, b, err)
			return false
		}
	}
	for i, v := range vals {
		if !d.Next() {
			c.viol("roundtrip", scen, "XORDecoder.Next", "value %d of %d: Next()=false (values %s)", i, len(vals), bitsText(vals))
			return false
		}
		if got := d.Value(); got != v {
			c.viol("roundtrip", scen, "XORDecoder.Value", "value %d: got %016x want %016x (values %s)", i, got, v, bitsText(vals))
			return false
		}
	}
	return true
}

func xorFresh(c *ctx, align int, vals []uint64) {
	var buf bytes.Buffer
	bw := bit.NewWriter(&buf)
	e := encoding.NewXOREncoder(bw)
	if err := xorEncode(bw, e, align, vals); err != nil {
		c.viol("roundtrip", "fresh", "XOREncoder.Write", "%v", err)
		return
	}
	data := cp(buf.Bytes())
	c.outcome("len=%d", len(data))
	rb := bufioutil.NewBuffer(data)
	br := bit.NewReader(rb)
	xorDecodeCheck(c, br, encoding.NewXORDecoder(br), align, vals, "fresh")
}

// xorHistory: the value lists go through ONE XOREncoder/bit.Writer (Reset between) and ONE XORDecoder/bit.Reader.
func xorHistory(c *ctx, lists [][]uint64, align int, consumeAll bool) {
	var buf bytes.Buffer
	bw := bit.NewWriter(&buf)
	e := encoding.NewXOREncoder(bw)
	rb := bufioutil.NewBuffer(nil)
	br := bit.NewReader(rb)
	d := encoding.NewXORDecoder(br)
	for step, vals := range lists {
		if step > 0 {
			buf.Reset()
			bw.Reset(&buf)
			e.Reset()
		}
		if err := xorEncode(bw, e, align, vals); err != nil {
			c.viol("reuse", "history", "XOREncoder.Write", "%v", err)
			return
		}
		data := cp(buf.Bytes())
		if step > 0 {
			d.Reset()
			br.Reset()
		}
		rb.SetBuf(data)
		last := step == len(lists)-1
		scen := "history"
		if step > 0 {
			scen = "history reused"
		}
		read := vals
		if !last && !consumeAll {
			read = vals[:len(vals)/2]
		}
		if !xorDecodeCheck(c, br, d, align, read, scen) {
			return
		}
		if last {
			// fresh decoder on the reused encoder's output
			fb := bufioutil.NewBuffer(data)
			fr := bit.NewReader(fb)
			if !xorDecodeCheck(c, fr, encoding.NewXORDecoder(fr), align, vals, scen+" fresh-decoder") {
				return
			}
			c.outcome("h len=%d", len(data))
		}
	}
}

// ---------------------------------------------------------------------------------------------------
// bit writer / reader

type bitOp struct {
	kind  int // 0 WriteBit, 1 WriteBits, 2 WriteByte
	width int
	val   uint64
}

func (o bitOp) String() string {
	switch o.kind {
	case 0:
		return fmt.Sprintf("bit(%d)", o.val)
	case 2:
		return fmt.Sprintf("byte(%02x)", o.val)
	}
	return fmt.Sprintf("bits(%x,%d)", o.val, o.width)
}

var bitOps []bitOp

func init() {
	bitOps = append(bitOps, bitOp{0, 1, 0}, bitOp{0, 1, 1}, bitOp{2, 8, 0x00}, bitOp{2, 8, 0xFF}, bitOp{2, 8, 0xA5})
	for _, w := range []int{0, 1, 7, 8, 9, 31, 32, 33, 63, 64} {
		var all uint64 = 1<<uint(w) - 1
		if w == 64 {
			all = ^uint64(0)
		}
		pats := []uint64{0, all, 0xAAAAAAAAAAAAAAAA & all, 1}
		if w > 0 {
			pats = append(pats, uint64(1)<<uint(w-1))
		}
		seen := map[uint64]bool{}
		for _, p := range pats {
			p &= all
			if seen[p] {
				continue
			}
			seen[p] = true
			bitOps = append(bitOps, bitOp{1, w, p})
		}
	}
}

func writeOps(w *bit.Writer, ops []bitOp) (model []bool, err error) {
	for _, o := range ops {
		switch o.kind {
		case 0:
			err = w.WriteBit(o.val == 1)
		case 1:
			err = w.WriteBits(o.val, o.width)
		case 2:
			err = w.WriteByte(byte(o.val))
		}
		if err != nil {
			return nil, err
		}
		for i := o.width - 1; i >= 0; i-- {
			model = append(model, o.val&(1<<uint(i)) != 0)
		}
	}
	return model, nil
}

// readCheck reads the data three ways: with the mirrored ops, bit by bit, byte by byte.
func readCheck(c *ctx, r *bit.Reader, rb *bufioutil.Buffer, reset func(), ops []bitOp, model []bool, scen string) bool {
	reset()
	for i, o := range ops {
		var got uint64
		var err error
		switch o.kind {
		case 0:
			var b bit.Bit
			b, err = r.ReadBit()
			if b {
				got = 1
			}
		case 1:
			got, err = r.ReadBits(o.width)
		case 2:
			var b byte
			b, err = r.ReadByte()
			got = uint64(b)
		}
		if err != nil || got != o.val {
			c.viol("roundtrip", scen, "bit.Reader", "op %d %s: read %x err %v", i, o, got, err)
			return false
		}
	}
	reset()
	for i, want := range model {
		b, err := r.ReadBit()
		if err != nil || bool(b) != want {
			c.viol("roundtrip", scen, "bit.Reader.ReadBit", "bit %d of %d: got %v err %v want %v", i, len(model), b, err, want)
			return false
		}
	}
	reset()
	for i := 0; i+8 <= len(model); i += 8 {
		var want byte
		for j := 0; j < 8; j++ {
			want <<= 1
			if model[i+j] {
				want |= 1
			}
		}
		b, err := r.ReadByte()
		if err != nil || b != want {
			c.viol("roundtrip", scen, "bit.Reader.ReadByte", "byte %d: got %02x err %v want %02x", i/8, b, err, want)
			return false
		}
	}
	_ = rb
	return true
}

func opsOf(ix []int64) []bitOp {
	ops := make([]bitOp, len(ix))
	for i, x := range ix {
		ops[i] = bitOps[x]
	}
	return ops
}

func bitFresh(c *ctx, ops []bitOp) {
	var buf bytes.Buffer
	w := bit.NewWriter(&buf)
	model, err := writeOps(w, ops)
	if err == nil {
		err = w.Flush()
	}
	if err != nil {
		c.viol("roundtrip", "fresh", "bit.Writer", "%v", err)
		return
	}
	data := cp(buf.Bytes())
	if len(data) != (len(model)+7)/8 {
		c.viol("roundtrip", "fresh", "bit.Writer.Flush", "%d bits written, %d bytes produced", len(model), len(data))
		return
	}
	c.outcome("bits=%d", len(model)%17)
	rb := bufioutil.NewBuffer(data)
	r := bit.NewReader(rb)
	readCheck(c, r, rb, func() { rb.SetBuf(data); r.Reset() }, ops, model, "fresh")
}

// bitHistory: first ops (flushed or abandoned unflushed), then Writer.Reset(new buffer) and second ops; one reader reused.
func bitHistory(c *ctx, first []bitOp, flushFirst bool, second []bitOp) {
	var buf bytes.Buffer
	w := bit.NewWriter(&buf)
	m1, err := writeOps(w, first)
	if err != nil {
		c.viol("reuse", "history", "bit.Writer", "%v", err)
		return
	}
	rb := bufioutil.NewBuffer(nil)
	r := bit.NewReader(rb)
	if flushFirst {
		if err := w.Flush(); err != nil {
			c.viol("reuse", "history", "bit.Writer.Flush", "%v", err)
			return
		}
		d1 := cp(buf.Bytes())
		// partially consume the first block with the reader that is going to be reused
		rb.SetBuf(d1)
		r.Reset()
		for i := 0; i < len(m1)/2; i++ {
			b, err := r.ReadBit()
			if err != nil || bool(b) != m1[i] {
				c.viol("roundtrip", "history", "bit.Reader.ReadBit", "first block bit %d: got %v err %v", i, b, err)
				return
			}
		}
	}
	var buf2 bytes.Buffer
	w.Reset(&buf2)
	m2, err := writeOps(w, second)
	if err == nil {
		err = w.Flush()
	}
	if err != nil {
		c.viol("reuse", "history", "bit.Writer", "%v", err)
		return
	}
	d2 := cp(buf2.Bytes())
	if len(d2) != (len(m2)+7)/8 {
		c.viol("reuse", "history reused", "bit.Writer.Flush", "%d bits written after Reset, %d bytes produced", len(m2), len(d2))
		return
	}
	readCheck(c, r, rb, func() { rb.SetBuf(d2); r.Reset() }, second, m2, "history reused")
}

func registerXorBit() {
	register(family{name: "xor.seq",
		enum: func(th bool, emit func(p ...int64) bool) {
			L := 3
			if th {
				L = 4
			}
			seqs(len(FA), 0, L, func(s []int64) bool {
				for align := int64(0); align < 8; align++ {
					if !emit(append([]int64{align}, s...)...) {
						return false
					}
				}
				return true
			})
		},
		run: func(c *ctx) {
			c.text = fmt.Sprintf("xor align=%d values=%s", c.p[0], faSeqText(c.p[1:]))
			c.nontrivial = len(c.p) >= 3
			xorFresh(c, int(c.p[0]), faVals(c.p[1:]))
		}})

	register(family{name: "xor.long",
		enum: func(th bool, emit func(p ...int64) bool) {
			for a := int64(0); a < int64(len(FA)); a++ {
				for b := int64(0); b < int64(len(FA)); b++ {
					for align := int64(0); align < 8; align += 3 {
						if !emit(align, a, b) {
							return
						}
					}
				}
			}
		},
		run: func(c *ctx) {
			a, b := c.p[1], c.p[2]
			vals := make([]uint64, 64)
			for i := range vals {
				vals[i] = FA[a]
				if i%2 == 1 {
					vals[i] = FA[b]
				}
			}
			c.text = fmt.Sprintf("xor align=%d 32 x (%s,%s)", c.p[0], faName[a], faName[b])
			c.nontrivial = true
			xorFresh(c, int(c.p[0]), vals)
		}})

	register(family{name: "xor.hist",
		enum: func(th bool, emit func(p ...int64) bool) {
			// pairs of all sequences of length <=2 ; p = align, consumeAll, lenA, a..., b...
			seqs(len(FA), 0, 2, func(a []int64) bool {
				return seqs(len(FA), 0, 2, func(b []int64) bool {
					for m := int64(0); m < 4; m++ {
						p := append([]int64{[]int64{0, 3}[m%2], m / 2, int64(len(a)), -1}, a...)
						p = append(p, b...)
						if !emit(p...) {
							return false
						}
					}
					return true
				})
			})
			if !th {
				return
			}
			// triples of all sequences of length <=1 plus the length-2 window sequences
			seqs(len(FA), 0, 1, func(a []int64) bool {
				return seqs(len(FA), 0, 2, func(b []int64) bool {
					return seqs(len(FA), 0, 1, func(d []int64) bool {
						p := append([]int64{5, 1, int64(len(a)), int64(len(b))}, a...)
						p = append(p, b...)
						p = append(p, d...)
						return emit(p...)
					})
				})
			})
		},
		run: func(c *ctx) {
			align, all, la, lb := int(c.p[0]), c.p[1] == 1, int(c.p[2]), int(c.p[3])
			rest := c.p[4:]
			var lists [][]uint64
			lists = append(lists, faVals(rest[:la]))
			if lb < 0 {
				lists = append(lists, faVals(rest[la:]))
			} else {
				lists = append(lists, faVals(rest[la:la+lb]), faVals(rest[la+lb:]))
			}
			c.text = fmt.Sprintf("xor history align=%d consumeAll=%v lists=", align, all)
			for _, l := range lists {
				c.text += bitsText(l)
			}
			c.nontrivial = true
			xorHistory(c, lists, align, all)
		}})

	register(family{name: "bit.ops",
		enum: func(th bool, emit func(p ...int64) bool) {
			L := 3
			if th {
				L = 4
			}
			seqs(len(bitOps), 0, L, func(s []int64) bool { return emit(s...) })
		},
		run: func(c *ctx) {
			ops := opsOf(c.p)
			c.text = fmt.Sprint("bit ops ", ops)
			c.nontrivial = len(ops) >= 2
			bitFresh(c, ops)
		}})

	register(family{name: "bit.hist",
		enum: func(th bool, emit func(p ...int64) bool) {
			seqs(len(bitOps), 0, 1, func(a []int64) bool {
				return seqs(len(bitOps), 0, 2, func(b []int64) bool {
					for fl := int64(0); fl < 2; fl++ {
						p := append([]int64{fl, int64(len(a))}, a...)
						if !emit(append(p, b...)...) {
							return false
						}
					}
					return true
				})
			})
		},
		run: func(c *ctx) {
			la := int(c.p[1])
			first, second := opsOf(c.p[2:2+la]), opsOf(c.p[2+la:])
			c.text = fmt.Sprint("bit history flushFirst=", c.p[0] == 1, " first=", first, " second=", second)
			c.nontrivial = true
			bitHistory(c, first, c.p[0] == 1, second)
		}})
}
