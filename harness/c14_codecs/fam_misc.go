package main

import (
	"bytes"
	"fmt"
	"math"

	"github.com/lindb/roaring"

	"github.com/lindb/lindb/pkg/compress"
	"github.com/lindb/lindb/pkg/encoding"
	"github.com/lindb/lindb/pkg/stream"
)

// ---------------------------------------------------------------------------------------------------
// bitmap codec

func keysOf(sub int64, run bool) []uint32 {
	var ks []uint32
	// ascending: KA is ascending, the run [100..4300] lies between KA[2]=2 and KA[3]=65535
	for i, k := range KA {
		if i == 3 && run {
			for x := uint32(runLo); x <= runHi; x++ {
				ks = append(ks, x)
			}
		}
		if sub&(1<<uint(i)) != 0 {
			ks = append(ks, k)
		}
	}
	return ks
}

func buildBitmap(sub int64, run bool, optimize bool) *roaring.Bitmap {
	bm := roaring.New()
	for i, k := range KA {
		if sub&(1<<uint(i)) != 0 {
			bm.Add(k)
		}
	}
	if run {
		bm.AddRange(runLo, runHi+1)
	}
	if optimize {
		bm.RunOptimize() // kv/table/builder.go does this before BitmapMarshal
	}
	return bm
}

var bitmapProbes = []uint32{0, 1, 2, 3, 99, 100, 4300, 4301, 65534, 65535, 65536, 65537, 65538, 1<<31 - 1, 1 << 31, 1<<31 + 1, 1<<32 - 3, 1<<32 - 2, 1<<32 - 1}

func bitmapCheck(c *ctx, got *roaring.Bitmap, want []uint32, scen string) bool {
	if int(got.GetCardinality()) != len(want) {
		c.viol("roundtrip", scen, "BitmapUnmarshal", "cardinality %d, encoded %d keys", got.GetCardinality(), len(want))
		return false
	}
	arr := got.ToArray()
	for i := range want {
		if arr[i] != want[i] {
			c.viol("roundtrip", scen, "BitmapUnmarshal", "key #%d is %d, encoded %d", i, arr[i], want[i])
			return false
		}
	}
	set := map[uint32]bool{}
	for _, k := range want {
		set[k] = true
	}
	for _, p := range bitmapProbes {
		if got.Contains(p) != set[p] {
			c.viol("roundtrip", scen, "Bitmap.Contains", "Contains(%d)=%v, encoded %v", p, got.Contains(p), set[p])
			return false
		}
	}
	return true
}

func bitmapMarshal(c *ctx, sub int64, run, opt bool, scen string) ([]byte, bool) {
	data, err := encoding.BitmapMarshal(buildBitmap(sub, run, opt))
	if err != nil {
		c.viol("roundtrip", scen, "BitmapMarshal", "%v", err)
		return nil, false
	}
	return cp(data), true
}

func bitmapFresh(c *ctx, sub int64, run, opt, sfx bool) {
	scen := fmt.Sprintf("fresh run=%v opt=%v", run, opt)
	data, ok := bitmapMarshal(c, sub, run, opt, scen)
	if !ok {
		return
	}
	in := data
	if sfx { // kv/table/reader.go and metricsdata/reader.go unmarshal from a longer buffer
		in = append(cp(data), 0xFF, 0x00, 0x3A, 0x30)
	}
	bm := roaring.New()
	n, err := encoding.BitmapUnmarshal(bm, in)
	if err != nil {
		c.viol("roundtrip", scen, "BitmapUnmarshal", "%v", err)
		return
	}
	c.outcome("len=%d consumedAll=%v", len(data), int(n) == len(data))
	bitmapCheck(c, bm, keysOf(sub, run), scen)
}

// bitmapHistory: one bitmap object first holds A (unmarshalled, or built with Add), then B is unmarshalled into it.
func bitmapHistory(c *ctx, kindA int, subA int64, runA bool, subB int64, runB bool) {
	scen := fmt.Sprintf("history kindA=%d", kindA)
	var bm *roaring.Bitmap
	var dataA []byte
	if kindA == 0 {
		var ok bool
		dataA, ok = bitmapMarshal(c, subA, runA, true, scen)
		if !ok {
			return
		}
		bm = roaring.New()
		if _, err := encoding.BitmapUnmarshal(bm, dataA); err != nil {
			c.viol("roundtrip", scen, "BitmapUnmarshal", "%v", err)
			return
		}
		if !bitmapCheck(c, bm, keysOf(subA, runA), scen) {
			return
		}
	} else {
		bm = buildBitmap(subA, runA, kindA == 2)
	}
	dataB, ok := bitmapMarshal(c, subB, runB, true, scen)
	if !ok {
		return
	}
	if _, err := encoding.BitmapUnmarshal(bm, dataB); err != nil {
		c.viol("reuse", scen+" reused", "BitmapUnmarshal", "%v", err)
		return
	}
	if bitmapCheck(c, bm, keysOf(subB, runB), scen+" reused") {
		c.outcome("h card=%d", bm.GetCardinality()%16)
	}
}

// ---------------------------------------------------------------------------------------------------
// snappy chunk codec

var snappyPayloads [][]byte
var snappyNames = []string{"empty", "1B", "64KiB+1 compressible", "64KiB+1 incompressible", "64KiB incompressible", "100B text"}

func init() {
	comp := bytes.Repeat([]byte("lindb-metric,host=a,zone=b value=1 "), 65537/35+1)[:65537]
	snappyPayloads = [][]byte{
		{},
		{0x5A},
		comp,
		detBytes(65537, 0x9E3779B97F4A7C15),
		detBytes(65536, 0xD1B54A32D192ED03),
		[]byte("cpu,host=server01,region=us-west usage_idle=99.5,usage_user=0.25 1465839830100400200 # padded to 100 bytes ......")[:100],
	}
}

func snappyWrite(w compress.Writer, payload []byte, split bool) error {
	if !split {
		if len(payload) > 0 {
			if _, err := w.Write(payload); err != nil {
				return err
			}
		}
		return w.Close()
	}
	cuts := []int{0, len(payload) / 3, len(payload) / 2, len(payload)}
	if len(payload) > 0 {
		cuts[1] = 1
	}
	for i := 0; i+1 < len(cuts); i++ {
		if cuts[i+1] < cuts[i] {
			cuts[i+1] = cuts[i]
		}
		if _, err := w.Write(payload[cuts[i]:cuts[i+1]]); err != nil {
			return err
		}
	}
	return w.Close()
}

// damage > 0: before every chunk after the first one the reused reader is first handed a damaged copy of the previous
// chunk (1: last byte cut off, 2: one byte in the middle flipped) - whatever it answers for that, the intact chunk that
// follows has to decode (one bad message must not poison the reader for the messages after it).
func snappyHistory(c *ctx, ids []int64, split bool, damage int) {
	w := compress.NewSnappyWriter()
	r := compress.NewSnappyReader()
	// blocks handed out by Bytes() are kept by the caller (replica queues them) while the writer is reused:
	// every one of them must still decode to its payload after all later chunks were produced
	var kept [][]byte
	defer func() {
		for step, comp := range kept {
			got, err := compress.NewSnappyReader().Uncompress(comp)
			if err != nil || !bytes.Equal(got, snappyPayloads[ids[step]]) {
				c.viol("reuse", "block-kept-across-writer-reuse", "snappyWriter.Bytes", "block %d of %d (%s) no longer decodes to its payload after the writer was reused: err %v", step, len(kept), snappyNames[ids[step]], err)
				return
			}
		}
	}()
	for step, id := range ids {
		scen := "fresh"
		clause := "roundtrip"
		if step > 0 {
			scen, clause = "reused", "reuse"
		}
		payload := snappyPayloads[id]
		if err := snappyWrite(w, payload, split); err != nil {
			c.viol(clause, scen, "snappyWriter.Write/Close", "step %d (%s): %v", step, snappyNames[id], err)
			return
		}
		comp := w.Bytes() // also resets the writer for the next chunk
		kept = append(kept, comp)
		if damage > 0 && step > 0 && len(kept[step-1]) > 2 {
			bad := append([]byte(nil), kept[step-1]...)
			if damage == 1 {
				bad = bad[:len(bad)-1]
			} else {
				bad[len(bad)/2] ^= 0x5a
			}
			_, _ = r.Uncompress(bad)
			scen, clause = fmt.Sprintf("reused after a damaged chunk (kind %d)", damage), "reuse"
		}
		got, err := r.Uncompress(comp)
		if err != nil {
			c.viol(clause, scen, "snappyReader.Uncompress", "step %d (%s): %v", step, snappyNames[id], err)
			return
		}
		if !bytes.Equal(got, payload) {
			c.viol(clause, scen, "snappyReader.Uncompress", "step %d (%s): %d bytes back, %d in, first difference at %d", step, snappyNames[id], len(got), len(payload), firstDiff(got, payload))
			return
		}
		if step == len(ids)-1 {
			// a fresh reader on the reused writer's output
			got2, err := compress.NewSnappyReader().Uncompress(comp)
			if err != nil || !bytes.Equal(got2, payload) {
				c.viol(clause, scen+" fresh-reader", "snappyReader.Uncompress", "step %d (%s): err %v, %d bytes back, %d in", step, snappyNames[id], err, len(got2), len(payload))
				return
			}
			c.outcome("clen=%d", len(comp))
		}
	}
}

func firstDiff(a, b []byte) int {
	for i := 0; i < len(a) && i < len(b); i++ {
		if a[i] != b[i] {
			return i
		}
	}
	if len(a) < len(b) {
		return len(a)
	}
	return len(b)
}

// ---------------------------------------------------------------------------------------------------
// binary stream writer / reader

type sOp struct {
	kind int
	u    uint64
}

var sKinds = []string{"byte", "varint32", "varint64", "uvarint32", "uvarint64", "uint32", "uint64", "int32", "int64", "uint16", "int16", "bytes"}
var sOps []sOp

func init() {
	add := func(kind int, vs ...uint64) {
		for _, v := range vs {
			sOps = append(sOps, sOp{kind, v})
		}
	}
	i64 := func(v int64) uint64 { return uint64(v) }
	add(0, 0, 0x7F, 0xFF)
	add(1, 0, 1, i64(-1), math.MaxInt32, i64(math.MinInt32), 63, 64, i64(-64), i64(-65))
	add(2, 0, i64(-1), math.MaxInt64, i64(math.MinInt64), 1<<35)
	add(3, 0, 127, 128, 16383, 16384, math.MaxUint32)
	add(4, 0, 127, 128, math.MaxUint64, 1<<63)
	add(5, 0, 1, math.MaxUint32, 0x01020304)
	add(6, 0, math.MaxUint64, 0x0102030405060708)
	add(7, i64(-1), i64(math.MinInt32))
	add(8, i64(-1), i64(math.MinInt64))
	add(9, 0, 65535, 0x0102)
	add(10, i64(-1), i64(math.MinInt16))
	add(11, 0, 1, 300) // length of a byte string
}

func (o sOp) String() string { return fmt.Sprintf("%s(%d)", sKinds[o.kind], int64(o.u)) }

func sBytes(n uint64) []byte { return detBytes(int(n), 0xA0761D6478BD642F+n) }

type sWriter interface {
	PutByte(byte)
	PutVarint32(int32)
	PutVarint64(int64)
	PutUvarint32(uint32)
	PutUvarint64(uint64)
	PutUint32(uint32)
	PutUint64(uint64)
	PutInt32(int32)
	PutInt64(int64)
	PutUInt16(uint16)
	PutInt16(int16)
	PutBytes([]byte)
}

func sWrite(w sWriter, ops []sOp) {
	for _, o := range ops {
		switch o.kind {
		case 0:
			w.PutByte(byte(o.u))
		case 1:
			w.PutVarint32(int32(o.u))
		case 2:
			w.PutVarint64(int64(o.u))
		case 3:
			w.PutUvarint32(uint32(o.u))
		case 4:
			w.PutUvarint64(o.u)
		case 5:
			w.PutUint32(uint32(o.u))
		case 6:
			w.PutUint64(o.u)
		case 7:
			w.PutInt32(int32(o.u))
		case 8:
			w.PutInt64(int64(o.u))
		case 9:
			w.PutUInt16(uint16(o.u))
		case 10:
			w.PutInt16(int16(o.u))
		case 11:
			w.PutBytes(sBytes(o.u))
		}
	}
}

func sReadCheck(c *ctx, r *stream.Reader, ops []sOp, total int, useReadBytes bool, scen string) bool {
	for i, o := range ops {
		var got uint64
		okb := true
		switch o.kind {
		case 0:
			got = uint64(r.ReadByte())
		case 1:
			got = uint64(int64(r.ReadVarint32()))
		case 2:
			got = uint64(r.ReadVarint64())
		case 3:
			got = uint64(r.ReadUvarint32())
		case 4:
			got = r.ReadUvarint64()
		case 5:
			got = uint64(r.ReadUint32())
		case 6:
			got = r.ReadUint64()
		case 7:
			got = uint64(int64(r.ReadInt32()))
		case 8:
			got = uint64(r.ReadInt64())
		case 9:
			got = uint64(r.ReadUint16())
		case 10:
			got = uint64(int64(r.ReadInt16()))
		case 11:
			var b []byte
			if useReadBytes {
				b = r.ReadBytes(int(o.u))
			} else {
				b = r.ReadSlice(int(o.u))
			}
			okb = bytes.Equal(b, sBytes(o.u))
			got = o.u
		}
		if got != o.u || !okb || r.Error() != nil {
			c.viol("roundtrip", scen, "stream.Reader", "op %d %s: read %d (bytes equal %v) err %v; ops %v", i, o, int64(got), okb, r.Error(), ops)
			return false
		}
	}
	if !r.Empty() || r.Position() != total {
		c.viol("roundtrip", scen, "stream.Reader.Empty/Position", "after reading everything: empty=%v position=%d of %d; ops %v", r.Empty(), r.Position(), total, ops)
		return false
	}
	return true
}

func sOpsOf(ix []int64) []sOp {
	ops := make([]sOp, len(ix))
	for i, x := range ix {
		ops[i] = sOps[x]
	}
	return ops
}

func streamFresh(c *ctx, ops []sOp) {
	w := stream.NewBufferWriter(nil)
	sWrite(w, ops)
	data, err := w.Bytes()
	if err != nil {
		c.viol("roundtrip", "fresh", "stream.BufferWriter.Bytes", "%v", err)
		return
	}
	data = cp(data)
	if w.Len() != len(data) {
		c.viol("roundtrip", "fresh", "stream.BufferWriter.Len", "Len()=%d, %d bytes", w.Len(), len(data))
	}
	// the slice writer must produce the same bytes
	sw := stream.NewSliceWriter(make([]byte, len(data)))
	sWrite(sw, ops)
	sdata, err := sw.Bytes()
	if err != nil || !bytes.Equal(sdata, data) {
		c.viol("roundtrip", "fresh", "stream.SliceWriter.Bytes", "err %v, bytes differ from BufferWriter: %x vs %x", err, sdata, data)
		return
	}
	c.outcome("len=%d", len(data)%64)
	r := stream.NewReader(data)
	if !sReadCheck(c, r, ops, len(data), false, "fresh") {
		return
	}
	r.SeekStart()
	if !sReadCheck(c, r, ops, len(data), true, "fresh SeekStart") {
		return
	}
	r.Reset(data)
	sReadCheck(c, r, ops, len(data), false, "fresh Reset")
}

// streamHistory: one BufferWriter (Reset between) and one Reader (Reset(buf) between). The first block is half
// read, or (over) read completely and beyond its end, which leaves the reader in its EOF state before Reset.
func streamHistory(c *ctx, first []sOp, over bool, second []sOp) {
	w := stream.NewBufferWriter(nil)
	sWrite(w, first)
	d1, _ := w.Bytes()
	d1 = cp(d1)
	r := stream.NewReader(d1)
	// partially consume the first block
	if over {
		sReadCheck2(c, r, first)
		_ = r.ReadUint16()
		_ = r.ReadSlice(1)
	} else {
		sReadCheck2(c, r, first[:len(first)/2])
	}
	w.Reset()
	sWrite(w, second)
	d2, err := w.Bytes()
	if err != nil {
		c.viol("reuse", "history reused", "stream.BufferWriter.Bytes", "%v", err)
		return
	}
	d2 = cp(d2)
	r.Reset(d2)
	sReadCheck(c, r, second, len(d2), false, "history reused")
}

// sReadCheck2 reads a prefix (no end-of-data checks).
func sReadCheck2(c *ctx, r *stream.Reader, ops []sOp) bool {
	for _, o := range ops {
		switch o.kind {
		case 0:
			r.ReadByte()
		case 1, 2:
			r.ReadVarint64()
		case 3, 4:
			r.ReadUvarint64()
		case 5, 7:
			r.ReadUint32()
		case 6, 8:
			r.ReadUint64()
		case 9, 10:
			r.ReadUint16()
		case 11:
			r.ReadSlice(int(o.u))
		}
	}
	return true
}

// small set of second bitmaps for the quick tier
var bitmapQuickB []int64

func init() {
	for sub := int64(0); sub < 512; sub++ {
		// subsets of {0, 65535, 65536, 2^31, 2^32-1}: indices 0,3,4,6,8
		if sub&^int64(1|8|16|64|256) == 0 {
			bitmapQuickB = append(bitmapQuickB, sub)
		}
	}
}

func registerMisc() {
	register(family{name: "bitmap.set",
		enum: func(th bool, emit func(p ...int64) bool) {
			for sub := int64(0); sub < 512; sub++ {
				for m := int64(0); m < 8; m++ {
					if !emit(sub, m&1, (m>>1)&1, (m>>2)&1) {
						return
					}
				}
			}
		},
		run: func(c *ctx) {
			c.text = fmt.Sprintf("bitmap keys=subset %09b of %v run=%v optimize=%v suffix=%v", c.p[0], KA, c.p[1] == 1, c.p[2] == 1, c.p[3] == 1)
			c.nontrivial = c.p[0]&(c.p[0]-1) != 0 || c.p[1] == 1
			bitmapFresh(c, c.p[0], c.p[1] == 1, c.p[2] == 1, c.p[3] == 1)
		}})

	register(family{name: "bitmap.hist",
		enum: func(th bool, emit func(p ...int64) bool) {
			var bs []int64
			if th {
				for sub := int64(0); sub < 512; sub++ {
					bs = append(bs, sub)
				}
			} else {
				bs = bitmapQuickB
			}
			for a := int64(0); a < 1024; a++ {
				for _, b := range bs {
					for runB := int64(0); runB < 2; runB++ {
						kinds := int64(1)
						if th {
							kinds = 3
						}
						for k := int64(0); k < kinds; k++ {
							if !emit(k, a>>1, a&1, b, runB) {
								return
							}
						}
					}
				}
			}
		},
		run: func(c *ctx) {
			c.text = fmt.Sprintf("bitmap history kindA=%d A=subset %09b run=%v then B=subset %09b run=%v (keys %v)", c.p[0], c.p[1], c.p[2] == 1, c.p[3], c.p[4] == 1, KA)
			c.nontrivial = true
			bitmapHistory(c, int(c.p[0]), c.p[1], c.p[2] == 1, c.p[3], c.p[4] == 1)
		}})

	register(family{name: "snappy",
		enum: func(th bool, emit func(p ...int64) bool) {
			n := len(snappyPayloads)
			L := 2
			if th {
				L = 3
			}
			seqs(n, 1, L, func(s []int64) bool {
				for split := int64(0); split < 2; split++ {
					if !emit(append([]int64{split}, s...)...) {
						return false
					}
				}
				return true
			})
		},
		run: func(c *ctx) {
			c.text = fmt.Sprintf("snappy split=%v chunks:", c.p[0] == 1)
			for _, id := range c.p[1:] {
				c.text += " <" + snappyNames[id] + ">"
			}
			c.nontrivial = len(c.p) >= 3
			snappyHistory(c, c.p[1:], c.p[0] == 1, 0)
			snappyHistory(c, c.p[1:], c.p[0] == 1, 1)
			snappyHistory(c, c.p[1:], c.p[0] == 1, 2)
		}})

	register(family{name: "stream.ops",
		enum: func(th bool, emit func(p ...int64) bool) {
			L := 3
			if th {
				L = 4
			}
			seqs(len(sOps), 0, L, func(s []int64) bool { return emit(s...) })
		},
		run: func(c *ctx) {
			ops := sOpsOf(c.p)
			c.text = fmt.Sprint("stream ops ", ops)
			c.nontrivial = len(ops) >= 2
			streamFresh(c, ops)
		}})

	register(family{name: "stream.hist",
		enum: func(th bool, emit func(p ...int64) bool) {
			la := 1
			if th {
				la = 2
			}
			seqs(len(sOps), 0, la, func(a []int64) bool {
				return seqs(len(sOps), 0, 2, func(b []int64) bool {
					for over := int64(0); over < 2; over++ {
						p := append([]int64{int64(len(a)), over}, a...)
						if !emit(append(p, b...)...) {
							return false
						}
					}
					return true
				})
			})
		},
		run: func(c *ctx) {
			la := int(c.p[0])
			first, second := sOpsOf(c.p[2:2+la]), sOpsOf(c.p[2+la:])
			c.text = fmt.Sprint("stream history first=", first, " readFirstBeyondEnd=", c.p[1] == 1, " second=", second)
			c.nontrivial = true
			streamHistory(c, first, c.p[1] == 1, second)
		}})
}

func registerAll() {
	registerTSD()
	registerXorBit()
	registerDeltaFixed()
	registerMisc()
}
