// C14 harness: storage codecs are lossless.
//
// Bounded EXHAUSTIVE enumeration (never random) of inputs and reuse histories of the real lindb codecs
// (pkg/encoding TSD block / XOR / delta bit packing / fixed offset table / bitmap, pkg/bit, pkg/stream,
// pkg/compress snappy) against trivially simple reference models (slices of the original values).
//
// The work is organised in "families" (one per codec x kind of enumeration). Every family enumerates its
// cases as small integer parameter vectors in a fixed order; a global case index shards the work.
// A violation carries {fam, p} which --replay feeds back into the same family.
package main

import (
	"fmt"
	"strings"

	"github.com/lindb/lindb/internal/vevid"
)

// Case is the JSON-serialisable identity of one enumerated case.
type Case struct {
	Fam string  `json:"fam"`
	P   []int64 `json:"p"`
	// Human readable rendering of the case (not used by replay).
	Text string `json:"text,omitempty"`
}

type ctx struct {
	rep        *vevid.Report
	fam        string
	p          []int64
	text       string
	nontrivial bool
	thorough   bool
}

func (c *ctx) viol(clause, scenario, site, format string, a ...interface{}) {
	c.rep.Violate(vevid.Violation{
		Clause:   clause,
		Scenario: c.fam + "/" + scenario,
		Site:     site,
		Detail:   fmt.Sprintf(format, a...) + "\ncase: " + c.text,
		Replay:   Case{Fam: c.fam, P: append([]int64(nil), c.p...), Text: c.text},
	})
}

func (c *ctx) outcome(format string, a ...interface{}) {
	c.rep.Outcome(c.fam + ":" + fmt.Sprintf(format, a...))
}

type family struct {
	name string
	// enum calls emit for every case of the family (fixed order); emit returns false to stop.
	enum func(thorough bool, emit func(p ...int64) bool)
	// run drives the real code for one case and evaluates the oracle.
	run func(c *ctx)
}

var families []family

func register(f family) { families = append(families, f) }

func runCase(rep *vevid.Report, fam *family, p []int64, thorough bool) {
	c := &ctx{rep: rep, fam: fam.name, p: p, thorough: thorough}
	defer func() { // a panic inside lindb code for a legal input is a violation, not a harness crash
		if r := recover(); r != nil {
			c.viol("panic", "panic", "recover", "%v", r)
		}
	}()
	rep.Evaluations++
	fam.run(c)
	if c.nontrivial {
		rep.DistinctNontrivial++
	}
	rep.Count("cases_"+fam.name, 1)
	if rep.Counters["cases_"+fam.name] <= 1 && len(rep.Samples) < 6 {
		rep.Sample(Case{Fam: c.fam, P: append([]int64(nil), p...), Text: c.text})
	}
}

func main() {
	f := vevid.ParseFlags()
	rep := vevid.New("C14")
	registerAll()
	rep.Rule = "every family enumerates ALL its cases (all sequences up to the length bound over the sharp alphabets, all slot masks, " +
		"all ordered pairs/triples of blocks through one reused or pooled encoder/decoder); a case is one (input or history) x " +
		"(encode path) and is evaluated under every read mode; non-trivial = the case carries >=2 values/elements or is a reuse " +
		"history of >=2 blocks; distinct = distinct parameter vector (no case is generated twice)"
	var names []string
	for _, fm := range families {
		names = append(names, fm.name)
	}
	rep.Extra["families"] = strings.Join(names, ",")

	if f.Replay != "" {
		var c Case
		vevid.LoadReplay(f.Replay, &c)
		var fam *family
		for i := range families {
			if families[i].name == c.Fam {
				fam = &families[i]
			}
		}
		if fam == nil {
			vevid.Fatal("replay: unknown family %q", c.Fam)
		}
		fails := 0
		for i := 0; i < 5; i++ {
			before := rep.ViolationCount
			runCase(rep, fam, c.P, true)
			if rep.ViolationCount > before {
				fails++
			}
		}
		rep.Extra["replay_failures_of_5"] = fails
		rep.Write()
		return
	}

	th := f.Thorough()
	setBounds(rep, th)
	var idx int64
	stopped := false
	for i := range families {
		fam := &families[i]
		var total int64
		fam.enum(th, func(p ...int64) bool {
			idx++
			total++
			if !f.Mine(idx) {
				return true
			}
			if idx%4096 < int64(f.Shards) && f.Expired() {
				rep.Cap(fmt.Sprintf("deadline in family %s at case %d", fam.name, idx))
				stopped = true
				return false
			}
			runCase(rep, fam, p, th)
			return true
		})
		// space size of the family (identical in every shard; "max_" keys are merged with max)
		rep.Extra["max_space_"+fam.name] = total
		if stopped {
			break
		}
	}
	rep.Extra["max_space_total"] = idx
	rep.Write()
}
