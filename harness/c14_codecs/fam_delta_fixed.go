package main

import (
	"bytes"
	"fmt"

	"github.com/lindb/lindb/pkg/encoding"
)

// ---------------------------------------------------------------------------------------------------
// delta bit packing (int32). The format stores <number of values - 1>, i.e. it is defined for >= 1 value.

func ia(th bool) []int32 {
	if th {
		return IAthorough
	}
	return IA
}

func intsOf(th bool, s []int64) []int32 {
	a := ia(th)
	v := make([]int32, len(s))
	for i, x := range s {
		v[i] = a[x]
	}
	return v
}

func deltaDecodeCheck(c *ctx, d *encoding.DeltaBitPackingDecoder, vals []int32, upTo int, scen string) bool {
	i := 0
	for d.HasNext() {
		if upTo >= 0 && i >= upTo {
			return true
		}
		if i >= len(vals) {
			c.viol("roundtrip", scen, "DeltaBitPackingDecoder.HasNext", "more than the %d encoded values %v", len(vals), vals)
			return false
		}
		if got := d.Next(); got != vals[i] {
			c.viol("roundtrip", scen, "DeltaBitPackingDecoder.Next", "value %d: got %d want %d (values %v)", i, got, vals[i], vals)
			return false
		}
		i++
	}
	if i != len(vals) {
		c.viol("roundtrip", scen, "DeltaBitPackingDecoder.HasNext", "%d values decoded, %d encoded (values %v)", i, len(vals), vals)
		return false
	}
	return true
}

func deltaFresh(c *ctx, vals []int32, resetFirst bool) {
	e := encoding.NewDeltaBitPackingEncoder()
	scen := "fresh"
	if resetFirst {
		e.Reset()
		scen = "fresh+Reset"
	}
	for _, v := range vals {
		e.Add(v)
	}
	data := cp(e.Bytes())
	c.outcome("len=%d", len(data))
	deltaDecodeCheck(c, encoding.NewDeltaBitPackingDecoder(data), vals, -1, scen)
}

func deltaHistory(c *ctx, lists [][]int32, consumeAll bool) {
	e := encoding.NewDeltaBitPackingEncoder()
	var d *encoding.DeltaBitPackingDecoder
	for step, vals := range lists {
		if step > 0 {
			e.Reset()
		}
		for _, v := range vals {
			e.Add(v)
		}
		data := cp(e.Bytes())
		if d == nil {
			d = encoding.NewDeltaBitPackingDecoder(data)
		} else {
			d.Reset(data)
		}
		scen := "history"
		if step > 0 {
			scen = "history reused"
		}
		last := step == len(lists)-1
		upTo := -1
		if !last && !consumeAll {
			upTo = len(vals) / 2
		}
		if !deltaDecodeCheck(c, d, vals, upTo, scen) {
			return
		}
		if last {
			if !deltaDecodeCheck(c, encoding.NewDeltaBitPackingDecoder(data), vals, -1, scen+" fresh-decoder") {
				return
			}
			c.outcome("h len=%d", len(data))
		}
	}
}

// ---------------------------------------------------------------------------------------------------
// fixed offset table

func offsetsOf(s []int64) []int {
	v := make([]int, len(s))
	for i, x := range s {
		v[i] = OA[x]
	}
	return v
}

const (
	foAddMarshal  = 0
	foAddWrite    = 1
	foFromValues  = 2
	maxBlockCheck = 70000 // GetBlock is checked against a real data block when the largest offset is below this
)

var foSuffix = []byte{0xFF, 0x01, 0x80}

var dataBlockCache = map[int][]byte{}

func dataBlock(n int) []byte {
	if b, ok := dataBlockCache[n]; ok {
		return b
	}
	b := make([]byte, n)
	for i := range b {
		b[i] = byte(i*7 + i>>8)
	}
	dataBlockCache[n] = b
	return b
}

func foEncode(e *encoding.FixedOffsetEncoder, offs []int, api int) ([]byte, error) {
	switch api {
	case foFromValues:
		e.FromValues(append([]int{}, offs...))
		return cp(e.MarshalBinary()), nil
	case foAddWrite:
		for _, o := range offs {
			e.Add(o)
		}
		var buf bytes.Buffer
		err := e.Write(&buf)
		return cp(buf.Bytes()), err
	}
	for _, o := range offs {
		e.Add(o)
	}
	return cp(e.MarshalBinary()), nil
}

// foDecodeCheck: Unmarshal(data+suffix) then Size / Get(i) / GetBlock(i).
func foDecodeCheck(c *ctx, d *encoding.FixedOffsetDecoder, data []byte, offs []int, increasing bool, withSuffix bool, scen string) bool {
	in := data
	if withSuffix && len(offs) > 0 { // an empty table occupies no bytes: nothing can follow it meaningfully
		in = append(cp(data), foSuffix...)
	}
	left, err := d.Unmarshal(in)
	if len(offs) == 0 {
		// an empty table is written as nothing at all; readers see "no offsets"
		c.outcome("empty: %d bytes, unmarshal err=%v", len(data), err != nil)
		if d.Size() != 0 {
			c.viol("roundtrip", scen, "FixedOffsetDecoder.Size", "empty list decodes to size %d", d.Size())
			return false
		}
		if v, ok := d.Get(0); ok {
			c.viol("roundtrip", scen, "FixedOffsetDecoder.Get", "empty list: Get(0)=%d,true", v)
			return false
		}
		return true
	}
	if err != nil {
		c.viol("roundtrip", scen, "FixedOffsetDecoder.Unmarshal", "error %v for offsets %v", err, offs)
		return false
	}
	if withSuffix && !bytes.Equal(left, foSuffix) || !withSuffix && len(left) != 0 {
		c.viol("roundtrip", scen, "FixedOffsetDecoder.Unmarshal", "remaining buffer %x, appended %v (offsets %v)", left, withSuffix, offs)
		return false
	}
	if d.Size() != len(offs) {
		c.viol("roundtrip", scen, "FixedOffsetDecoder.Size", "size %d, encoded %d offsets %v", d.Size(), len(offs), offs)
		return false
	}
	for i, want := range offs {
		got, ok := d.Get(i)
		if !ok || got != want {
			c.viol("roundtrip", scen, "FixedOffsetDecoder.Get", "Get(%d)=%d,%v want %d (offsets %v, width %d)", i, got, ok, want, offs, d.ValueWidth())
			return false
		}
	}
	if _, ok := d.Get(len(offs)); ok {
		c.viol("roundtrip", scen, "FixedOffsetDecoder.Get", "Get(%d) beyond the %d encoded offsets reports ok", len(offs), len(offs))
		return false
	}
	if _, ok := d.Get(-1); ok {
		c.viol("roundtrip", scen, "FixedOffsetDecoder.Get", "Get(-1) reports ok")
		return false
	}
	if increasing && offs[len(offs)-1] < maxBlockCheck {
		db := dataBlock(offs[len(offs)-1] + 2)
		for i := range offs {
			end := len(db)
			if i+1 < len(offs) {
				end = offs[i+1]
			}
			blk, err := d.GetBlock(i, db)
			if err != nil {
				c.viol("roundtrip", scen, "FixedOffsetDecoder.GetBlock", "GetBlock(%d) error %v (offsets %v)", i, err, offs)
				return false
			}
			want := db[offs[i]:end]
			if !bytes.Equal(blk, want) {
				c.viol("roundtrip", scen, "FixedOffsetDecoder.GetBlock", "GetBlock(%d) is not dataBlock[%d:%d] (len %d) (offsets %v)", i, offs[i], end, len(blk), offs)
				return false
			}
		}
	}
	return true
}

func foFresh(c *ctx, offs []int, api int, increasing bool, withSuffix bool) {
	scen := fmt.Sprintf("fresh api=%d inc=%v", api, increasing)
	e := encoding.NewFixedOffsetEncoder(increasing)
	data, err := foEncode(e, offs, api)
	if err != nil {
		c.viol("roundtrip", scen, "FixedOffsetEncoder.Write", "%v", err)
		return
	}
	if len(offs) > 0 {
		c.outcome("width=%d n=%d", data[0], len(offs))
	}
	foDecodeCheck(c, encoding.NewFixedOffsetDecoder(), data, offs, increasing, withSuffix, scen)
}

// foHistory: lists through ONE encoder (Reset between) and ONE decoder (held, or pooled Get/Release)
func foHistory(c *ctx, lists [][]int, pooled bool, api int) {
	e := encoding.NewFixedOffsetEncoder(true)
	var held, lastDec *encoding.FixedOffsetDecoder
	for step, offs := range lists {
		if step > 0 {
			e.Reset()
		}
		data, err := foEncode(e, offs, api)
		if err != nil {
			c.viol("reuse", "history", "FixedOffsetEncoder.Write", "%v", err)
			return
		}
		var d *encoding.FixedOffsetDecoder
		if pooled {
			d = encoding.GetFixedOffsetDecoder()
			if lastDec != nil {
				if d == lastDec {
					c.rep.Count("fo_decoder_pool_hits", 1)
				} else {
					c.rep.Count("fo_decoder_pool_misses", 1)
				}
			}
			lastDec = d
		} else {
			if held == nil {
				held = encoding.NewFixedOffsetDecoder()
			}
			d = held
		}
		scen := fmt.Sprintf("history pooled=%v api=%d", pooled, api)
		if step > 0 {
			scen += " reused"
		}
		ok := foDecodeCheck(c, d, data, offs, true, step%2 == 1, scen)
		if pooled {
			encoding.ReleaseFixedOffsetDecoder(d)
		}
		if !ok {
			return
		}
		if step == len(lists)-1 {
			if !foDecodeCheck(c, encoding.NewFixedOffsetDecoder(), data, offs, true, false, scen+" fresh-decoder") {
				return
			}
			c.outcome("h len=%d", len(data))
		}
	}
}

// history list set: curated + all multisets of size <=2
var foHistLists [][]int

// small set for triples
var foHist3 [][]int

func init() {
	foHistLists = append(foHistLists, OCurated...)
	multisets(len(OA), 1, 2, func(s []int64) bool {
		foHistLists = append(foHistLists, offsetsOf(s))
		return true
	})
	foHist3 = append(foHist3, OCurated...)
	for _, o := range OA {
		foHist3 = append(foHist3, []int{o})
	}
	foHist3 = append(foHist3, []int{0, 1, 2, 3, 4}, []int{255, 256, 257}, []int{65535, 65535, 65536}, []int{1 << 24, 1<<32 - 1})
}

func registerDeltaFixed() {
	register(family{name: "delta.seq",
		enum: func(th bool, emit func(p ...int64) bool) {
			L := 4
			if th {
				L = 5
			}
			seqs(len(ia(th)), 1, L, func(s []int64) bool {
				for r := int64(0); r < 2; r++ {
					if !emit(append([]int64{r}, s...)...) {
						return false
					}
				}
				return true
			})
		},
		run: func(c *ctx) {
			vals := intsOf(c.thorough, c.p[1:])
			c.text = fmt.Sprintf("delta resetFirst=%v values=%v (alphabet thorough=%v)", c.p[0] == 1, vals, c.thorough)
			c.nontrivial = len(vals) >= 2
			deltaFresh(c, vals, c.p[0] == 1)
		}})

	// the zig-zag pair the delta codec stores its min delta with (exported: ZigZagEncode / ZigZagDecode)
	register(family{name: "delta.zigzag",
		enum: func(th bool, emit func(p ...int64) bool) {
			for i := range ZA {
				if !emit(int64(i)) {
					return
				}
			}
		},
		run: func(c *ctx) {
			x := ZA[c.p[0]]
			c.text = fmt.Sprintf("zigzag %d", x)
			c.nontrivial = x != 0
			enc := encoding.ZigZagEncode(x)
			if got := encoding.ZigZagDecode(enc); got != x {
				c.viol("roundtrip", "zigzag", "encoding.ZigZagDecode", "ZigZagDecode(ZigZagEncode(%d)=%d) = %d", x, enc, got)
			}
			c.outcome("parity=%d", enc&1)
		}})

	register(family{name: "delta.hist",
		enum: func(th bool, emit func(p ...int64) bool) {
			n := len(ia(th))
			seqs(n, 1, 2, func(a []int64) bool {
				return seqs(n, 1, 3, func(b []int64) bool {
					for all := int64(0); all < 2; all++ {
						p := append([]int64{all, int64(len(a)), -1}, a...)
						if !emit(append(p, b...)...) {
							return false
						}
					}
					return true
				})
			})
			if !th {
				return
			}
			seqs(n, 1, 2, func(a []int64) bool {
				return seqs(n, 1, 2, func(b []int64) bool {
					return seqs(n, 1, 2, func(d []int64) bool {
						p := append([]int64{1, int64(len(a)), int64(len(b))}, a...)
						p = append(p, b...)
						return emit(append(p, d...)...)
					})
				})
			})
		},
		run: func(c *ctx) {
			all, la, lb := c.p[0] == 1, int(c.p[1]), int(c.p[2])
			rest := c.p[3:]
			var lists [][]int32
			lists = append(lists, intsOf(c.thorough, rest[:la]))
			if lb < 0 {
				lists = append(lists, intsOf(c.thorough, rest[la:]))
			} else {
				lists = append(lists, intsOf(c.thorough, rest[la:la+lb]), intsOf(c.thorough, rest[la+lb:]))
			}
			c.text = fmt.Sprintf("delta history consumeAll=%v lists=%v (alphabet thorough=%v)", all, lists, c.thorough)
			c.nontrivial = true
			deltaHistory(c, lists, all)
		}})

	// long value lists (the enumerated ones stop at 4-5 values): lengths around powers of two x 5 value patterns
	register(family{name: "delta.long",
		enum: func(th bool, emit func(p ...int64) bool) {
			for _, n := range []int64{63, 64, 65, 127, 128, 129, 255, 256, 257, 511, 512, 513, 1000, 4097} {
				for pat := int64(0); pat < 5; pat++ {
					for r := int64(0); r < 2; r++ {
						if !emit(r, n, pat) {
							return
						}
					}
				}
			}
		},
		run: func(c *ctx) {
			n, pat := int(c.p[1]), c.p[2]
			vals := make([]int32, n)
			x := uint32(12345)
			for i := range vals {
				switch pat {
				case 0: // constant
					vals[i] = 7
				case 1: // +1 steps
					vals[i] = int32(i)
				case 2: // alternating extremes
					if i%2 == 0 {
						vals[i] = 2147483647
					} else {
						vals[i] = -2147483648
					}
				case 3: // growing steps (the common width grows along the list)
					vals[i] = int32(i * i * 3)
				case 4: // fixed pseudo-random walk (xorshift, no clock, no seed)
					x ^= x << 13
					x ^= x >> 17
					x ^= x << 5
					vals[i] = int32(x)
				}
			}
			c.text = fmt.Sprintf("delta long list n=%d pattern=%d resetFirst=%v", n, pat, c.p[0] == 1)
			c.nontrivial = true
			deltaFresh(c, vals, c.p[0] == 1)
		}})

	register(family{name: "fo.list",
		enum: func(th bool, emit func(p ...int64) bool) {
			// kind 3: long list index (OLong) ; kind 0: curated list index ; kind 1: non-decreasing multiset of OA (<=4) ; kind 2: any order (<=3), ensureIncreasing=false
			for i := range OCurated {
				for api := int64(0); api < 3; api++ {
					for sfx := int64(0); sfx < 2; sfx++ {
						if !emit(0, api, sfx, int64(i)) {
							return
						}
					}
				}
			}
			for i := range OLong {
				for api := int64(0); api < 3; api++ {
					for sfx := int64(0); sfx < 2; sfx++ {
						if !emit(3, api, sfx, int64(i)) {
							return
						}
					}
				}
			}
			ok := multisets(len(OA), 1, 4, func(s []int64) bool {
				for api := int64(0); api < 3; api++ {
					for sfx := int64(0); sfx < 2; sfx++ {
						if !emit(append([]int64{1, api, sfx}, s...)...) {
							return false
						}
					}
				}
				return true
			})
			if !ok {
				return
			}
			seqs(len(OA), 1, 3, func(s []int64) bool {
				for api := int64(0); api < 3; api += 2 {
					if !emit(append([]int64{2, api, 0}, s...)...) {
						return false
					}
				}
				return true
			})
		},
		run: func(c *ctx) {
			kind, api, sfx := c.p[0], int(c.p[1]), c.p[2] == 1
			var offs []int
			if kind == 0 {
				offs = OCurated[c.p[3]]
			} else if kind == 3 {
				offs = OLong[c.p[3]]
			} else {
				offs = offsetsOf(c.p[3:])
			}
			if kind == 3 {
				c.text = fmt.Sprintf("%d offsets 0..%d (evenly spaced) api=%d suffix=%v", len(offs), offs[len(offs)-1], api, sfx)
			} else {
				c.text = fmt.Sprintf("offsets %v api=%d increasing=%v suffix=%v", offs, api, kind != 2, sfx)
			}
			c.nontrivial = len(offs) >= 2
			foFresh(c, offs, api, kind != 2, sfx)
		}})

	register(family{name: "fo.hist",
		enum: func(th bool, emit func(p ...int64) bool) {
			n := int64(len(foHistLists))
			for a := int64(0); a < n; a++ {
				for b := int64(0); b < n; b++ {
					for m := int64(0); m < 4; m++ {
						if !emit(m, a, b) {
							return
						}
					}
				}
			}
			if !th {
				return
			}
			n3 := int64(len(foHist3))
			for a := int64(0); a < n3; a++ {
				for b := int64(0); b < n3; b++ {
					for d := int64(0); d < n3; d++ {
						for m := int64(0); m < 4; m++ {
							if !emit(m, a, b, d, -3) {
								return
							}
						}
					}
				}
			}
		},
		run: func(c *ctx) {
			m := c.p[0]
			var lists [][]int
			if c.p[len(c.p)-1] == -3 {
				for _, x := range c.p[1:4] {
					lists = append(lists, foHist3[x])
				}
			} else {
				for _, x := range c.p[1:] {
					lists = append(lists, foHistLists[x])
				}
			}
			c.text = fmt.Sprintf("offset history pooled=%v api=%d lists=%v", m%2 == 1, m/2, lists)
			c.nontrivial = true
			foHistory(c, lists, m%2 == 1, int(m/2))
		}})

	// a decoder that is given up in the middle of a table (one block read, any index) and then reads another table,
	// whose first block access is at any index - not necessarily 0, not in order (held decoder / pooled decoder)
	register(family{name: "fo.partial",
		enum: func(th bool, emit func(p ...int64) bool) {
			n := int64(len(foHistLists))
			for a := int64(0); a < n; a++ {
				for b := int64(0); b < n; b++ {
					for pooled := int64(0); pooled < 2; pooled++ {
						if !emit(pooled, a, b) {
							return
						}
					}
				}
			}
		},
		run: func(c *ctx) {
			a, b := foHistLists[c.p[1]], foHistLists[c.p[2]]
			pooled := c.p[0] == 1
			c.text = fmt.Sprintf("offset tables %v then %v through one decoder (pooled=%v), first table given up after one block", a, b, pooled)
			c.nontrivial = len(a) > 0 && len(b) > 0
			if len(a) == 0 || len(b) == 0 || a[len(a)-1] >= maxBlockCheck || b[len(b)-1] >= maxBlockCheck {
				c.outcome("partial: skipped")
				return
			}
			ea, eb := encoding.NewFixedOffsetEncoder(true), encoding.NewFixedOffsetEncoder(true)
			da, err1 := foEncode(ea, a, foAddWrite)
			db, err2 := foEncode(eb, b, foAddWrite)
			if err1 != nil || err2 != nil {
				c.outcome("partial: not encodable")
				return
			}
			blockA, blockB := dataBlock(a[len(a)-1]+2), dataBlock(b[len(b)-1]+2)
			for k := range a {
				for j := range b {
					var d *encoding.FixedOffsetDecoder
					if pooled {
						d = encoding.GetFixedOffsetDecoder()
					} else {
						d = encoding.NewFixedOffsetDecoder()
					}
					if _, err := d.Unmarshal(da); err != nil {
						c.viol("reuse", "partial", "FixedOffsetDecoder.Unmarshal", "error %v for offsets %v", err, a)
						return
					}
					if _, err := d.GetBlock(k, blockA); err != nil {
						c.viol("reuse", "partial", "FixedOffsetDecoder.GetBlock", "GetBlock(%d) error %v (offsets %v)", k, err, a)
						return
					}
					if pooled {
						encoding.ReleaseFixedOffsetDecoder(d)
						d = encoding.GetFixedOffsetDecoder()
					}
					if _, err := d.Unmarshal(db); err != nil {
						c.viol("reuse", "partial", "FixedOffsetDecoder.Unmarshal", "error %v for offsets %v", err, b)
						return
					}
					end := len(blockB)
					if j+1 < len(b) {
						end = b[j+1]
					}
					blk, err := d.GetBlock(j, blockB)
					if err != nil || !bytes.Equal(blk, blockB[b[j]:end]) {
						c.viol("reuse", "partial", "FixedOffsetDecoder.GetBlock",
							"decoder read block %d of offsets %v, then offsets %v: GetBlock(%d) = %d bytes, err %v; want dataBlock[%d:%d]", k, a, b, j, len(blk), err, b[j], end)
						return
					}
					if pooled {
						encoding.ReleaseFixedOffsetDecoder(d)
					}
				}
			}
			c.outcome("partial: multi=%v x multi=%v", len(a) > 1, len(b) > 1)
		}})
}
