package main

import (
	"fmt"
	"math"

	"github.com/lindb/lindb/internal/vevid"
)

var piBits = math.Float64bits(math.Pi)

// FA is the float alphabet (as IEEE-754 bit patterns).
var FA = []uint64{
	0x0000000000000000,                // 0  +0
	0x8000000000000000,                // 1  -0
	math.Float64bits(1),               // 2
	math.Float64bits(-1),              // 3
	math.Float64bits(1.5),             // 4
	piBits,                            // 5
	math.Float64bits(math.MaxFloat64), // 6
	0x0000000000000001,                // 7  smallest subnormal
	0x000FFFFFFFFFFFFF,                // 8  largest subnormal
	0x7FF0000000000000,                // 9  +Inf
	0xFFF0000000000000,                // 10 -Inf
	0x7FF8000000000000,                // 11 quiet NaN
	0x7FF000000000BEEF,                // 12 signalling NaN with payload
	piBits ^ 1,                        // 13 differs from pi in the last (trailing) bit
	piBits ^ (1 << 63),                // 14 differs from pi in the first (leading) bit
}

var faName = []string{"+0", "-0", "1", "-1", "1.5", "pi", "MaxF", "subMin", "subMax", "+Inf", "-Inf", "qNaN", "sNaN", "pi^1", "pi^msb"}

const posInf = 9 // index of +Inf in FA

func faSeqText(ix []int64) string {
	s := "["
	for i, x := range ix {
		if i > 0 {
			s += " "
		}
		s += faName[x]
	}
	return s + "]"
}

// IA is the int32 alphabet for delta bit packing.
var IA = []int32{0, 1, -1, math.MaxInt32, math.MinInt32, math.MaxInt32 - 1, math.MinInt32 + 1, 1 << 30, -(1 << 30)}

// IAthorough extends IA.
var IAthorough = []int32{0, 1, -1, math.MaxInt32, math.MinInt32, math.MaxInt32 - 1, math.MinInt32 + 1, 1 << 30, -(1 << 30), 2, 255, 256, -65536}

// ZA is the int64 alphabet for the zig-zag pair.
var ZA = []int64{0, 1, -1, 2, -2, 63, 64, -64, -65, math.MaxInt32, math.MinInt32, 1 << 31, -(1 << 31) - 1, 1 << 62, -(1 << 62), math.MaxInt64, math.MinInt64, math.MaxInt64 - 1, math.MinInt64 + 1}

// OA is the boundary alphabet for offsets.
var OA = []int{0, 1, 255, 256, 257, 65535, 65536, 65537, 1<<24 - 1, 1 << 24, 1<<24 + 1, 1<<31 - 1, 1 << 31, 1<<32 - 2, 1<<32 - 1}

// curated offset lists
var OCurated = [][]int{{}, {0}, {0, 0}, {0, 255}, {0, 256}, {0, 65535, 65536}, {1<<32 - 1}}

// OLong: long offset lists, one set per width of the fixed-width table (largest offset below 2^8, 2^16, 2^24, 2^32)
// with lengths around powers of two and around 512/width (170, 171, 172 entries of width 3 fill 510, 513, 516 bytes).
var OLong = func() [][]int {
	var out [][]int
	for _, max := range []int{200, 60000, 1 << 20, 1<<32 - 1} {
		for _, n := range []int{127, 128, 129, 170, 171, 172, 255, 256, 257, 511, 512, 513, 1025} {
			l := make([]int, n)
			step := max / n
			if step == 0 {
				step = 1
			}
			for i := range l {
				l[i] = i * step
				if l[i] > max {
					l[i] = max
				}
			}
			l[n-1] = max
			out = append(out, l)
		}
	}
	return out
}()

// KA is the bitmap key alphabet.
var KA = []uint32{0, 1, 2, 65535, 65536, 65537, 1 << 31, 1<<32 - 2, 1<<32 - 1}

const (
	runLo = 100
	runHi = 4300 // inclusive
)

// seqs enumerates all sequences over [0,alpha) with minLen<=len<=maxLen in length-then-lexicographic order.
func seqs(alpha, minLen, maxLen int, f func(s []int64) bool) bool {
	for l := minLen; l <= maxLen; l++ {
		s := make([]int64, l)
		for {
			if !f(s) {
				return false
			}
			i := l - 1
			for i >= 0 {
				s[i]++
				if s[i] < int64(alpha) {
					break
				}
				s[i] = 0
				i--
			}
			if i < 0 {
				break
			}
		}
	}
	return true
}

// multisets enumerates all non-decreasing sequences over [0,alpha) with minLen<=len<=maxLen.
func multisets(alpha, minLen, maxLen int, f func(s []int64) bool) bool {
	var rec func(s []int64, from, left int) bool
	rec = func(s []int64, from, left int) bool {
		if left == 0 {
			return f(s)
		}
		for v := from; v < alpha; v++ {
			if !rec(append(s, int64(v)), v, left-1) {
				return false
			}
		}
		return true
	}
	for l := minLen; l <= maxLen; l++ {
		if !rec(make([]int64, 0, l), 0, l) {
			return false
		}
	}
	return true
}

func countSeqs(alpha, minLen, maxLen int) int64 {
	var n int64
	for l := minLen; l <= maxLen; l++ {
		k := int64(1)
		for i := 0; i < l; i++ {
			k *= int64(alpha)
		}
		n += k
	}
	return n
}

// detBytes returns n deterministic high-entropy bytes (xorshift64*; fixed seed: this is an input
// constant, not sampling).
func detBytes(n int, seed uint64) []byte {
	b := make([]byte, n)
	x := seed
	for i := range b {
		x ^= x >> 12
		x ^= x << 25
		x ^= x >> 27
		b[i] = byte((x * 2685821657736338717) >> 56)
	}
	return b
}

func setBounds(rep *vevid.Report, th bool) {
	L := 3
	if th {
		L = 4
	}
	rep.Bounds["float_alphabet"] = fmt.Sprint(faName)
	rep.Bounds["float_seq_len"] = L
	rep.Bounds["slot_masks"] = "all 2^n masks for n=0..12 slots x start in {0,1,65523}"
	rep.Bounds["history_depth"] = map[bool]string{false: "ordered pairs", true: "ordered pairs and triples"}[th]
	rep.Bounds["int32_alphabet"] = fmt.Sprint(map[bool][]int32{false: IA, true: IAthorough}[th])
	rep.Bounds["offset_alphabet"] = fmt.Sprint(OA)
	rep.Bounds["bitmap_keys"] = fmt.Sprint(KA, " + run [100..4300]")
}

func bitsText(v []uint64) string {
	s := "["
	for i, x := range v {
		if i > 0 {
			s += " "
		}
		s += fmt.Sprintf("%016x", x)
	}
	return s + "]"
}
