package main

import (
	"fmt"
	"math"

	"github.com/lindb/lindb/pkg/bit"
	"github.com/lindb/lindb/pkg/encoding"
)

// blk is the reference model of one time-series block: n consecutive slots from start, some with a value.
type blk struct {
	start uint16
	has   []bool
	vals  []uint64
}

func (b *blk) n() int { return len(b.has) }
func (b *blk) end() uint16 {
	return b.start + uint16(len(b.has)) - 1
}
func (b *blk) String() string {
	s := fmt.Sprintf("start=%d n=%d slots=", b.start, len(b.has))
	for i, h := range b.has {
		if h {
			s += fmt.Sprintf("%d:%016x ", i, b.vals[i])
		} else {
			s += fmt.Sprintf("%d:- ", i)
		}
	}
	return s
}

var tsdStarts = []uint16{0, 1, 65523}

// value patterns for mask blocks: value of the k-th present slot
func patValue(pat int, k int) uint64 {
	switch pat {
	case 0: // identical values (XOR delta == 0)
		return FA[4]
	case 1: // rotating through the whole alphabet
		return FA[k%len(FA)]
	default: // alternating windows: leading-bit flip, trailing-bit flip, wide change
		return []uint64{piBits, piBits ^ 1, piBits ^ (1 << 63), FA[6], FA[7], piBits}[k%6]
	}
}

func maskBlock(start uint16, n int, mask uint64, pat int) *blk {
	b := &blk{start: start, has: make([]bool, n), vals: make([]uint64, n)}
	k := 0
	for i := 0; i < n; i++ {
		if mask&(1<<uint(i)) != 0 {
			b.has[i] = true
			b.vals[i] = patValue(pat, k)
			k++
		}
	}
	return b
}

func denseBlock(start uint16, seq []int64) *blk {
	b := &blk{start: start, has: make([]bool, len(seq)), vals: make([]uint64, len(seq))}
	for i, x := range seq {
		b.has[i] = true
		b.vals[i] = FA[x]
	}
	return b
}

const (
	apiAppend = 0 // AppendTime + AppendValue
	apiEmit   = 1 // EmitDownSamplingValue (+Inf is the documented "no value" sentinel of this API)
)

// feed drives the encoder with the block. It returns the model of what was legally encoded (for the
// Emit API a +Inf value is by contract "no value").
func feed(e *encoding.TSDEncoder, b *blk, api int) *blk {
	if api == apiAppend {
		for i := range b.has {
			if b.has[i] {
				e.AppendTime(bit.One)
				e.AppendValue(b.vals[i])
			} else {
				e.AppendTime(bit.Zero)
			}
		}
		return b
	}
	m := &blk{start: b.start, has: make([]bool, b.n()), vals: make([]uint64, b.n())}
	for i := range b.has {
		if b.has[i] && b.vals[i] != FA[posInf] {
			e.EmitDownSamplingValue(i, math.Float64frombits(b.vals[i]))
			m.has[i], m.vals[i] = true, b.vals[i]
		} else {
			e.EmitDownSamplingValue(i, math.Inf(1))
		}
	}
	return m
}

func cp(b []byte) []byte {
	if b == nil {
		return nil
	}
	return append([]byte{}, b...)
}

// read modes ------------------------------------------------------------------------------------------

// readSeq: for Next() { if HasValue() { Slot(), Value() } }
func readSeq(c *ctx, d *encoding.TSDDecoder, b *blk, scen string) bool {
	i := 0
	for d.Next() {
		if i >= b.n() {
			c.viol("roundtrip", scen, "TSDDecoder.Next", "Next() yields more than the %d encoded slots", b.n())
			return false
		}
		hv := d.HasValue()
		if hv != b.has[i] {
			c.viol("roundtrip", scen, "TSDDecoder.HasValue", "slot index %d: HasValue()=%v, encoded %v (block %s)", i, hv, b.has[i], b)
			return false
		}
		if hv {
			if s := d.Slot(); s != b.start+uint16(i) {
				c.viol("roundtrip", scen, "TSDDecoder.Slot", "slot index %d: Slot()=%d want %d", i, s, b.start+uint16(i))
				return false
			}
			if v := d.Value(); v != b.vals[i] {
				c.viol("roundtrip", scen, "TSDDecoder.Value", "sequential read, slot index %d: got %016x want %016x (block %s)", i, v, b.vals[i], b)
				return false
			}
		}
		i++
	}
	if i != b.n() {
		c.viol("roundtrip", scen, "TSDDecoder.Next", "Next() yields %d slots, encoded %d", i, b.n())
		return false
	}
	if err := d.Error(); err != nil {
		c.viol("roundtrip", scen, "TSDDecoder.Error", "decoder error after a complete sequential read: %v (block %s)", err, b)
		return false
	}
	return true
}

// readHVS: for slot := start-1 .. end+1 { if HasValueWithSlot(slot) { Value() } } ; upTo limits the number of
// in-range slots read (partial consumption), <0 = all.
func readHVS(c *ctx, d *encoding.TSDDecoder, b *blk, scen string, upTo int) bool {
	lo, hi := int(b.start)-1, int(b.start)+b.n()
	if lo < 0 {
		lo = 0
	}
	if hi > 65535 {
		hi = 65535
	}
	read := 0
	for s := lo; s <= hi; s++ {
		i := s - int(b.start)
		in := i >= 0 && i < b.n()
		if in && upTo >= 0 && read >= upTo {
			return true
		}
		hv := d.HasValueWithSlot(uint16(s))
		want := in && b.has[i]
		if hv != want {
			c.viol("slot-read", scen, "TSDDecoder.HasValueWithSlot", "slot %d: HasValueWithSlot=%v, sequential model says %v (block %s)", s, hv, want, b)
			return false
		}
		if hv {
			if v := d.Value(); v != b.vals[i] {
				c.viol("slot-read", scen, "TSDDecoder.Value", "slot %d: got %016x want %016x (block %s)", s, v, b.vals[i], b)
				return false
			}
		}
		if in {
			read++
		}
	}
	if err := d.Error(); err != nil {
		c.viol("slot-read", scen, "TSDDecoder.Error", "decoder error after a complete slot-addressed read: %v", err)
		return false
	}
	return true
}

// readGV: GetValue(slot) for every slot from `from` (slot index) to the end (+1 beyond).
func readGV(c *ctx, d *encoding.TSDDecoder, b *blk, scen string, from int) bool {
	hi := int(b.start) + b.n()
	if hi > 65535 {
		hi = 65535
	}
	for s := int(b.start) + from; s <= hi; s++ {
		i := s - int(b.start)
		in := i < b.n()
		f, ok := d.GetValue(uint16(s))
		want := in && b.has[i]
		if ok != want {
			c.viol("slot-read", scen, "TSDDecoder.GetValue", "slot %d: GetValue ok=%v, sequential model says %v (block %s)", s, ok, want, b)
			return false
		}
		if ok && math.Float64bits(f) != b.vals[i] {
			c.viol("slot-read", scen, "TSDDecoder.GetValue", "slot %d: got %016x want %016x (block %s)", s, math.Float64bits(f), b.vals[i], b)
			return false
		}
	}
	return true
}

// readSeek: Seek(target) (repeated while it reports false: it stops at every empty slot on the way) and then
// slot-addressed reads from target must agree with the model.
func readSeek(c *ctx, d *encoding.TSDDecoder, b *blk, scen string, target int) bool {
	ok := false
	for try := 0; try <= b.n()+1 && !ok; try++ {
		ok = d.Seek(b.start + uint16(target))
	}
	if !ok {
		c.viol("seek", scen, "TSDDecoder.Seek", "Seek(%d) never reaches the slot (block %s)", int(b.start)+target, b)
		return false
	}
	return readGV(c, d, b, scen+"+seek", target)
}

func checkRange(c *ctx, d *encoding.TSDDecoder, b *blk, scen string) bool {
	if d.StartTime() != b.start || d.EndTime() != b.end() {
		c.viol("roundtrip", scen, "TSDDecoder.StartTime/EndTime", "slot range [%d,%d], encoded [%d,%d]", d.StartTime(), d.EndTime(), b.start, b.end())
		return false
	}
	return true
}

// verifyAll evaluates every read mode; mk returns a decoder positioned at the begin of the block.
func verifyAll(c *ctx, mk func() *encoding.TSDDecoder, m *blk, scen string, seekAll bool) bool {
	d := mk()
	if !checkRange(c, d, m, scen) || !readSeq(c, d, m, scen) {
		return false
	}
	if !readHVS(c, mk(), m, scen, -1) {
		return false
	}
	if !readGV(c, mk(), m, scen, 0) {
		return false
	}
	for t := 0; t < m.n(); t++ {
		if !seekAll && t != m.n()/2 && t != m.n()-1 {
			continue
		}
		if !readSeek(c, mk(), m, scen, t) {
			return false
		}
	}
	return true
}

const (
	outBytes       = 0 // Bytes() -> Reset(data)
	outWithoutTime = 1 // BytesWithoutTime() -> ResetWithTimeRange(data, start, end)
)

// oneBlock: fresh encoder, fresh decoders, all read modes.
func oneBlock(c *ctx, b *blk, api, out int, seekAll bool) {
	scen := fmt.Sprintf("fresh api=%d out=%d", api, out)
	e := encoding.NewTSDEncoder(b.start)
	m := feed(e, b, api)
	var data []byte
	var err error
	if out == outBytes {
		data, err = e.Bytes()
	} else {
		data, err = e.BytesWithoutTime()
	}
	if err != nil {
		c.viol("roundtrip", scen, "TSDEncoder.Bytes", "encoder error %v", err)
		return
	}
	data = cp(data)
	c.outcome("len=%d", len(data))
	if b.n() == 0 {
		if out == outBytes && data != nil {
			c.viol("roundtrip", scen, "TSDEncoder.Bytes", "empty block encodes to %d bytes (documented: nil)", len(data))
		}
		return
	}
	mk := func() *encoding.TSDDecoder {
		if out == outBytes {
			return encoding.NewTSDDecoder(data)
		}
		d := encoding.NewTSDDecoder(nil)
		d.ResetWithTimeRange(data, m.start, m.end())
		return d
	}
	verifyAll(c, mk, m, scen, seekAll)
}

// ---------------------------------------------------------------------------------------------------
// history blocks

func histBlock(id int) *blk {
	st := tsdStarts[id%3]
	switch {
	case id == 0:
		return &blk{start: 0}
	case id <= 15:
		return denseBlock(st, []int64{int64(id - 1)})
	case id <= 240:
		k := id - 16
		return denseBlock(st, []int64{int64(k / 15), int64(k % 15)})
	default:
		k := id - 241
		masks := []uint64{0x000, 0xFFF, 0x001, 0x800, 0xAAA, 0x555, 0x00F, 0xF00}
		return maskBlock(st, 12, masks[k%8], 1+k/8)
	}
}

const histBlocks = 257

// small block set for triples
var hist3 []int

func init() {
	hist3 = append(hist3, 0)
	for i := 1; i <= 15; i++ {
		hist3 = append(hist3, i)
	}
	for i := 0; i < 15; i++ { // pairs (FA[i], FA[i+1 mod 15])
		hist3 = append(hist3, 16+i*15+(i+1)%15)
	}
	for k := 0; k < 8; k++ {
		hist3 = append(hist3, 241+k)
	}
}

// history: blocks ids through ONE encoder and ONE decoder.
//
//	encMode 0: encoder obtained from / released to the pool for every block (GetTSDEncoder / ReleaseTSDEncoder)
//	encMode 1: one held encoder, RestWithStartTime before every block
//	decMode 0: decoder obtained from / released to the pool for every block, Reset(data)   (Bytes())
//	decMode 1: one held decoder, Reset(data)                                                (Bytes())
//	decMode 2: one held decoder, ResetWithTimeRange(data, start, end)                       (BytesWithoutTime())
//	consume  0/1/2: blocks before the last one are not read / read up to the middle / read completely
//	abandon: blocks before the last one are fed to the encoder and then given up (no Bytes()): the encoder goes back
//	to the pool / is reset with a partly written block inside
func history(c *ctx, ids []int, encMode, decMode, consume int, abandon bool) {
	scen := fmt.Sprintf("history enc=%d dec=%d consume=%d", encMode, decMode, consume)
	if abandon {
		scen += " abandon"
	}
	var held *encoding.TSDEncoder
	var heldDec *encoding.TSDDecoder
	var lastEnc *encoding.TSDEncoder
	var lastDec *encoding.TSDDecoder
	var prevM *blk // the last non-empty block that went through the decoder
	for step, id := range ids {
		b := histBlock(id)
		var e *encoding.TSDEncoder
		if encMode == 0 {
			e = encoding.GetTSDEncoder(b.start)
			if step > 0 {
				if e == lastEnc {
					c.rep.Count("tsd_encoder_pool_hits", 1)
				} else {
					c.rep.Count("tsd_encoder_pool_misses", 1)
				}
			}
			lastEnc = e
		} else {
			if held == nil {
				held = encoding.NewTSDEncoder(b.start)
			} else {
				held.RestWithStartTime(b.start)
			}
			e = held
		}
		m := feed(e, b, apiAppend)
		if abandon && step < len(ids)-1 {
			if encMode == 0 {
				encoding.ReleaseTSDEncoder(e)
			}
			continue
		}
		var data []byte
		var err error
		if decMode == 2 {
			data, err = e.BytesWithoutTime()
		} else {
			data, err = e.Bytes()
		}
		data = cp(data) // the encoder's buffer is reused: callers copy or flush before the next use
		if encMode == 0 {
			encoding.ReleaseTSDEncoder(e)
		}
		if err != nil {
			c.viol("reuse", scen, "TSDEncoder.Bytes", "step %d: encoder error %v", step, err)
			return
		}
		if b.n() == 0 {
			if decMode != 2 && data != nil {
				c.viol("reuse", scen, "TSDEncoder.Bytes", "step %d: empty block through a reused encoder encodes to %d bytes", step, len(data))
				return
			}
			if decMode == 2 && heldDec != nil && prevM != nil {
				// a field without data in the time range of its neighbour (what the stream reader hands the shared decoder
				// for such a field): the decoder that read - partly or completely - another block before delivers nothing
				heldDec.ResetWithTimeRange(data, prevM.start, prevM.end())
				for sl := int(prevM.start); sl <= int(prevM.end()); sl++ {
					if heldDec.HasValueWithSlot(uint16(sl)) {
						c.viol("reuse", scen+" reused", "TSDDecoder.ResetWithTimeRange", "step %d: an empty block (0 bytes) read through a decoder that was used for block %s before delivers a value at slot %d (%016x)", step, prevM, sl, heldDec.Value())
						return
					}
				}
				heldDec.ResetWithTimeRange(data, prevM.start, prevM.end())
				if heldDec.Next() && heldDec.HasValue() {
					c.viol("reuse", scen+" reused", "TSDDecoder.ResetWithTimeRange", "step %d: an empty block (0 bytes) read sequentially through a decoder that was used for block %s before delivers a value at slot %d", step, prevM, heldDec.Slot())
					return
				}
			}
			continue
		}
		prevM = m
		// the reused encoder must produce something that decodes to the block: first with the reused decoder
		mk := func() *encoding.TSDDecoder {
			var d *encoding.TSDDecoder
			if decMode == 0 {
				d = encoding.GetTSDDecoder()
				if lastDec != nil {
					if d == lastDec {
						c.rep.Count("tsd_decoder_pool_hits", 1)
					} else {
						c.rep.Count("tsd_decoder_pool_misses", 1)
					}
				}
				lastDec = d
			} else {
				if heldDec == nil {
					heldDec = encoding.NewTSDDecoder(nil)
				}
				d = heldDec
			}
			if decMode == 2 {
				d.ResetWithTimeRange(data, m.start, m.end())
			} else {
				d.Reset(data)
			}
			return d
		}
		rel := func(d *encoding.TSDDecoder) {
			if decMode == 0 {
				encoding.ReleaseTSDDecoder(d)
			}
		}
		rscen := scen
		if step > 0 {
			rscen += " reused"
		}
		last := step == len(ids)-1
		if !last {
			d := mk()
			ok := true
			switch consume {
			case 0:
			case 1:
				ok = readHVS(c, d, m, rscen, m.n()/2)
			case 2:
				ok = checkRange(c, d, m, rscen) && readSeq(c, d, m, rscen)
			}
			rel(d)
			if !ok {
				return
			}
			continue
		}
		d := mk()
		ok := checkRange(c, d, m, rscen) && readSeq(c, d, m, rscen)
		rel(d)
		if !ok {
			return
		}
		d = mk()
		ok = readGV(c, d, m, rscen, 0)
		rel(d)
		if !ok {
			return
		}
		d = mk()
		ok = readSeek(c, d, m, rscen, m.n()-1)
		rel(d)
		if !ok {
			return
		}
		// and a fresh decoder must read the reused encoder's output, too (separates encoder from decoder state)
		fresh := func() *encoding.TSDDecoder {
			if decMode == 2 {
				fd := encoding.NewTSDDecoder(nil)
				fd.ResetWithTimeRange(data, m.start, m.end())
				return fd
			}
			return encoding.NewTSDDecoder(data)
		}
		if !readSeq(c, fresh(), m, rscen+" fresh-decoder") {
			return
		}
		c.outcome("h len=%d", len(data))
	}
}

func registerTSD() {
	// F1: dense blocks over all float sequences
	register(family{name: "tsd.vals",
		enum: func(th bool, emit func(p ...int64) bool) {
			L := 3
			if th {
				L = 4
			}
			seqs(len(FA), 1, L, func(s []int64) bool {
				for st := range tsdStarts {
					for out := 0; out < 2; out++ {
						for api := 0; api < 2; api++ {
							p := append([]int64{int64(st), int64(out), int64(api)}, s...)
							if !emit(p...) {
								return false
							}
						}
					}
				}
				return true
			})
		},
		run: func(c *ctx) {
			b := denseBlock(tsdStarts[c.p[0]], c.p[3:])
			c.text = fmt.Sprintf("dense block start=%d out=%d api=%d values=%s", b.start, c.p[1], c.p[2], faSeqText(c.p[3:]))
			c.nontrivial = b.n() >= 2
			oneBlock(c, b, int(c.p[2]), int(c.p[1]), true)
		}})

	// F2: all slot masks
	register(family{name: "tsd.mask",
		enum: func(th bool, emit func(p ...int64) bool) {
			for n := 0; n <= 12; n++ {
				for mask := int64(0); mask < 1<<uint(n); mask++ {
					for st := range tsdStarts {
						for pat := 0; pat < 3; pat++ {
							for out := 0; out < 2; out++ {
								for api := 0; api < 2; api++ {
									if !emit(int64(n), mask, int64(st), int64(pat), int64(out), int64(api)) {
										return
									}
								}
							}
						}
					}
				}
			}
		},
		run: func(c *ctx) {
			n, mask, st, pat, out, api := int(c.p[0]), uint64(c.p[1]), int(c.p[2]), int(c.p[3]), int(c.p[4]), int(c.p[5])
			b := maskBlock(tsdStarts[st], n, mask, pat)
			c.text = fmt.Sprintf("mask block n=%d mask=%012b(lsb=slot0) start=%d pattern=%d out=%d api=%d", n, mask, b.start, pat, out, api)
			c.nontrivial = n >= 2
			oneBlock(c, b, api, out, true)
		}})

	// F3: curated long runs
	register(family{name: "tsd.long",
		enum: func(th bool, emit func(p ...int64) bool) {
			// kind 0: 64 identical values a ; kind 1: alternating a,b x 32 ; kind 2: every k-th slot present over 4096 slots
			for a := 0; a < len(FA); a++ {
				for st := range tsdStarts[:2] {
					if !emit(0, int64(a), 0, int64(st)) {
						return
					}
				}
			}
			for a := 0; a < len(FA); a++ {
				for b := 0; b < len(FA); b++ {
					if !emit(1, int64(a), int64(b), int64(a+b)%2) {
						return
					}
				}
			}
			for _, k := range []int64{1, 2, 7, 8, 9, 64, 4095} {
				for pat := int64(0); pat < 3; pat++ {
					if !emit(2, k, pat, 0) {
						return
					}
				}
			}
			// kind 3: the largest block: 65535 slots from 0, every 7th present
			emit(3, 7, 1, 0)
		},
		run: func(c *ctx) {
			kind, a, bb, st := c.p[0], c.p[1], c.p[2], c.p[3]
			var b *blk
			switch kind {
			case 0:
				s := make([]int64, 64)
				for i := range s {
					s[i] = a
				}
				b = denseBlock(tsdStarts[st], s)
				c.text = fmt.Sprintf("64 x %s start=%d", faName[a], b.start)
			case 1:
				s := make([]int64, 64)
				for i := range s {
					s[i] = a
					if i%2 == 1 {
						s[i] = bb
					}
				}
				b = denseBlock(tsdStarts[st], s)
				c.text = fmt.Sprintf("32 x (%s,%s) start=%d", faName[a], faName[bb], b.start)
			default:
				n := 4096
				if kind == 3 {
					n = 65535
				}
				b = &blk{start: 0, has: make([]bool, n), vals: make([]uint64, n)}
				k := 0
				for i := 0; i < n; i++ {
					if i%int(a) == 0 {
						b.has[i], b.vals[i] = true, patValue(int(bb), k)
						k++
					}
				}
				c.text = fmt.Sprintf("%d slots, every %d-th present, pattern %d", n, a, bb)
			}
			c.nontrivial = true
			for out := 0; out < 2; out++ {
				oneBlock(c, b, apiAppend, out, false)
			}
		}})

	// F4: reuse histories (pairs; triples in thorough)
	register(family{name: "tsd.hist",
		enum: func(th bool, emit func(p ...int64) bool) {
			for a := 0; a < histBlocks; a++ {
				for b := 0; b < histBlocks; b++ {
					for mode := int64(0); mode < 22; mode++ {
						if !emit(mode, int64(a), int64(b)) {
							return
						}
					}
				}
			}
			if !th {
				return
			}
			for _, a := range hist3 {
				for _, b := range hist3 {
					for _, d := range hist3 {
						for mode := int64(0); mode < 22; mode++ {
							if !emit(mode, int64(a), int64(b), int64(d)) {
								return
							}
						}
					}
				}
			}
		},
		run: func(c *ctx) {
			mode := int(c.p[0])
			var ids []int
			for _, x := range c.p[1:] {
				ids = append(ids, int(x))
			}
			c.text = fmt.Sprintf("history mode=%d blocks:", mode)
			for _, id := range ids {
				c.text += " {" + histBlock(id).String() + "}"
			}
			c.nontrivial = true
			if mode >= 18 { // 18..21: abandoned blocks before the last one, decoder held, both outputs
				history(c, ids, mode%2, 1+(mode-18)/2, 0, true)
			} else {
				history(c, ids, mode%2, (mode/2)%3, mode/6, false)
			}
		}})

	// F5: multi-field stream (TSDStreamWriter / TSDStreamReader; the reader reuses one pooled decoder)
	register(family{name: "tsd.stream",
		enum: func(th bool, emit func(p ...int64) bool) {
			for st := range tsdStarts {
				if !emit(int64(st)) { // no field
					return
				}
				ok := seqs(12, 1, 3, func(s []int64) bool {
					return emit(append([]int64{int64(st)}, s...)...)
				})
				if !ok {
					return
				}
			}
		},
		run: func(c *ctx) { streamCase(c) }})
}

var streamFieldIDs = []uint16{0, 1, 65535}

func streamBlock(start uint16, k int) *blk {
	masks := []uint64{0xFFF, 0x001, 0x800, 0xAAA, 0x555, 0x000}
	return maskBlock(start, 12, masks[k%6], 1+k/6)
}

func streamCase(c *ctx) {
	start := tsdStarts[c.p[0]]
	end := start + 11
	ks := c.p[1:]
	c.text = fmt.Sprintf("stream start=%d fields=%v (block k: mask index k%%6, pattern 1+k/6)", start, ks)
	c.nontrivial = len(ks) >= 2
	w := encoding.NewTSDStreamWriter(start, end)
	var blocks []*blk
	for i, k := range ks {
		b := streamBlock(start, int(k))
		e := encoding.GetTSDEncoder(start)
		feed(e, b, apiAppend)
		data, err := e.BytesWithoutTime()
		if err != nil {
			c.viol("roundtrip", "stream", "TSDEncoder.BytesWithoutTime", "%v", err)
			return
		}
		w.WriteField(streamFieldIDs[i], data)
		encoding.ReleaseTSDEncoder(e)
		blocks = append(blocks, b)
	}
	data, err := w.Bytes()
	if err != nil {
		c.viol("roundtrip", "stream", "TSDStreamWriter.Bytes", "%v", err)
		return
	}
	data = cp(data)
	c.outcome("len=%d", len(data))
	for mode := 0; mode < 3; mode++ {
		r := encoding.NewTSDStreamReader(data)
		s, e := r.TimeRange()
		if s != start || e != end {
			c.viol("roundtrip", "stream", "TSDStreamReader.TimeRange", "got [%d,%d] want [%d,%d]", s, e, start, end)
		}
		i := 0
		for r.HasNext() {
			if i >= len(blocks) {
				c.viol("roundtrip", "stream", "TSDStreamReader.HasNext", "more fields than the %d written", len(blocks))
				break
			}
			id, d := r.Next()
			if id != streamFieldIDs[i] {
				c.viol("roundtrip", "stream", "TSDStreamReader.Next", "field %d: id %d want %d", i, id, streamFieldIDs[i])
			}
			ok := true
			switch mode {
			case 0:
				ok = checkRange(c, d, blocks[i], "stream") && readSeq(c, d, blocks[i], "stream")
			case 1:
				ok = readGV(c, d, blocks[i], "stream", 0)
			case 2:
				ok = readHVS(c, d, blocks[i], "stream", 6) // partially consumed, then the decoder is reused for the next field
			}
			if !ok {
				r.Close()
				return
			}
			i++
		}
		if i != len(blocks) {
			c.viol("roundtrip", "stream", "TSDStreamReader.HasNext", "%d fields read, %d written", i, len(blocks))
		}
		r.Close()
		// the reader has given its decoder back: two holders that take a decoder each now must get two objects, and
		// reading two blocks through them in turn returns each block's own values
		if len(blocks) >= 2 {
			d1, d2 := encoding.GetTSDDecoder(), encoding.GetTSDDecoder()
			if d1 == d2 {
				c.viol("reuse", "stream then two pooled decoders", "GetTSDDecoder", "after a stream reader was drained and closed the decoder pool hands the same decoder to two holders")
			} else {
				b1, b2 := blocks[0], blocks[len(blocks)-1]
				e1, e2 := encoding.GetTSDEncoder(b1.start), encoding.GetTSDEncoder(b2.start)
				feed(e1, b1, apiAppend)
				feed(e2, b2, apiAppend)
				x1, err1 := e1.Bytes()
				x2, err2 := e2.Bytes()
				x1, x2 = cp(x1), cp(x2)
				encoding.ReleaseTSDEncoder(e1)
				encoding.ReleaseTSDEncoder(e2)
				if err1 == nil && err2 == nil && b1.n() > 0 && b2.n() > 0 {
					d1.Reset(x1)
					d2.Reset(x2)
					if readHVS(c, d1, b1, "stream then two pooled decoders", b1.n()/2) {
						d1.Reset(x1)
						_ = readSeq(c, d2, b2, "stream then two pooled decoders") && readSeq(c, d1, b1, "stream then two pooled decoders")
					}
				}
			}
			encoding.ReleaseTSDDecoder(d1)
			if d2 != d1 {
				encoding.ReleaseTSDDecoder(d2)
			}
		}
	}
}
