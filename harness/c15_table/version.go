package main

import (
	"errors"
	"fmt"
	"os"
	"path/filepath"
	"sort"
	"strings"
	"time"

	"github.com/lindb/lindb/internal/vevid"
	"github.com/lindb/lindb/kv"
	"github.com/lindb/lindb/kv/table"
	"github.com/lindb/lindb/kv/version"
)

// ---- phase version: files placed directly in level 0 / level 1 of a real version set ----------------------

var verUniverse4 = []uint32{0, 65535, 65536, 1<<32 - 1}
var verUniverse3 = []uint32{0, 65536, 1<<32 - 1}

func universe(n int) []uint32 {
	if n == 3 {
		return verUniverse3
	}
	return verUniverse4
}

func lookupProbes(u []uint32) []uint32 {
	seen := map[uint32]bool{}
	var ps []uint32
	add := func(k uint32) {
		if !seen[k] {
			seen[k] = true
			ps = append(ps, k)
		}
	}
	for _, k := range u {
		add(k)
		if k > 0 {
			add(k - 1)
		}
		if k < 1<<32-1 {
			add(k + 1)
		}
	}
	return ps
}

func sortedStrings(vs [][]byte) []string {
	out := make([]string, 0, len(vs))
	for _, v := range vs {
		out = append(out, string(v))
	}
	sort.Strings(out)
	return out
}

// checkLookups compares Snapshot.Load and Snapshot.FindReaders with the model: files[i] = key -> value of file i.
// It returns the number of probes whose key lives in >=2 files, and a description of the first lookup that
// missed values (empty if none).
func checkLookups(snap version.Snapshot, files []map[uint32][]byte, probes []uint32) (multi int, clause, detail string) {
	for _, p := range probes {
		var want [][]byte
		for _, f := range files {
			if v, ok := f[p]; ok {
				want = append(want, v)
			}
		}
		if len(want) >= 2 {
			multi++
		}
		ws := sortedStrings(want)
		var got [][]byte
		err := snap.Load(p, func(v []byte) error {
			got = append(got, append([]byte{}, v...))
			return nil
		})
		if gs := sortedStrings(got); err != nil || strings.Join(gs, "\x00") != strings.Join(ws, "\x00") || len(gs) != len(ws) {
			return multi, "version-load", fmt.Sprintf("Load(%d): want values %q (one per file holding the key), got %q err=%v", p, ws, gs, err)
		}
		rs, err := snap.FindReaders(p)
		got = got[:0]
		for _, r := range rs {
			v, e := r.Get(p)
			if errors.Is(e, table.ErrKeyNotExist) {
				continue
			}
			if e != nil {
				err = e
				break
			}
			got = append(got, append([]byte{}, v...))
		}
		if gs := sortedStrings(got); err != nil || strings.Join(gs, "\x00") != strings.Join(ws, "\x00") || len(gs) != len(ws) {
			return multi, "version-findreaders", fmt.Sprintf("FindReaders(%d) + Get: want values %q, got %q err=%v", p, ws, gs, err)
		}
	}
	return multi, "", ""
}

func (h *harness) runVersion(c *Case) {
	u := universe(c.Universe)
	dir := filepath.Join(h.scratch, "v")
	_ = os.RemoveAll(dir)
	if err := os.MkdirAll(filepath.Join(dir, "f"), 0o755); err != nil {
		vevid.Fatal("scratch: %v", err)
	}
	defer os.RemoveAll(dir)
	cache := table.NewCache(dir, time.Hour)
	defer cache.Close()
	vs := version.NewStoreVersionSet(dir, cache, 2)
	if err := vs.Recover(); err != nil {
		vevid.OpFailed("version set init: %v", err)
	}
	defer vs.Destroy()
	fv := vs.CreateFamilyVersion("f", 1)
	var files []map[uint32][]byte
	levels := ""
	for i, opt := range c.Assign {
		level, sub := opt&1, opt>>1
		fn := vs.NextFileNumber()
		b, err := table.NewStoreBuilder(fn, filepath.Join(dir, "f", version.Table(fn)))
		if err != nil {
			vevid.OpFailed("builder: %v", err)
		}
		m := map[uint32][]byte{}
		for j, k := range u {
			if sub>>uint(j)&1 == 1 {
				v := []byte(fmt.Sprintf("F%d:%d", i, k))
				if err := b.Add(k, v); err != nil {
					h.viol(c, "write-error", "table.Builder.Add", err.Error())
					return
				}
				m[k] = v
			}
		}
		if err := b.Close(); err != nil {
			h.viol(c, "close", "table.Builder.Close", err.Error())
			return
		}
		// the same glue as kv/flusher.go and kv/compact_job.go: meta from the builder's min/max
		el := version.NewEditLog(1)
		el.Add(version.CreateNewFile(int32(level), version.NewFileMeta(fn, b.MinKey(), b.MaxKey(), b.Size())))
		if err := vs.CommitFamilyEditLog("f", el); err != nil {
			vevid.OpFailed("commit edit log: %v", err)
		}
		files = append(files, m)
		levels += fmt.Sprint(level)
	}
	snap := fv.GetSnapshot()
	defer snap.Close()
	multi, clause, detail := checkLookups(snap, files, lookupProbes(u))
	if clause != "" {
		h.viol(c, clause, "version.snapshot", fmt.Sprintf("levels=%s: %s", levels, detail))
	}
	if len(files) >= 2 {
		h.rep.DistinctNontrivial++
	}
	h.rep.Outcome(fmt.Sprintf("version levels=%s keys-in->=2-files=%d", levels, multi))
	if multi >= 2 && len(files) == 3 {
		h.sample(c)
	}
}

// enumVersion: F files (1..3), each = level {0,1} x non-empty subset of the universe.
func enumVersion(thorough bool, f func(c *Case) bool) bool {
	type cfg struct{ files, uni int }
	cfgs := []cfg{{1, 4}, {2, 4}, {3, 3}}
	if thorough {
		cfgs = []cfg{{1, 4}, {2, 4}, {3, 4}}
	}
	for _, g := range cfgs {
		nopt := 2 * (1<<uint(g.uni) - 1)
		a := make([]int, g.files)
		for {
			as := make([]int, g.files)
			for i, x := range a {
				as[i] = x + 2 // option x -> level = x&1, subset = x>>1 + 1
			}
			if !f(&Case{Phase: "version", Universe: g.uni, Assign: as}) {
				return false
			}
			i := g.files - 1
			for i >= 0 {
				a[i]++
				if a[i] < nopt {
					break
				}
				a[i] = 0
				i--
			}
			if i < 0 {
				break
			}
		}
	}
	return true
}

// ---- phase flush: the same through kv.Store / kv.Family / storeFlusher ------------------------------------

const mergerName = "c15_concat"

type concatMerger struct{ fl kv.Flusher }

func (m *concatMerger) Init(map[string]interface{}) {}
func (m *concatMerger) Merge(key uint32, values [][]byte) error {
	var all []byte
	for _, v := range values {
		all = append(all, v...)
	}
	return m.fl.Add(key, all)
}

func registerMerger() {
	kv.RegisterMerger(mergerName, func(fl kv.Flusher) (kv.Merger, error) { return &concatMerger{fl: fl}, nil })
}

var flushKeys = []uint32{0, 65535, 65536}

// flushOpt is one flush: a key subset, a value profile (0 empty, 1 one byte, 2 few bytes) and Add / StreamWriter.
type flushOpt struct{ sub, vals, stream int }

func flushOptions(full bool) []flushOpt {
	opts := []flushOpt{{0, 0, 0}} // a flush without any key
	nsub := 1 << uint(len(flushKeys))
	for sub := 1; sub < nsub; sub++ {
		if !full && sub&1 == 1 {
			continue // reduced: subsets of {65535, 65536}
		}
		for vals := 0; vals < 3; vals++ {
			for stream := 0; stream < 2; stream++ {
				if !full && stream == 1 {
					continue
				}
				opts = append(opts, flushOpt{sub, vals, stream})
			}
		}
	}
	return opts
}

func flushValue(i, vals int, key uint32) []byte {
	switch vals {
	case 0:
		return []byte{}
	case 1:
		return []byte{byte('a' + i)}
	default:
		return []byte(fmt.Sprintf("L%d:%d", i, key))
	}
}

func (h *harness) runFlush(c *Case) {
	opts := flushOptions(c.Universe == 1)
	dir := filepath.Join(h.scratch, "s")
	_ = os.RemoveAll(dir)
	defer os.RemoveAll(dir)
	store, err := kv.GetStoreManager().CreateStore(dir, kv.DefaultStoreOption())
	if err != nil {
		vevid.OpFailed("create store: %v", err)
	}
	defer func() { _ = kv.GetStoreManager().CloseStore(dir) }()
	family, err := store.CreateFamily("f", kv.FamilyOption{Merger: mergerName})
	if err != nil {
		vevid.OpFailed("create family: %v", err)
	}
	var files []map[uint32][]byte // files that must exist
	var allEmpty []bool           // parallel: every value of that flush is empty (hazard H5)
	desc := ""
	for i, oi := range c.Assign {
		o := opts[oi]
		fl := family.NewFlusher()
		m := map[uint32][]byte{}
		for j, k := range flushKeys {
			if o.sub>>uint(j)&1 == 0 {
				continue
			}
			v := flushValue(i, o.vals, k)
			if o.stream == 0 {
				err = fl.Add(k, v)
			} else {
				var sw table.StreamWriter
				if sw, err = fl.StreamWriter(); err == nil {
					sw.Prepare(k)
					if _, err = sw.Write(v); err == nil {
						err = sw.Commit()
					}
				}
			}
			if err != nil {
				h.viol(c, "write-error", "kv.storeFlusher", fmt.Sprintf("flush %d key %d: %v", i, k, err))
				fl.Release()
				return
			}
			m[k] = v
		}
		err = fl.Commit()
		fl.Release()
		if err != nil {
			h.viol(c, "write-error", "kv.storeFlusher.Commit", fmt.Sprintf("flush %d (%d keys): %v", i, len(m), err))
			return
		}
		desc += fmt.Sprintf("[%dk v%d]", len(m), o.vals)
		if len(m) > 0 {
			files = append(files, m)
			allEmpty = append(allEmpty, o.vals == 0)
		}
	}
	snap := family.GetSnapshot()
	defer snap.Close()

	// (1) the flushes whose values are all empty, alone: hazard H5 has its own clause
	var emptyFiles, otherFiles []map[uint32][]byte
	for i, m := range files {
		if allEmpty[i] {
			emptyFiles = append(emptyFiles, m)
		} else {
			otherFiles = append(otherFiles, m)
		}
	}
	probes := lookupProbes(flushKeys)
	multi, clause, detail := checkLookups(snap, files, probes)
	outcome := "ok"
	if clause != "" {
		outcome = clause
		// is the divergence explained exactly by the all-empty flushes being absent?
		if _, c2, _ := checkLookups(snap, otherFiles, probes); c2 == "" && len(emptyFiles) > 0 {
			outcome = "flush-empty-values"
			h.violAs(c, "flush: every value of a flush is empty", "flush-empty-values", "kv.storeFlusher.Commit",
				fmt.Sprintf("flushes %s committed without error, but the keys of the %d flush(es) whose values are all empty are in no file of the family: %s", desc, len(emptyFiles), detail))
		} else {
			h.viol(c, clause, "kv.Family.GetSnapshot", fmt.Sprintf("flushes %s: %s", desc, detail))
		}
	}
	// (2) file metas of level 0 carry the right min/max key
	want := metaStrings(files)
	if outcome == "flush-empty-values" {
		want = metaStrings(otherFiles) // already reported under its own clause
	}
	var got []string
	for _, fm := range snap.GetCurrent().GetAllFiles() {
		got = append(got, fmt.Sprintf("%d-%d", fm.GetMinKey(), fm.GetMaxKey()))
	}
	sort.Strings(got)
	if strings.Join(got, ",") != strings.Join(want, ",") {
		h.viol(c, "filemeta-min-max", "version.FileMeta", fmt.Sprintf("flushes %s: want file key ranges %v, got %v", desc, want, got))
		outcome += "+filemeta"
	}
	if len(files) >= 2 {
		h.rep.DistinctNontrivial++
	}
	h.rep.Outcome(fmt.Sprintf("flush files=%d all-empty=%d multi=%d %s", len(files), len(emptyFiles), multi, outcome))
	if len(files) == 3 && multi >= 1 {
		h.sample(c)
	}
}

func metaStrings(files []map[uint32][]byte) []string {
	var out []string
	for _, m := range files {
		min, max := uint32(1<<32-1), uint32(0)
		for k := range m {
			if k < min {
				min = k
			}
			if k > max {
				max = k
			}
		}
		out = append(out, fmt.Sprintf("%d-%d", min, max))
	}
	sort.Strings(out)
	return out
}

// enumFlush: sequences of 1..3 flushes; Universe=1 marks the full option set, 0 the reduced one.
func enumFlush(thorough bool, f func(c *Case) bool) bool {
	type cfg struct {
		flushes int
		full    bool
	}
	cfgs := []cfg{{1, true}, {2, true}, {3, false}}
	if thorough {
		cfgs = []cfg{{1, true}, {2, true}, {3, true}}
	}
	for _, g := range cfgs {
		n := len(flushOptions(g.full))
		u := 0
		if g.full {
			u = 1
		}
		a := make([]int, g.flushes)
		for {
			if !f(&Case{Phase: "flush", Universe: u, Assign: append([]int(nil), a...)}) {
				return false
			}
			i := g.flushes - 1
			for i >= 0 {
				a[i]++
				if a[i] < n {
					break
				}
				a[i] = 0
				i--
			}
			if i < 0 {
				break
			}
		}
	}
	return true
}
