package main

import (
	"bytes"
	"errors"
	"fmt"
	"os"
	"path/filepath"
	"sort"
	"strconv"

	"github.com/lindb/lindb/internal/vevid"
	"github.com/lindb/lindb/kv/table"
)

var alphabet = []uint32{0, 1, 2, 65535, 65536, 65537, 1 << 31, 1<<32 - 2, 1<<32 - 1}

const (
	runLo, runHi = 100, 4300
	evLo, evN    = 70000, 5000
)

// ent is one model entry.
type ent struct {
	k uint32
	v []byte
}

// wop is one write operation on a builder.
type wop struct {
	key  uint32
	val  []byte
	mode int  // 0 add, 1 stream/1 chunk, 2 stream/3 chunks
	bad  bool // the key is out of order / duplicate: the builder must ignore it
}

// keysOf returns the ascending key list of (mask, dense).
func keysOf(mask uint64, dense int) []uint32 {
	var ks []uint32
	for i, a := range alphabet {
		if mask>>uint(i)&1 == 1 {
			ks = append(ks, a)
		}
	}
	switch dense {
	case 1:
		for k := uint32(runLo); k <= runHi; k++ {
			ks = append(ks, k)
		}
	case 2:
		for j := uint32(0); j < evN; j++ {
			ks = append(ks, evLo+2*j)
		}
	}
	sort.Slice(ks, func(i, j int) bool { return ks[i] < ks[j] })
	return ks
}

func fewBytes(key uint32) []byte { return []byte("k" + strconv.FormatUint(uint64(key), 10)) }

// valueOf returns the value of key at position pos under a value profile.
func valueOf(profile int, key uint32, pos int) []byte {
	switch profile {
	case 0:
		return []byte{}
	case 1:
		return []byte{byte(key*7 + 1)}
	case 2:
		return fewBytes(key)
	default:
		return valueOf(pos%3, key, pos)
	}
}

// modeOf returns the write mode of position pos under writer mode m.
func modeOf(m, pos int) int {
	if m == 3 {
		return pos % 3
	}
	return m
}

func chunks(v []byte, mode int) [][]byte {
	if mode == 1 {
		return [][]byte{v}
	}
	a, b := len(v)/3, 2*len(v)/3
	return [][]byte{v[:a], v[a:b], v[b:]}
}

var bigCache = map[string][]byte{}

func bigValue(key uint32, size int) []byte {
	id := fmt.Sprintf("%d/%d", key, size)
	if v, ok := bigCache[id]; ok {
		return v
	}
	v := make([]byte, size)
	x := key*2654435761 + uint32(size)
	for i := range v {
		x = x*1664525 + 1013904223
		v[i] = byte(x >> 24)
	}
	bigCache[id] = v
	return v
}

// probesFor returns the keys that must be looked up as absent when they are not in the model.
func probesFor(model []ent) []uint32 {
	var ps []uint32
	add := func(k uint32) {
		ps = append(ps, k)
		if k > 0 {
			ps = append(ps, k-1)
		}
		if k < 1<<32-1 {
			ps = append(ps, k+1)
		}
	}
	for _, a := range alphabet {
		add(a)
	}
	for _, k := range []uint32{runLo, runHi, 2000, evLo, evLo + 2*(evN-1), evLo + 4000, 1 << 16 << 1, 1<<31 + 65536} {
		add(k)
	}
	if len(model) <= 16 {
		for _, e := range model {
			add(e.k)
		}
	}
	return ps
}

// execOps drives a real builder with ops and returns the model of what must be in the file.
// freshSW: take a new StreamWriter for every streamed key (else one StreamWriter per builder).
func (h *harness) execOps(c *Case, b table.Builder, ops []wop, freshSW bool) (model []ent, ok bool) {
	var sw table.StreamWriter
	for _, op := range ops {
		if op.mode == 0 {
			if err := b.Add(op.key, op.val); err != nil {
				h.viol(c, "write-error", "table.Builder.Add", fmt.Sprintf("Add(%d, %d bytes): %v", op.key, len(op.val), err))
				return nil, false
			}
		} else {
			if sw == nil || freshSW {
				sw = b.StreamWriter()
			}
			sw.Prepare(op.key)
			for _, ch := range chunks(op.val, op.mode) {
				n, err := sw.Write(ch)
				if !op.bad && (err != nil || n != len(ch)) {
					h.viol(c, "write-error", "table.StreamWriter.Write", fmt.Sprintf("key %d: Write(%d bytes) = %d, %v", op.key, len(ch), n, err))
					return nil, false
				}
			}
			if err := sw.Commit(); err != nil {
				h.viol(c, "write-error", "table.StreamWriter.Commit", fmt.Sprintf("key %d: %v", op.key, err))
				return nil, false
			}
		}
		if !op.bad {
			model = append(model, ent{op.key, op.val})
		}
	}
	return model, true
}

// buildAndVerify builds scratch/t/000001.sst from ops and checks every clause of the table part of the statement.
func (h *harness) buildAndVerify(c *Case, ops []wop, freshSW bool) (n int, status string) {
	const name = "000001.sst"
	path := filepath.Join(h.scratch, "t", name)
	defer os.Remove(path)
	b, err := table.NewStoreBuilder(1, path)
	if err != nil {
		vevid.OpFailed("NewStoreBuilder: %v", err)
	}
	model, ok := h.execOps(c, b, ops, freshSW)
	if !ok {
		_ = b.Abandon()
		return 0, "write-error"
	}
	err = b.Close()
	if len(model) == 0 {
		// no key at all: the builder refuses to produce a table; nothing to look up
		return 0, "no-keys:" + fmt.Sprint(err)
	}
	if err != nil {
		h.viol(c, "close", "table.Builder.Close", err.Error())
		return len(model), "close-error"
	}
	if b.MinKey() != model[0].k || b.MaxKey() != model[len(model)-1].k || b.Count() != uint64(len(model)) {
		h.viol(c, "min-max-count", "table.Builder", fmt.Sprintf("want min=%d max=%d count=%d got min=%d max=%d count=%d",
			model[0].k, model[len(model)-1].k, len(model), b.MinKey(), b.MaxKey(), b.Count()))
	}
	if h.verifyFile(c, h.tcache, "t", name, model, probesFor(model)) {
		return len(model), "ok"
	}
	return len(model), "mismatch"
}

func short(v []byte) string {
	if len(v) <= 24 {
		return fmt.Sprintf("%q", v)
	}
	return fmt.Sprintf("%d bytes %q…", len(v), v[:12])
}

// verifyFile opens the real file through the table cache (mmap reader) and compares it with the model.
func (h *harness) verifyFile(c *Case, cache table.Cache, family, name string, model []ent, probes []uint32) bool {
	r, err := cache.GetReader(family, name)
	if err != nil {
		h.viol(c, "open", "table.Cache.GetReader", err.Error())
		return false
	}
	defer cache.Evict(name)
	good := true
	in := make(map[uint32]struct{}, len(model))
	for _, e := range model {
		in[e.k] = struct{}{}
		v, err := r.Get(e.k)
		if err != nil || !bytes.Equal(v, e.v) {
			h.viol(c, "get", "table.Reader.Get", fmt.Sprintf("key %d of %d keys: want %s got %s err=%v", e.k, len(model), short(e.v), short(v), err))
			good = false
			break
		}
	}
	for _, p := range probes {
		if _, ok := in[p]; ok {
			continue
		}
		v, err := r.Get(p)
		if !errors.Is(err, table.ErrKeyNotExist) {
			h.viol(c, "absent", "table.Reader.Get", fmt.Sprintf("key %d was never added: got %s err=%v", p, short(v), err))
			good = false
			break
		}
	}
	it := r.Iterator()
	i := 0
	var prev uint32
	for it.HasNext() {
		k := it.Key()
		v := it.Value()
		if i > 0 && k <= prev {
			h.viol(c, "iter-order", "table.Iterator", fmt.Sprintf("key %d after %d", k, prev))
			return false
		}
		prev = k
		if i >= len(model) {
			h.viol(c, "iter-complete", "table.Iterator", fmt.Sprintf("more than %d entries: extra key %d", len(model), k))
			return false
		}
		if k != model[i].k || !bytes.Equal(v, model[i].v) {
			h.viol(c, "iter-content", "table.Iterator", fmt.Sprintf("entry %d: want (%d,%s) got (%d,%s)", i, model[i].k, short(model[i].v), k, short(v)))
			return false
		}
		i++
	}
	if i != len(model) {
		h.viol(c, "iter-complete", "table.Iterator", fmt.Sprintf("%d entries, want %d", i, len(model)))
		return false
	}
	return good
}

// ---- phase table / inject --------------------------------------------------------------------------------

func tableOps(c *Case) []wop {
	ks := keysOf(c.Mask, c.Dense)
	ops := make([]wop, 0, len(ks)+1)
	for i, k := range ks {
		ops = append(ops, wop{key: k, val: valueOf(c.Vals, k, i), mode: modeOf(c.Mode, i)})
	}
	if c.Phase == "inject" {
		bad := wop{key: c.InjKey, val: []byte("BAD!"), mode: c.InjMode, bad: true}
		ops = append(ops, wop{})
		copy(ops[c.InjPos+1:], ops[c.InjPos:])
		ops[c.InjPos] = bad
	}
	return ops
}

func (h *harness) runTable(c *Case) {
	ops := tableOps(c)
	n, st := h.buildAndVerify(c, ops, c.Mode == 3)
	if n >= 2 || c.Phase == "inject" {
		h.rep.DistinctNontrivial++
	}
	nb := n
	if nb > 9 {
		nb = 10 // bucket
	}
	h.rep.Outcome(fmt.Sprintf("%s n=%d %s", c.Class(), nb, st))
	if c.Phase == "inject" || (n >= 3 && c.Dense == 0) {
		h.sample(c)
	}
}

// reducedMask: subsets of {0, 65535, 65536, 65537, 2^32-1} (32 masks)
func reducedMask(mask uint64) bool { return mask&^0b100111001 == 0 }

func enumTable(thorough bool, f func(c *Case) bool) bool {
	for mask := uint64(0); mask < 1<<uint(len(alphabet)); mask++ {
		for dense := 0; dense < 3; dense++ {
			if dense == 2 && !thorough && !reducedMask(mask) {
				continue // quick: the 5000 even keys only next to the reduced alphabet
			}
			for vals := 0; vals < 4; vals++ {
				for mode := 0; mode < 4; mode++ {
					if !f(&Case{Phase: "table", Mask: mask, Dense: dense, Vals: vals, Mode: mode}) {
						return false
					}
				}
			}
		}
	}
	return true
}

// injectCandidates: keys that must be rejected when written after `ks[:pos]` (last good key = ks[pos-1]).
func injectCandidates(ks []uint32, pos int, dense int) []uint32 {
	last := ks[pos-1]
	seen := map[uint32]bool{}
	var out []uint32
	add := func(k uint32) {
		if k <= last && !seen[k] {
			seen[k] = true
			out = append(out, k)
		}
	}
	add(last)  // duplicate of the last key
	add(ks[0]) // duplicate of the first key
	if last > 0 {
		add(last - 1) // just below (new key or duplicate)
	}
	if dense == 0 {
		for _, a := range alphabet { // every smaller alphabet key, in the set or not
			add(a)
		}
	} else {
		add(0)
	}
	return out
}

func enumInject(thorough bool, f func(c *Case) bool) bool {
	for mask := uint64(0); mask < 1<<uint(len(alphabet)); mask++ {
		for dense := 0; dense < 2; dense++ {
			if dense == 1 && !thorough && !reducedMask(mask) {
				continue // quick: injection into run tables only next to the reduced alphabet
			}
			ks := keysOf(mask, dense)
			for pos := 1; pos <= len(ks); pos++ {
				if dense == 1 {
					// inside the run only after its first, a middle and its last key
					if l := ks[pos-1]; l > runLo && l < runHi && l != 2200 {
						continue
					}
				}
				for _, bad := range injectCandidates(ks, pos, dense) {
					for base := 0; base < 2; base++ { // the good keys: Add or one shared StreamWriter
						for inj := 0; inj < 3; inj++ {
							if !f(&Case{Phase: "inject", Mask: mask, Dense: dense, Vals: 3, Mode: base, InjPos: pos, InjKey: bad, InjMode: inj}) {
								return false
							}
						}
					}
				}
			}
		}
	}
	return true
}

// ---- phase big -------------------------------------------------------------------------------------------

var bigKeysQuick = []uint32{65535, 65536}
var bigKeysThorough = []uint32{0, 65535, 65536, 1<<32 - 1}

const (
	size300K = 300 * 1024
	size1M3  = 1<<20 + 3
)

func bigVal(kind int, key uint32) []byte {
	switch kind {
	case 1:
		return []byte{}
	case 2:
		return fewBytes(key)
	case 3:
		return bigValue(key, size300K)
	default:
		return bigValue(key, size1M3)
	}
}

func (h *harness) runBig(c *Case) {
	var ops []wop
	if c.Wide {
		// 18 x (1 MiB+3): offsets beyond 2^24 => 4-byte offsets
		for k := uint32(0); k < 18; k++ {
			ops = append(ops, wop{key: 65530 + k, val: bigValue(k%2, size1M3), mode: modeOf(c.Mode, int(k))})
		}
	} else {
		keys := bigKeysQuick
		if len(c.Assign) == len(bigKeysThorough) {
			keys = bigKeysThorough
		}
		pos := 0
		for i, kind := range c.Assign {
			if kind == 0 {
				continue
			}
			ops = append(ops, wop{key: keys[i], val: bigVal(kind, keys[i]), mode: modeOf(c.Mode, pos)})
			pos++
		}
	}
	n, st := h.buildAndVerify(c, ops, c.Mode == 3)
	if n >= 2 {
		h.rep.DistinctNontrivial++
		h.sample(c)
	}
	total := 0
	for _, o := range ops {
		total += len(o.val)
	}
	w := 1
	switch {
	case total >= 1<<24:
		w = 4
	case total >= 1<<16:
		w = 3
	case total >= 1<<8:
		w = 2
	}
	h.rep.Outcome(fmt.Sprintf("%s n=%d size-class=%d %s", c.Class(), n, w, st))
}

func enumBig(thorough bool, f func(c *Case) bool) bool {
	nk, kinds := len(bigKeysQuick), 4 // absent, empty, few, 300 KiB
	if thorough {
		nk, kinds = len(bigKeysThorough), 5
	}
	a := make([]int, nk)
	for {
		for mode := 0; mode < 4; mode++ {
			if !f(&Case{Phase: "big", Mode: mode, Assign: append([]int(nil), a...)}) {
				return false
			}
		}
		i := nk - 1
		for i >= 0 {
			a[i]++
			if a[i] < kinds {
				break
			}
			a[i] = 0
			i--
		}
		if i < 0 {
			break
		}
	}
	if thorough {
		for mode := 0; mode < 4; mode++ {
			if !f(&Case{Phase: "big", Mode: mode, Wide: true}) {
				return false
			}
		}
	}
	return true
}

// ---- phase width: value offsets exactly at the 1/2/3/4-byte boundaries of the offset table ----------------

var widthSizes = []int{1, 256, 65536}

// runWidth: InjPos consecutive keys from 65400 (crossing 65536), each with a value of widthSizes[Vals] bytes:
// the last offset is (n-1)*size = 254..257, 65024..65792, 2^24-65536..2^24+65536.
func (h *harness) runWidth(c *Case) {
	size := widthSizes[c.Vals]
	var ops []wop
	for i := 0; i < c.InjPos; i++ {
		k := uint32(65400 + i)
		var v []byte
		switch size {
		case 1:
			v = []byte{byte(k*7 + 1)}
		case 256:
			v = bigValue(k, size)
		default:
			v = bigValue(k%3, size)
		}
		ops = append(ops, wop{key: k, val: v, mode: modeOf(c.Mode, i)})
	}
	n, st := h.buildAndVerify(c, ops, c.Mode == 3)
	h.rep.DistinctNontrivial++
	h.rep.Outcome(fmt.Sprintf("%s n=%d last-offset=%d %s", c.Class(), n, (n-1)*size, st))
	h.sample(c)
}

func enumWidth(thorough bool, f func(c *Case) bool) bool {
	for vi := range widthSizes {
		if widthSizes[vi] == 65536 && !thorough {
			continue
		}
		for n := 255; n <= 258; n++ {
			for mode := 0; mode < 4; mode++ {
				if !f(&Case{Phase: "width", Vals: vi, InjPos: n, Mode: mode}) {
					return false
				}
			}
		}
	}
	return true
}
