package main

import (
	"fmt"
	"os"
	"path/filepath"
	"sort"
	"time"

	"github.com/lindb/lindb/internal/vevid"
	"github.com/lindb/lindb/kv/table"
)

// keys of the merge phase; bit j of a table's subset mask <-> mergeKeys[j]
var mergeKeys = []uint32{65535, 65536, 0, 1<<32 - 1, 1, 1 << 31}

const mergeMaxTables = 4

// mergeFixture holds one real table file (and its open mmap reader) per (table slot, non-empty key subset):
// 4 x 63 files; every merge case takes fresh iterators from these readers.
type mergeFixture struct {
	dir     string
	cache   table.Cache
	readers [mergeMaxTables][]table.Reader
	broken  bool
}

func mergeValue(t int, key uint32) []byte { return []byte(fmt.Sprintf("T%d:%d", t, key)) }

// newMergeFixture builds the files; lindb errors (as opposed to scratch-dir errors) are returned, not fatal.
func newMergeFixture(scratch string) (*mergeFixture, error) {
	m := &mergeFixture{dir: filepath.Join(scratch, "m"), cache: table.NewCache(scratch, time.Hour)}
	if err := os.MkdirAll(m.dir, 0o755); err != nil {
		vevid.Fatal("scratch: %v", err)
	}
	nsub := 1 << uint(len(mergeKeys))
	for t := 0; t < mergeMaxTables; t++ {
		m.readers[t] = make([]table.Reader, nsub)
		for sub := 1; sub < nsub; sub++ {
			var ks []uint32
			for j, k := range mergeKeys {
				if sub>>uint(j)&1 == 1 {
					ks = append(ks, k)
				}
			}
			sort.Slice(ks, func(i, j int) bool { return ks[i] < ks[j] })
			name := fmt.Sprintf("%d_%02d.sst", t, sub)
			b, err := table.NewStoreBuilder(table.FileNumber(t*nsub+sub), filepath.Join(m.dir, name))
			if err != nil {
				vevid.OpFailed("merge fixture builder: %v", err)
			}
			for _, k := range ks {
				if err := b.Add(k, mergeValue(t, k)); err != nil {
					return m, fmt.Errorf("Builder.Add(%d): %v", k, err)
				}
			}
			if err := b.Close(); err != nil {
				return m, fmt.Errorf("Builder.Close (keys %v): %v", ks, err)
			}
			r, err := m.cache.GetReader("m", name)
			if err != nil {
				return m, fmt.Errorf("Cache.GetReader (table of keys %v): %v", ks, err)
			}
			m.readers[t][sub] = r
		}
	}
	return m, nil
}

func (m *mergeFixture) close() {
	_ = m.cache.Close()
	_ = os.RemoveAll(m.dir)
}

type pair struct {
	k uint32
	v string
}

func (h *harness) runMerge(c *Case) {
	if h.merge == nil {
		var err error
		if h.merge, err = newMergeFixture(h.scratch); err != nil {
			h.merge.broken = true
			h.viol(c, "open", "table fixture", "cannot build/open an input table of the merge phase: "+err.Error())
		}
	}
	if h.merge.broken {
		h.rep.Outcome("merge skipped: input tables cannot be built")
		return
	}
	// table t holds key j iff Assign[j] has bit t
	var its []table.Iterator
	var want []pair
	inputs, shared := 0, 0
	for t := 0; t < c.Tables; t++ {
		sub := 0
		for j, a := range c.Assign {
			if a>>uint(t)&1 == 1 {
				sub |= 1 << uint(j)
				want = append(want, pair{mergeKeys[j], string(mergeValue(t, mergeKeys[j]))})
			}
		}
		if sub != 0 {
			its = append(its, h.merge.readers[t][sub].Iterator())
			inputs++
		}
	}
	for _, a := range c.Assign {
		if a&(a-1) != 0 {
			shared++
		}
	}
	var got []pair
	it := table.NewMergedIterator(its)
	for it.HasNext() {
		got = append(got, pair{it.Key(), string(it.Value())})
		if len(got) > len(want)+4 {
			break
		}
	}
	site := "table.mergedIterator"
	for i := 1; i < len(got); i++ {
		if got[i].k < got[i-1].k {
			h.viol(c, "merge-order", site, fmt.Sprintf("key %d after key %d; got %v", got[i].k, got[i-1].k, got))
			break
		}
	}
	less := func(s []pair) func(i, j int) bool {
		return func(i, j int) bool {
			if s[i].k != s[j].k {
				return s[i].k < s[j].k
			}
			return s[i].v < s[j].v
		}
	}
	gs := append([]pair(nil), got...)
	sort.Slice(gs, less(gs))
	sort.Slice(want, less(want))
	same := len(gs) == len(want)
	for i := 0; same && i < len(gs); i++ {
		same = gs[i] == want[i]
	}
	if !same {
		h.viol(c, "merge-exactly-once", site, fmt.Sprintf("inputs=%d want %d entries %v, got %d entries %v", inputs, len(want), want, len(got), got))
	}
	if inputs >= 2 {
		h.rep.DistinctNontrivial++
	}
	h.rep.Outcome(fmt.Sprintf("merge T=%d inputs=%d entries=%d shared-keys=%d", c.Tables, inputs, len(got), shared))
	if inputs == 3 && shared >= 2 {
		h.sample(c)
	}
}

// enumMerge: for n = 0..N keys, every function key -> non-empty subset of T tables ((2^T-1)^n cases).
func enumMerge(thorough bool, f func(c *Case) bool) bool {
	type cfg struct{ tables, keys int }
	cfgs := []cfg{{3, 5}, {4, 3}}
	if thorough {
		cfgs = []cfg{{3, 6}, {4, 4}}
	}
	for _, g := range cfgs {
		opts := 1<<uint(g.tables) - 1
		for n := 0; n <= g.keys; n++ {
			a := make([]int, n)
			for i := range a {
				a[i] = 1
			}
			for {
				if !f(&Case{Phase: "merge", Tables: g.tables, Assign: append([]int(nil), a...)}) {
					return false
				}
				i := n - 1
				for i >= 0 {
					a[i]++
					if a[i] <= opts {
						break
					}
					a[i] = 1
					i--
				}
				if i < 0 {
					break
				}
			}
		}
	}
	return true
}
