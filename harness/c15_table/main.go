// C15 harness: bounded exhaustive enumeration of table builds / reads / merged iteration / version-level
// lookups on the real kv/table, kv/version and kv (flusher) code, compared with a sorted-slice model.
//
// Phases (one global case index, sharded by index):
//
//	table   : 512 subsets of the key alphabet x {no dense part, run [100..4300], evens 70000..79998}
//	          x 4 value profiles x 4 writer modes
//	inject  : one out-of-order / duplicate key injected at every position of every subset
//	big     : values of 300 KiB / 1 MiB+3 on a reduced key set, every value assignment x 4 writer modes
//	width   : 255..258 keys with values of 1 / 256 / 65536 bytes: last offset on the offset-width boundaries
//	merge   : every assignment of <=N keys to non-empty subsets of <=T real tables, merged iterator
//	version : <=3 files in level 0 / level 1 of a real version set, Snapshot.Load / FindReaders
//	flush   : <=3 flushes through kv.Store / kv.Family / storeFlusher, Snapshot.Load (hazard H5)
package main

import (
	"fmt"
	"os"
	"path/filepath"
	"time"

	"github.com/lindb/common/pkg/logger"
	"go.uber.org/zap/zapcore"

	"github.com/lindb/lindb/internal/vevid"
	"github.com/lindb/lindb/kv/table"
)

// Case is one enumerated case (JSON-serialisable: it is the replay payload).
type Case struct {
	Phase string `json:"phase"`
	// table / inject
	Mask  uint64 `json:"mask,omitempty"`  // subset of the 9-key alphabet
	Dense int    `json:"dense,omitempty"` // 0 none, 1 run [100..4300], 2 evens 70000..79998
	Vals  int    `json:"vals,omitempty"`  // value profile
	Mode  int    `json:"mode,omitempty"`  // writer mode 0 add, 1 stream/1 chunk, 2 stream/3 chunks, 3 mixed
	// inject
	InjPos  int    `json:"inj_pos,omitempty"`  // the bad key is written after InjPos good keys
	InjKey  uint32 `json:"inj_key,omitempty"`  // the bad key (<= last good key)
	InjMode int    `json:"inj_mode,omitempty"` // 0 add, 1 stream/1 chunk, 2 stream/3 chunks
	// big: Assign[i] = value kind of bigKeys[i] (0 absent, 1 empty, 2 few bytes, 3 300 KiB, 4 1 MiB+3)
	// merge: Assign[i] = bitmask of the tables holding key i ; Tables = number of table slots
	// version: Assign[i] = option of file i = level | subset<<1 ; Universe = number of keys
	// flush: Assign[i] = option index of flush i
	Assign   []int `json:"assign,omitempty"`
	Tables   int   `json:"tables,omitempty"`
	Universe int   `json:"universe,omitempty"`
	Wide     bool  `json:"wide,omitempty"` // big: the single 18 x (1 MiB+3) case (4-byte offsets)
}

var denseName = []string{"none", "run", "evens"}
var valsName = []string{"empty", "1B", "few", "cyclic"}
var modeName = []string{"add", "stream1", "stream3", "mixed"}

// Class is the coarse, stable class of a case (identity of a finding).
func (c *Case) Class() string {
	switch c.Phase {
	case "table":
		return fmt.Sprintf("table dense=%s vals=%s mode=%s", denseName[c.Dense], valsName[c.Vals], modeName[c.Mode])
	case "inject":
		return fmt.Sprintf("inject dense=%s base=%s inj=%s", denseName[c.Dense], modeName[c.Mode], modeName[c.InjMode])
	case "big":
		return fmt.Sprintf("big mode=%s", modeName[c.Mode])
	case "width":
		return fmt.Sprintf("width value-size=%d mode=%s", widthSizes[c.Vals], modeName[c.Mode])
	case "merge":
		return fmt.Sprintf("merge tables<=%d", c.Tables)
	case "version":
		return fmt.Sprintf("version files=%d", len(c.Assign))
	case "flush":
		return fmt.Sprintf("flush flushes=%d", len(c.Assign))
	}
	return c.Phase
}

type harness struct {
	rep     *vevid.Report
	f       *vevid.Flags
	scratch string
	tcache  table.Cache // readers of the table/inject/big phases
	sampled map[string]bool
	merge   *mergeFixture
}

func (h *harness) viol(c *Case, clause, site, detail string) {
	h.violAs(c, c.Class(), clause, site, detail)
}

// sample keeps one written-out case per phase.
func (h *harness) sample(c *Case) {
	if h.sampled == nil {
		h.sampled = map[string]bool{}
	}
	if !h.sampled[c.Phase] {
		h.sampled[c.Phase] = true
		cp := *c
		cp.Assign = append([]int(nil), c.Assign...)
		h.rep.Sample(cp)
	}
}

// violAs reports under an explicit scenario class (one finding = one class).
func (h *harness) violAs(c *Case, scenario, clause, site, detail string) {
	cp := *c
	cp.Assign = append([]int(nil), c.Assign...)
	h.rep.Violate(vevid.Violation{Clause: clause, Scenario: scenario, Site: site, Detail: detail, Replay: cp})
}

func (h *harness) runCase(c *Case) {
	defer func() {
		if r := recover(); r != nil {
			h.viol(c, "panic", "lindb", fmt.Sprint(r))
		}
	}()
	h.rep.Evaluations++
	h.rep.Count("cases_"+c.Phase, 1)
	t0 := time.Now()
	defer func() { h.rep.Count("cpu_us_"+c.Phase, time.Since(t0).Microseconds()) }()
	switch c.Phase {
	case "table", "inject":
		h.runTable(c)
	case "big":
		h.runBig(c)
	case "width":
		h.runWidth(c)
	case "merge":
		h.runMerge(c)
	case "version":
		h.runVersion(c)
	case "flush":
		h.runFlush(c)
	default:
		vevid.Fatal("unknown phase %q", c.Phase)
	}
}

// forEachCase enumerates the whole space in a fixed order.
func forEachCase(thorough bool, f func(c *Case) bool) {
	if !enumTable(thorough, f) {
		return
	}
	if !enumInject(thorough, f) {
		return
	}
	if !enumBig(thorough, f) {
		return
	}
	if !enumWidth(thorough, f) {
		return
	}
	if !enumMerge(thorough, f) {
		return
	}
	if !enumVersion(thorough, f) {
		return
	}
	enumFlush(thorough, f)
}

func main() {
	f := vevid.ParseFlags()
	rep := vevid.New("C15")
	logger.RunningAtomicLevel.SetLevel(zapcore.ErrorLevel) // rejected keys are logged at warn level: thousands of lines
	registerMerger()
	h := &harness{rep: rep, f: f, scratch: f.Scratch}
	if err := os.MkdirAll(filepath.Join(h.scratch, "t"), 0o755); err != nil {
		vevid.Fatal("scratch: %v", err)
	}
	h.tcache = table.NewCache(h.scratch, time.Hour)
	defer h.cleanup()

	rep.Rule = "every case of six exhaustively enumerated spaces (see bounds): table builds over all 512 subsets of the key alphabet x dense part x value profile x writer mode; one rejected key at every position; big values; all assignments of keys to tables for the merged iterator; all placements of <=3 files in level 0/1 for version lookups; all sequences of <=3 flushes. non-trivial = the case holds >=2 entries that can collide (>=2 keys in a table, >=2 merged inputs, >=2 files, or an injected key); distinct = distinct case"
	rep.Bounds["key_alphabet"] = alphabet
	rep.Bounds["dense_parts"] = "none | run [100..4300] (4201 keys, run container) | evens 70000..79998 (5000 keys, bitmap container)"
	rep.Bounds["value_profiles"] = "all empty | all 1 byte | few bytes distinct per key | cyclic empty/1B/few by position; big phase adds 300 KiB and 1 MiB+3"
	rep.Bounds["writer_modes"] = "Add | StreamWriter 1 chunk | StreamWriter 3 chunks | mixed by position (fresh StreamWriter each time)"
	rep.Bounds["tier"] = f.Tier

	if f.Replay != "" {
		var c Case
		vevid.LoadReplay(f.Replay, &c)
		fails := 0
		for i := 0; i < 5; i++ {
			before := rep.ViolationCount
			h.runCase(&c)
			if rep.ViolationCount > before {
				fails++
			}
		}
		rep.Extra["replay_failures_of_5"] = fails
		rep.Write()
		return
	}

	var idx int64
	forEachCase(f.Thorough(), func(c *Case) bool {
		idx++
		if !f.Mine(idx) {
			return true
		}
		if idx%256 == 0 && f.Expired() {
			rep.Cap("deadline at case " + fmt.Sprint(idx) + " phase " + c.Phase)
			return false
		}
		h.runCase(c)
		return true
	})
	rep.Extra["enumerated_cases_all_shards"] = idx
	rep.Write()
}

func (h *harness) cleanup() {
	if h.merge != nil {
		h.merge.close()
	}
	_ = h.tcache.Close()
	_ = os.RemoveAll(filepath.Join(h.scratch, "t"))
}
