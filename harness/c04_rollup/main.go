// C04 - rollup writes the right aggregate into the right coarse slot, once.
//
// Bounded exhaustive enumeration on the real storage engine: a database with intervals {10s, 5m, 1h} (source = 10s,
// day-type families of one hour; targets = 5m month-type families of one day and 1h year-type families of one month),
// written through the real write path, flushed (meta -> index -> data), rolled up with Store.ForceRollup (the call the
// kv job scheduler makes) and read back file by file from the target families' kv snapshots with metricsdata.NewReader
// and the real load path. After EVERY step the target families are compared with a reference model that computes the
// target segment / family / slot of every source timestamp from the calendar.
package main

import (
	"fmt"
	"os"
	"path/filepath"
	"sort"
	"strings"

	"github.com/lindb/common/pkg/logger"
	"go.uber.org/zap/zapcore"

	"github.com/lindb/lindb/internal/vevid"
)

var debug = os.Getenv("C04_DEBUG") != ""

const rule = "every history of the enumeration families (see bounds) runs on a fresh real engine directory; the oracle is evaluated after every step. distinct = distinct (position, slot pattern, shape, step sequence); non-trivial = at least one rollup step processed a flushed source file that was not rolled up before"

func main() {
	f := vevid.ParseFlags()
	rep := vevid.New("C04")
	logger.RunningAtomicLevel.SetLevel(zapcore.FatalLevel)
	rep.Rule = rule
	part := f.Part
	if part == "" {
		part = "main"
	}
	rep.Bounds["tier"] = f.Tier
	rep.Bounds["intervals"] = "source 10s (day type: segment=day, family=hour, 360 slots); targets 5m (month type: segment=month, family=day, 288 slots, ratio 30) and 1h (year type: segment=year, family=month, <=744 slots, ratio 360); retention 36500d; TZ=UTC"
	rep.Bounds["steps"] = "F=write next batch+flush(meta,index,data)  w=write next batch unflushed  r=ForceRollup on every source store+wait  o=graceful engine close+open  c=Family.Compact on every source family (part h4 only)"
	rep.Bounds["batches"] = "k=0: position family, slot pattern; k=1: same family {pattern[0],1,358}; k=2: neighbour hour (previous hour for hour 0, else next hour: crosses day/month/year for the edge positions), slot pattern; k>=3 alternating, slots {k,359-k}"
	rep.Bounds["shapes"] = "full: m1{host=a: sum,min,max,last,first; host=b: sum,last} m2{host=b: sum,max}; one-sum: m1{host=a: sum}; values integers 1..9"
	if part == "conc" {
		rep.Rule = "stress, NOT exhaustive over schedules: every F step writes one batch into each of N source families (hours) of one day, the following ForceRollup starts N rollup goroutines that merge into the same 5m and 1h target families concurrently (this is what the kv job scheduler does for a source store); the same histories are repeated for several rounds on fresh engines; the sequential oracle is evaluated after every step; a Go runtime 'fatal error: concurrent map ...' of a lindb goroutine is reported by the driver as a process-crash violation. non-trivial = a rollup step with >=2 source families holding unrolled files"
		rep.Bounds["families"] = "rounds (40 quick / 200 thorough) x N in {24, 8, 2} x histories {Fr, FrFr, FFr} at day 2019-04-15, pattern edges, one sum series"
	} else if part == "crash" {
		rep.Rule = "every history runs on a fresh real engine directory with the oracle after every step; during every rollup step the directory tree is captured after every kv seam call and after every rollup job commit; every distinct image (states) is recovered by a fresh engine, rolled up again and compared with the model (transitions). distinct = distinct history; non-trivial = at least one recovered image had live target reference marks AND live source rollup marks (the kill hit between the two commits)"
		rep.Bounds["families"] = "all sequences over {F,r} of length <=4 (quick) / <=5 (thorough) with >=1 effective rollup x 2 (3) positions whose neighbour family lies in another source store (one active rollup goroutine at a time) x shapes; during every r step the directory tree is captured after every kv seam call (mkDir, encodeToml, listDir, remove, removeDir) and after every rollup job's commit in a target family; every distinct image is recovered by a fresh engine + rollup again"
	} else if part == "h4" {
		rep.Bounds["families"] = "all sequences over {F,c,r,o} (<=5 quick, <=6 thorough) in which a compaction of >=2 not yet rolled up level-0 files of one source family precedes a rollup x 2 positions x 2 shapes"
	} else {
		rep.Bounds["families"] = "positions: 45 positions (hour 0/11/23 x day 1/15/last x {2019-02 (28d), 2020-02 (29d), 2019-04 (30d), 2019-12, 2020-01}) x slot patterns (quick 6, thorough all 15 non-empty subsets of {0,29,30,359}) x shapes x core histories; sequences: all sequences over {F,w,r,o} of length <=4 (quick) / <=5 (thorough), pruned (starts with a write, no trailing unflushed write, no 'oo', >=1 rollup with a not yet rolled up flushed file) x 4 (6) positions x patterns {edges, s29-30}; wide: 65538 series (ids across 65536) x {Fr} (thorough: Fr, FFr, FrFr, Fror)"
	}
	if f.Replay != "" {
		var c Case
		vevid.LoadReplay(f.Replay, &c)
		for i := 0; i < 5; i++ {
			if c.Part == "crash" {
				runCrashCase(rep, f, &c)
			} else {
				runCase(rep, f, &c)
			}
		}
		rep.Write()
		return
	}
	var idx, total int64
	if part == "conc" && os.Getenv("C04_STRESS") == "" {
		vevid.Fatal("part conc is a schedule stress (not exhaustive) and is not a registered part: set C04_STRESS=1 to run it by hand")
	}
	forEachCase(part, f.Thorough(), func(c *Case) bool {
		idx++
		total++
		if !f.Mine(idx) {
			return true
		}
		if f.Expired() {
			rep.Cap(fmt.Sprintf("deadline at case %d", idx))
			return false
		}
		if part == "crash" {
			runCrashCase(rep, f, c)
		} else {
			runCase(rep, f, c)
		}
		return true
	})
	rep.Extra["cases_in_space"] = total
	rep.Write()
}

func posClass(c *Case) string { return c.Pos.class() }

// runCase executes one history and evaluates the oracle after every step.
func runCase(rep *vevid.Report, f *vevid.Flags, c *Case) {
	rep.Evaluations++
	prefix := ""
	if c.Part == "h4" {
		prefix = "h4/"
	}
	if c.Part == "conc" {
		prefix = "conc/"
	}
	scen := fmt.Sprintf("steps=%s %s", c.Steps, posClass(c))
	done := ""
	defer func() {
		if r := recover(); r != nil {
			rep.Violate(vevid.Violation{Clause: prefix + "panic", Scenario: scen, Site: "after " + done, Detail: fmt.Sprint(r), Replay: c})
		}
	}()
	w, err := newWorld(filepath.Join(f.Scratch, "eng"), c)
	if err != nil {
		vevid.OpFailed("open engine: %v", err)
	}
	defer w.close()
	nontrivial := false
	ok := true
	var lastObs *observation
	for i, st := range c.Steps {
		var err error
		wasRollup := false
		switch st {
		case 'F':
			n := 1
			if c.Conc > 0 {
				n = c.Conc
			}
			for j := 0; j < n && err == nil; j++ {
				err = w.writeBatch()
			}
			if err == nil {
				err = w.flush()
			}
		case 'w':
			err = w.writeBatch()
		case 'r':
			unrolled := 0
			for _, fm := range w.m.files {
				if !fm.Rolled {
					unrolled++
				}
			}
			err = w.rollup()
			wasRollup = true
			if unrolled > 0 {
				nontrivial = true
			}
		case 'o':
			err = w.reopen()
		case 'c':
			var n int
			n, err = w.compactSource()
			rep.Count("source_compactions", int64(n))
		default:
			vevid.Fatal("unknown step %q", st)
		}
		done = c.Steps[:i+1]
		if err != nil {
			rep.Violate(vevid.Violation{Clause: prefix + "step-error", Scenario: scen, Site: fmt.Sprintf("step %d (%c)", i+1, st),
				Detail: fmt.Sprintf("%s: step %d (%c) failed: %v", c, i+1, st, err), Replay: c})
			ok = false
			break
		}
		obs, err := w.observe()
		if err != nil {
			rep.Violate(vevid.Violation{Clause: prefix + "unreadable", Scenario: scen, Site: "after " + done,
				Detail: fmt.Sprintf("%s: after %s the families cannot be read back: %v", c, done, err), Replay: c})
			ok = false
			break
		}
		switch st {
		case 'F', 'o':
			if err := w.register(obs); err != nil {
				vevid.OpFailed("%s: after %s: %v", c, done, err)
			}
		case 'c':
			w.markKnown(obs)
		}
		lastObs = obs
		if debug {
			fmt.Fprintf(os.Stderr, "%s after %s: srcL0=%d srcL1=%d tgtfams=%d tgtfiles=%d cells=%d srcMarks=%v refMarks=%v modelFiles=%d\n", c, done, obs.srcL0, obs.srcL1, obs.tgtFams, obs.tgtFiles, len(obs.cells), obs.srcMarks, obs.refMarks, len(w.m.files))
		}
		if !check(rep, c, w, obs, prefix, scen, done, wasRollup) {
			ok = false
			break // later steps would only repeat the finding
		}
	}
	if nontrivial {
		rep.DistinctNontrivial++
	}
	if lastObs != nil {
		rep.Count("target_cells_compared", int64(len(lastObs.cells)))
		rep.Count("target_files_read", int64(lastObs.tgtFiles))
		rep.Count("versions_held_across_rollup_steps", int64(w.heldVersions))
		rep.Count("source_first_last_cells_differing_from_written_points", int64(w.firstLast))
		multi := 0
		for _, e := range w.m.expected() {
			if len(e.PerFile) > 1 {
				multi++
			}
		}
		rep.Count("target_cells_with_several_source_files", int64(multi))
		rep.Outcome(fmt.Sprintf("%s/%s srcfiles=%d(L0=%d,L1=%d) tgtfams=%d tgtfiles=%d multi=%v ok=%v", c.Part, c.Steps, len(w.m.files), lastObs.srcL0, lastObs.srcL1, lastObs.tgtFams, lastObs.tgtFiles, multi > 0, ok))
	}
	rep.Sample(c)
}

// check compares the observation with the model; returns false when a violation was recorded.
func check(rep *vevid.Report, c *Case, w *world, obs *observation, prefix, scen, done string, afterRollup bool) bool {
	good := true
	viol := func(clause, site, detail string) {
		good = false
		rep.Violate(vevid.Violation{Clause: prefix + clause, Scenario: scen, Site: site,
			Detail: fmt.Sprintf("%s: after %s: %s", c, done, detail), Replay: c})
	}
	exp := w.m.expected()
	keys := make([]tgtCell, 0, len(exp))
	for k := range exp {
		keys = append(keys, k)
	}
	sortCells(keys)
	describe := func(k tgtCell, e *expect) string {
		var parts []string
		var fids []int
		for id := range e.PerFile {
			fids = append(fids, id)
		}
		sort.Ints(fids)
		for _, id := range fids {
			var ts []string
			for _, t := range e.Slots[id] {
				ts = append(ts, fmtTS(t))
			}
			parts = append(parts, fmt.Sprintf("source file #%d (family %s) slots %s -> %v", id, fmtTS(w.m.files[id].FamStart), strings.Join(ts, ","), e.PerFile[id]))
		}
		return strings.Join(parts, "; ")
	}
	var missing, wrong, double []string
	var firstSite = map[string]string{}
	note := func(list *[]string, clause, site, s string) {
		*list = append(*list, s)
		if _, ok := firstSite[clause]; !ok {
			firstSite[clause] = site
		}
	}
	for _, k := range keys {
		e := exp[k]
		typ := w.m.ftype[k.Metric+"/"+k.Field]
		site := targetName(k.Target) + "/" + typ
		got, ok := obs.cells[k]
		if !ok {
			note(&missing, "target-cell-missing", site, fmt.Sprintf("%s holds no value; want the %s aggregate of %s", k, typ, describe(k, e)))
			continue
		}
		var per []float64
		var fids []int
		for id := range e.PerFile {
			fids = append(fids, id)
		}
		sort.Ints(fids)
		for _, id := range fids {
			per = append(per, e.PerFile[id])
		}
		switch typ {
		case "sum", "min", "max":
			want := combine(typ, per)
			have := combine(typ, got)
			if have != want {
				d := fmt.Sprintf("%s = %v (target files %v hold %s), want %s = %v: %s", k, have, obs.files[k], fmtFloats(got), typ, want, describe(k, e))
				if typ == "sum" && have > want {
					note(&double, "contributes-more-than-once", site, d)
				} else {
					note(&wrong, "aggregate-wrong", site, d)
				}
			}
		default: // first / last
			// one source file: the value is defined by time order. Several source files (arrival order vs time order is not
			// fixed by the statement): every stored value must be one of the per-file aggregates.
			cand := map[float64]bool{}
			for _, v := range per {
				cand[v] = true
			}
			for _, v := range got {
				if !cand[v] {
					note(&wrong, "aggregate-wrong", site, fmt.Sprintf("%s holds %s in target files %v, want %s (per source file: %s)", k, fmtFloats(got), obs.files[k], typ, describe(k, e)))
					break
				}
			}
			if len(got) > len(per) {
				note(&double, "contributes-more-than-once", site, fmt.Sprintf("%s is stored in %d target files %v but only %d source files contribute: %s", k, len(got), obs.files[k], len(per), describe(k, e)))
			}
		}
	}
	var extra []string
	var okeys []tgtCell
	for k := range obs.cells {
		if _, ok := exp[k]; !ok {
			okeys = append(okeys, k)
		}
	}
	sortCells(okeys)
	for _, k := range okeys {
		typ := w.m.ftype[k.Metric+"/"+k.Field]
		note(&extra, "target-cell-unexpected", targetName(k.Target)+"/"+typ, fmt.Sprintf("%s = %s (files %v) but no rolled-up source timestamp falls into this slot", k, fmtFloats(obs.cells[k]), obs.files[k]))
	}
	emit := func(clause string, list []string) {
		if len(list) == 0 {
			return
		}
		d := list[0]
		if len(list) > 1 {
			d += fmt.Sprintf(" (+%d more cells", len(list)-1)
			if len(list) > 1 {
				d += "; next: " + list[1]
			}
			d += ")"
		}
		viol(clause, firstSite[clause], d)
	}
	emit("target-cell-missing", missing)
	emit("target-cell-unexpected", extra)
	emit("contributes-more-than-once", double)
	emit("aggregate-wrong", wrong)
	if len(obs.unknown) > 0 {
		viol("target-block-foreign", "metricsdata block", fmt.Sprintf("%d: %s", len(obs.unknown), obs.unknown[0]))
	}
	if len(w.unstable) > 0 {
		viol("old-version-bookkeeping-stable", "version.Clone", fmt.Sprintf("%d held versions changed: %s", len(w.unstable), w.unstable[0]))
		w.unstable = nil
	}
	if afterRollup {
		if len(obs.srcMarks) > 0 {
			viol("rollup-marks-left", "version.GetRollupFiles", fmt.Sprintf("source rollup marks after a completed rollup: %v", obs.srcMarks))
		}
		if len(obs.refMarks) > 0 {
			viol("reference-marks-left", "version.GetAllReferenceFiles", fmt.Sprintf("target reference marks after a completed rollup: %v", obs.refMarks))
		}
	}
	return good
}

func sortCells(ks []tgtCell) {
	sort.Slice(ks, func(i, j int) bool {
		a, b := ks[i], ks[j]
		if a.Target != b.Target {
			return a.Target < b.Target
		}
		if a.Loc != b.Loc {
			if a.Loc.Segment != b.Loc.Segment {
				return a.Loc.Segment < b.Loc.Segment
			}
			if a.Loc.Family != b.Loc.Family {
				return a.Loc.Family < b.Loc.Family
			}
			return a.Loc.Slot < b.Loc.Slot
		}
		if a.Metric != b.Metric {
			return a.Metric < b.Metric
		}
		if a.Host != b.Host {
			return a.Host < b.Host
		}
		return a.Field < b.Field
	})
}
