package main

// Part "crash": "... also when the rollup is repeated after a restart". A restart in the middle of a rollup job is a
// process kill between the commit of the rolled-up output (with its reference marks) in a target family and the
// deletion of the source family's rollup marks. During every rollup step of a history the durable directory state is
// captured (a) after every kv file-system seam call and (b) right after every rollup job committed its output in a
// target family (kv.VerifOnCompactJobDone); after the history each distinct image is recovered by a fresh real engine,
// the rollup is triggered again and the target families must hold every flushed source file exactly once.

import (
	"fmt"
	"os"
	"path/filepath"
	"sort"
	"strings"
	"sync"

	"github.com/lindb/lindb/internal/vbox"
	"github.com/lindb/lindb/internal/vcrashfs"
	"github.com/lindb/lindb/internal/vevid"
	vos "github.com/lindb/lindb/internal/vos"
	"github.com/lindb/lindb/kv"
	"github.com/lindb/lindb/models"
)

type crashPoint struct {
	label string
	step  int // index of the rollup step inside the history
	im    *vcrashfs.Image
	files []*fileModel // model files flushed at that point (copies)
	fams  map[int64]bool
	nBat  int // batches written so far
	// image taken inside a flush step: the memory databases being flushed (model copies). After recovery each of them
	// is either a complete new source file (then it has to be rolled up like any other) or absent
	pending []*fileModel
}

type crashRecorder struct {
	mu     sync.Mutex
	root   string
	on     bool
	step   int
	w      *world
	points []*crashPoint
	seen   map[string]bool
	calls  int
	flush  bool // the step being recorded is a flush (only file-system operations below a segment directory count)
}

func skipLock(rel string) bool {
	return strings.HasSuffix(rel, "LOCK") || strings.Contains(rel, "/buffer/")
}

func (r *crashRecorder) at(label string) {
	r.mu.Lock()
	defer r.mu.Unlock()
	if !r.on {
		return
	}
	r.calls++
	im := vcrashfs.Snap(r.root, skipLock)
	h := fmt.Sprintf("%d/%s", r.step, im.Hash())
	if r.seen[h] {
		return
	}
	r.seen[h] = true
	cp := &crashPoint{label: label, step: r.step, im: im, fams: map[int64]bool{}, nBat: r.w.m.nBatch}
	for _, f := range r.w.m.files {
		c := *f
		cp.files = append(cp.files, &c)
	}
	for k := range r.w.m.fams {
		cp.fams[k] = true
	}
	if r.flush {
		var fams []int64
		for f, mm := range r.w.m.mem {
			if len(mm) > 0 {
				fams = append(fams, f)
			}
		}
		sort.Slice(fams, func(i, j int) bool { return fams[i] < fams[j] })
		for _, f := range fams {
			cells := map[srcCell]float64{}
			for c, v := range r.w.m.mem[f] {
				cells[c] = v
			}
			cp.pending = append(cp.pending, &fileModel{FamStart: f, Cells: cells})
		}
	}
	r.points = append(r.points, cp)
}

// install wraps the kv seams and the job observer; returns the restore function.
func (r *crashRecorder) install() func() {
	old := kv.VerifGetSeams()
	rel := func(p string) string {
		if x, err := filepath.Rel(r.root, p); err == nil {
			return x
		}
		return p
	}
	kv.VerifSetSeams(kv.VerifSeams{
		RemoveDir:  func(p string) error { e := old.RemoveDir(p); r.at("removeDir " + rel(p)); return e },
		Remove:     func(p string) error { e := old.Remove(p); r.at("remove " + rel(p)); return e },
		ListDir:    func(p string) ([]string, error) { l, e := old.ListDir(p); r.at("listDir " + rel(p)); return l, e },
		MkDir:      func(p string) error { e := old.MkDir(p); r.at("mkDir " + rel(p)); return e },
		EncodeToml: func(p string, v interface{}) error { e := old.EncodeToml(p, v); r.at("encodeToml " + rel(p)); return e },
	})
	// every os-level mutation of the kv packages (manifest appends and syncs, table writes, renames): during a flush
	// step only those below a segment directory (the data family stores; metadata and index stores are C09's subject)
	vos.Hook = func(op, path string) {
		if r.flush && !strings.Contains(path, "/segment/") {
			return
		}
		r.at("os." + op + " " + rel(path))
	}
	return func() { kv.VerifSetSeams(old); vos.Hook = nil }
}

// jobDone is installed as the world's job observer: crash point right after a rollup job's commit in a target family.
func (r *crashRecorder) jobDone(target kv.Family, isRollup bool, err error) {
	if isRollup {
		r.at(fmt.Sprintf("rollup job committed in target family %s (err=%v)", target.Name(), err))
	}
}

// runCrashCase runs the history (oracle after every step as in the main part), captures the crash points of its rollup
// steps and recovers each of them.
func runCrashCase(rep *vevid.Report, f *vevid.Flags, c *Case) {
	// kv family ids are per-store creation counters: every case runs a second time with an (empty) sibling hour of the
	// position's day created first, so that the history's source family is not family 1 of its store (the target families are)
	runCrashCaseWith(rep, f, c, false)
	runCrashCaseWith(rep, f, c, true)
}

func runCrashCaseWith(rep *vevid.Report, f *vevid.Flags, c *Case, siblingFirst bool) {
	rep.Evaluations++
	scen := fmt.Sprintf("steps=%s %s", c.Steps, posClass(c))
	dir := filepath.Join(f.Scratch, "eng")
	rec := &crashRecorder{root: dir, seen: map[string]bool{}}
	restore := rec.install()
	defer restore()
	done := ""
	defer func() {
		if r := recover(); r != nil {
			rep.Violate(vevid.Violation{Clause: "crash/panic", Scenario: scen, Site: "after " + done, Detail: fmt.Sprint(r), Replay: c})
		}
	}()
	w, err := newWorld(dir, c)
	if err != nil {
		vevid.OpFailed("open engine: %v", err)
	}
	rec.w = w
	w.jobObserver = rec.jobDone
	if siblingFirst {
		sib := c.Pos.start() + 3*msHour
		if c.Pos.H >= 21 {
			sib = c.Pos.start() - 3*msHour
		}
		if shard, ok := w.box.DB.GetShard(shardID); ok {
			if _, err := shard.GetOrCrateDataFamily(sib); err != nil {
				vevid.OpFailed("create family: %v", err)
			}
		}
	}
	okHistory := true
	for i, st := range c.Steps {
		var err error
		switch st {
		case 'F':
			if err = w.writeBatch(); err == nil {
				rec.mu.Lock()
				rec.on, rec.step, rec.flush = true, i, true
				rec.mu.Unlock()
				err = w.flush()
				rec.mu.Lock()
				rec.on, rec.flush = false, false
				rec.mu.Unlock()
			}
		case 'r':
			rec.mu.Lock()
			rec.on, rec.step = true, i
			rec.mu.Unlock()
			err = w.rollup()
			rec.mu.Lock()
			rec.on = false
			rec.mu.Unlock()
		default:
			vevid.Fatal("crash part: unknown step %q", st)
		}
		done = c.Steps[:i+1]
		if err != nil {
			rep.Violate(vevid.Violation{Clause: "crash/step-error", Scenario: scen, Site: fmt.Sprintf("step %d (%c)", i+1, st), Detail: fmt.Sprintf("%s: %v", c, err), Replay: c})
			okHistory = false
			break
		}
		obs, err := w.observe()
		if err != nil {
			rep.Violate(vevid.Violation{Clause: "crash/unreadable", Scenario: scen, Site: "after " + done, Detail: fmt.Sprintf("%s: %v", c, err), Replay: c})
			okHistory = false
			break
		}
		if st == 'F' {
			if err := w.register(obs); err != nil {
				vevid.OpFailed("%s: after %s: %v", c, done, err)
			}
		}
		if !check(rep, c, w, obs, "crash/live-", scen, done, st == 'r') {
			okHistory = false
			break
		}
	}
	shape := w.m.shape
	w.box.Close()
	w.box = nil
	restore()
	rep.Count("seam_and_job_calls_during_rollup", int64(rec.calls))
	rep.Count("crash_images", int64(len(rec.points)))
	if !okHistory {
		_ = os.RemoveAll(dir)
		return
	}
	nontrivial := false
	// every crash image is evaluated twice: reopen + rollup, and reopen + one more flush into the first source family
	// + rollup (the interrupted rollup's files then meet a new one in the same job)
	type variant struct {
		cp      *crashPoint
		flush   bool
		reverse bool // the repeated rollup visits the source families in descending order (a sibling family of the day first)
		sibling bool // a new file goes into ANOTHER hour of the position's day (same source store, same target families); that family is rolled up first, then everything
		twice   bool // the recovered node is closed and opened once more before the rollup is repeated (every open writes a new manifest snapshot)
	}
	var variants []variant
	for _, cp := range rec.points {
		if cp.pending != nil {
			// inside a flush: reopen + rollup, and reopen + one more flush + rollup
			variants = append(variants, variant{cp, false, false, false, false}, variant{cp, true, false, false, false})
			continue
		}
		variants = append(variants, variant{cp, false, false, false, false}, variant{cp, true, false, false, false}, variant{cp, true, false, true, false},
			variant{cp, false, false, false, true})
		if len(cp.fams) > 1 {
			variants = append(variants, variant{cp, false, true, false, false}, variant{cp, true, true, false, false})
		}
	}
	for _, vr := range variants {
		cp, withFlush := vr.cp, vr.flush
		rep.States++
		_ = os.RemoveAll(dir)
		if err := cp.im.Materialize(dir); err != nil {
			vevid.Fatal("materialize image: %v", err)
		}
		site := cp.label
		if i := strings.Index(site, " "); i > 0 && !strings.HasPrefix(site, "rollup job") {
			site = site[:i]
		} else if strings.HasPrefix(site, "rollup job") {
			site = "rollup job committed"
		}
		where := fmt.Sprintf("%s: crash during step %d (%c) of %s after [%s]", c, cp.step+1, c.Steps[cp.step], c.Steps, cp.label)
		b, err := vbox.Open(dir, dbName, dbOption(), []models.ShardID{shardID})
		if err == nil && vr.twice {
			// the first restart reads every family (segments and their kv stores open lazily; an opened store writes a
			// new manifest with a snapshot of what it recovered), then the node is stopped and started again
			tw := &world{dir: dir, box: b, c: c, known: map[string]bool{}, m: newModel(shape)}
			if _, oerr := tw.observe(); oerr != nil {
				rep.Violate(vevid.Violation{Clause: "crash/unreadable", Scenario: scen, Site: site, Detail: fmt.Sprintf("%s: recovered families cannot be read at the first restart: %v", where, oerr), Replay: c})
			}
			b.Close()
			b, err = vbox.Open(dir, dbName, dbOption(), []models.ShardID{shardID})
		}
		if err != nil {
			rep.Violate(vevid.Violation{Clause: "crash/recovery-failed", Scenario: scen, Site: site, Detail: fmt.Sprintf("%s: engine does not open: %v", where, err), Replay: c})
			continue
		}
		rw := &world{dir: dir, box: b, c: c, known: map[string]bool{}, m: newModel(shape)}
		rw.m.files = append([]*fileModel(nil), cp.files...)
		rw.m.fams = map[int64]bool{}
		for k := range cp.fams {
			rw.m.fams[k] = true
		}
		rw.m.nBatch = cp.nBat
		rw.reverse = vr.reverse
		tag := "reopen, rollup"
		if withFlush {
			tag = "reopen, flush, rollup"
		}
		if vr.reverse {
			tag += " (source families in descending order)"
		}
		if vr.twice {
			tag = "reopen, close, reopen, rollup"
		}
		if vr.sibling {
			tag = "reopen, flush into another hour of the day, rollup of that hour, rollup"
			// an hour of the position's day that is neither the position's nor its neighbour's
			sib := c.Pos.start() + 2*msHour
			if c.Pos.H >= 22 {
				sib = c.Pos.start() - 2*msHour
			}
			rw.forceFam = sib
		}
		func() {
			defer func() {
				if r := recover(); r != nil {
					rep.Violate(vevid.Violation{Clause: "crash/panic", Scenario: scen, Site: site, Detail: fmt.Sprintf("%s: %v", where, r), Replay: c})
				}
				rw.box.Close()
			}()
			// how much of the interrupted rollup is durable (for the outcome key and the non-triviality rule)
			pre, err := rw.observe()
			if err != nil {
				rep.Violate(vevid.Violation{Clause: "crash/unreadable", Scenario: scen, Site: site, Detail: fmt.Sprintf("%s: recovered families cannot be read: %v", where, err), Replay: c})
				return
			}
			half := len(pre.refMarks) > 0 && len(pre.srcMarks) > 0
			if half {
				nontrivial = true
			}
			if cp.pending != nil {
				// the interrupted flush: a memory database whose table is in the recovered family is a source file like
				// any other (complete, with its rollup marks: the repeated rollup has to carry it), the others are gone
				for _, fm := range rw.m.files {
					rw.known[fm.Real] = true
				}
				newIn := map[int64]int{}
				for _, sf := range pre.srcFiles {
					if !rw.known[sf.Key] {
						newIn[sf.FamStart]++
					}
				}
				for _, p := range cp.pending {
					if newIn[p.FamStart] > 0 {
						cells := map[srcCell]float64{}
						for c, v := range p.Cells {
							cells[c] = v
						}
						rw.predicted = append(rw.predicted, &fileModel{FamStart: p.FamStart, Cells: cells})
						rw.m.fams[p.FamStart] = true
						nontrivial = true
					}
				}
				if err := rw.register(pre); err != nil {
					rep.Violate(vevid.Violation{Clause: "crash/flush-not-atomic", Scenario: scen, Site: site, Detail: fmt.Sprintf("%s: %v", where, err), Replay: c})
					return
				}
			}
			if withFlush {
				// one more source file in the family of the first batch (odd batch numbers go there)
				rw.markKnown(pre)
				if rw.m.nBatch%2 == 0 {
					rw.m.nBatch++
				}
				if rw.m.nBatch < 3 {
					rw.m.nBatch = 3
				}
				err := rw.writeBatch()
				if err == nil {
					err = rw.flush()
				}
				if err != nil {
					rep.Violate(vevid.Violation{Clause: "crash/step-error", Scenario: scen, Site: site, Detail: fmt.Sprintf("%s: flush after recovery: %v", where, err), Replay: c})
					return
				}
				mid, err := rw.observe()
				if err != nil {
					rep.Violate(vevid.Violation{Clause: "crash/unreadable", Scenario: scen, Site: site, Detail: fmt.Sprintf("%s: families cannot be read after the flush that follows recovery: %v", where, err), Replay: c})
					return
				}
				if err := rw.register(mid); err != nil {
					rep.Violate(vevid.Violation{Clause: "crash/step-error", Scenario: scen, Site: site, Detail: fmt.Sprintf("%s: flush after recovery: %v", where, err), Replay: c})
					return
				}
			}
			if vr.sibling {
				rw.onlyFams = []int64{rw.forceFam}
				if err := rw.rollup(); err != nil {
					rep.Violate(vevid.Violation{Clause: "crash/step-error", Scenario: scen, Site: site, Detail: fmt.Sprintf("%s: rollup of the sibling hour after recovery: %v", where, err), Replay: c})
					return
				}
				rw.onlyFams = nil
			}
			if err := rw.rollup(); err != nil {
				rep.Violate(vevid.Violation{Clause: "crash/step-error", Scenario: scen, Site: site, Detail: fmt.Sprintf("%s: rollup after recovery: %v", where, err), Replay: c})
				return
			}
			obs, err := rw.observe()
			if err != nil {
				rep.Violate(vevid.Violation{Clause: "crash/unreadable", Scenario: scen, Site: site, Detail: fmt.Sprintf("%s: families cannot be read after the repeated rollup: %v", where, err), Replay: c})
				return
			}
			// reference marks may stay behind when the kill hit between the source commit and their cleanup: not checked here
			obs.refMarks = nil
			ok := check(rep, c, rw, obs, "crash/", scen, fmt.Sprintf("crash during step %d after [%s], %s", cp.step+1, cp.label, tag), true)
			rep.Outcome(fmt.Sprintf("crash/%s step=%d at=%s refs-and-marks-live=%v flush=%v tgtfiles=%d ok=%v", c.Steps, cp.step+1, site, half, withFlush, obs.tgtFiles, ok))
			rep.Transitions++
		}()
	}
	if nontrivial {
		rep.DistinctNontrivial++
	}
	_ = os.RemoveAll(dir)
	rep.Sample(c)
}
