package main

// The real engine side of a case: one engine directory per case (opened, reopened and closed inside this process;
// the storage config global is re-pointed only while no engine is open).

import (
	"fmt"
	"os"
	"reflect"
	"runtime"
	"sort"
	"sync"
	"time"

	"github.com/lindb/common/pkg/fasttime"

	"github.com/lindb/lindb/internal/vbox"
	"github.com/lindb/lindb/kv"
	"github.com/lindb/lindb/kv/table"
	"github.com/lindb/lindb/kv/version"
	"github.com/lindb/lindb/models"
	"github.com/lindb/lindb/pkg/option"
	"github.com/lindb/lindb/pkg/timeutil"
	"github.com/lindb/lindb/series/field"
)

const (
	dbName    = "c04"
	shardID   = models.ShardID(1)
	retention = timeutil.Interval(36500 * msDay)
)

func dbOption() *option.DatabaseOption {
	return &option.DatabaseOption{Intervals: option.Intervals{
		{Interval: timeutil.Interval(srcInterval), Retention: retention},
		{Interval: timeutil.Interval(5 * msMinute), Retention: retention},
		{Interval: timeutil.Interval(msHour), Retention: retention},
	}, AutoCreateNS: true}
}

type world struct {
	dir       string
	box       *vbox.Box
	m         *model
	c         *Case
	known     map[string]bool // real source files (segment/family/number) already accounted for
	predicted []*fileModel    // files the last flush event must have produced (not yet registered)
	firstLast int             // first/last values of a source file that differ from the written-point model (memory database semantics)

	jobObserver  func(target kv.Family, isRollup bool, err error) // additional observer of rollup job commits (part crash)
	unstable     []string                                         // old-version-bookkeeping-stable witnesses of the last rollup step
	heldVersions int
	reverse      bool    // roll the source families up in descending order of their family time (default ascending)
	onlyFams     []int64 // rollup visits only these source families
	forceFam     int64   // the next batch goes into this source family (0: the history's batch plan)
}

func newWorld(dir string, c *Case) (*world, error) {
	_ = os.RemoveAll(dir)
	b, err := vbox.Open(dir, dbName, dbOption(), []models.ShardID{shardID})
	if err != nil {
		return nil, err
	}
	return &world{dir: dir, box: b, m: newModel(shapes[c.Shape]), c: c, known: map[string]bool{}}, nil
}

func (w *world) close() {
	if w.box != nil {
		w.box.Close()
		w.box = nil
	}
	if os.Getenv("C04_KEEP") == "" {
		_ = os.RemoveAll(w.dir)
	}
}

// writeBatch writes the next batch into the engine and into the model.
func (w *world) writeBatch() error {
	// a memory database is keyed inside the shard's index by its creation time taken from a 5ms-tick clock
	// (fasttime.UnixNano): two memory databases created in the same tick share one time-range entry and the second one
	// to be flushed loses its data (write path, not this property). Own the timing: one tick between batches.
	for t0 := fasttime.UnixNano(); fasttime.UnixNano() == t0; {
		time.Sleep(time.Millisecond)
	}
	k := w.m.nBatch
	w.m.nBatch++
	fam, slots := batchPlan(w.c, k)
	if w.forceFam != 0 {
		fam, slots = w.forceFam, []int{k%100 + 2, 357 - k%100}
	}
	var pts []vbox.Point
	for si, s := range w.m.shape {
		for _, slot := range slots {
			ts := fam + int64(slot)*srcInterval + int64((slot*37+k)%10)*msSecond // anywhere inside the 10s slot
			for fi, f := range s.Fields {
				v := pointValue(k, si, fi, slot)
				pts = append(pts, vbox.Point{Namespace: namespace, Metric: s.Metric, Tags: map[string]string{"host": s.Host},
					Field: f.Name, Type: f.Type, Value: v, Timestamp: ts})
				w.m.write(fam, srcCell{s.Metric, s.Host, f.Name, fam + int64(slot)*srcInterval}, v)
			}
		}
	}
	return w.box.Write(shardID, pts)
}

func (w *world) allRange() timeutil.TimeRange {
	return timeutil.TimeRange{Start: 0, End: time.Date(2100, 1, 1, 0, 0, 0, 0, time.UTC).UnixMilli()}
}

// flush: meta -> index -> every data family (the storage node's order).
func (w *world) flush() error {
	if err := w.box.Flush(shardID, w.allRange()); err != nil {
		return err
	}
	w.predicted = append(w.predicted, w.m.flush()...)
	return nil
}

func idle(f kv.Family) error {
	for i := 0; kv.VerifFamilyRolluping(f); i++ {
		if i > 5_000_000 {
			return fmt.Errorf("family %s: background job flag never reset", f.Name())
		}
		runtime.Gosched()
		if i > 1000 {
			time.Sleep(20 * time.Microsecond)
		}
	}
	return nil
}

func (w *world) famTimes() []int64 {
	if w.onlyFams != nil {
		return w.onlyFams
	}
	var fts []int64
	for ft := range w.m.fams {
		fts = append(fts, ft)
	}
	sort.Slice(fts, func(i, j int) bool { return fts[i] < fts[j] })
	if w.reverse {
		for i, j := 0, len(fts)-1; i < j; i, j = i+1, j-1 {
			fts[i], fts[j] = fts[j], fts[i]
		}
	}
	return fts
}

// held is an open snapshot of a kv family together with the rollup bookkeeping it reported when it was taken.
type held struct {
	what   string
	snap   version.Snapshot
	rollup map[table.FileNumber][]timeutil.Interval
	refs   map[string]map[version.FamilyID][]table.FileNumber
}

func hold(what string, f kv.Family) *held {
	snap := f.GetSnapshot()
	v := snap.GetCurrent()
	return &held{what: what, snap: snap, rollup: v.GetRollupFiles(), refs: v.GetAllReferenceFiles()}
}

// rollup: ForceRollup on every source store that holds a written family + wait for the background jobs.
//
// Deterministic witness for "a version is an immutable snapshot of the rollup bookkeeping" (a rollup job reads the
// live reference marks of the target family's current version while another source family's job commits its own marks
// to a clone of it; shared inner maps = concurrent map iteration and write = process crash): snapshots of every source
// and target family are held across the step - the ones before the step and, through the job observer, the target
// version right after each rollup job committed its reference marks - and must report unchanged marks afterwards.
func (w *world) rollup() error {
	var mu sync.Mutex
	var helds []*held
	for _, iv := range append([]int64{srcInterval}, targetIntervals...) {
		fams, err := w.box.KVFamilies(shardID, timeutil.Interval(iv))
		if err != nil {
			return err
		}
		for _, kf := range fams {
			helds = append(helds, hold(fmt.Sprintf("%s family %s/%s before the rollup step", ivName(iv), kf.Segment, kf.Family), kf.F))
		}
	}
	kv.VerifOnCompactJobDone(func(target kv.Family, isRollup bool, err error) {
		if isRollup {
			h := hold(fmt.Sprintf("target family %s right after a rollup job committed (err=%v)", target.Name(), err), target)
			mu.Lock()
			helds = append(helds, h)
			mu.Unlock()
		}
		if w.jobObserver != nil {
			w.jobObserver(target, isRollup, err)
		}
	})
	err := w.box.Rollup(shardID, w.famTimes(), idle)
	kv.VerifOnCompactJobDone(nil)
	w.unstable = nil
	for _, h := range helds {
		v := h.snap.GetCurrent()
		if now := v.GetRollupFiles(); !reflect.DeepEqual(now, h.rollup) {
			w.unstable = append(w.unstable, fmt.Sprintf("%s: the held version reported rollup marks %v, after the step the SAME version reports %v", h.what, h.rollup, now))
		}
		if now := v.GetAllReferenceFiles(); !reflect.DeepEqual(now, h.refs) {
			w.unstable = append(w.unstable, fmt.Sprintf("%s: the held version reported reference marks %v, after the step the SAME version reports %v", h.what, h.refs, now))
		}
		h.snap.Close()
	}
	w.heldVersions += len(helds)
	if err != nil {
		return err
	}
	w.m.rollup()
	return nil
}

func ivName(iv int64) string {
	if iv == srcInterval {
		return "10s"
	}
	return targetName(iv)
}

// compactSource: Family.Compact() on every source kv family (hazard H4 scenario only) + wait.
func (w *world) compactSource() (int, error) {
	fams, err := w.box.KVFamilies(shardID, timeutil.Interval(srcInterval))
	if err != nil {
		return 0, err
	}
	n := 0
	for _, kf := range fams {
		snap := kf.F.GetSnapshot()
		l0 := snap.GetCurrent().NumberOfFilesInLevel(0)
		snap.Close()
		if l0 > 1 {
			n++
		}
		kf.F.Compact()
		kv.VerifFamilyWait(kf.F)
		if err := idle(kf.F); err != nil {
			return n, err
		}
	}
	return n, nil
}

// reopen: graceful engine close (flushes pending memory databases) and open on the same directory.
func (w *world) reopen() error {
	if err := w.box.Reopen(); err != nil {
		return err
	}
	w.predicted = append(w.predicted, w.m.flush()...)
	return nil
}

// ---------------------------------------------------------------------------------------------------------------
// observation

type ids struct {
	metric map[string]uint32              // metric name -> id
	field  map[string]map[string]field.ID // metric -> field name -> id
	ftype  map[string]map[field.ID]field.Type
}

func (w *world) loadIDs() (*ids, error) {
	out := &ids{metric: map[string]uint32{}, field: map[string]map[string]field.ID{}, ftype: map[string]map[field.ID]field.Type{}}
	meta := w.box.DB.MetaDB()
	for _, s := range w.m.shape {
		if _, ok := out.metric[s.Metric]; ok {
			continue
		}
		mid, err := meta.GetMetricID(namespace, s.Metric)
		if err != nil {
			return nil, fmt.Errorf("metric id of %s: %w", s.Metric, err)
		}
		sch, err := meta.GetSchema(mid)
		if err != nil {
			return nil, fmt.Errorf("schema of %s: %w", s.Metric, err)
		}
		out.metric[s.Metric] = uint32(mid)
		out.field[s.Metric] = map[string]field.ID{}
		out.ftype[s.Metric] = map[field.ID]field.Type{}
		for _, fm := range sch.Fields {
			out.field[s.Metric][string(fm.Name)] = fm.ID
			out.ftype[s.Metric][fm.ID] = fm.Type
		}
	}
	return out, nil
}

// observed value list (one per target file holding the cell) of every target cell; plus bookkeeping marks.
type observation struct {
	cells        map[tgtCell][]float64
	files        map[tgtCell][]string
	srcFiles     []*srcFile
	unknown      []string // cells that cannot be mapped to a written series / field
	srcMarks     []string // live rollup marks of source families
	refMarks     []string // live reference marks of target families
	tgtFiles     int
	tgtFams      int
	srcL0, srcL1 int
}

// srcFile is one real file of a source family with its decoded content.
type srcFile struct {
	Key      string // segment/family/file number
	FamStart int64
	Level    int
	raw      map[vbox.Cell]float64
	Cells    map[srcCell]float64
}

// famStartOf computes the start of the source family from its segment (yyyymmdd) and family (hour) names.
func famStartOf(segment, family string) (int64, error) {
	t, err := time.ParseInLocation("20060102", segment, time.UTC)
	if err != nil {
		return 0, err
	}
	var h int
	if _, err := fmt.Sscan(family, &h); err != nil || h < 0 || h > 23 {
		return 0, fmt.Errorf("source family name %q", family)
	}
	return t.UnixMilli() + int64(h)*msHour, nil
}

var fieldTypeName = map[field.Type]string{field.SumField: "sum", field.MinField: "min", field.MaxField: "max", field.LastField: "last", field.FirstField: "first"}

func (w *world) observe() (*observation, error) {
	idm, err := w.loadIDs()
	if err != nil {
		return nil, err
	}
	ob := &observation{cells: map[tgtCell][]float64{}, files: map[tgtCell][]string{}}
	// reverse maps
	metricName := map[uint32]string{}
	for n, id := range idm.metric {
		metricName[id] = n
	}
	hostsOf := map[string][]string{} // metric -> hosts in first-write order
	for _, s := range w.m.shape {
		hostsOf[s.Metric] = append(hostsOf[s.Metric], s.Host)
	}
	type rawCell struct {
		t    int64
		kf   vbox.KVFamily
		file string
		c    vbox.Cell
		v    float64
	}
	var raws []rawCell
	seriesIDs := map[string]map[uint32]bool{} // metric -> series ids seen anywhere (source and targets)

	// source families: marks + series ids
	srcFams, err := w.box.KVFamilies(shardID, timeutil.Interval(srcInterval))
	if err != nil {
		return nil, err
	}
	for _, kf := range srcFams {
		snap := kf.F.GetSnapshot()
		v := snap.GetCurrent()
		ob.srcL0 += v.NumberOfFilesInLevel(0)
		ob.srcL1 += v.NumberOfFilesInLevel(1)
		for fn, ivs := range v.GetRollupFiles() {
			ob.srcMarks = append(ob.srcMarks, fmt.Sprintf("%s/%s file %d -> %v", kf.Segment, kf.Family, fn, ivs))
		}
		snap.Close()
		fcs, err := vbox.DecodeFamily(kf.F)
		if err != nil {
			return nil, fmt.Errorf("decode source family %s/%s: %w", kf.Segment, kf.Family, err)
		}
		fs, err := famStartOf(kf.Segment, kf.Family)
		if err != nil {
			return nil, fmt.Errorf("source family %s/%s: %w", kf.Segment, kf.Family, err)
		}
		for _, fc := range fcs {
			ob.srcFiles = append(ob.srcFiles, &srcFile{Key: fmt.Sprintf("%s/%s/%d", kf.Segment, kf.Family, fc.File), FamStart: fs, Level: fc.Level, raw: fc.Cells})
			for c := range fc.Cells {
				mn := metricName[c.Metric]
				if seriesIDs[mn] == nil {
					seriesIDs[mn] = map[uint32]bool{}
				}
				seriesIDs[mn][c.Series] = true
			}
		}
	}
	sort.Strings(ob.srcMarks)
	for _, tiv := range targetIntervals {
		fams, err := w.box.KVFamilies(shardID, timeutil.Interval(tiv))
		if err != nil {
			return nil, err
		}
		for _, kf := range fams {
			ob.tgtFams++
			snap := kf.F.GetSnapshot()
			for store, byFam := range snap.GetCurrent().GetAllReferenceFiles() {
				for fid, fns := range byFam {
					ob.refMarks = append(ob.refMarks, fmt.Sprintf("%s %s/%s <- %s/family-id %d files %v", targetName(tiv), kf.Segment, kf.Family, store, fid, fns))
				}
			}
			snap.Close()
			fcs, err := vbox.DecodeFamily(kf.F)
			if err != nil {
				return nil, fmt.Errorf("decode %s family %s/%s: %w", targetName(tiv), kf.Segment, kf.Family, err)
			}
			for _, fc := range fcs {
				ob.tgtFiles++
				for c, v := range fc.Cells {
					raws = append(raws, rawCell{tiv, kf, fmt.Sprintf("%s/%s/%d", kf.Segment, kf.Family, fc.File), c, v})
					mn := metricName[c.Metric]
					if seriesIDs[mn] == nil {
						seriesIDs[mn] = map[uint32]bool{}
					}
					seriesIDs[mn][c.Series] = true
				}
				// field types of the rolled-up block = the schema's
				for mf, ft := range fc.FTypes {
					mn := metricName[mf[0]]
					if want, ok := idm.ftype[mn][field.ID(mf[1])]; !ok || want != ft {
						ob.unknown = append(ob.unknown, fmt.Sprintf("%s file %s/%s/%d: metric %d field id %d has type %v, schema says %v (known=%v)", targetName(tiv), kf.Segment, kf.Family, fc.File, mf[0], mf[1], ft, want, ok))
					}
				}
			}
		}
	}
	sort.Strings(ob.refMarks)
	// series id -> host: ids are allocated per metric in first-write order
	hostOf := map[string]map[uint32]string{}
	for mn, set := range seriesIDs {
		var sids []uint32
		for s := range set {
			sids = append(sids, s)
		}
		sort.Slice(sids, func(i, j int) bool { return sids[i] < sids[j] })
		hostOf[mn] = map[uint32]string{}
		for i, s := range sids {
			if i < len(hostsOf[mn]) {
				hostOf[mn][s] = hostsOf[mn][i]
			}
		}
	}
	names := func(c vbox.Cell) (mn, host, fname string, ok bool) {
		mn, ok1 := metricName[c.Metric]
		host, ok2 := hostOf[mn][c.Series]
		for n, id := range idm.field[mn] {
			if id == c.Field {
				fname = n
			}
		}
		return mn, host, fname, ok1 && ok2 && fname != ""
	}
	for _, sf := range ob.srcFiles {
		sf.Cells = map[srcCell]float64{}
		for c, v := range sf.raw {
			mn, host, fname, ok := names(c)
			if !ok {
				return nil, fmt.Errorf("source file %s: metric id %d series id %d field id %d is no written metric / series / field", sf.Key, c.Metric, c.Series, c.Field)
			}
			sf.Cells[srcCell{mn, host, fname, sf.FamStart + int64(c.Slot)*srcInterval}] = v
		}
	}
	for _, r := range raws {
		mn, host, fname, okn := names(r.c)
		ok, ok2 := okn, okn
		if !ok || !ok2 || fname == "" {
			ob.unknown = append(ob.unknown, fmt.Sprintf("%s file %s: metric id %d series id %d field id %d slot %d = %v is no written metric / series / field", targetName(r.t), r.file, r.c.Metric, r.c.Series, r.c.Field, r.c.Slot, r.v))
			continue
		}
		k := tgtCell{r.t, loc{r.kf.Segment, r.kf.Family, int(r.c.Slot)}, mn, host, fname}
		ob.cells[k] = append(ob.cells[k], r.v)
		ob.files[k] = append(ob.files[k], r.file)
	}
	sort.Strings(ob.unknown)
	return ob, nil
}

// register accounts for the real source files a flush event (F / o) produced: every predicted file must exist as one new
// real file of its family; the real file's decoded content becomes the reference content of the model file (the property
// speaks about the slots of source FILES). Differences to the written points are a broken harness assumption, except
// first/last values of one slot written twice into one memory database (counted, see report).
func (w *world) register(ob *observation) error {
	newOf := map[int64][]*srcFile{}
	for _, sf := range ob.srcFiles {
		if !w.known[sf.Key] {
			newOf[sf.FamStart] = append(newOf[sf.FamStart], sf)
		}
	}
	for _, p := range w.predicted {
		cand := newOf[p.FamStart]
		if len(cand) != 1 {
			return fmt.Errorf("flush of source family %s: %d new files in the family, want 1 (flush lost or split the memory database)", fmtTS(p.FamStart), len(cand))
		}
		sf := cand[0]
		delete(newOf, p.FamStart)
		if len(sf.Cells) != len(p.Cells) {
			return fmt.Errorf("source file %s holds %d cells, %d were written", sf.Key, len(sf.Cells), len(p.Cells))
		}
		for c, v := range p.Cells {
			got, ok := sf.Cells[c]
			if !ok {
				return fmt.Errorf("source file %s: written cell %v missing", sf.Key, c)
			}
			if got != v {
				typ := w.m.ftype[c.Metric+"/"+c.Field]
				if typ == "first" || typ == "last" {
					w.firstLast++
					continue
				}
				return fmt.Errorf("source file %s: cell %v = %v, written %v", sf.Key, c, got, v)
			}
		}
		p.ID = len(w.m.files)
		p.Real = sf.Key
		p.Cells = sf.Cells
		w.m.files = append(w.m.files, p)
		w.known[sf.Key] = true
	}
	w.predicted = nil
	for fs, l := range newOf {
		if len(l) > 0 {
			return fmt.Errorf("unexpected new source file %s in family %s", l[0].Key, fmtTS(fs))
		}
	}
	return nil
}

// markKnown accounts for files created by a source compaction (no new model file: the content is the same).
func (w *world) markKnown(ob *observation) {
	for _, sf := range ob.srcFiles {
		w.known[sf.Key] = true
	}
}
