package main

import (
	"fmt"
	"strings"
)

// Case is one enumerated history.
//
// Steps alphabet:
//
//	F  write the next batch, then flush (meta -> index -> every data family)
//	w  write the next batch without flushing (stays in the memory database until the next F / o)
//	r  rollup: Store.ForceRollup on every source store + wait for the background jobs
//	o  reopen: graceful engine close (flushes pending memory databases) + open on the same directory
//	c  (part h4 only) Family.Compact() on every source kv family + wait
type Case struct {
	Part  string   `json:"part"`
	Fam   string   `json:"family"` // enumeration family: positions | sequences | h4
	Pos   Position `json:"pos"`
	Slots string   `json:"slots"`
	Shape string   `json:"shape"`
	Steps string   `json:"steps"`
	Conc  int      `json:"conc,omitempty"` // part conc: number of source families (hours of one day) written by every F step
	Round int      `json:"round,omitempty"`
}

func (c *Case) String() string {
	return fmt.Sprintf("%s pos=%s slots=%s shape=%s steps=%s", c.Part, c.Pos, c.Slots, c.Shape, c.Steps)
}

// positions: hour 0 / 11 / 23 of day 1 / 15 / last of months with 28, 29, 30 and 31 days, December and the following
// January (the 1h target changes its segment between them).
func positions() []Position {
	var out []Position
	for _, ym := range [][2]int{{2019, 2}, {2020, 2}, {2019, 4}, {2019, 12}, {2020, 1}} {
		for _, d := range []int{1, 15, daysIn(ym[0], ym[1])} {
			for _, h := range []int{0, 11, 23} {
				out = append(out, Position{ym[0], ym[1], d, h})
			}
		}
	}
	return out
}

// positions of the sequence sweep
func seqPositions(thorough bool) []Position {
	out := []Position{{2019, 4, 15, 11}, {2019, 12, 31, 23}, {2020, 2, 29, 0}, {2020, 1, 1, 0}}
	if thorough {
		out = append(out, Position{2019, 2, 28, 23}, Position{2019, 4, 30, 23})
	}
	return out
}

// core histories of the position sweep
var coreSteps = []string{"Fr", "FrFr", "FFr", "FFFr", "Frr", "Foro"}
var coreStepsThorough = []string{"Fr", "FrFr", "FFr", "FFFr", "Frr", "Foro", "FrFFr", "FroFr", "wwFr", "FFFFr"}

// sequences over the alphabet of length <= maxLen, pruned: starts with a write, does not end with an unflushed write,
// contains at least one rollup issued while a flushed source file is not rolled up yet.
func sequences(alphabet string, maxLen int, needCompact bool) []string {
	var out []string
	var rec func(prefix string)
	rec = func(prefix string) {
		if len(prefix) > 0 && validSeq(prefix, needCompact) {
			out = append(out, prefix)
		}
		if len(prefix) == maxLen {
			return
		}
		for _, a := range alphabet {
			rec(prefix + string(a))
		}
	}
	rec("")
	return out
}

func validSeq(s string, needCompact bool) bool {
	if s[0] != 'F' && s[0] != 'w' {
		return false
	}
	if strings.HasSuffix(s, "w") {
		return false
	}
	// (two restarts in a row are not the same as one: the first one makes every kv store write a manifest snapshot,
	// the second one recovers from that snapshot - part h4 keeps them, three in a row add nothing)
	if (strings.Contains(s, "oo") && !needCompact) || strings.Contains(s, "ooo") || strings.Contains(s, "cc") {
		return false
	}
	pendingMem, unrolled, useful := 0, 0, false
	posFamL0Marked := 0 // flushed, not yet rolled files in the position family (batches 0 and 1 go there)
	compacted := false
	batch := 0
	for _, st := range s {
		switch st {
		case 'F':
			unrolled += pendingMem + 1
			pendingMem = 0
			if batch <= 1 || batch%2 == 1 {
				posFamL0Marked++
			}
			batch++
		case 'w':
			pendingMem++
			batch++
		case 'o':
			unrolled += pendingMem
			pendingMem = 0
		case 'c':
			if posFamL0Marked >= 2 {
				compacted = true
			}
		case 'r':
			if unrolled > 0 {
				if !needCompact || compacted {
					useful = true
				}
			}
			unrolled = 0
			posFamL0Marked = 0
			compacted = false
		}
	}
	return useful
}

// forEachCase enumerates the part's cases in a fixed order.
func forEachCase(part string, thorough bool, f func(c *Case) bool) {
	switch part {
	case "h4":
		maxLen := 5
		pos := []Position{{2019, 4, 15, 11}, {2019, 12, 31, 23}}
		if thorough {
			maxLen = 6
		}
		seqs := sequences("Fcro", maxLen, true)
		if !thorough {
			// length 6-7, curated: a compacted source family, then two restarts before the first / a later rollup
			seqs = append(seqs, "FFcoor", "FFcooFr", "FFcFoor", "FFcoorFr")
		}
		for _, steps := range seqs {
			for _, p := range pos {
				for _, shape := range []string{"full", "one-sum"} {
					if !f(&Case{Part: part, Fam: "h4", Pos: p, Slots: "edges", Shape: shape, Steps: steps}) {
						return
					}
				}
			}
		}
	case "conc":
		rounds := 40
		if thorough {
			rounds = 200
		}
		for round := 0; round < rounds; round++ {
			for _, n := range []int{24, 8, 2} {
				for _, steps := range []string{"Fr", "FrFr", "FFr"} {
					if !f(&Case{Part: part, Fam: "conc", Pos: Position{2019, 4, 15, 0}, Slots: "edges", Shape: "one-sum", Steps: steps, Conc: n, Round: round}) {
						return
					}
				}
			}
		}
	case "crash":
		maxLen := 4
		pos := []Position{{2019, 12, 31, 23}, {2020, 2, 29, 0}}
		if thorough {
			maxLen = 5
			pos = append(pos, Position{2019, 4, 30, 23})
		}
		for _, steps := range sequences("Fr", maxLen, false) {
			for _, p := range pos {
				for _, shape := range []string{"full", "one-sum"} {
					if shape != "full" && !thorough {
						continue
					}
					if !f(&Case{Part: part, Fam: "crash", Pos: p, Slots: "edges", Shape: shape, Steps: steps}) {
						return
					}
				}
			}
		}
	default:
		// (A) position sweep
		pats, core := quickPatterns, coreSteps
		if thorough {
			pats, core = allPatterns, coreStepsThorough
		}
		for _, p := range positions() {
			for _, pat := range pats {
				for _, shape := range []string{"full", "one-sum"} {
					for _, steps := range core {
						if shape == "one-sum" && !thorough && steps != "FrFr" && steps != "Frr" {
							continue
						}
						if !f(&Case{Part: part, Fam: "positions", Pos: p, Slots: pat, Shape: shape, Steps: steps}) {
							return
						}
					}
				}
			}
		}
		// (C) wide shape: series ids across the 65536 boundary
		wideSteps := []string{"Fr"}
		if thorough {
			wideSteps = []string{"Fr", "FFr", "FrFr", "Fror"}
		}
		for _, steps := range wideSteps {
			if !f(&Case{Part: part, Fam: "wide", Pos: Position{2019, 12, 31, 23}, Slots: "s29-30", Shape: "wide", Steps: steps}) {
				return
			}
		}
		// (B) sequence sweep
		maxLen := 4
		if thorough {
			maxLen = 5
		}
		for _, steps := range sequences("Fwro", maxLen, false) {
			for _, p := range seqPositions(thorough) {
				for _, pat := range []string{"edges", "s29-30"} {
					if !f(&Case{Part: part, Fam: "sequences", Pos: p, Slots: pat, Shape: "full", Steps: steps}) {
						return
					}
				}
			}
		}
	}
}
