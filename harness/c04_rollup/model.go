package main

// Reference model of C04: which source values exist in which flushed source file, which of these files have been
// rolled up, and - computed from the calendar, not from lindb's IntervalCalculator - into which (segment, family,
// slot) of the coarse interval each source timestamp falls.

import (
	"fmt"
	"sort"
	"strings"
	"time"
)

const (
	msSecond = int64(1000)
	msMinute = 60 * msSecond
	msHour   = 60 * msMinute
	msDay    = 24 * msHour

	srcInterval = 10 * msSecond
	namespace   = "ns1"
)

// targets of the database option {10s, 5m, 1h}
var targetIntervals = []int64{5 * msMinute, msHour}

func targetName(iv int64) string {
	if iv == 5*msMinute {
		return "5m"
	}
	return "1h"
}

// Position = the hour (source family) the first batches are written into.
type Position struct {
	Y, M, D, H int
}

func (p Position) String() string { return fmt.Sprintf("%04d-%02d-%02d_%02dh", p.Y, p.M, p.D, p.H) }

func (p Position) start() int64 {
	return time.Date(p.Y, time.Month(p.M), p.D, p.H, 0, 0, 0, time.UTC).UnixMilli()
}

func daysIn(y, m int) int { return time.Date(y, time.Month(m)+1, 0, 0, 0, 0, 0, time.UTC).Day() }

// class of a position: where the source family sits inside the two target families.
func (p Position) class() string {
	h := map[int]string{0: "first", 11: "middle", 23: "last"}[p.H]
	if h == "" {
		h = "inner"
	}
	d := "middle"
	switch {
	case p.D == 1:
		d = "first"
	case p.D == daysIn(p.Y, p.M):
		d = "last"
	}
	return fmt.Sprintf("hour-%s-of-day/day-%s-of-%dd-month", h, d, daysIn(p.Y, p.M))
}

// neighbour family of a position: the previous hour for hour 0 (crosses the day / month / year boundary downwards),
// otherwise the next hour (crosses it upwards for hour 23).
func (p Position) neighbourStart() int64 {
	if p.H == 0 {
		return p.start() - msHour
	}
	return p.start() + msHour
}

// target location of a timestamp, from the calendar (UTC).
type loc struct {
	Segment string
	Family  string
	Slot    int
}

func refLoc(target int64, ts int64) loc {
	t := time.UnixMilli(ts).UTC()
	if target == 5*msMinute {
		// month-type interval: one segment per month, one family per day, slot = 5-minute bucket of the day
		return loc{fmt.Sprintf("%04d%02d", t.Year(), int(t.Month())), fmt.Sprint(t.Day()), (t.Hour()*60 + t.Minute()) / 5}
	}
	// year-type interval: one segment per year, one family per month, slot = hour of the month
	return loc{fmt.Sprintf("%04d", t.Year()), fmt.Sprint(int(t.Month())), (t.Day()-1)*24 + t.Hour()}
}

// ---------------------------------------------------------------------------------------------------------------
// data shapes

type fieldDef struct {
	Name string
	Type string // sum | min | max | last | first
}

type seriesDef struct {
	Metric string
	Host   string
	Fields []fieldDef
}

var allFields = []fieldDef{{"fsum", "sum"}, {"fmin", "min"}, {"fmax", "max"}, {"flast", "last"}, {"ffirst", "first"}}

// shapes: series are listed in first-write order (series ids are allocated in this order per metric).
var shapes = map[string][]seriesDef{
	"one-sum": {{"m1", "a", []fieldDef{{"fsum", "sum"}}}},
	"full": {
		{"m1", "a", allFields},
		{"m1", "b", []fieldDef{{"fsum", "sum"}, {"flast", "last"}}},
		{"m2", "b", []fieldDef{{"fsum", "sum"}, {"fmax", "max"}}},
	},
}

// shape "wide": 65538 series of one metric with one sum field: the series ids cross the 65535/65536 boundary, the
// rolled-up block spans two roaring containers (merger loops over high keys).
const wideSeries = 65538

func init() {
	w := make([]seriesDef, 0, wideSeries)
	for i := 0; i < wideSeries; i++ {
		w = append(w, seriesDef{"mw", fmt.Sprintf("h%05d", i), []fieldDef{{"fsum", "sum"}}})
	}
	shapes["wide"] = w
}

// slot patterns inside the source family (360 slots of 10s; ratio 30 for 5m, 360 for 1h)
var slotPatterns = map[string][]int{
	"s0":         {0},
	"s29":        {29},
	"s30":        {30},
	"s359":       {359},
	"edges":      {0, 29, 30, 359},
	"s29-30":     {29, 30},
	"s0-29":      {0, 29},
	"s0-359":     {0, 359},
	"s30-359":    {30, 359},
	"s0-30":      {0, 30},
	"s29-359":    {29, 359},
	"s0-29-30":   {0, 29, 30},
	"s0-29-359":  {0, 29, 359},
	"s0-30-359":  {0, 30, 359},
	"s29-30-359": {29, 30, 359},
}

var quickPatterns = []string{"s0", "s29", "s30", "s359", "s29-30", "edges"}
var allPatterns = []string{"s0", "s29", "s30", "s359", "s0-29", "s0-30", "s0-359", "s29-30", "s29-359", "s30-359", "s0-29-30", "s0-29-359", "s0-30-359", "s29-30-359", "edges"}

// batchPlan: which family and which slots batch k writes.
//
//	k=0: position family, pattern
//	k=1: position family again: the pattern's first slot (same source slot in a second file), slot 1 and slot 358
//	     (other source slots of the first / last 5m target slot, same 1h target slot)
//	k=2: neighbour family, pattern
//	k>=3: alternating position / neighbour family, slots {k, 359-k}
func batchPlan(c *Case, k int) (famStart int64, slots []int) {
	pat := slotPatterns[c.Slots]
	if c.Conc > 0 {
		// part conc: every F step writes one batch into each of the first Conc hours of the position's day
		day := c.Pos.start() - int64(c.Pos.H)*msHour
		round := k / c.Conc
		if round == 0 {
			return day + int64(k%c.Conc)*msHour, pat
		}
		return day + int64(k%c.Conc)*msHour, uniq([]int{pat[0], round, 359 - round})
	}
	switch {
	case k == 0:
		return c.Pos.start(), pat
	case k == 1:
		return c.Pos.start(), uniq([]int{pat[0], 1, 358})
	case k == 2:
		return c.Pos.neighbourStart(), pat
	case k%2 == 1:
		return c.Pos.start(), []int{k, 359 - k}
	default:
		return c.Pos.neighbourStart(), []int{k, 359 - k}
	}
}

func uniq(xs []int) []int {
	seen := map[int]bool{}
	var out []int
	for _, x := range xs {
		if !seen[x] {
			seen[x] = true
			out = append(out, x)
		}
	}
	sort.Ints(out)
	return out
}

// value of one written point: small integers, different between batches, series, fields and neighbouring slots
func pointValue(batch, seriesIdx, fieldIdx, slot int) float64 {
	return float64((3*batch+5*seriesIdx+2*fieldIdx+slot%7+slot/30)%9 + 1)
}

// ---------------------------------------------------------------------------------------------------------------
// model state

// srcCell identifies one value of a source file / memory database.
type srcCell struct {
	Metric, Host, Field string
	TS                  int64
}

type fileModel struct {
	ID       int    // flush order
	FamStart int64  // source family
	Real     string // segment/family/file number of the real source file
	Cells    map[srcCell]float64
	Rolled   bool
}

type model struct {
	shape  []seriesDef
	ftype  map[string]string             // metric/field -> type
	mem    map[int64]map[srcCell]float64 // pending (unflushed) data per source family
	files  []*fileModel
	fams   map[int64]bool // source families ever written
	nBatch int
}

func newModel(shape []seriesDef) *model {
	m := &model{shape: shape, ftype: map[string]string{}, mem: map[int64]map[srcCell]float64{}, fams: map[int64]bool{}}
	for _, s := range shape {
		for _, f := range s.Fields {
			m.ftype[s.Metric+"/"+f.Name] = f.Type
		}
	}
	return m
}

func aggregate(typ string, old, v float64) float64 {
	switch typ {
	case "sum":
		return old + v
	case "min":
		if v < old {
			return v
		}
		return old
	case "max":
		if v > old {
			return v
		}
		return old
	case "last":
		return v
	case "first":
		return old
	}
	panic("unknown field type " + typ)
}

// write applies one point to the pending memory database (same slot twice: field-type aggregate in arrival order).
func (m *model) write(fam int64, c srcCell, v float64) {
	mm := m.mem[fam]
	if mm == nil {
		mm = map[srcCell]float64{}
		m.mem[fam] = mm
	}
	if old, ok := mm[c]; ok {
		mm[c] = aggregate(m.ftype[c.Metric+"/"+c.Field], old, v)
	} else {
		mm[c] = v
	}
	m.fams[fam] = true
}

// flush turns every non-empty pending memory database into one predicted source file (ascending family time); the
// caller registers the real files (world.register) with the content read back from the source family.
func (m *model) flush() []*fileModel {
	var fams []int64
	for f, mm := range m.mem {
		if len(mm) > 0 {
			fams = append(fams, f)
		}
	}
	sort.Slice(fams, func(i, j int) bool { return fams[i] < fams[j] })
	var out []*fileModel
	for _, f := range fams {
		out = append(out, &fileModel{FamStart: f, Cells: m.mem[f]})
		delete(m.mem, f)
	}
	return out
}

func (m *model) rollup() (n int) {
	for _, f := range m.files {
		if !f.Rolled {
			f.Rolled = true
			n++
		}
	}
	return n
}

// tgtCell identifies one value of the coarse interval.
type tgtCell struct {
	Target int64
	Loc    loc
	Metric string
	Host   string
	Field  string
}

func (t tgtCell) String() string {
	return fmt.Sprintf("%s segment=%s family=%s slot=%d %s{host=%s}.%s", targetName(t.Target), t.Loc.Segment, t.Loc.Family, t.Loc.Slot, t.Metric, t.Host, t.Field)
}

// expectation for one target cell: per contributing source file the field-type aggregate (in time order) of the file's
// source slots inside the target slot.
type expect struct {
	PerFile map[int]float64
	Slots   map[int][]int64 // file -> contributing source timestamps
}

func (m *model) expected() map[tgtCell]*expect {
	out := map[tgtCell]*expect{}
	for _, f := range m.files {
		if !f.Rolled {
			continue
		}
		cells := make([]srcCell, 0, len(f.Cells))
		for c := range f.Cells {
			cells = append(cells, c)
		}
		sort.Slice(cells, func(i, j int) bool { return cells[i].TS < cells[j].TS }) // time order inside the file
		for _, c := range cells {
			v := f.Cells[c]
			for _, tiv := range targetIntervals {
				k := tgtCell{tiv, refLoc(tiv, c.TS), c.Metric, c.Host, c.Field}
				e := out[k]
				if e == nil {
					e = &expect{PerFile: map[int]float64{}, Slots: map[int][]int64{}}
					out[k] = e
				}
				if old, ok := e.PerFile[f.ID]; ok {
					e.PerFile[f.ID] = aggregate(m.ftype[c.Metric+"/"+c.Field], old, v)
				} else {
					e.PerFile[f.ID] = v
				}
				e.Slots[f.ID] = append(e.Slots[f.ID], c.TS)
			}
		}
	}
	return out
}

// combine the per-file aggregates of sum / min / max fields (order-independent).
func combine(typ string, vs []float64) float64 {
	acc := vs[0]
	for _, v := range vs[1:] {
		acc = aggregate(typ, acc, v)
	}
	return acc
}

func fmtTS(ts int64) string { return time.UnixMilli(ts).UTC().Format("2006-01-02T15:04:05") }

func fmtFloats(vs []float64) string {
	var s []string
	for _, v := range vs {
		s = append(s, fmt.Sprint(v))
	}
	return "[" + strings.Join(s, " ") + "]"
}
