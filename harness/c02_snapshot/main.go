// C02 harness: readers holding snapshots of a kv family run concurrently with a flush commit, a level-0
// compaction (its background goroutine becomes a controlled thread), the store's periodic job (reader
// cache cleanup) and obsolete-file deletion. kv, kv/version, kv/table are rebuilt with scheduling
// shims for sync / go.uber.org/atomic; every interleaving within the preemption bound is executed on
// the real code with real files.
package main

import (
	"errors"
	"fmt"
	"os"
	"path/filepath"
	"sort"
	"strings"
	"time"

	"github.com/lindb/common/pkg/ltoml"

	"github.com/lindb/lindb/internal/vevid"
	"github.com/lindb/lindb/internal/vsched"
	"github.com/lindb/lindb/kv"
	"github.com/lindb/lindb/kv/table"
	"github.com/lindb/lindb/kv/version"
)

const (
	k1 = uint32(10)
	k2 = uint32(70000)
)

// --- merger: concatenates the letters of all values (sorted), so compaction preserves the letter multiset
type catMerger struct{ f kv.Flusher }

func (m *catMerger) Init(map[string]interface{}) {}
func (m *catMerger) Merge(key uint32, values [][]byte) error {
	var all []byte
	for _, v := range values {
		all = append(all, v...)
	}
	sort.Slice(all, func(i, j int) bool { return all[i] < all[j] })
	return m.f.Add(key, all)
}

// --- per-execution world
type world struct {
	dir        string
	store      kv.Store
	fam        kv.Family
	clock      int
	readers    []*wReader
	openSnap   map[int]map[table.FileNumber]bool // harness-held open snapshots -> files of their version
	nextSnap   int
	viol       []vio
	wStart     int // logical time Commit was called (0 = not yet)
	wEnd       int // logical time Commit returned
	wOK        bool
	outcome    []string
	extra      map[uint32]string // keys other than k1 whose flush commit returned success -> value
	failThread int               // the thread whose opens count
	failOpen   int               // > 0: the table open that brings it to 0 fails once (a transient fault: too many open files, ENOMEM)
}

type vio struct{ clause, site, detail string }

var w *world

func (x *world) tick() int { x.clock++; return x.clock }
func (x *world) violate(clause, site, detail string) {
	x.viol = append(x.viol, vio{clause, site, detail})
	vsched.Logf("VIOL %s %s %s", clause, site, detail)
}

// --- reader wrapper: Close only marks (the real unmap is deferred to teardown, so a use-after-close is
// observed logically instead of crashing the process)
type wReader struct {
	table.Reader
	closed bool
	name   string
}

func (r *wReader) Get(key uint32) ([]byte, error) {
	if r.closed {
		w.violate("use-after-close", "table.Reader.Get", "Get on reader of "+r.name+" after the cache closed it")
		return nil, errors.New("reader closed")
	}
	v, err := r.Reader.Get(key)
	if err == nil {
		v = append([]byte(nil), v...)
	}
	return v, err
}
func (r *wReader) Iterator() table.Iterator {
	if r.closed {
		w.violate("use-after-close", "table.Reader.Iterator", "Iterator on reader of "+r.name+" after the cache closed it")
	}
	return &wIter{Iterator: r.Reader.Iterator(), r: r}
}
func (r *wReader) Close() error {
	if r.closed {
		w.violate("double-close", "table.Reader.Close", r.name)
	}
	r.closed = true
	vsched.Logf("close reader %s", r.name)
	return nil
}

type wIter struct {
	table.Iterator
	r    *wReader
	dead bool
}

func (it *wIter) HasNext() bool {
	if it.r.closed && !it.dead {
		it.dead = true
		w.violate("use-after-close", "table.Iterator.HasNext", "iteration over "+it.r.name+" after the cache closed its reader")
	}
	if it.dead {
		return false
	}
	return it.Iterator.HasNext()
}

func installSeams() {
	ts := table.VerifGetSeams()
	realNew := ts.NewMMapStoreReader
	table.VerifSetSeams(table.VerifSeams{NewMMapStoreReader: func(path, fileName string) (table.Reader, error) {
		if w != nil && w.failOpen > 0 && vsched.Cur() == w.failThread {
			w.failOpen--
			if w.failOpen == 0 {
				vsched.Logf("open of %s fails (injected)", fileName)
				return nil, fmt.Errorf("injected: cannot map %s", fileName)
			}
		}
		r, err := realNew(path, fileName)
		if err != nil {
			return nil, err
		}
		wr := &wReader{Reader: r, name: fileName}
		if w != nil {
			w.readers = append(w.readers, wr)
		}
		return wr, nil
	}})
	ks := kv.VerifGetSeams()
	realRm := ks.RemoveDir
	kv.VerifSetSeams(kv.VerifSeams{RemoveDir: func(path string) error {
		if w != nil {
			base := filepath.Base(path)
			fd := version.ParseFileName(base)
			if fd != nil && fd.FileType == version.TypeTable {
				for id, files := range w.openSnap {
					if files[fd.FileNumber] {
						w.violate("live-file-deleted", "kv.family.deleteObsoleteFiles",
							fmt.Sprintf("file %s deleted while open snapshot #%d still references it", base, id))
					}
				}
				vsched.Logf("delete %s", base)
			}
		}
		return realRm(path)
	}})
}

func flushOne(fam kv.Family, kvs map[uint32]string) error {
	f := fam.NewFlusher()
	defer f.Release()
	keys := make([]uint32, 0, len(kvs))
	for k := range kvs {
		keys = append(keys, k)
	}
	sort.Slice(keys, func(i, j int) bool { return keys[i] < keys[j] })
	for _, k := range keys {
		if err := f.Add(k, []byte(kvs[k])); err != nil {
			return err
		}
	}
	return f.Commit()
}

var execNo int
var scratch string

func setup() {
	execNo++
	dir := filepath.Join(scratch, fmt.Sprintf("e%d", execNo))
	_ = os.RemoveAll(dir)
	w = &world{dir: dir, openSnap: map[int]map[table.FileNumber]bool{}}
	opt := kv.DefaultStoreOption()
	opt.TTL = ltoml.Duration(-time.Hour) // every unreferenced cache entry counts as expired (time independent)
	st, err := kv.VerifNewStore("s", dir, opt)
	if err != nil {
		vevid.OpFailed("new store: %v", err)
	}
	fam, err := st.CreateFamily("f", kv.FamilyOption{Merger: "cat", CompactThreshold: 2})
	if err != nil {
		vevid.OpFailed("create family: %v", err)
	}
	w.store, w.fam = st, fam
	if err := flushOne(fam, map[uint32]string{k1: "a", k2: "x"}); err != nil {
		vevid.OpFailed("flush: %v", err)
	}
	if err := flushOne(fam, map[uint32]string{k1: "b"}); err != nil {
		vevid.OpFailed("flush: %v", err)
	}
}

func teardown() {
	for _, r := range w.readers {
		_ = r.Reader.Close()
	}
	_ = os.RemoveAll(w.dir)
}

// --- snapshot helpers
type heldSnap struct {
	id         int
	s          version.Snapshot
	tBeg, tEnd int
}

func takeSnap() *heldSnap {
	h := &heldSnap{tBeg: w.tick()}
	h.s = w.fam.GetSnapshot()
	h.tEnd = w.tick()
	w.nextSnap++
	h.id = w.nextSnap
	files := map[table.FileNumber]bool{}
	for _, fm := range h.s.GetCurrent().GetAllFiles() {
		files[fm.GetFileNumber()] = true
	}
	w.openSnap[h.id] = files
	return h
}

func (h *heldSnap) close() {
	delete(w.openSnap, h.id) // from now on its files may go
	h.s.Close()
}

func letters(vals []string) string {
	all := []byte(strings.Join(vals, ""))
	sort.Slice(all, func(i, j int) bool { return all[i] < all[j] })
	return string(all)
}

func (h *heldSnap) load(key uint32) (string, error) {
	var vals []string
	err := h.s.Load(key, func(v []byte) error { vals = append(vals, string(v)); return nil })
	return letters(vals), err
}

func (h *heldSnap) find(key uint32) (string, error) {
	rs, err := h.s.FindReaders(key)
	if err != nil {
		return "", err
	}
	// a reader can lose the processor while it holds the table readers of its snapshot
	vsched.Point("R2 holding readers", nil)
	var vals []string
	for _, r := range rs {
		v, err := r.Get(key)
		if errors.Is(err, table.ErrKeyNotExist) {
			continue
		}
		if err != nil {
			return "", err
		}
		vals = append(vals, string(v))
	}
	return letters(vals), nil
}

func (h *heldSnap) iterateAll() (string, error) {
	var vals []string
	for _, fm := range h.s.GetCurrent().GetAllFiles() {
		r, err := h.s.GetReader(fm.GetFileNumber())
		if err != nil {
			return "", err
		}
		it := r.Iterator()
		for it.HasNext() {
			vals = append(vals, fmt.Sprintf("%d=%s;", it.Key(), string(it.Value())))
		}
	}
	// canonical: letters per key
	per := map[string][]byte{}
	for _, kvp := range vals {
		i := strings.Index(kvp, "=")
		per[kvp[:i]] = append(per[kvp[:i]], kvp[i+1:len(kvp)-1]...)
	}
	var keys []string
	for k := range per {
		keys = append(keys, k)
	}
	sort.Strings(keys)
	var b strings.Builder
	for _, k := range keys {
		v := per[k]
		sort.Slice(v, func(i, j int) bool { return v[i] < v[j] })
		fmt.Fprintf(&b, "%s=%s;", k, v)
	}
	return b.String(), nil
}

// checkContent: stability + recency of what a snapshot taken in [tBeg,tEnd] shows for k1
func checkContent(who string, h *heldSnap, first, second string, e1, e2 error) {
	if e1 != nil || e2 != nil {
		w.violate("snapshot-read-error", who, fmt.Sprintf("read through an open snapshot failed: %v / %v", e1, e2))
		return
	}
	if first != second {
		w.violate("snapshot-stable", who, fmt.Sprintf("two reads through one snapshot differ: %q then %q", first, second))
	}
	mustHaveW := w.wOK && w.wEnd != 0 && w.wEnd < h.tBeg
	mustNotHaveW := w.wStart == 0 || h.tEnd < w.wStart
	switch first {
	case "ab":
		if mustHaveW {
			w.violate("recency", who, "snapshot taken after the flush commit returned does not contain the committed value")
		}
	case "abw":
		if mustNotHaveW {
			w.violate("snapshot-stable", who, "snapshot taken before the flush started shows the flushed value")
		}
	default:
		w.violate("snapshot-content", who, fmt.Sprintf("k1 reads %q, expected the letters ab or abw", first))
	}
	w.outcome = append(w.outcome, who+"="+first)
}

// --- threads
func tR1() { // snapshot, Load twice, close
	h := takeSnap()
	a, e1 := h.load(k1)
	vsched.Point("R1 between reads", nil)
	b, e2 := h.load(k1)
	h.close()
	checkContentLater("R1", h, a, b, e1, e2)
}

func tR2() { // snapshot, FindReaders+Get, then full iteration of every file of the version, close
	h := takeSnap()
	a, e1 := h.find(k1)
	vsched.Point("R2 between reads", nil)
	it, e3 := h.iterateAll()
	b, e2 := h.find(k1)
	h.close()
	checkContentLater("R2", h, a, b, e1, e2)
	if e3 != nil {
		w.violate("snapshot-read-error", "R2.iterate", e3.Error())
	} else {
		want := map[string]bool{"10=ab;70000=x;": true, "10=abw;70000=x;": true}
		if !want[it] {
			w.violate("snapshot-content", "R2.iterate", fmt.Sprintf("iteration over the snapshot's files yields %q", it))
		} else if (a == "ab") != (it == "10=ab;70000=x;") {
			w.violate("snapshot-stable", "R2.iterate", fmt.Sprintf("lookup saw %q but iteration saw %q", a, it))
		}
	}
}

type pending struct {
	who          string
	h            *heldSnap
	a, b         string
	e1, e2       error
	wStart, wEnd int
}

var pendingChecks []pending

// the recency clauses need the final values of wStart/wEnd relative to the snapshot, which are known at
// the time the snapshot was taken or later; evaluate at the end of the execution.
func checkContentLater(who string, h *heldSnap, a, b string, e1, e2 error) {
	pendingChecks = append(pendingChecks, pending{who: who, h: h, a: a, b: b, e1: e1, e2: e2})
}

func tW() { // flush commit of a colliding key
	f := w.fam.NewFlusher()
	_ = f.Add(k1, []byte("w"))
	w.wStart = w.tick()
	err := f.Commit()
	w.wEnd = w.tick()
	w.wOK = err == nil
	f.Release()
	if err != nil {
		w.violate("flush-failed", "W", err.Error())
	}
}

// X and Y: flush commits of keys of their own whose table builders are open at the same time (file numbers are handed
// out while another commit of the store is between reading and restoring the allocator). Y keeps a snapshot over X's
// second commit.
func flushOpen(key uint32, val string) kv.Flusher {
	f := w.fam.NewFlusher()
	if err := f.Add(key, []byte(val)); err != nil {
		w.violate("flush-failed", "Add", err.Error())
	}
	return f
}

func flushCommit(who string, f kv.Flusher, key uint32, val string) {
	err := f.Commit()
	f.Release()
	if err != nil {
		w.violate("flush-failed", who, err.Error())
		return
	}
	if w.extra == nil {
		w.extra = map[uint32]string{}
	}
	w.extra[key] = val
}

func tX() {
	flushCommit("X1", flushOpen(11, "m"), 11, "m")
	flushCommit("X2", flushOpen(14, "n"), 14, "n")
}

func tY() {
	f2, f3 := flushOpen(12, "p"), flushOpen(13, "q")
	flushCommit("Y1", f2, 12, "p")
	flushCommit("Y2", f3, 13, "q")
	h := takeSnap()
	a, e1 := h.load(13)
	vsched.Point("Y between reads", nil)
	b, e2 := h.load(13)
	h.close()
	if e1 != nil || e2 != nil {
		w.violate("snapshot-read-error", "Y", fmt.Sprintf("%v / %v", e1, e2))
	} else if a != b {
		w.violate("snapshot-stable", "Y", fmt.Sprintf("two reads of key 13 through one snapshot differ: %q then %q", a, b))
	} else if a != "q" {
		w.violate("recency", "Y", fmt.Sprintf("snapshot taken after the commit of key 13 returned reads %q for it, committed value is %q", a, "q"))
	}
}

// RF: a reader whose lookup fails half way - the open of the second table of its key fails once. It gets an error
// (or fewer values: not judged), closes its snapshot and is gone; what it did must not cost anybody else a reader.
func tRF() {
	h := takeSnap()
	w.failThread, w.failOpen = vsched.Cur(), 2
	_, _ = h.find(k1)
	w.failOpen = 0
	h.close()
}

func tC() { w.fam.Compact() }               // level-0 compaction (background goroutine = controlled thread)
func tG() { kv.VerifStoreCompact(w.store) } // periodic job: needCompact/compact + reader cache cleanup
func tD() { kv.VerifFamilyDeleteObsoleteFiles(w.fam) }

func tR1G() { tR1(); tG() } // a reader that runs the periodic job (reader-cache cleanup) right after it closed its snapshot

var threadFns = map[string]func(){"R1": tR1, "R2": tR2, "W": tW, "C": tC, "G": tG, "D": tD, "R1+G": tR1G, "X": tX, "Y": tY, "RF": tRF}

func body(threads []string) func() {
	return func() {
		setup()
		pendingChecks = nil
		for _, t := range threads {
			vsched.Spawn(t, threadFns[t])
		}
	}
}

// after all threads ended (uncontrolled, sequential)
func finish(rep *vevid.Report, scen string, x *vsched.Result) {
	defer teardown()
	defer func() {
		if r := recover(); r != nil {
			rep.Violate(vevid.Violation{Clause: "panic", Scenario: scen, Site: "kv", Detail: fmt.Sprintf("panic in kv code after the explored schedule: %v", r),
				Replay: replay{Threads: strings.Split(strings.TrimPrefix(scen, "threads="), ","), Choices: x.Choices()}})
		}
	}()
	viol := func(clause, site, detail string) {
		rep.Violate(vevid.Violation{Clause: clause, Scenario: scen, Site: site, Detail: detail + "\nlog: " + strings.Join(x.Log, " | "),
			Replay: replay{Threads: strings.Split(strings.TrimPrefix(scen, "threads="), ","), Choices: x.Choices()}})
	}
	if x.Deadlock {
		viol("deadlock", "kv", x.WaitGraph)
		return
	}
	if x.Horizon {
		viol("livelock", "kv", x.WaitGraph)
		return
	}
	for _, p := range x.Panics {
		viol("panic", "kv", p)
	}
	for _, p := range pendingChecks {
		checkContent(p.who, p.h, p.a, p.b, p.e1, p.e2)
	}
	// quiescence: wait for background jobs, then a late reader must see every commit
	kv.VerifFamilyWait(w.fam)
	h := takeSnap()
	got, err := h.load(k1)
	got2, err2 := h.find(k1)
	files := h.s.GetCurrent().GetAllFiles()
	for _, fm := range files {
		p := filepath.Join(w.dir, "f", version.Table(fm.GetFileNumber()))
		if _, e := os.Stat(p); e != nil {
			w.violate("live-file-deleted", "final", fmt.Sprintf("file %s of the current version does not exist: %v", filepath.Base(p), e))
		}
	}
	h.close()
	want := "ab"
	if w.wOK {
		want = "abw"
	}
	if err != nil || err2 != nil {
		w.violate("snapshot-read-error", "final", fmt.Sprintf("%v / %v", err, err2))
	} else if got != want || got2 != want {
		w.violate("recency", "final", fmt.Sprintf("late reader sees %q / %q, committed content is %q", got, got2, want))
	}
	if len(w.extra) > 0 {
		hx := takeSnap()
		var ks []uint32
		for k := range w.extra {
			ks = append(ks, k)
		}
		sort.Slice(ks, func(i, j int) bool { return ks[i] < ks[j] })
		for _, k := range ks {
			v, e := hx.load(k)
			if e != nil {
				w.violate("snapshot-read-error", "final", fmt.Sprintf("key %d: %v", k, e))
			} else if v != w.extra[k] {
				w.violate("recency", "final", fmt.Sprintf("late reader sees %q for key %d, its flush commit returned success with %q", v, k, w.extra[k]))
			}
		}
		seen := map[table.FileNumber]bool{}
		for _, fm := range hx.s.GetCurrent().GetAllFiles() {
			if seen[fm.GetFileNumber()] {
				w.violate("file-number-reused", "final", fmt.Sprintf("two files of the current version carry the number %d", fm.GetFileNumber()))
			}
			seen[fm.GetFileNumber()] = true
		}
		hx.close()
	}
	w.outcome = append(w.outcome, fmt.Sprintf("final=%s files=%d", got, len(files)))
	for _, v := range w.viol {
		viol(v.clause, v.site, v.detail)
	}
	rep.Outcome(strings.Join(w.outcome, " "))
	if err := kv.VerifCloseStore(w.store); err != nil {
		viol("close-failed", "kv.store.close", err.Error())
		return
	}
	// and what was committed is there after a restart of the store
	opt := kv.DefaultStoreOption()
	opt.TTL = ltoml.Duration(-time.Hour)
	st2, err := kv.VerifNewStore("s", w.dir, opt)
	if err != nil {
		viol("reopen-failed", "kv.newStore", fmt.Sprintf("the store cannot be opened again after the explored schedule: %v", err))
		return
	}
	if f2 := st2.GetFamily("f"); f2 == nil {
		viol("reopen-failed", "kv.newStore", "family f is gone after reopen")
	} else {
		snap := f2.GetSnapshot()
		var vals []string
		e := snap.Load(k1, func(v []byte) error { vals = append(vals, string(v)); return nil })
		snap.Close()
		if e != nil || letters(vals) != want {
			viol("recency", "reopen", fmt.Sprintf("after a restart of the store k1 reads %q (err %v), committed content is %q", letters(vals), e, want))
		}
	}
	_ = kv.VerifCloseStore(st2)
}

type replay struct {
	Threads []string `json:"threads"`
	Choices []int    `json:"choices"`
}

func main() {
	f := vevid.ParseFlags()
	rep := vevid.New("C02")
	devnull, _ := os.OpenFile(os.DevNull, os.O_WRONLY, 0)
	os.Stdout = devnull
	scratch = f.Scratch
	kv.RegisterMerger("cat", func(fl kv.Flusher) (kv.Merger, error) { return &catMerger{f: fl}, nil })
	installSeams()

	if os.Getenv("C02_DEBUG") != "" {
		// debugging aid: run one scenario's given prefix twice with full traces and print the first difference
		vsched.TraceOn = true
		sc := strings.Split(os.Getenv("C02_DEBUG"), ",")
		var pre []int
		for _, c := range strings.Fields(os.Getenv("C02_PREFIX")) {
			n := 0
			fmt.Sscan(c, &n)
			pre = append(pre, n)
		}
		var runs [][]string
		for i := 0; i < 4; i++ {
			x := vsched.Run(pre, 400000, body(sc))
			finish(rep, "dbg", x)
			runs = append(runs, x.Trace)
			fmt.Fprintf(os.Stderr, "run %d: %d steps %d points diverged=%q\n", i, len(x.Trace), len(x.Points), x.Diverged)
			if i == 0 {
				fmt.Fprintf(os.Stderr, "TRACE: %v\nLOG: %v\n", x.Trace, x.Log)
			}
		}
		for i := 1; i < len(runs); i++ {
			a, b := runs[0], runs[i]
			for j := 0; j < len(a) && j < len(b); j++ {
				if a[j] != b[j] {
					fmt.Fprintf(os.Stderr, "run0 vs run%d differ at step %d: %s vs %s\ncontext: %v\n", i, j, a[j], b[j], a[max(0, j-8):j])
					break
				}
			}
		}
		os.Exit(3)
	}
	if f.Replay != "" {
		var r replay
		vevid.LoadReplay(f.Replay, &r)
		fails := 0
		for i := 0; i < 5; i++ {
			x := vsched.Run(r.Choices, 400000, body(r.Threads))
			before := rep.ViolationCount
			finish(rep, "threads="+strings.Join(r.Threads, ","), x)
			if rep.ViolationCount > before {
				fails++
			}
		}
		rep.Extra["replay_failures_of_5"] = fails
		rep.Evaluations = 5
		rep.Write()
		return
	}

	// quick: the scenarios that mix a snapshot reader with the version-changing jobs, and two readers opening the
	// same (not yet cached) tables while the reader cache is cleaned; thorough: all
	scenarios := [][]string{{"R1", "W", "C"}, {"R2", "W", "C"}, {"R1", "R2", "C"}, {"R1", "C", "G"}, {"R1", "W", "G"}, {"R1", "C", "D"}, {"R1", "R1+G"}, {"R2", "R1+G"}, {"R1", "R2", "G"}, {"X", "Y"}, {"R2", "RF", "G"}}
	if f.Thorough() {
		scenarios = nil
		all := []string{"R1", "R2", "W", "C", "G"}
		for a := 0; a < len(all); a++ {
			for b := a + 1; b < len(all); b++ {
				for c := b + 1; c < len(all); c++ {
					scenarios = append(scenarios, []string{all[a], all[b], all[c]})
				}
			}
		}
		scenarios = append(scenarios, []string{"R1", "R1+G"}, []string{"R2", "R1+G"}, []string{"R1", "R1", "G"}, []string{"R1", "R1", "C"}, []string{"R1", "R2", "W", "C"}, []string{"R1", "C", "D"}, []string{"R2", "W", "D"}, []string{"X", "Y"}, []string{"X", "Y", "C"}, []string{"X", "Y", "R1"}, []string{"R2", "RF", "G"}, []string{"R1", "RF", "G"})
	}
	if v := os.Getenv("C02_SCENARIOS"); v != "" { // a part that runs its own scenario list: "R1,R2;R1,R2,G"
		scenarios = nil
		for _, sc := range strings.Split(v, ";") {
			scenarios = append(scenarios, strings.Split(sc, ","))
		}
	}
	bound := 2
	if f.Thorough() {
		bound = 3
	}
	if v := os.Getenv("C02_BOUND"); v != "" { // sizing / debugging
		fmt.Sscan(v, &bound)
	}
	rep.Rule = fmt.Sprintf("scenarios (quick: 9 of them; thorough: all) = 3-thread subsets of {R1:snapshot+Load x2, R2:snapshot+FindReaders/Get+iterate, W:flush commit of the same key, C:Family.Compact (background job incl. obsolete-file deletion), G:store periodic job (compaction trigger + reader-cache cleanup), D:obsolete-file deletion} plus {R1,R1,C},{R1,R1,G},{R1,R2,W,C},{R1,C,D},{R2,W,D}, {X,Y} (X: two flush commits of own keys one after the other; Y: two flushers open at once, committed, then a snapshot read twice; thorough also with C / R1) and {R1|R2, R1+G} (R1+G: a reader that runs the periodic job itself after closing its snapshot) on a family pre-loaded with two level-0 files sharing a key; every schedule with <=%d preemptions; distinct = distinct (scenario, schedule); non-trivial = schedule with >=1 context switch between live threads", bound)
	rep.Bounds["preemption_bound"] = bound
	rep.Bounds["scenarios"] = len(scenarios)
	if os.Getenv("C02_TRACE") != "" {
		vsched.TraceOn = true
	}
	// iterate the bound: every scenario completely with <=1 preemption, then <=2 (thorough: then <=3); in the last
	// pass the time left is split evenly over the scenarios still to run, so none of them starves
	first := true
	for pass := 1; pass <= bound; pass++ {
		for si, sc := range scenarios {
			_ = si
			scen := "threads=" + strings.Join(sc, ",")
			if only := os.Getenv("C02_ONLY"); only != "" && only != strings.Join(sc, ",") {
				continue
			}
			dl := f.Deadline
			if pass == bound && !dl.IsZero() {
				if left := time.Until(dl); left > 0 {
					dl = time.Now().Add(left / time.Duration(len(scenarios)-si))
				}
			}
			e := &vsched.Explorer{Bound: pass, Horizon: 400000, Body: body(sc), Shard: f.Shard, Shards: f.Shards, Deadline: dl}
			e.Check = func(x *vsched.Result) {
				finish(rep, scen, x)
				if vsched.TraceOn && len(x.Trace) > 200000 {
					h := map[string]int{}
					for _, t := range x.Trace {
						h[t]++
					}
					fmt.Fprintf(os.Stderr, "LONG %d steps: %v\nTAIL %v\n", len(x.Trace), h, x.Trace[len(x.Trace)-60:])
					os.Exit(3)
				}
				if len(x.Points) > 0 {
					rep.DistinctNontrivial++
				}
			}
			e.Discard = func(x *vsched.Result) {
				if !x.Deadlock && !x.Horizon {
					kv.VerifFamilyWait(w.fam)
					_ = kv.VerifCloseStore(w.store)
				}
				teardown()
			}
			if first && f.Shard == 0 {
				// determinism proof: replay the default schedule twice and compare the observation logs
				// (teardown of the two replay worlds is done by hand)
				a := vsched.Run(nil, 400000, body(sc))
				kv.VerifFamilyWait(w.fam)
				_ = kv.VerifCloseStore(w.store)
				teardown()
				b := vsched.Run(nil, 400000, body(sc))
				kv.VerifFamilyWait(w.fam)
				_ = kv.VerifCloseStore(w.store)
				teardown()
				if strings.Join(a.Log, "|") != strings.Join(b.Log, "|") || len(a.Points) != len(b.Points) {
					vevid.Fatal("nondeterministic replay:\n%v\n%v", a.Log, b.Log)
				}
				rep.Extra["determinism_replay"] = "ok"
			}
			first = false
			e.Explore()
			if e.Diverged != "" {
				vevid.Fatal("replay divergence in %s: %s", scen, e.Diverged)
			}
			if e.Capped {
				rep.Cap(fmt.Sprintf("deadline reached in scenario %s with <=%d preemptions", scen, pass))
			}
			rep.Evaluations += e.Executions
			rep.States += e.Executions
			rep.Transitions += e.Points
			rep.TracesValidated += e.Executions
			rep.Count(fmt.Sprintf("schedules[%s,bound=%d]", scen, pass), e.Executions)
			if mp, _ := rep.Extra["max_points_in_one_schedule"].(int); e.MaxPoints > mp {
				rep.Extra["max_points_in_one_schedule"] = e.MaxPoints
			}
			if f.Shard == 0 {
				rep.Sample(map[string]interface{}{"scenario": scen, "bound": pass, "schedules_this_worker": e.Executions, "max_points": e.MaxPoints})
			}
		}
	}
	rep.Write()
}
