// Write-path grouping (series/metric/row_broker.go familyTimeOfTimestamp / timeRangeOfTimestamp): a batch of rows
// whose timestamps straddle a family boundary is split by the real BrokerBatchShardFamilyIterator; every row must
// land in exactly one group and the group's family time must be the family of the row's timestamp.
package main

import (
	"fmt"

	protoMetricsV1 "github.com/lindb/common/proto/gen/v1/linmetrics"

	"github.com/lindb/lindb/models"
	"github.com/lindb/lindb/pkg/timeutil"
	"github.com/lindb/lindb/series/metric"
)

type wgroup struct {
	familyTime int64
	ts         []int64
}

var brokerLimits = models.NewDefaultLimits()

// brokerGroups runs the real shard/family iterators over one batch (single shard).
func brokerGroups(iv timeutil.Interval, ts []int64) ([]wgroup, error) {
	batch := metric.NewBrokerBatchRows()
	defer batch.Release()
	conv, release := metric.NewBrokerRowProtoConverter([]byte("ns"), nil, brokerLimits)
	defer release(conv)
	for _, t := range ts {
		m := &protoMetricsV1.Metric{
			Name:         "c13",
			Timestamp:    t,
			SimpleFields: []*protoMetricsV1.SimpleField{{Name: "f", Type: protoMetricsV1.SimpleFieldType_DELTA_SUM, Value: 1}},
		}
		if err := batch.TryAppend(func(row *metric.BrokerRow) error { return conv.ConvertTo(m, row) }); err != nil {
			return nil, err
		}
	}
	if batch.Len() != len(ts) {
		return nil, fmt.Errorf("batch has %d rows, appended %d", batch.Len(), len(ts))
	}
	var out []wgroup
	it := batch.NewShardGroupIterator(1)
	for it.HasRowsForNextShard() {
		_, fit := it.FamilyRowsForNextShard(iv)
		for fit.HasNextFamily() {
			ft, rows := fit.NextFamily()
			g := wgroup{familyTime: ft}
			for i := range rows {
				m := rows[i].Metric()
				g.ts = append(g.ts, m.Timestamp())
			}
			out = append(out, g)
		}
	}
	return out, nil
}

// checkWriteGroups evaluates the clause for the family [fs,fe] of kind k. Returns a description of the first
// deviation, or "".
func checkWriteGroups(k int, iv int64, fs, fe int64) string {
	batches := [][]int64{
		{fe + 1, fs, fs + (fe-fs)/2, fs - 1, fe, fs + 1}, // unsorted, three families
		{fs, fe, fs + (fe-fs)/2},                         // one family (fast path)
		{fs, fe + 1},                                     // first row decides the fast path, second is outside
		{fe, fs - 1},
	}
	for _, ts := range batches {
		groups, err := brokerGroups(timeutil.Interval(iv), ts)
		if err != nil {
			return fmt.Sprintf("batch %v: %v", ts, err)
		}
		seen := map[int64]int{}
		famGroup := map[int64]int{}
		for gi, g := range groups {
			if len(g.ts) == 0 {
				return fmt.Sprintf("batch %v: empty group %d", ts, gi)
			}
			if _, dup := famGroup[g.familyTime]; dup {
				return fmt.Sprintf("batch %v: two groups for family time %s", ts, fmtTS(g.familyTime))
			}
			famGroup[g.familyTime] = gi
			for _, t := range g.ts {
				seen[t]++
				rfs, rfe := refFamily(k, t)
				if g.familyTime != rfs {
					return fmt.Sprintf("batch %v: row %s is in the group of family %s, its family is [%s .. %s]", ts, fmtTS(t), fmtTS(g.familyTime), fmtTS(rfs), fmtTS(rfe))
				}
			}
		}
		for _, t := range ts {
			if seen[t] != 1 {
				return fmt.Sprintf("batch %v: row %s appears in %d groups", ts, fmtTS(t), seen[t])
			}
		}
	}
	return ""
}
