// Part "calc": the pure pkg/timeutil clauses of C13 (plus the kv rollup slot relation), evaluated on every
// enumerated millisecond timestamp for the three interval calculators.
package main

import (
	"fmt"
	"sort"

	"github.com/lindb/lindb/internal/vevid"
	"github.com/lindb/lindb/kv"
	"github.com/lindb/lindb/pkg/timeutil"
)

type kindSpec struct {
	kind int
	typ  timeutil.IntervalType
	ivs  []int64 // interval values (ms) of this type
	calc timeutil.IntervalCalculator
	// rollup targets reachable from the first interval of this kind (source) : larger types
	rollTargets []int64
	rollSrc     int64 // source interval of the rollup relations
}

var kinds = []*kindSpec{
	{kind: kDay, typ: timeutil.Day, ivs: []int64{1 * msSecond, 7 * msSecond, 10 * msSecond, msMinute, 299 * msSecond}, rollTargets: []int64{5 * msMinute, msHour}, rollSrc: 10 * msSecond},
	{kind: kMonth, typ: timeutil.Month, ivs: []int64{5 * msMinute, 7 * msMinute, 30 * msMinute, 3599 * msSecond}, rollTargets: []int64{msHour}, rollSrc: 5 * msMinute},
	{kind: kYear, typ: timeutil.Year, ivs: []int64{msHour, 2 * msHour, msDay}},
}

var msOffsets = []int64{0, 1, 999}

// window of the enumeration (seconds since epoch, inclusive)
var winStartSec, winEndSec int64

type calcCase struct {
	Part string `json:"part"`
	Kind int    `json:"kind"`
	T    int64  `json:"t"`
	At   string `json:"at,omitempty"`
}

func (c calcCase) String() string { return fmt.Sprintf("%s t=%s", kindName[c.Kind], fmtTS(c.T)) }

// initKinds resolves the calculators through Interval.Calculator() (the way lindb does) and checks that
// every interval value of a kind maps to that kind (pkg/timeutil/interval.go Type thresholds).
func initKinds(rep *vevid.Report) {
	for _, ks := range kinds {
		for i, iv := range ks.ivs {
			in := timeutil.Interval(iv)
			if in.Type() != ks.typ {
				rep.Violate(vevid.Violation{Clause: "interval-type", Scenario: "kind=" + kindName[ks.kind], Site: "timeutil.Interval.Type",
					Detail: fmt.Sprintf("interval %dms: want type %s got %s", iv, ks.typ, in.Type()), Replay: calcCase{Part: "calc", Kind: ks.kind}})
			}
			c := in.Calculator()
			if i == 0 {
				ks.calc = c
			} else if c != ks.calc {
				rep.Violate(vevid.Violation{Clause: "interval-type", Scenario: "kind=" + kindName[ks.kind], Site: "timeutil.Interval.Calculator",
					Detail: fmt.Sprintf("interval %dms of type %s uses a different calculator than %dms", iv, ks.typ, ks.ivs[0]), Replay: calcCase{Part: "calc", Kind: ks.kind}})
			}
		}
	}
	if kinds[0].calc == kinds[1].calc || kinds[1].calc == kinds[2].calc || kinds[0].calc == kinds[2].calc {
		rep.Violate(vevid.Violation{Clause: "interval-type", Scenario: "kind=*", Site: "timeutil.Interval.Calculator", Detail: "two interval types share a calculator"})
	}
}

func initWindow() {
	winStartSec = daysFromCivil(2019, 12, 30) * secDay
	winEndSec = daysFromCivil(2021, 3, 2) * secDay
}

// quickSeconds: every second adjacent to every hour (hence day / month / year) boundary of the window,
// every second adjacent to every minute boundary of the chosen days, and every second of two chosen days.
func quickSeconds() []int64 {
	set := map[int64]struct{}{}
	for b := winStartSec; b <= winEndSec; b += 3600 {
		for _, d := range []int64{-2, -1, 0, 1} {
			set[b+d] = struct{}{}
		}
	}
	minuteDays := [][3]int{{2019, 12, 31}, {2020, 1, 1}, {2020, 2, 28}, {2020, 2, 29}, {2020, 3, 1}, {2020, 4, 30}, {2020, 12, 31}, {2021, 1, 1}, {2021, 2, 28}, {2021, 3, 1}}
	for _, d := range minuteDays {
		s := daysFromCivil(d[0], d[1], d[2]) * secDay
		for m := s; m <= s+secDay; m += 60 {
			set[m-1], set[m], set[m+1] = struct{}{}, struct{}{}, struct{}{}
		}
	}
	fullDays := [][3]int{{2020, 2, 29}, {2020, 12, 31}}
	for _, d := range fullDays {
		s := daysFromCivil(d[0], d[1], d[2]) * secDay
		for x := s; x < s+secDay; x++ {
			set[x] = struct{}{}
		}
	}
	out := make([]int64, 0, len(set))
	for s := range set {
		out = append(out, s)
	}
	sort.Slice(out, func(i, j int) bool { return out[i] < out[j] })
	return out
}

type fam struct {
	valid      bool
	seg        int64
	no         int
	fs, fe     int64
	rollups    []kv.Rollup
	rollTarget []int64 // target family start per rollup
}

type calcState struct {
	rep      *vevid.Report
	cur      [3]fam
	segName  [3]string
	segStart [3]int64
	segOK    [3]bool
}

func familyOf(calc timeutil.IntervalCalculator, t int64) (seg int64, no int, fs, fe int64) {
	seg = calc.CalcSegmentTime(t)
	no = calc.CalcFamily(t, seg)
	fs = calc.CalcFamilyStartTime(seg, no)
	fe = calc.CalcFamilyEndTime(fs)
	return
}

func posClass(t, fs, fe int64) string {
	switch {
	case t-fs < 2*msSecond:
		return "family-start"
	case fe-t < 2*msSecond:
		return "family-end"
	}
	return "inside"
}

func (st *calcState) checkTS(ks *kindSpec, t int64) {
	rep := st.rep
	k := ks.kind
	c := calcCase{Part: "calc", Kind: k, T: t, At: fmtTS(t)}
	defer func() {
		if r := recover(); r != nil {
			rep.Violate(vevid.Violation{Clause: "panic", Scenario: "kind=" + kindName[k], Site: "timeutil.IntervalCalculator", Detail: fmt.Sprint(r), Replay: c})
		}
	}()
	rep.Evaluations++
	calc := ks.calc
	rfs, rfe := refFamily(k, t)
	pos := posClass(t, rfs, rfe)
	viol := func(clause, site, format string, a ...interface{}) {
		rep.Violate(vevid.Violation{Clause: clause, Scenario: "kind=" + kindName[k] + " pos=" + pos, Site: site,
			Detail: c.String() + ": " + fmt.Sprintf(format, a...), Replay: c})
	}
	if pos != "inside" {
		rep.DistinctNontrivial++
	}

	seg, no, fs, fe := familyOf(calc, t)

	// the family's time range contains the timestamp
	tr := timeutil.TimeRange{Start: fs, End: fe}
	if !(fs <= t && t <= fe) {
		viol("contains", "timeutil.CalcFamilyStartTime/CalcFamilyEndTime", "family [%s .. %s] does not contain the timestamp", fmtTS(fs), fmtTS(fe))
	} else if !tr.Contains(t) {
		viol("contains", "timeutil.TimeRange.Contains", "TimeRange{%d,%d}.Contains(%d) = false", fs, fe, t)
	}
	if seg > t {
		viol("segment-contains", "timeutil.CalcSegmentTime", "segment start %s is after the timestamp", fmtTS(seg))
	}
	// the one-call form used by the write path equals the three-step form used by segment / row broker
	if ft := calc.CalcFamilyTime(t); ft != fs {
		viol("family-time", "timeutil.CalcFamilyTime", "CalcFamilyTime=%s but CalcFamilyStartTime(segment,CalcFamily)=%s", fmtTS(ft), fmtTS(fs))
	}
	// reference calendar
	rseg := refSegmentStart(k, t)
	if !st.segOK[k] || st.segStart[k] != rseg {
		st.segStart[k], st.segName[k] = refSegment(k, t)
		st.segOK[k] = true
	}
	rname := st.segName[k]
	if seg != rseg {
		viol("ref-segment", "timeutil.CalcSegmentTime", "want %s got %s", fmtTS(rseg), fmtTS(seg))
	}
	if fs != rfs || fe != rfe {
		viol("ref-family", "timeutil.CalcFamily*", "want [%s .. %s] got [%s .. %s]", fmtTS(rfs), fmtTS(rfe), fmtTS(fs), fmtTS(fe))
	}
	if rno := refFamilyNo(k, t); no != rno {
		viol("ref-family", "timeutil.CalcFamily", "family number want %d got %d", rno, no)
	}
	// segment name <-> time round trip
	name := calc.GetSegment(t)
	if name != rname {
		viol("segment-name", "timeutil.GetSegment", "want %q got %q", rname, name)
	}
	if pt, err := calc.ParseSegmentTime(name); err != nil || pt != seg {
		viol("segment-roundtrip", "timeutil.ParseSegmentTime", "ParseSegmentTime(GetSegment(t)=%q) = %d, %v; CalcSegmentTime(t) = %d", name, pt, err, seg)
	}

	cur := &st.cur[k]
	if !cur.valid || fs != cur.fs || fe != cur.fe {
		if cur.valid && t >= cur.fs && t <= cur.fe {
			viol("idempotent", "timeutil.CalcFamily*", "timestamp lies inside family [%s .. %s] but its own family is [%s .. %s]", fmtTS(cur.fs), fmtTS(cur.fe), fmtTS(fs), fmtTS(fe))
		}
		*cur = fam{valid: true, seg: seg, no: no, fs: fs, fe: fe}
		st.familyChecks(ks, cur, viol)
		rep.Outcome(fmt.Sprintf("%s/family=%d/len=%dh", kindName[k], no, (fe-fs+1)/msHour))
		rep.Count("family_visits_"+kindName[k], 1)
	}

	// slot arithmetic: 0 <= t - (start + slot*interval) < interval
	for _, iv := range ks.ivs {
		slot := calc.CalcSlot(t, fs, iv)
		base := timeutil.CalcTimestamp(fs, slot, timeutil.Interval(iv))
		d := t - base
		if slot < 0 || d < 0 || d >= iv {
			viol("slot", "timeutil.CalcSlot", "interval=%dms slot=%d: t-(familyStart+slot*interval) = %d, want in [0,%d)", iv, slot, d, iv)
		}
		sr := timeutil.Interval(iv).CalcSlotRange(fs, timeutil.TimeRange{Start: t, End: t})
		if int(sr.Start) != slot || int(sr.End) != slot {
			viol("slot", "timeutil.Interval.CalcSlotRange", "interval=%dms CalcSlotRange(family,[t,t]) = %v, CalcSlot = %d", iv, sr, slot)
		}
	}
	// rollup relation (kv/family_rollup.go): source slot -> timestamp -> target slot
	if len(cur.rollups) > 0 {
		src := ks.rollSrc
		sslot := calc.CalcSlot(t, fs, src)
		for i, r := range cur.rollups {
			tgt := ks.rollTargets[i]
			ts := r.GetTimestamp(uint16(sslot))
			if d := t - ts; d < 0 || d >= src {
				viol("rollup-slot", "kv.rollup.GetTimestamp", "source=%dms slot=%d timestamp=%d: t-timestamp=%d not in [0,%d)", src, sslot, ts, d, src)
			}
			tslot := int64(r.CalcSlot(ts))
			if d := ts - (cur.rollTarget[i] + tslot*tgt); d < 0 || d >= tgt {
				viol("rollup-slot", "kv.rollup.CalcSlot", "source=%dms target=%dms source-slot=%d target-slot=%d: ts-(targetFamily+slot*target)=%d not in [0,%d)", src, tgt, sslot, tslot, d, tgt)
			}
		}
	}
	if rep.Evaluations%200003 == 1 {
		rep.Sample(c)
	}
}

// familyChecks runs once per family met: idempotence probes, tiling with both neighbours, the family lies in
// one segment, and the rollup base slot.
func (st *calcState) familyChecks(ks *kindSpec, f *fam, viol func(clause, site, format string, a ...interface{})) {
	calc := ks.calc
	for _, p := range []int64{f.fs, f.fs + 1, f.fs + (f.fe-f.fs)/2, f.fe - 1, f.fe} {
		if p < f.fs || p > f.fe {
			continue // degenerate family (only after a violation)
		}
		_, _, ps, pe := familyOf(calc, p)
		if ps != f.fs || pe != f.fe {
			viol("idempotent", "timeutil.CalcFamily*", "family of %s is [%s .. %s], expected the family [%s .. %s] it lies in", fmtTS(p), fmtTS(ps), fmtTS(pe), fmtTS(f.fs), fmtTS(f.fe))
		}
		if ft := calc.CalcFamilyTime(p); ft != f.fs {
			viol("idempotent", "timeutil.CalcFamilyTime", "CalcFamilyTime(%s) = %s, expected %s", fmtTS(p), fmtTS(ft), fmtTS(f.fs))
		}
		if sg := calc.CalcSegmentTime(p); sg != f.seg {
			viol("family-in-one-segment", "timeutil.CalcSegmentTime", "segment of %s is %s but the family belongs to segment %s", fmtTS(p), fmtTS(sg), fmtTS(f.seg))
		}
	}
	// tiling: the next family starts exactly one millisecond after this one ends; the previous one ends one before
	if _, _, ns, ne := familyOf(calc, f.fe+1); ns != f.fe+1 || ne <= f.fe {
		viol("tile", "timeutil.CalcFamilyEndTime", "family [%s .. %s]: family of end+1 is [%s .. %s] (gap or overlap)", fmtTS(f.fs), fmtTS(f.fe), fmtTS(ns), fmtTS(ne))
	}
	if _, _, ps, pe := familyOf(calc, f.fs-1); pe != f.fs-1 || ps >= f.fs {
		viol("tile", "timeutil.CalcFamilyStartTime", "family [%s .. %s]: family of start-1 is [%s .. %s] (gap or overlap)", fmtTS(f.fs), fmtTS(f.fe), fmtTS(ps), fmtTS(pe))
	}
	// segment start is the start of its first family and maps to itself
	if _, _, ss, _ := familyOf(calc, f.seg); ss != f.seg || calc.CalcSegmentTime(f.seg) != f.seg {
		viol("segment-contains", "timeutil.CalcSegmentTime", "segment start %s is not the start of a family of that segment", fmtTS(f.seg))
	}
	if n := calc.GetSegment(f.seg); n != calc.GetSegment(f.fe) {
		viol("segment-name", "timeutil.GetSegment", "segment name differs inside one family: %q vs %q", n, calc.GetSegment(f.fe))
	}
	// write path: the broker's family iterator groups rows around this family's boundaries by family
	if msg := checkWriteGroups(ks.kind, ks.ivs[0], f.fs, f.fe); msg != "" {
		viol("write-group", "metric.BrokerBatchShardFamilyIterator", "%s", msg)
	}
	// rollup relations of this (source) family
	f.rollups, f.rollTarget = nil, nil
	src := ks.rollSrc
	for _, tgt := range ks.rollTargets {
		tc := timeutil.Interval(tgt).Calculator()
		// as kv.family.rollup does: target family of the source family start
		tSeg := tc.CalcSegmentTime(f.fs)
		tFT := tc.CalcFamilyStartTime(tSeg, tc.CalcFamily(f.fs, tSeg))
		r := kv.VerifNewRollup(timeutil.Interval(src), timeutil.Interval(tgt), f.fs, tFT)
		f.rollups = append(f.rollups, r)
		f.rollTarget = append(f.rollTarget, tFT)
		base := int64(r.BaseSlot())
		if d := f.fs - (tFT + base*tgt); d < 0 || d >= tgt {
			viol("rollup-slot", "kv.rollup.BaseSlot", "source family %s target family %s target=%dms base slot=%d: offset %d not in [0,%d)", fmtTS(f.fs), fmtTS(tFT), tgt, base, d, tgt)
		}
		if tgt%src == 0 && int64(r.IntervalRatio())*src != tgt {
			viol("rollup-slot", "kv.rollup.IntervalRatio", "source=%d target=%d ratio=%d", src, tgt, r.IntervalRatio())
		}
	}
}

func runCalc(f *vevid.Flags, rep *vevid.Report) {
	initKinds(rep)
	st := &calcState{rep: rep}
	rep.Bounds["window"] = "2019-12-30T00:00:00Z .. 2021-03-02T00:00:00Z"
	rep.Bounds["ms_offsets"] = msOffsets
	ivs := map[string][]int64{}
	for _, ks := range kinds {
		ivs[kindName[ks.kind]] = ks.ivs
	}
	rep.Bounds["intervals_ms"] = ivs
	visit := func(sec int64) {
		for _, off := range msOffsets {
			t := sec*1000 + off
			for _, ks := range kinds {
				st.checkTS(ks, t)
			}
		}
		rep.Count("seconds", 1)
	}
	if f.Thorough() {
		rep.Rule = "every second of the window x ms offsets {0,1,999} x {day,month,year} calculators (x every interval value of the type for the slot clause); distinct = distinct (timestamp, calculator); non-trivial = timestamp within 2 s of a family boundary of that calculator"
		for h := floorDiv(winStartSec, 3600); h*3600 <= winEndSec; h++ {
			if !f.Mine(h) {
				continue
			}
			if f.Expired() {
				rep.Cap(fmt.Sprintf("deadline at hour %d", h))
				break
			}
			for s := h * 3600; s < (h+1)*3600 && s <= winEndSec; s++ {
				visit(s)
			}
		}
	} else {
		rep.Rule = "every second within [-2s,+1s] of every hour/day/month/year boundary of the window, every second adjacent to every minute boundary of 10 chosen days (year end, leap day, month ends), every second of 2020-02-29 and 2020-12-31; x ms offsets {0,1,999} x {day,month,year} calculators (x every interval value of the type for the slot clause); distinct = distinct (timestamp, calculator); non-trivial = timestamp within 2 s of a family boundary of that calculator"
		secs := quickSeconds()
		rep.Extra["quick_seconds_total"] = len(secs)
		for i, s := range secs {
			if !f.Mine(floorDiv(s, 3600)) {
				continue
			}
			if i%4096 == 0 && f.Expired() {
				rep.Cap(fmt.Sprintf("deadline at second index %d", i))
				break
			}
			visit(s)
		}
	}
}

func replayCalc(rep *vevid.Report, c calcCase) {
	initKinds(rep)
	for i := 0; i < 5; i++ {
		st := &calcState{rep: rep}
		st.checkTS(kinds[c.Kind], c.T)
	}
}
