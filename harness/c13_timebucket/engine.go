// Part "tsdb": the tsdb-level clauses of C13 on a real storage engine (one engine directory per worker):
//
//	family-range       Shard.GetOrCrateDataFamily(t).TimeRange() is the reference family of t, one object per family
//	families-in-range  Shard.GetDataFamilies(type, [a,b]) returns exactly the existing families intersecting [a,b]
//	                   (hazard H17: ranges crossing a segment boundary for month / year interval types)
package main

import (
	"fmt"
	"os"
	"path/filepath"
	"sort"
	"strconv"
	"strings"

	"github.com/lindb/lindb/config"
	"github.com/lindb/lindb/internal/vevid"
	"github.com/lindb/lindb/kv"
	"github.com/lindb/lindb/models"
	"github.com/lindb/lindb/pkg/option"
	"github.com/lindb/lindb/pkg/timeutil"
	"github.com/lindb/lindb/tsdb"
	"github.com/lindb/lindb/tsdb/tblstore/metricsdata"
)

type engCase struct {
	Part    string `json:"part"`
	Kind    int    `json:"kind"`
	Pattern string `json:"pattern"`
	A       int64  `json:"a"`
	B       int64  `json:"b"`
	Range   string `json:"range,omitempty"`
}

type rfam struct{ fs, fe int64 }

var engIntervals = []int64{10 * msSecond, 5 * msMinute, msHour} // stored interval per kind
var engTypes = []timeutil.IntervalType{timeutil.Day, timeutil.Month, timeutil.Year}

// patterns of existing families inside the universe of a kind. "rollup-edges" creates the families the way the
// kv rollup job does (in the rollup target store of a database with intervals [10s,5m,1h]).
var patterns = []string{"pair", "edges", "odd", "even", "all", "rollup-edges"}

const retention = timeutil.Interval(36500 * msDay)

// universe lists the reference families (ascending) the tsdb part works on for a kind.
func universe(kind int, thorough bool) []rfam {
	var out []rfam
	add := func(from, to int64) { // every family intersecting [from,to)
		for t := from; t < to; {
			fs, fe := refFamily(kind, t)
			out = append(out, rfam{fs, fe})
			t = fe + 1
		}
	}
	switch kind {
	case kDay:
		add(ms(2019, 12, 31, 0, 0, 0, 0), ms(2020, 1, 2, 0, 0, 0, 0))
		add(ms(2020, 2, 29, 0, 0, 0, 0), ms(2020, 3, 2, 0, 0, 0, 0))
		if thorough {
			add(ms(2020, 12, 31, 0, 0, 0, 0), ms(2021, 1, 2, 0, 0, 0, 0))
		}
	case kMonth:
		add(ms(2019, 12, 30, 0, 0, 0, 0), ms(2020, 3, 3, 0, 0, 0, 0))
		if thorough {
			add(ms(2020, 12, 30, 0, 0, 0, 0), ms(2021, 3, 3, 0, 0, 0, 0))
		}
	default:
		add(ms(2019, 12, 1, 0, 0, 0, 0), ms(2021, 4, 1, 0, 0, 0, 0))
	}
	return out
}

func isEdge(kind int, u []rfam, i int) bool {
	f := u[i]
	if i == 0 || i == len(u)-1 {
		return true
	}
	seg := refSegmentStart(kind, f.fs)
	return refSegmentStart(kind, f.fs-1) != seg || refSegmentStart(kind, f.fe+1) != seg
}

func selectPattern(kind int, u []rfam, pattern string) []rfam {
	var out []rfam
	for i, f := range u {
		keep := false
		switch pattern {
		case "all":
			keep = true
		case "odd":
			keep = i%2 == 1
		case "even":
			keep = i%2 == 0
		case "edges", "rollup-edges":
			keep = isEdge(kind, u, i)
		case "pair": // the last family of the first complete segment boundary and the first family after it
			keep = false
		}
		if keep {
			out = append(out, f)
		}
	}
	if pattern == "pair" {
		for i := 1; i < len(u); i++ {
			if refSegmentStart(kind, u[i-1].fs) != refSegmentStart(kind, u[i].fs) && u[i-1].fe+1 == u[i].fs {
				return []rfam{u[i-1], u[i]}
			}
		}
	}
	return out
}

type engState struct {
	rep    *vevid.Report
	engine tsdb.Engine
}

func openEngine(f *vevid.Flags) tsdb.Engine {
	dir := filepath.Join(f.Scratch, "tsdb")
	_ = os.RemoveAll(dir)
	cfg := config.NewDefaultStorageBase()
	cfg.TSDB.Dir = dir
	config.SetGlobalStorageConfig(cfg)
	e, err := tsdb.NewEngine()
	if err != nil {
		vevid.OpFailed("new engine: %v", err)
	}
	return e
}

// prepared database of one (kind, pattern): existing families created, model of what exists.
type prepared struct {
	kind     int
	pattern  string
	shard    tsdb.Shard
	existing []rfam
	uni      []rfam
}

func (st *engState) prepare(kind int, pattern string, thorough bool) *prepared {
	rep := st.rep
	uni := universe(kind, thorough)
	ex := selectPattern(kind, uni, pattern)
	db := fmt.Sprintf("c13_%s_%s", kindName[kind], strings.ReplaceAll(pattern, "-", "_"))
	var ivs option.Intervals
	if pattern == "rollup-edges" {
		for _, iv := range engIntervals {
			ivs = append(ivs, option.Interval{Interval: timeutil.Interval(iv), Retention: retention})
		}
	} else {
		ivs = option.Intervals{{Interval: timeutil.Interval(engIntervals[kind]), Retention: retention}}
	}
	if err := st.engine.CreateShards(db, &option.DatabaseOption{Intervals: ivs, AutoCreateNS: true}, models.ShardID(1)); err != nil {
		vevid.OpFailed("create shards: %v", err)
	}
	d, ok := st.engine.GetDatabase(db)
	if !ok {
		vevid.OpFailed("database %s missing", db)
	}
	shard, ok := d.GetShard(models.ShardID(1))
	if !ok {
		vevid.OpFailed("shard missing")
	}
	p := &prepared{kind: kind, pattern: pattern, shard: shard, existing: ex, uni: uni}
	scen := fmt.Sprintf("kind=%s pattern=%s", kindName[kind], pattern)

	if pattern == "rollup-edges" {
		// families of a rollup target store are created by kv.family.rollup: CreateFamily(strconv.Itoa(CalcFamily)) in the
		// store of the target segment; the segments themselves are created by Shard.GetOrCrateDataFamily of the source.
		tgt := timeutil.Interval(engIntervals[kind])
		calc := tgt.Calculator()
		for _, fm := range ex {
			if _, err := shard.GetOrCrateDataFamily(fm.fs); err != nil {
				vevid.OpFailed("create source family: %v", err)
			}
			store, ok := kv.GetStoreManager().GetStoreByName(tsdb.ShardSegmentPath(db, models.ShardID(1), tgt, calc.GetSegment(fm.fs)))
			if !ok {
				vevid.OpFailed("rollup target store of %s not created", fmtTS(fm.fs))
			}
			seg := calc.CalcSegmentTime(fm.fs)
			if _, err := store.CreateFamily(strconv.Itoa(calc.CalcFamily(fm.fs, seg)), kv.FamilyOption{Merger: string(metricsdata.MetricDataMerger)}); err != nil {
				vevid.OpFailed("create rollup target family: %v", err)
			}
		}
		return p
	}

	// clause family-range
	seen := map[tsdb.DataFamily]int64{}
	for _, fm := range ex {
		c := engCase{Part: "tsdb", Kind: kind, Pattern: pattern, A: fm.fs, B: fm.fe, Range: fmtTS(fm.fs) + " .. " + fmtTS(fm.fe)}
		var first tsdb.DataFamily
		for _, t := range []int64{fm.fs, fm.fs + 1, fm.fs + 999, fm.fs + (fm.fe-fm.fs)/2, fm.fe - 999, fm.fe - 1, fm.fe} {
			rep.Evaluations++
			rep.DistinctNontrivial++
			df, err := shard.GetOrCrateDataFamily(t)
			if err != nil || df == nil {
				rep.Violate(vevid.Violation{Clause: "family-range", Scenario: scen, Site: "tsdb.Shard.GetOrCrateDataFamily",
					Detail: fmt.Sprintf("t=%s: error %v", fmtTS(t), err), Replay: c})
				continue
			}
			tr := df.TimeRange()
			if tr.Start != fm.fs || tr.End != fm.fe || df.FamilyTime() != fm.fs {
				rep.Violate(vevid.Violation{Clause: "family-range", Scenario: scen, Site: "tsdb.DataFamily.TimeRange",
					Detail: fmt.Sprintf("t=%s: family time range [%s .. %s] familyTime=%s, reference family [%s .. %s]", fmtTS(t), fmtTS(tr.Start), fmtTS(tr.End), fmtTS(df.FamilyTime()), fmtTS(fm.fs), fmtTS(fm.fe)), Replay: c})
			}
			if df.Interval().Int64() != engIntervals[kind] {
				rep.Violate(vevid.Violation{Clause: "family-range", Scenario: scen, Site: "tsdb.DataFamily.Interval",
					Detail: fmt.Sprintf("t=%s: family interval %d want %d", fmtTS(t), df.Interval().Int64(), engIntervals[kind]), Replay: c})
			}
			if first == nil {
				first = df
				if other, dup := seen[df]; dup {
					rep.Violate(vevid.Violation{Clause: "family-range", Scenario: scen, Site: "tsdb.Shard.GetOrCrateDataFamily",
						Detail: fmt.Sprintf("families %s and %s are the same object", fmtTS(other), fmtTS(fm.fs)), Replay: c})
				}
				seen[df] = fm.fs
			} else if df != first {
				rep.Violate(vevid.Violation{Clause: "family-range", Scenario: scen, Site: "tsdb.Shard.GetOrCrateDataFamily",
					Detail: fmt.Sprintf("t=%s: a second family object was returned for the family [%s .. %s]", fmtTS(t), fmtTS(fm.fs), fmtTS(fm.fe)), Replay: c})
			}
		}
		rep.Outcome(fmt.Sprintf("create/%s/family=%d", kindName[kind], refFamilyNo(kind, fm.fs)))
	}
	return p
}

func (p *prepared) endpoints(thorough bool) []int64 {
	set := map[int64]struct{}{}
	for _, fm := range p.uni {
		pts := []int64{fm.fs, fm.fs + (fm.fe-fm.fs)/2, fm.fe}
		if thorough && p.kind != kDay {
			pts = append(pts, fm.fs+1, fm.fe-1)
		}
		for _, x := range pts {
			set[x] = struct{}{}
		}
	}
	out := make([]int64, 0, len(set))
	for x := range set {
		out = append(out, x)
	}
	sort.Slice(out, func(i, j int) bool { return out[i] < out[j] })
	return out
}

func famList(fs []int64) string {
	var s []string
	for _, f := range fs {
		s = append(s, fmtTS(f))
	}
	return "[" + strings.Join(s, ", ") + "]"
}

// queryCase evaluates families-in-range for one range.
func (st *engState) queryCase(p *prepared, a, b int64) {
	rep := st.rep
	kind := p.kind
	c := engCase{Part: "tsdb", Kind: kind, Pattern: p.pattern, A: a, B: b, Range: fmtTS(a) + " .. " + fmtTS(b)}
	span := "same-segment"
	if refSegmentStart(kind, a) != refSegmentStart(kind, b) {
		span = "cross-segment"
	}
	scen := fmt.Sprintf("kind=%s pattern=%s span=%s", kindName[kind], p.pattern, span)
	defer func() {
		if r := recover(); r != nil {
			rep.Violate(vevid.Violation{Clause: "panic", Scenario: scen, Site: "tsdb.Shard.GetDataFamilies", Detail: fmt.Sprint(r), Replay: c})
		}
	}()
	rep.Evaluations++
	var want []int64
	for _, fm := range p.existing {
		if fm.fs <= b && fm.fe >= a {
			want = append(want, fm.fs)
		}
	}
	if span == "cross-segment" || len(want) > 0 {
		rep.DistinctNontrivial++
	}
	got := p.shard.GetDataFamilies(engTypes[kind], timeutil.TimeRange{Start: a, End: b})
	var gotT []int64
	for _, df := range got {
		gotT = append(gotT, df.FamilyTime())
	}
	sort.Slice(gotT, func(i, j int) bool { return gotT[i] < gotT[j] })
	same := len(gotT) == len(want)
	if same {
		for i := range want {
			if want[i] != gotT[i] {
				same = false
			}
		}
	}
	if len(want) > 3 {
		rep.Outcome(fmt.Sprintf("query/%s/%s/n>3/ok=%v", kindName[kind], span, same))
	} else {
		rep.Outcome(fmt.Sprintf("query/%s/%s/n=%d/ok=%v", kindName[kind], span, len(want), same))
	}
	if !same {
		var all []int64
		for _, fm := range p.existing {
			all = append(all, fm.fs)
		}
		if len(all) > 12 {
			all = nil
		}
		rep.Violate(vevid.Violation{Clause: "families-in-range", Scenario: scen, Site: "tsdb.Shard.GetDataFamilies",
			Detail: fmt.Sprintf("interval=%dms range [%s .. %s]: want the %d existing families intersecting the range %s, got %d: %s (existing families of the shard: %d %s)",
				engIntervals[kind], fmtTS(a), fmtTS(b), len(want), famList(want), len(gotT), famList(gotT), len(p.existing), famList(all)), Replay: c})
	}
	if rep.Evaluations%5003 == 0 {
		rep.Sample(c)
	}
}

func engItems() [][2]interface{} {
	var items [][2]interface{}
	for k := 0; k < 3; k++ {
		for _, p := range patterns {
			if p == "rollup-edges" && k == kDay {
				continue // the day type is the source (writable) interval, not a rollup target
			}
			items = append(items, [2]interface{}{k, p})
		}
	}
	return items
}

func runEngine(f *vevid.Flags, rep *vevid.Report) {
	rep.Rule = "for each interval type (10s/day, 5m/month, 1h/year) and each pattern of existing families {pair across a segment boundary, segment edges, odd, even, all, rollup-target edges} over the family universe (hours of year-end and leap-day days; days of 2019-12-30..2020-03-02; months 2019-12..2021-03): GetOrCrateDataFamily at 7 timestamps of every existing family, then GetDataFamilies for EVERY range [a,b], a<=b, with a,b in {start, middle, end} of every universe family; distinct = distinct (type, pattern, range); non-trivial = range crossing a segment boundary or intersecting an existing family"
	rep.Bounds["intervals_ms"] = engIntervals
	rep.Bounds["patterns"] = patterns
	st := &engState{rep: rep}
	var idx int64
	for _, it := range engItems() {
		idx++
		if !f.Mine(idx) {
			continue
		}
		if st.engine == nil {
			st.engine = openEngine(f)
		}
		kind, pattern := it[0].(int), it[1].(string)
		p := st.prepare(kind, pattern, f.Thorough())
		rep.Count("existing_families", int64(len(p.existing)))
		pts := p.endpoints(f.Thorough())
		// ascending index distance: the first failing range of a class is a smallest one
	loop:
		for d := 0; d < len(pts); d++ {
			for i := 0; i+d < len(pts); i++ {
				st.queryCase(p, pts[i], pts[i+d])
			}
			if f.Expired() {
				rep.Cap(fmt.Sprintf("deadline in %s/%s at distance %d", kindName[kind], pattern, d))
				break loop
			}
		}
		rep.Count("ranges", int64(len(pts)*(len(pts)+1)/2))
	}
	if st.engine != nil {
		st.engine.Close()
		_ = os.RemoveAll(filepath.Join(f.Scratch, "tsdb"))
	}
}

func replayEngine(f *vevid.Flags, rep *vevid.Report, c engCase) {
	st := &engState{rep: rep, engine: openEngine(f)}
	p := st.prepare(c.Kind, c.Pattern, f.Thorough())
	for i := 0; i < 5; i++ {
		st.queryCase(p, c.A, c.B)
	}
	st.engine.Close()
	_ = os.RemoveAll(filepath.Join(f.Scratch, "tsdb"))
}
