package main

// Part "famrace": Shard.GetOrCrateDataFamily asked for timestamps of DIFFERENT families by two threads at the same
// time (the write path and a replica of another family, a query creating nothing but resolving a family): whatever the
// interleaving, the family handed out for a timestamp is the family whose time range contains it. Real engine,
// tsdb/shard.go rebuilt with scheduling points at its lock / atomic operations, every schedule within the bound.

import (
	"fmt"
	"strings"
	"time"

	"github.com/lindb/lindb/internal/vevid"
	"github.com/lindb/lindb/internal/vsched"
	"github.com/lindb/lindb/models"
	"github.com/lindb/lindb/pkg/option"
	"github.com/lindb/lindb/pkg/timeutil"
	"github.com/lindb/lindb/tsdb"
)

type frcScenario struct {
	Name    string    `json:"name"`
	Threads [][]int64 `json:"threads"` // per thread: offsets (hours) from the base hour of the timestamps it asks for
	Known   bool      `json:"known"`   // the families exist already when the threads start
}

var frcScenarios = []frcScenario{
	{Name: "new-a|new-b", Threads: [][]int64{{0}, {1}}},
	{Name: "known a,b|b,a", Threads: [][]int64{{0, 1}, {1, 0}}, Known: true},
	{Name: "known a,b,a|b", Threads: [][]int64{{0, 1, 0}, {1}}, Known: true},
	{Name: "new a,b|b,a", Threads: [][]int64{{0, 1}, {1, 0}}},
}

type frcReplay struct {
	Part     string      `json:"part"`
	Scenario frcScenario `json:"scenario"`
	Choices  []int       `json:"choices"`
}

var (
	frcEngine tsdb.Engine
	frcShard  tsdb.Shard
	frcErrs   []string
	frcDB     int
	frcFlags  *vevid.Flags
)

const frcBase = int64(1678752000000) // 2023-03-14 00:00:00 UTC

func frcAsk(who string, off int64) {
	t := frcBase + off*3600_000 + 1234_000
	fam, err := frcShard.GetOrCrateDataFamily(t)
	if err != nil {
		frcErrs = append(frcErrs, fmt.Sprintf("%s: GetOrCrateDataFamily(%s): %v", who, time.UnixMilli(t).UTC().Format("15:04:05"), err))
		return
	}
	tr := fam.TimeRange()
	if !(tr.Start <= t && t <= tr.End) {
		frcErrs = append(frcErrs, fmt.Sprintf("%s asked for %s and got the family [%s .. %s]", who, time.UnixMilli(t).UTC().Format("2006-01-02 15:04:05"),
			time.UnixMilli(tr.Start).UTC().Format("15:04:05"), time.UnixMilli(tr.End).UTC().Format("15:04:05")))
	}
}

func frcBody(sc frcScenario) func() {
	return func() {
		frcErrs = nil
		frcDB++
		if frcDB%50 == 0 {
			frcEngine.Close()
			frcEngine = openEngine(frcFlags)
		}
		name := fmt.Sprintf("frc%d", frcDB)
		opt := &option.DatabaseOption{Intervals: option.Intervals{{Interval: timeutil.Interval(10_000), Retention: timeutil.Interval(36500 * 24 * 3600 * 1000)}}, AutoCreateNS: true}
		vsched.Quiet(true)
		if err := frcEngine.CreateShards(name, opt, models.ShardID(1)); err != nil {
			vevid.OpFailed("create shards: %v", err)
		}
		shard, ok := frcEngine.GetShard(name, models.ShardID(1))
		if !ok {
			vevid.OpFailed("shard missing")
		}
		frcShard = shard
		if sc.Known {
			frcAsk("setup", 0)
			frcAsk("setup", 1)
		}
		vsched.Quiet(false)
		for ti, offs := range sc.Threads {
			ti, offs := ti, offs
			vsched.Spawn(fmt.Sprintf("T%d", ti+1), func() {
				for _, o := range offs {
					frcAsk(fmt.Sprintf("T%d", ti+1), o)
				}
			})
		}
	}
}

func frcFinish(rep *vevid.Report, sc frcScenario, x *vsched.Result) {
	viol := func(clause, detail string) {
		rep.Violate(vevid.Violation{Clause: clause, Scenario: "famrace/" + sc.Name, Site: "tsdb.Shard.GetOrCrateDataFamily", Detail: detail + "\nlog: " + strings.Join(x.Log, " | "),
			Replay: frcReplay{Part: "famrace", Scenario: sc, Choices: x.Choices()}})
	}
	if x.Deadlock {
		viol("deadlock", x.WaitGraph)
		return
	}
	if x.Horizon {
		viol("livelock", x.WaitGraph)
		return
	}
	for _, p := range x.Panics {
		viol("panic", p)
	}
	// one more lookup of each, sequentially
	frcAsk("after", 0)
	frcAsk("after", 1)
	for _, e := range frcErrs {
		viol("family-range", e)
	}
	rep.Outcome(fmt.Sprintf("famrace %s errs=%d", sc.Name, len(frcErrs)))
}

func runFamRace(f *vevid.Flags, rep *vevid.Report) {
	vsched.Strict = true
	frcFlags = f
	frcEngine = openEngine(f)
	defer func() { frcEngine.Close() }()
	bound := 2
	if f.Thorough() {
		bound = 3
	}
	rep.Bounds["preemption_bound"] = bound
	rep.Rule = fmt.Sprintf("%d scenarios of 2 threads asking Shard.GetOrCrateDataFamily for timestamps of two different hours (families new or existing, 1-3 lookups per thread) on a real engine, a shard of its own per execution; every schedule with <=%d preemptions at the lock / atomic operations of tsdb/shard.go; every family handed out contains the timestamp it was asked for", len(frcScenarios), bound)
	if f.Replay != "" {
		var r frcReplay
		vevid.LoadReplay(f.Replay, &r)
		fails := 0
		for i := 0; i < 5; i++ {
			before := rep.ViolationCount
			x := vsched.Run(r.Choices, 400000, frcBody(r.Scenario))
			frcFinish(rep, r.Scenario, x)
			if rep.ViolationCount > before {
				fails++
			}
		}
		rep.Extra["replay_failures_of_5"] = fails
		rep.Evaluations = 5
		return
	}
	for _, sc := range frcScenarios {
		sc := sc
		e := &vsched.Explorer{Bound: bound, Horizon: 400000, Body: frcBody(sc), Shard: f.Shard, Shards: f.Shards, Deadline: f.Deadline}
		e.Check = func(x *vsched.Result) { frcFinish(rep, sc, x) }
		e.Explore()
		if e.Diverged != "" {
			vevid.Fatal("replay divergence in %s: %s", sc.Name, e.Diverged)
		}
		if e.Capped {
			rep.Cap("deadline reached in scenario " + sc.Name)
		}
		rep.Evaluations += e.Executions
		rep.States += e.Executions
		rep.Transitions += e.Points
		rep.TracesValidated += e.Executions
		rep.DistinctNontrivial += e.Executions
		rep.Count("schedules["+sc.Name+"]", e.Executions)
	}
}
