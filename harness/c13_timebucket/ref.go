// Reference calendar for C13: proleptic Gregorian arithmetic (UTC) written from first principles.
// Nothing in this file calls the functions under test (github.com/lindb/lindb/pkg/timeutil). Go's
// time package is used only in selfCheckCalendar to cross-check the reference itself.
package main

import (
	"fmt"
	"time"

	"github.com/lindb/lindb/internal/vevid"
)

const (
	msSecond int64 = 1000
	msMinute       = 60 * msSecond
	msHour         = 60 * msMinute
	msDay          = 24 * msHour
	secDay   int64 = 86400
)

// kinds of interval type (the three calculators)
const (
	kDay   = 0 // segment = calendar day,   family = hour
	kMonth = 1 // segment = calendar month, family = calendar day
	kYear  = 2 // segment = calendar year,  family = calendar month
)

var kindName = []string{"day", "month", "year"}

func isLeap(y int) bool { return y%4 == 0 && (y%100 != 0 || y%400 == 0) }

func daysInMonth(y, m int) int {
	switch m {
	case 1, 3, 5, 7, 8, 10, 12:
		return 31
	case 4, 6, 9, 11:
		return 30
	}
	if isLeap(y) {
		return 29
	}
	return 28
}

// daysFromCivil = number of days from 1970-01-01 to y-m-d, by plain summation (y >= 1970).
func daysFromCivil(y, m, d int) int64 {
	var n int64
	for yy := 1970; yy < y; yy++ {
		n += 365
		if isLeap(yy) {
			n++
		}
	}
	for mm := 1; mm < m; mm++ {
		n += int64(daysInMonth(y, mm))
	}
	return n + int64(d-1)
}

type civil struct{ Y, M, D int }

// table day-index -> civil date, built by stepping one day at a time from 2019-11-01.
var (
	tblBase int64
	tbl     []civil
)

func initCalendar() {
	c := civil{2019, 11, 1}
	tblBase = daysFromCivil(c.Y, c.M, c.D)
	for !(c.Y == 2021 && c.M == 7) {
		tbl = append(tbl, c)
		c.D++
		if c.D > daysInMonth(c.Y, c.M) {
			c.D = 1
			c.M++
			if c.M > 12 {
				c.M = 1
				c.Y++
			}
		}
	}
	selfCheckCalendar()
}

// selfCheckCalendar cross-checks the reference against Go's time package (not against lindb).
func selfCheckCalendar() {
	for i, c := range tbl {
		day := tblBase + int64(i)
		if daysFromCivil(c.Y, c.M, c.D) != day {
			vevid.Fatal("reference calendar inconsistent at %v", c)
		}
		y, m, d := time.Unix(day*secDay, 0).UTC().Date()
		if y != c.Y || int(m) != c.M || d != c.D {
			vevid.Fatal("reference calendar disagrees with time package at day %d: %v vs %d-%d-%d", day, c, y, m, d)
		}
	}
	if _, off := time.Unix(0, 0).Local().Zone(); off != 0 {
		vevid.Fatal("process must run with TZ=UTC (lindb's calculators use time.Local)")
	}
}

func floorDiv(a, b int64) int64 {
	q := a / b
	if a%b != 0 && (a < 0) != (b < 0) {
		q--
	}
	return q
}

func civilOf(t int64) civil {
	day := floorDiv(t, msDay)
	i := day - tblBase
	if i < 0 || i >= int64(len(tbl)) {
		vevid.Fatal("timestamp %d outside the reference calendar table", t)
	}
	return tbl[i]
}

// refSegment returns start (ms) and name of the segment that contains t.
func refSegment(kind int, t int64) (int64, string) {
	c := civilOf(t)
	switch kind {
	case kDay:
		return daysFromCivil(c.Y, c.M, c.D) * msDay, fmt.Sprintf("%04d%02d%02d", c.Y, c.M, c.D)
	case kMonth:
		return daysFromCivil(c.Y, c.M, 1) * msDay, fmt.Sprintf("%04d%02d", c.Y, c.M)
	default:
		return daysFromCivil(c.Y, 1, 1) * msDay, fmt.Sprintf("%04d", c.Y)
	}
}

// refSegmentStart is refSegment without the name.
func refSegmentStart(kind int, t int64) int64 {
	c := civilOf(t)
	switch kind {
	case kDay:
		return floorDiv(t, msDay) * msDay
	case kMonth:
		return (floorDiv(t, msDay) - int64(c.D-1)) * msDay
	default:
		return daysFromCivil(c.Y, 1, 1) * msDay
	}
}

// refFamily returns the inclusive range [start,end] (ms) of the family that contains t.
func refFamily(kind int, t int64) (int64, int64) {
	switch kind {
	case kDay:
		s := floorDiv(t, msHour) * msHour
		return s, s + msHour - 1
	case kMonth:
		s := floorDiv(t, msDay) * msDay
		return s, s + msDay - 1
	default:
		c := civilOf(t)
		s := (floorDiv(t, msDay) - int64(c.D-1)) * msDay
		return s, s + int64(daysInMonth(c.Y, c.M))*msDay - 1
	}
}

// refFamilyNo is the family number inside its segment as lindb names it (hour 0..23, day 1..31, month 1..12).
func refFamilyNo(kind int, t int64) int {
	c := civilOf(t)
	switch kind {
	case kDay:
		return int(floorDiv(t, msHour) - floorDiv(t, msDay)*24)
	case kMonth:
		return c.D
	default:
		return c.M
	}
}

func ms(y, m, d, hh, mm, ss, milli int) int64 {
	return daysFromCivil(y, m, d)*msDay + int64(hh)*msHour + int64(mm)*msMinute + int64(ss)*msSecond + int64(milli)
}

// fmtTS renders a timestamp with the reference calendar (for violation details).
func fmtTS(t int64) string {
	day := floorDiv(t, msDay)
	i := day - tblBase
	if i < 0 || i >= int64(len(tbl)) {
		return fmt.Sprintf("%dms", t)
	}
	c := tbl[i]
	r := t - day*msDay
	return fmt.Sprintf("%04d-%02d-%02dT%02d:%02d:%02d.%03d(%d)", c.Y, c.M, c.D, r/msHour, r%msHour/msMinute, r%msMinute/msSecond, r%msSecond, t)
}
