// C13 harness: time bucketing partitions the time axis consistently.
//
// Bounded exhaustive enumeration (no sampling) against a reference calendar written in ref.go:
//
//	part calc    : every enumerated ms timestamp of the window 2019-12-30 .. 2021-03-02 x the three interval
//	               calculators of pkg/timeutil (family contains t, tiling, idempotence, slot arithmetic, segment
//	               name <-> time round trip, reference calendar, kv rollup slot relation)
//	part tsdb    : real storage engine: Shard.GetOrCrateDataFamily / Shard.GetDataFamilies (hazard H17)
//	part planner : RootMetricContext.MakePlan -> calcTimeRangeAndInterval
//
// The process must run with TZ=UTC (lindb's calculators use time.Local); the check driver sets it.
package main

import (
	"encoding/json"
	"os"

	"github.com/lindb/lindb/internal/vevid"
)

func main() {
	f := vevid.ParseFlags()
	rep := vevid.New("C13")
	// lindb logs to stdout; keep the worker output small
	if devnull, err := os.OpenFile(os.DevNull, os.O_WRONLY, 0); err == nil {
		os.Stdout = devnull
	}
	initCalendar()
	initWindow()

	if f.Replay != "" {
		var head struct {
			Part string `json:"part"`
		}
		var raw json.RawMessage
		vevid.LoadReplay(f.Replay, &raw)
		if err := json.Unmarshal(raw, &head); err != nil {
			vevid.Fatal("replay: %v", err)
		}
		switch head.Part {
		case "calc":
			var c calcCase
			_ = json.Unmarshal(raw, &c)
			replayCalc(rep, c)
		case "tsdb":
			var c engCase
			_ = json.Unmarshal(raw, &c)
			replayEngine(f, rep, c)
		case "planner":
			var c planCase
			_ = json.Unmarshal(raw, &c)
			initPlanner()
			for i := 0; i < 5; i++ {
				runPlanCase(rep, c)
			}
		case "famrace":
			runFamRace(f, rep)
		default:
			vevid.Fatal("replay: unknown part %q", head.Part)
		}
		rep.Write()
		return
	}

	switch f.Part {
	case "calc", "":
		runCalc(f, rep)
	case "tsdb":
		runEngine(f, rep)
	case "planner":
		runPlanner(f, rep)
	case "famrace":
		runFamRace(f, rep)
	default:
		vevid.Fatal("unknown part %q", f.Part)
	}
	rep.Write()
}
