// Part "planner": the query-planning clause of C13 through the real RootMetricContext.MakePlan
// (query/context/utils.go calcTimeRangeAndInterval, option.FindMatchSmallestInterval, timeutil.Truncate,
// timeutil.CalcQueryInterval, timeutil.CalIntervalRatio).
package main

import (
	"context"
	"fmt"

	"github.com/lindb/lindb/coordinator/broker"
	"github.com/lindb/lindb/internal/vevid"
	"github.com/lindb/lindb/models"
	"github.com/lindb/lindb/pkg/option"
	"github.com/lindb/lindb/pkg/timeutil"
	queryctx "github.com/lindb/lindb/query/context"
	"github.com/lindb/lindb/sql"
	"github.com/lindb/lindb/sql/stmt"
)

type planCase struct {
	Part     string  `json:"part"`
	Opt      []int64 `json:"stored_intervals_ms"`
	Start    int64   `json:"start"`
	End      int64   `json:"end"`
	Interval int64   `json:"interval_ms"`
	Auto     bool    `json:"auto_group_by_time"`
}

// chooser is the NodeChoose of the root context; it also answers GetDatabaseCfg (MakePlan asks the chooser for
// the database config through broker.StateManager). All other StateManager methods are never called by MakePlan.
type chooser struct {
	broker.StateManager
	cfg models.Database
}

func (c *chooser) Choose(database string, _ int) ([]*models.PhysicalPlan, error) {
	return []*models.PhysicalPlan{{Database: database, Targets: []*models.Target{{Indicator: "10.0.0.1:2891", ShardIDs: []models.ShardID{1}}}}}, nil
}

func (c *chooser) GetDatabaseCfg(_ string) (models.Database, bool) { return c.cfg, true }

var baseStmt *stmt.Query

func initPlanner() {
	s, err := sql.Parse("select f from cpu")
	if err != nil {
		vevid.Fatal("parse: %v", err)
	}
	q, ok := s.(*stmt.Query)
	if !ok {
		vevid.Fatal("not a query statement")
	}
	baseStmt = q
}

func runPlanCase(rep *vevid.Report, c planCase) {
	scen := fmt.Sprintf("stored=%v interval=%d auto=%v", c.Opt, c.Interval, c.Auto)
	defer func() {
		if r := recover(); r != nil {
			rep.Violate(vevid.Violation{Clause: "panic", Scenario: scen, Site: "query/context.RootMetricContext.MakePlan", Detail: fmt.Sprint(r), Replay: c})
		}
	}()
	rep.Evaluations++
	var ivs option.Intervals
	for _, iv := range c.Opt {
		ivs = append(ivs, option.Interval{Interval: timeutil.Interval(iv), Retention: retention})
	}
	q := *baseStmt
	q.TimeRange = timeutil.TimeRange{Start: c.Start, End: c.End}
	q.Interval = timeutil.Interval(c.Interval)
	q.AutoGroupByTime = c.Auto
	ch := &chooser{cfg: models.Database{Name: "db", NumOfShard: 1, ReplicaFactor: 1, Option: &option.DatabaseOption{Intervals: ivs}}}
	root := queryctx.NewRootMetricContext(&queryctx.RootMetricContextDeps{
		Ctx:         context.Background(),
		Request:     &models.Request{RequestID: "c13", DB: "db"},
		Database:    "db",
		CurrentNode: models.StatelessNode{HostIP: "10.0.0.2", GRPCPort: 2891},
		Statement:   &q,
		Choose:      ch,
	})
	if err := root.MakePlan(); err != nil {
		vevid.OpFailed("MakePlan failed for a legal query: %v", err)
	}
	viol := func(clause, site, format string, a ...interface{}) {
		rep.Violate(vevid.Violation{Clause: clause, Scenario: scen, Site: site,
			Detail: fmt.Sprintf("range [%s .. %s]: planned range [%d .. %d] storage interval %d query interval %d ratio %d: ", fmtTS(c.Start), fmtTS(c.End),
				q.TimeRange.Start, q.TimeRange.End, q.StorageInterval, q.Interval, q.IntervalRatio) + fmt.Sprintf(format, a...), Replay: c})
	}
	si := q.StorageInterval.Int64()
	stored := false
	for _, iv := range c.Opt {
		if iv == si {
			stored = true
		}
	}
	if !stored || si <= 0 {
		viol("planner-stored-interval", "option.FindMatchSmallestInterval", "storage interval %d is not one of the stored intervals %v", si, c.Opt)
		return
	}
	qi := q.Interval.Int64()
	if qi <= 0 || qi%si != 0 || int64(q.IntervalRatio)*si != qi {
		viol("planner-multiple", "query/context.calcTimeRangeAndInterval", "query interval is not ratio x storage interval with a whole ratio >= 1")
	}
	if q.TimeRange.Start%si != 0 || q.TimeRange.End%si != 0 {
		viol("planner-aligned", "timeutil.Truncate", "planned range is not aligned to the storage interval")
	}
	// every requested slot (storage slots floor(start/si) .. floor(end/si)) lies inside the planned range
	if q.TimeRange.Start > floorDiv(c.Start, si)*si || q.TimeRange.End < floorDiv(c.End, si)*si {
		viol("planner-contains", "timeutil.Truncate", "planned range does not contain the slots of the requested range: first slot starts %d, last slot starts %d",
			floorDiv(c.Start, si)*si, floorDiv(c.End, si)*si)
	}
	if q.TimeRange.Start != c.Start || q.TimeRange.End != c.End {
		rep.DistinctNontrivial++ // the planner had to move a bound
	}
	rep.Outcome(fmt.Sprintf("si=%d ratio=%d", si, q.IntervalRatio))
	if rep.Evaluations%4001 == 0 {
		rep.Sample(c)
	}
}

func runPlanner(f *vevid.Flags, rep *vevid.Report) {
	initPlanner()
	opts := [][]int64{
		{10 * msSecond},
		{msMinute},
		{10 * msSecond, 5 * msMinute, msHour},
		{1 * msSecond, 7 * msMinute, 2 * msHour},
		{msHour, 10 * msSecond, 5 * msMinute}, // not sorted (the option does not require it)
	}
	userIvs := []int64{0, 10 * msSecond, msMinute, 45 * msSecond, msHour, msDay}
	bounds := []int64{
		ms(2020, 1, 1, 0, 0, 0, 0), ms(2020, 2, 29, 0, 0, 0, 0), ms(2020, 3, 1, 0, 0, 0, 0),
		ms(2020, 6, 15, 13, 0, 0, 0), ms(2020, 6, 15, 13, 7, 0, 0), ms(2020, 6, 15, 13, 7, 10, 0),
	}
	if f.Thorough() {
		for h := int64(0); h < 72; h++ { // every hour boundary of 2020-02-28 .. 2020-03-01
			bounds = append(bounds, ms(2020, 2, 28, 0, 0, 0, 0)+h*msHour)
		}
		for m := int64(0); m < 60; m++ { // every minute boundary of one hour
			bounds = append(bounds, ms(2020, 12, 31, 23, 0, 0, 0)+m*msMinute)
		}
	}
	offs := []int64{-1000, -999, -1, 0, 1, 999, 1000, 4567}
	var lens []int64
	for _, l := range []int64{msSecond, 10 * msSecond, msMinute, msHour, 3 * msHour, 6 * msHour, 12 * msHour, msDay, 2 * msDay, 7 * msDay, 30 * msDay, 60 * msDay, 90 * msDay} {
		lens = append(lens, l-1, l, l+1)
	}
	lens = append(lens, 0, 1, 999, 200*msDay)
	rep.Rule = "every (stored interval set, requested interval, auto-group-by-time, start, length): start = boundary + {-1000,-999,-1,0,1,999,1000,4567} ms for the chosen boundaries (year start, leap day, month start, an hour, a minute, a 10 s mark; thorough: every hour of 3 days and every minute of one hour), length = every CalcQueryInterval threshold +-1 ms plus {0,1,999 ms,200 d}; distinct = distinct tuple; non-trivial = the planner moved a bound of the range"
	rep.Bounds["stored_interval_sets_ms"] = opts
	rep.Bounds["requested_intervals_ms"] = userIvs
	rep.Bounds["lengths"] = len(lens)
	rep.Bounds["starts"] = len(bounds) * len(offs)
	var idx, mine int64
	for _, o := range opts {
		for _, ui := range userIvs {
			for _, auto := range []bool{false, true} {
				for _, b := range bounds {
					for _, off := range offs {
						for _, l := range lens {
							idx++
							if !f.Mine(idx) {
								continue
							}
							if mine++; mine%1024 == 0 && f.Expired() {
								rep.Cap(fmt.Sprintf("deadline at case %d", idx))
								return
							}
							runPlanCase(rep, planCase{Part: "planner", Opt: o, Start: b + off, End: b + off + l, Interval: ui, Auto: auto})
						}
					}
				}
			}
		}
	}
}
