package main

import (
	"fmt"
	"sort"
	"strconv"
	"strings"
)

// ---- reference model: a sorted slice of pairs + a map (nothing else) -------------------------------

type pair struct {
	k string
	v uint32
}

type model struct {
	pairs []pair // ascending by key (bytewise)
	idx   map[string]int
}

func newModel(keys []string, vals []uint32) *model {
	m := &model{idx: make(map[string]int, len(keys))}
	for i, k := range keys {
		m.pairs = append(m.pairs, pair{k, vals[i]})
	}
	sort.Slice(m.pairs, func(i, j int) bool { return m.pairs[i].k < m.pairs[j].k })
	for i, p := range m.pairs {
		if _, dup := m.idx[p.k]; dup {
			panic("harness: duplicate key in a key set: " + strconv.Quote(p.k))
		}
		m.idx[p.k] = i
	}
	return m
}

func (m *model) n() int { return len(m.pairs) }

func (m *model) get(k string) (uint32, bool) {
	i, ok := m.idx[k]
	if !ok {
		return 0, false
	}
	return m.pairs[i].v, true
}

// lowerBound = index of the first key >= k (n when none).
func (m *model) lowerBound(k string) int {
	return sort.Search(len(m.pairs), func(i int) bool { return m.pairs[i].k >= k })
}

// prefixRange = [lo,hi) of the keys having prefix p (they are contiguous in a sorted map).
func (m *model) prefixRange(p string) (lo, hi int) {
	lo = m.lowerBound(p)
	hi = lo
	for hi < len(m.pairs) && strings.HasPrefix(m.pairs[hi].k, p) {
		hi++
	}
	return
}

func (m *model) keys() []string {
	out := make([]string, len(m.pairs))
	for i, p := range m.pairs {
		out[i] = p.k
	}
	return out
}

func (m *model) sortedValues() []uint32 {
	out := make([]uint32, len(m.pairs))
	for i, p := range m.pairs {
		out[i] = p.v
	}
	sort.Slice(out, func(i, j int) bool { return out[i] < out[j] })
	return out
}

// union of several models with pairwise disjoint key sets.
func union(ms ...*model) *model {
	var ks []string
	var vs []uint32
	for _, m := range ms {
		for _, p := range m.pairs {
			ks = append(ks, p.k)
			vs = append(vs, p.v)
		}
	}
	return newModel(ks, vs)
}

// ---- key alphabets ---------------------------------------------------------------------------------

// the sharp 12-key alphabet of the design (index = bit of the subset mask)
var alphabet = []string{"", "a", "ab", "abc", "abd", "b", "ba", "\x00", "\x00\x00", "\xff", "a\xff", "a\x00"}

// distinct values incl. 0, all-ones and the 16/31/32 bit boundaries
var alphabetVals = []uint32{0, 1, 0xFFFFFFFF, 65535, 65536, 0x80000000, 7, 255, 256, 0x7FFFFFFF, 0x01020304, 42}

func subsetKeys(mask uint64) (keys []string, vals []uint32) {
	for i, k := range alphabet {
		if mask&(1<<uint(i)) != 0 {
			keys = append(keys, k)
			vals = append(vals, alphabetVals[i])
		}
	}
	return
}

func largeVal(i int) uint32 { return uint32(i+1) * 2654435761 } // odd multiplier: a bijection on uint32

// all strings of length 1..4 over {\x00,a,b,\xff}: 4+16+64+256 = 340 keys
func keysLen4() []string {
	sym := []byte{0x00, 'a', 'b', 0xff}
	var out []string
	var rec func(cur []byte, l int)
	rec = func(cur []byte, l int) {
		if len(cur) == l {
			out = append(out, string(cur))
			return
		}
		for _, s := range sym {
			rec(append(cur, s), l)
		}
	}
	for l := 1; l <= 4; l++ {
		rec(nil, l)
	}
	return out
}

// n keys sharing long prefixes and long suffixes; includes keys that are proper prefixes of others,
// keys ending in 0xff / 0x00 and prefixes longer than 64 bytes.
func keysPrefSuf(n int) []string {
	prefixes := []string{
		"host-production-cluster-eu-west-1-rack-000000000000000000000000000000000000017/",
		"host-production-cluster-eu-west-1-rack-000000000000000000000000000000000000018/",
		"host-production-cluster-eu-west-2/",
		"h",
		"\xff\xff\xff\xff/",
	}
	suffixes := []string{
		".svc.cluster.local",
		".svc.cluster.local.",
		"",
		"\xff",
		"\x00",
		".svc.cluster.internal-with-a-rather-long-tail-0123456789-0123456789-0123456789-0123456789",
		"-x",
	}
	seen := map[string]bool{}
	var out []string
	add := func(k string) {
		if !seen[k] && len(out) < n {
			seen[k] = true
			out = append(out, k)
		}
	}
	for _, p := range prefixes { // keys that are prefixes of (many) others
		add(p)
	}
	for i := 0; len(out) < n; i++ {
		add(prefixes[i%len(prefixes)] + strconv.FormatInt(int64(i/len(prefixes)), 36) + suffixes[i%len(suffixes)])
		if i > 50*n {
			panic("harness: cannot generate prefsuf keys")
		}
	}
	return out
}

// fan(L): 2L two-byte keys {x}{a|b} for L distinct first bytes: root node with L labels, L child nodes of 2 labels.
// The LOUDS vector has 1+L ones and 3L bits; sweeping L moves the 64th/128th... one and the vector end across every
// alignment to the 64-bit words (select samples every 64 ones) - the family exists for rank/select boundary errors.
func keysFan(l int) []string {
	var out []string
	for x := 0; x < l; x++ {
		for _, y := range []byte{'a', 'b'} {
			out = append(out, string([]byte{byte(1 + x), y}))
		}
	}
	return out
}

// keysGrid: the first n two-byte keys (x,y), w values of y per x: label count = n + ceil(n/w), swept over n so that
// the sizes of the trie's bit vectors pass through every value around 512 and 1024 (their rank tables have one entry
// per 512 bits)
func keysGrid(w, n int) []string {
	out := make([]string, 0, n)
	for i := 0; i < n; i++ {
		out = append(out, string([]byte{byte(1 + i/w), byte('!' + i%w)}))
	}
	return out
}

// keysGrid3: the first n three-byte keys (x,y,z), two z per (x,y), 32 y per x: node count = 1 + #x + #(x,y), swept
// through 512
func keysGrid3(n int) []string {
	out := make([]string, 0, n)
	for i := 0; i < n; i++ {
		out = append(out, string([]byte{byte(1 + i/64), byte(1 + (i/2)%32), byte('a' + i%2)}))
	}
	return out
}

// n sequential keys "k0","k1",...: many keys are proper prefixes of others ("k1" < "k10" < "k100")
func keysSeq(n int) []string {
	out := make([]string, n)
	for i := range out {
		out[i] = "k" + strconv.Itoa(i)
	}
	return out
}

// ---- case descriptor (JSON-serialisable, fed back by --replay) -------------------------------------

type caseDesc struct {
	Part   string `json:"part"`
	Kind   string `json:"kind"`             // subset | large
	Mask   uint64 `json:"mask"`             // kind=subset: subset of the 12-key alphabet
	Name   string `json:"name,omitempty"`   // kind=large: len4 | prefsuf | seq
	N      int    `json:"n,omitempty"`      // kind=large: number of keys
	Assign []int  `json:"assign,omitempty"` // kv part: dictionary index per key (keys in ascending order)
	// kv part: only the "holds exactly these pairs" oracle in every stage (the thorough-only 3^12 family)
	Light bool `json:"light,omitempty"`
	// enum part, large sets only: 0 = every representation, k>0 = only the k-th representation (work is spread over workers)
	Section int      `json:"section,omitempty"`
	Keys    []string `json:"keys_quoted,omitempty"`
}

func (d caseDesc) String() string {
	if d.Kind == "subset" {
		s := fmt.Sprintf("subset mask=%#x keys=%q", d.Mask, func() []string { k, _ := subsetKeys(d.Mask); return k }())
		if d.Assign != nil {
			s += fmt.Sprintf(" assign=%v", d.Assign)
		}
		return s
	}
	return fmt.Sprintf("large %s n=%d assign=%d-way section=%d", d.Name, d.N, maxAssign(d.Assign), d.Section)
}

func maxAssign(a []int) int {
	mx := 0
	for _, x := range a {
		if x+1 > mx {
			mx = x + 1
		}
	}
	return mx
}

func (d caseDesc) materialise() (keys []string, vals []uint32) {
	switch d.Kind {
	case "subset":
		return subsetKeys(d.Mask)
	case "large":
		switch d.Name {
		case "len4":
			keys = keysLen4()
		case "prefsuf":
			keys = keysPrefSuf(d.N)
		case "seq":
			keys = keysSeq(d.N)
		case "fan":
			keys = keysFan(d.N)
		case "grid31":
			keys = keysGrid(31, d.N)
		case "grid29":
			keys = keysGrid(29, d.N)
		case "grid3":
			keys = keysGrid3(d.N)
		default:
			panic("harness: unknown large set " + d.Name)
		}
		vals = make([]uint32, len(keys))
		for i := range keys {
			vals[i] = largeVal(i)
		}
		return
	}
	panic("harness: unknown case kind " + d.Kind)
}

// ---- probes ----------------------------------------------------------------------------------------

var allBytes = func() []byte {
	b := make([]byte, 256)
	for i := range b {
		b[i] = byte(i)
	}
	return b
}()

var fewBytes = []byte{0x00, 0x01, 'a', 'b', '0', 'z', 0xfe, 0xff}

// probeSet = every alphabet key, every proper prefix and every one-byte extension (bytes ext) of every
// present key; sorted, distinct. (The present keys themselves are included.)
func probeSet(m *model, ext []byte) []string {
	seen := map[string]struct{}{}
	for _, k := range alphabet {
		seen[k] = struct{}{}
	}
	for _, p := range m.pairs {
		seen[p.k] = struct{}{}
		for l := 0; l < len(p.k); l++ {
			seen[p.k[:l]] = struct{}{}
		}
		for _, b := range ext {
			seen[p.k+string([]byte{b})] = struct{}{}
		}
	}
	out := make([]string, 0, len(seen))
	for k := range seen {
		out = append(out, k)
	}
	sort.Strings(out)
	return out
}

func quoteKeys(ks []string, max int) string {
	var sb strings.Builder
	sb.WriteString("[")
	for i, k := range ks {
		if i >= max {
			fmt.Fprintf(&sb, " …(%d keys)", len(ks))
			break
		}
		if i > 0 {
			sb.WriteString(" ")
		}
		sb.WriteString(strconv.Quote(k))
	}
	sb.WriteString("]")
	return sb.String()
}
