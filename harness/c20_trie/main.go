// C20 harness: the on-disk string dictionary (pkg/trie succinct trie, index/model TrieBucket, index/v1
// flusher/reader/merger) against a sorted-map model. Bounded EXHAUSTIVE enumeration, nothing random:
//
//	part "enum": every subset of a sharp 12-key alphabet (4096) + deterministic large key sets; for every
//	             dictionary: trie built in memory, trie after Write->UnmarshalBinary, TrieBucket for several
//	             block sizes, TrieBucket.Write (the merge step) over deterministic 2/3-way splits.
//	part "kv":   2- and 3-way splits of the key sets flushed as separate files of one bucket id through the real
//	             IndexKVFlusher into a real kv family, read back with IndexKVReader (multi-file bucket), then
//	             compacted by the real kv compaction job with the registered IndexKVMerger and read back again.
package main

import (
	"bytes"
	"fmt"
	"io"
	"math"
	"math/bits"
	"os"
	"runtime/pprof"
	"sort"
	"strings"

	imodel "github.com/lindb/lindb/index/model"
	"github.com/lindb/lindb/internal/venum"
	"github.com/lindb/lindb/internal/vevid"
	"github.com/lindb/lindb/pkg/trie"
)

// Decision about Seek beyond the last key (documented in checks/C20.json):
// iterator.go carries no contract comment. The statement says "seek exactly like a sorted map", i.e. Seek(k)
// positions on the first key >= k and on nothing when there is none. Strict = alarm when the iterator is valid
// after seeking past the last key.
func init() { seekPastEndStrict = true }

func kindOf(d caseDesc) string {
	if d.Kind == "subset" {
		return "subset"
	}
	return d.Name
}

// excluded reports whether a key set is not a legal input of trie.Builder.Build (see checks/C20.json).
func excludedForBuilder(keys []string) (bool, string) {
	if len(keys) == 0 {
		return true, "empty-set"
	}
	if len(keys) == 1 && keys[0] == "" {
		return true, "only-empty-key"
	}
	return false, ""
}

var bigK [][]byte
var bigV []uint32

// bigDictionary: 600 keys with long distinct tails (many LOUDS words, many suffix bytes, several levels).
func bigDictionary() ([][]byte, []uint32) {
	if bigK == nil {
		for i := 0; i < 600; i++ {
			bigK = append(bigK, []byte(fmt.Sprintf("k%03d/%s", i, strings.Repeat(string(rune('a'+i%26)), 1+i%7))))
			bigV = append(bigV, uint32(i+1))
		}
	}
	return bigK, append([]uint32(nil), bigV...)
}

func toBytes(keys []string) [][]byte {
	out := make([][]byte, len(keys))
	for i, k := range keys {
		out[i] = []byte(k)
	}
	return out
}

// buildBucketBytes writes the pairs through the real TrieBucketBuilder (which sorts and splits into blocks).
// Keys are handed over in descending order, so that the builder's own sort is exercised.
func buildBucketBytes(m *model, blockSize int) ([]byte, error) {
	n := m.n()
	keys := make([][]byte, n)
	ids := make([]uint32, n)
	for i, p := range m.pairs {
		keys[n-1-i] = []byte(p.k)
		ids[n-1-i] = p.v
	}
	var buf bytes.Buffer
	err := imodel.NewTrieBucketBuilder(blockSize, &buf).Write(keys, ids)
	return buf.Bytes(), err
}

type split struct {
	name  string
	parts int
	of    func(i, n int) int
}

var splits = []split{
	{"even-odd", 2, func(i, n int) int { return i % 2 }},
	{"halves", 2, func(i, n int) int {
		if i < (n+1)/2 {
			return 0
		}
		return 1
	}},
	{"mod3", 3, func(i, n int) int { return i % 3 }},
	{"thirds", 3, func(i, n int) int { return i * 3 / n }},
	{"last-alone", 2, func(i, n int) int {
		if i == n-1 {
			return 1
		}
		return 0
	}},
}

// partsOf splits a model by an assignment (index in ascending key order -> part); nil when a part is empty or is
// not a legal builder input.
func partsOf(m *model, nparts int, of func(i int) int) []*model {
	ks := make([][]string, nparts)
	vs := make([][]uint32, nparts)
	for i, p := range m.pairs {
		a := of(i)
		ks[a] = append(ks[a], p.k)
		vs[a] = append(vs[a], p.v)
	}
	out := make([]*model, nparts)
	for a := range ks {
		if ex, _ := excludedForBuilder(ks[a]); ex {
			return nil
		}
		out[a] = newModel(ks[a], vs[a])
	}
	return out
}

// runKeySet evaluates every oracle of part "enum" on one dictionary (or only representation d.Section of it);
// it returns the number of representations (sections) the dictionary has.
func runKeySet(rep *vevid.Report, d caseDesc, dry bool) int {
	sec := 0
	sel := func() bool { // called once per representation, in a fixed order
		sec++
		return !dry && (d.Section == 0 || d.Section == sec)
	}
	keys, vals := d.materialise()
	m := newModel(keys, vals)
	small := d.Kind == "subset"
	ext := allBytes
	if !small {
		ext = fewBytes
	}
	probes := probeSet(m, ext)
	mk := func(group, stage string) *chk {
		return &chk{rep: rep, desc: d, kind: kindOf(d), group: group, stage: stage, m: m, small: small}
	}
	if !dry && d.Section <= 1 {
		rep.Evaluations++
		if m.n() >= 2 {
			rep.DistinctNontrivial++
		}
		hits := 0
		for _, p := range probes {
			if _, ok := m.get(p); ok {
				hits++
			}
		}
		rep.Outcome(fmt.Sprintf("%s n=%d probes=%d", kindOf(d), m.n(), len(probes)))
		rep.Sample(map[string]interface{}{"case": d.String(), "keys": m.n(), "probes": len(probes), "present_probes": hits})
	}

	// ---- pkg/trie ----
	if ex, why := excludedForBuilder(m.keys()); ex {
		if !dry {
			rep.Count("excluded_for_builder_"+why, 1)
		}
	} else if sel() {
		c := mk("trie", "trie-built")
		var data []byte
		func() {
			defer c.guard("trie.Builder")
			b := trie.NewBuilder()
			b.Build(toBytes(m.keys()), append([]uint32(nil), m.sortedByKeyValues()...))
			t := b.Trie()
			c.checkTrie(t, probes)
			var buf bytes.Buffer
			if err := b.Write(&buf); err != nil {
				c.bad("serialise", "trie.Builder.Write", "Write failed: %v", err)
				return
			}
			data = buf.Bytes()
			if sz := b.MarshalSize(); sz != len(data) {
				// TrieBucketBuilder frames each trie with MarshalSize(): a mismatch corrupts the loaded bucket
				c.bad("serialise", "trie.Builder.MarshalSize", "MarshalSize()=%d but Write produced %d bytes", sz, len(data))
			}
		}()
		if data != nil {
			c2 := mk("trie", "trie-loaded")
			func() {
				defer c2.guard("trie.UnmarshalBinary")
				t2 := trie.NewTrie()
				if err := t2.UnmarshalBinary(data); err != nil {
					c2.bad("load", "trie.UnmarshalBinary", "UnmarshalBinary failed: %v", err)
					return
				}
				c2.checkTrie(t2, probes)
			}()
		}
		rep.Count("tries_checked", 2)
	}
	// ---- the same dictionary written by a builder that wrote a much bigger dictionary before (what a
	// TrieBucketBuilder / an index flush does: one builder, Reset per bucket or block) ----
	if ex, _ := excludedForBuilder(m.keys()); !ex && sel() {
		c := mk("trie", "trie-reused-builder")
		func() {
			defer c.guard("trie.Builder (reused)")
			b := trie.NewBuilder()
			bk, bv := bigDictionary()
			b.Build(bk, bv)
			if err := b.Write(io.Discard); err != nil {
				c.bad("serialise", "trie.Builder.Write", "Write of the first (big) dictionary failed: %v", err)
				return
			}
			b.Reset()
			b.Build(toBytes(m.keys()), append([]uint32(nil), m.sortedByKeyValues()...))
			var buf bytes.Buffer
			if err := b.Write(&buf); err != nil {
				c.bad("serialise", "trie.Builder.Write", "Write after Reset failed: %v", err)
				return
			}
			if sz := b.MarshalSize(); sz != buf.Len() {
				c.bad("serialise", "trie.Builder.MarshalSize", "after Reset MarshalSize()=%d but Write produced %d bytes", sz, buf.Len())
			}
			t2 := trie.NewTrie()
			if err := t2.UnmarshalBinary(buf.Bytes()); err != nil {
				c.bad("load", "trie.UnmarshalBinary", "UnmarshalBinary (reused builder) failed: %v", err)
				return
			}
			c.checkTrie(t2, probes)
		}()
		rep.Count("tries_checked", 1)
	}

	if d.Name == "fan" || strings.HasPrefix(d.Name, "grid") {
		return sec // the fan / grid families target the trie's rank/select vectors only
	}
	// ---- index/model TrieBucket: one dictionary written with several block sizes ----
	bprobes := probes
	if small {
		bprobes = probeSet(m, fewBytes)
	}
	var blockSizes []int
	switch {
	case small:
		blockSizes = []int{math.MaxUint16, 2, 3}
	case m.n() <= 400:
		blockSizes = []int{math.MaxInt16, 64, 7}
	case m.n() <= 5000:
		blockSizes = []int{math.MaxInt16, 512}
	default:
		blockSizes = []int{math.MaxInt16, math.MaxUint16}
	}
	if m.n() == 1 && m.pairs[0].k == "" {
		blockSizes = nil // {""} alone is not a legal builder input (see excludedForBuilder)
	}
	for _, bs := range blockSizes {
		if !sel() {
			continue
		}
		c := mk("bucket", fmt.Sprintf("bucket-bs%d", bs))
		func() {
			defer c.guard("TrieBucketBuilder.Write")
			data, err := buildBucketBytes(m, bs)
			if err != nil {
				c.bad("serialise", "TrieBucketBuilder.Write", "Write failed: %v", err)
				return
			}
			b := imodel.NewTrieBucketWithBlockSize(bs)
			if err := b.Unmarshal(data); err != nil {
				c.bad("load", "TrieBucket.Unmarshal", "Unmarshal failed: %v", err)
				return
			}
			c.checkBucket(b, bprobes, false)
			b.Release()
			rep.Count("buckets_checked", 1)
		}()
	}

	// ---- TrieBucket.Write = the merge step (what IndexKVMerger.Merge does), over deterministic splits ----
	mergeBS := []int{math.MaxUint16, 2, 3}
	flushBS := []int{math.MaxInt16, 2}
	if !small {
		mergeBS = []int{math.MaxUint16, 100}
		flushBS = []int{math.MaxInt16}
	}
	for _, sp := range splits {
		n := m.n()
		if n < sp.parts {
			continue
		}
		parts := partsOf(m, sp.parts, func(i int) int { return sp.of(i, n) })
		if parts == nil {
			if !dry {
				rep.Count("splits_skipped_illegal_part", 1)
			}
			continue
		}
		for _, fbs := range flushBS {
			for _, mbs := range mergeBS {
				if !sel() {
					continue
				}
				c := mk("merge", fmt.Sprintf("merge-%s-flush%d-merge%d", sp.name, fbs, mbs))
				func() {
					defer c.guard("TrieBucket.Write")
					b := imodel.NewTrieBucketWithBlockSize(mbs)
					for _, pm := range parts {
						data, err := buildBucketBytes(pm, fbs)
						if err != nil {
							c.bad("serialise", "TrieBucketBuilder.Write", "Write failed: %v", err)
							return
						}
						if err := b.Unmarshal(data); err != nil {
							c.bad("load", "TrieBucket.Unmarshal", "Unmarshal failed: %v", err)
							return
						}
					}
					var out bytes.Buffer
					if err := b.Write(&out); err != nil {
						c.bad("merge", "TrieBucket.Write", "Write failed: %v", err)
						return
					}
					merged := imodel.NewTrieBucket()
					if err := merged.Unmarshal(out.Bytes()); err != nil {
						c.bad("merge", "TrieBucket.Unmarshal", "Unmarshal of the merged bucket failed: %v", err)
						return
					}
					c.checkBucket(merged, bprobes, true)
					merged.Release()
					b.Release()
					rep.Count("merges_checked", 1)
				}()
			}
		}
	}
	return sec
}

func (m *model) sortedByKeyValues() []uint32 {
	out := make([]uint32, len(m.pairs))
	for i, p := range m.pairs {
		out[i] = p.v
	}
	return out
}

func largeCases(thorough bool) []caseDesc {
	ps := 1000
	if thorough {
		ps = 5000
	}
	out := []caseDesc{
		{Kind: "large", Name: "len4", N: 340},
		{Kind: "large", Name: "prefsuf", N: ps},
	}
	if thorough {
		out = append(out, caseDesc{Kind: "large", Name: "seq", N: 70000})
	}
	return out
}

func main() {
	f := vevid.ParseFlags()
	rep := vevid.New("C20")
	devnull, _ := os.OpenFile(os.DevNull, os.O_WRONLY, 0)
	os.Stdout = devnull // lindb's logger writes to stdout

	if pf := os.Getenv("C20_PROF"); pf != "" { // developer aid: CPU profile of one worker
		if fh, err := os.Create(pf); err == nil {
			_ = pprof.StartCPUProfile(fh)
			defer pprof.StopCPUProfile()
		}
	}
	if f.Replay != "" {
		var d caseDesc
		vevid.LoadReplay(f.Replay, &d)
		fails := 0
		for i := 0; i < 5; i++ {
			before := rep.ViolationCount
			if d.Part == "kv" {
				runKV(f, rep, []caseDesc{d}, fmt.Sprintf("replay%d", i), false)
			} else {
				runKeySet(rep, d, false)
			}
			if rep.ViolationCount > before {
				fails++
			}
		}
		rep.Extra["replay_failures_of_5"] = fails
		rep.Write()
		return
	}

	switch f.Part {
	case "kv":
		mainKV(f, rep)
	default:
		mainEnum(f, rep)
	}
	rep.Write()
}

func mainEnum(f *vevid.Flags, rep *vevid.Report) {
	rep.Rule = "every subset of the 12-key alphabet {\"\",a,ab,abc,abd,b,ba,\\x00,\\x00\\x00,\\xff,a\\xff,a\\x00} (2^12 masks, in mask order) " +
		"plus the deterministic large key sets; every dictionary is checked as trie-built, trie-loaded, TrieBucket(block sizes) and after " +
		"TrieBucket.Write over 5 deterministic splits x flush/merge block sizes; probes = alphabet keys + every proper prefix + every one-byte " +
		"extension (256 bytes small sets / 8 bytes large sets) of every present key. non-trivial = dictionary with >=2 keys; distinct = distinct key set"
	rep.Bounds["alphabet_keys"] = len(alphabet)
	rep.Bounds["subsets"] = 1 << uint(len(alphabet))
	large := largeCases(f.Thorough())
	var names []string
	for _, l := range large {
		names = append(names, fmt.Sprintf("%s(%d)", l.Name, l.N))
	}
	rep.Bounds["large_sets"] = names
	rep.Bounds["regexps"] = len(regexps)
	rep.Bounds["like_subkeys"] = len(likeSubKeys)

	maxFan := 140
	if f.Thorough() {
		maxFan = 254
	}
	rep.Bounds["fan_family"] = fmt.Sprintf("fan(L), L=1..%d", maxFan)
	for l := 1; l <= maxFan; l++ {
		large = append(large, caseDesc{Kind: "large", Name: "fan", N: l})
	}
	// bit-vector sizes around 512 and 1024 (label counts: grid31 / grid29; node counts: grid3), every size in the window
	rep.Bounds["grid_families"] = "grid31(n), grid29(n): n=440..560, 960..1060; grid3(n): n=940..1060"
	for _, name := range []string{"grid31", "grid29"} {
		for n := 440; n <= 1060; n++ {
			if n > 560 && n < 960 {
				continue
			}
			large = append(large, caseDesc{Kind: "large", Name: name, N: n})
		}
	}
	for n := 940; n <= 1060; n++ {
		large = append(large, caseDesc{Kind: "large", Name: "grid3", N: n})
	}
	var idx int64
	// large sets first (longest jobs first), each one its own work item
	for _, d := range large {
		d.Part = "enum"
		nsec := runKeySet(rep, d, true)
		for s := 1; s <= nsec; s++ {
			d.Section = s
			if f.Mine(idx) {
				runKeySet(rep, d, false)
			}
			idx++
		}
	}
	subsetsBySize(len(alphabet), func(mask uint64) bool {
		mine := f.Mine(idx)
		idx++
		if !mine {
			return true
		}
		if f.Expired() {
			rep.Cap(fmt.Sprintf("deadline at subset mask %#x", mask))
			return false
		}
		runKeySet(rep, caseDesc{Part: "enum", Kind: "subset", Mask: mask}, false)
		return true
	})
}

// subsetsBySize enumerates all 2^n subsets (venum.Subsets), smallest sets first (by size, then by mask), so that the
// first violation a worker meets is a (near-)minimal dictionary.
func subsetsBySize(n int, fn func(mask uint64) bool) {
	var all []uint64
	venum.Subsets(n, func(mask uint64) bool { all = append(all, mask); return true })
	sort.SliceStable(all, func(i, j int) bool { return bits.OnesCount64(all[i]) < bits.OnesCount64(all[j]) })
	for _, m := range all {
		if !fn(m) {
			return
		}
	}
}
