package main

import (
	"fmt"
	"math"
	"os"
	"path/filepath"
	"time"

	v1 "github.com/lindb/lindb/index/v1"
	"github.com/lindb/lindb/internal/venum"
	"github.com/lindb/lindb/internal/vevid"
	"github.com/lindb/lindb/kv"
)

// kv part: the pairs of one bucket id are flushed as 2-3 separate dictionaries (one kv file each, the way
// index/kv_store.go Flush does it: NewIndexKVFlusher(math.MaxInt16, family.NewFlusher()), PrepareBucket, WriteKVs,
// CommitBucket, Close), read back with IndexKVReader (-> a TrieBucket holding several tries), then the family is
// compacted by the real kv compaction job, which calls the registered IndexKVMerger for every bucket id, and the
// bucket is read back again. Both readings must equal the union of the flushed pairs.
//
// All cases of a worker share one kv store/family: case i uses bucket id i+1, so a worker needs only 3 flushes
// and one compaction for thousands of cases.

// reduced alphabet for the exhaustive 3-way assignments (keeps the sharp members: empty key, prefix chains, 0x00, 0xff)
var kvAlpha3 = []int{0, 1, 2, 3, 7, 9, 10} // "", a, ab, abc, \x00, \xff, a\xff

// forEachKVCase enumerates the kv cases deterministically.
func forEachKVCase(thorough bool, fn func(d caseDesc)) {
	// (1) every subset of the 12-key alphabet x the deterministic splits
	venum.Subsets(len(alphabet), func(mask uint64) bool {
		keys, _ := subsetKeys(mask)
		n := len(keys)
		for _, sp := range splits {
			if n < sp.parts {
				continue
			}
			as := make([]int, n)
			for i := range as {
				as[i] = sp.of(i, n)
			}
			fn(caseDesc{Part: "kv", Kind: "subset", Mask: mask, Assign: as})
		}
		return true
	})
	// (2) every assignment of the keys of the reduced alphabet to {absent, file0, file1, file2} (4^7) - quick;
	//     thorough: every assignment of the full alphabet to {absent, file0, file1} (3^12) as well
	enumAssign := func(alpha []int, files int, light bool) {
		venum.Sequences(files+1, len(alpha), func(seq []int) bool {
			var mask uint64
			type ka struct{ idx, a int }
			var present []ka
			used := make([]bool, files)
			for j, s := range seq {
				if s == 0 {
					continue
				}
				mask |= 1 << uint(alpha[j])
				present = append(present, ka{alpha[j], s - 1})
				used[s-1] = true
			}
			for _, u := range used { // every file must receive a key, otherwise it is a case with fewer files
				if !u {
					return true
				}
			}
			// Assign is indexed by ascending key order
			keys, _ := subsetKeys(mask)
			m := newModel(keys, make([]uint32, len(keys)))
			as := make([]int, len(keys))
			for _, p := range present {
				as[m.idx[alphabet[p.idx]]] = p.a
			}
			fn(caseDesc{Part: "kv", Kind: "subset", Mask: mask, Assign: as, Light: light})
			return true
		})
	}
	enumAssign(kvAlpha3, 3, false)
	if thorough {
		all := make([]int, len(alphabet))
		for i := range all {
			all[i] = i
		}
		enumAssign(all, 2, true) // 523k cases: pair-set oracle only (the query oracle on several tries runs on the families above)
	}
	// (3) the large sets, 2- and 3-way
	for _, d := range largeCases(thorough) {
		keys, _ := d.materialise()
		n := len(keys)
		for _, sp := range splits[:4] {
			as := make([]int, n)
			for i := range as {
				as[i] = sp.of(i, n)
			}
			d2 := d
			d2.Part = "kv"
			d2.Assign = as
			fn(d2)
		}
	}
}

type kvCase struct {
	desc  caseDesc
	whole *model
	parts []*model
}

func mainKV(f *vevid.Flags, rep *vevid.Report) {
	rep.Rule = "every subset of the 12-key alphabet x 5 deterministic splits (even-odd, halves, mod3, thirds, last-alone); every assignment of the " +
		"7-key sub-alphabet {\"\",a,ab,abc,\\x00,\\xff,a\\xff} to {absent,file0,file1,file2} using all three files (thorough: also every assignment of the " +
		"full alphabet to {absent,file0,file1}); the large sets x 4 splits. Each case = one bucket id of a real kv family (IndexKVMerger), flushed as " +
		"2-3 files by IndexKVFlusher, read by IndexKVReader before and after the real compaction job. non-trivial = every case (>=2 files of one bucket id)"
	var cases []caseDesc
	var idx int64
	forEachKVCase(f.Thorough(), func(d caseDesc) {
		mine := f.Mine(idx)
		idx++
		if mine {
			cases = append(cases, d)
		}
	})
	rep.Bounds["kv_cases_total"] = idx
	runKV(f, rep, cases, "kv", f.Thorough())
}

// runKV drives one kv store with the given cases. secondRound (thorough): two more files + a second compaction,
// so that TrieBucket.Write meets tries it wrote itself (size >= block size: copied verbatim).
func runKV(f *vevid.Flags, rep *vevid.Report, descs []caseDesc, dirName string, secondRound bool) {
	dir := filepath.Join(f.Scratch, dirName)
	_ = os.RemoveAll(dir)
	defer os.RemoveAll(dir)

	var cases []*kvCase
	maxParts := 0
	for _, d := range descs {
		keys, vals := d.materialise()
		whole := newModel(keys, vals)
		np := maxAssign(d.Assign)
		if len(d.Assign) != whole.n() {
			vevid.Fatal("kv case %s: assignment length %d != %d keys", d.String(), len(d.Assign), whole.n())
		}
		as := d.Assign
		parts := partsOf(whole, np, func(i int) int { return as[i] })
		if parts == nil {
			rep.Count("kv_cases_skipped_illegal_part", 1) // a file would be {} or {""}: not a legal builder input
			continue
		}
		if np > maxParts {
			maxParts = np
		}
		cases = append(cases, &kvCase{desc: d, whole: whole, parts: parts})
	}
	if len(cases) == 0 {
		return
	}

	store, err := kv.GetStoreManager().CreateStore(dir, kv.DefaultStoreOption())
	if err != nil {
		vevid.OpFailed("create kv store: %v", err)
	}
	defer func() { _ = kv.GetStoreManager().CloseStore(dir) }()
	family, err := store.CreateFamily("dict", kv.FamilyOption{Merger: string(v1.IndexKVMerger)})
	if err != nil {
		vevid.OpFailed("create kv family: %v", err)
	}

	t0 := time.Now()
	progress := func(what string) {
		if os.Getenv("C20_PROGRESS") != "" {
			fmt.Fprintf(os.Stderr, "[%6.1fs] %s\n", time.Since(t0).Seconds(), what)
		}
	}
	// flush file r = part r of every case (bucket ids ascending, as the kv table builder requires)
	flush := func(pick func(c *kvCase) *model) {
		progress("flush")
		kvFlusher := family.NewFlusher()
		defer kvFlusher.Release()
		fl, err := v1.NewIndexKVFlusher(math.MaxInt16, kvFlusher)
		if err != nil {
			vevid.OpFailed("NewIndexKVFlusher: %v", err)
		}
		for i, c := range cases {
			pm := pick(c)
			if pm == nil {
				continue
			}
			ck := &chk{rep: rep, desc: c.desc, kind: kindOf(c.desc), group: "kv", stage: "kv-flush", m: c.whole}
			func() {
				defer ck.guard("IndexKVFlusher")
				n := pm.n()
				keys := make([][]byte, n)
				ids := make([]uint32, n)
				for j, p := range pm.pairs { // descending: the flusher's builder must sort
					keys[n-1-j] = []byte(p.k)
					ids[n-1-j] = p.v
				}
				fl.PrepareBucket(uint32(i + 1))
				if err := fl.WriteKVs(keys, ids); err != nil {
					ck.bad("serialise", "IndexKVFlusher.WriteKVs", "WriteKVs failed: %v", err)
				}
				if err := fl.CommitBucket(); err != nil {
					ck.bad("serialise", "IndexKVFlusher.CommitBucket", "CommitBucket failed: %v", err)
				}
			}()
		}
		if err := fl.Close(); err != nil {
			vevid.OpFailed("IndexKVFlusher.Close: %v", err)
		}
	}
	l0 := func() int {
		s := family.GetSnapshot()
		defer s.Close()
		return s.GetCurrent().NumberOfFilesInLevel(0)
	}
	readAll := func(stage string, light bool, want func(c *kvCase) *model) {
		progress("read " + stage)
		snapshot := family.GetSnapshot()
		defer snapshot.Close()
		reader := v1.NewIndexKVReader(snapshot)
		for i, c := range cases {
			if i%64 == 0 && f.Expired() {
				rep.Cap(fmt.Sprintf("deadline in kv stage %s at case %d of %d of this worker", stage, i, len(cases)))
				return
			}
			wm := want(c)
			if wm == nil {
				continue
			}
			ck := &chk{rep: rep, desc: c.desc, kind: kindOf(c.desc), group: "kv", stage: stage, m: wm, small: c.desc.Kind == "subset"}
			func() {
				defer ck.guard("IndexKVReader.GetBucket")
				b, err := reader.GetBucket(uint32(i + 1))
				if err != nil {
					ck.bad("load", "IndexKVReader.GetBucket", "GetBucket failed: %v", err)
					return
				}
				if b == nil {
					ck.bad("load", "IndexKVReader.GetBucket", "bucket id %d not found in the family", i+1)
					return
				}
				ck.checkBucket(b, probeSet(wm, fewBytes), light || c.desc.Light)
				b.Release()
			}()
			rep.Evaluations++
			rep.DistinctNontrivial++
			if i < 3 {
				rep.Sample(map[string]interface{}{"case": c.desc.String(), "stage": stage, "bucket_id": i + 1, "keys": wm.n()})
			}
			rep.Outcome(fmt.Sprintf("%s %s files=%d n=%d", kindOf(c.desc), stage, len(c.parts), wm.n()))
		}
	}
	// anomaly = the kv family did not end up in the expected shape. On a correct lindb this never happens; when the
	// flusher/merger under test fails (error or nothing written) it is an observation about them, so it is reported as
	// a violation of the round-trip / merge clause (never as a harness error), attributed to the first case.
	anomaly := func(clause, site, format string, a ...interface{}) {
		c := cases[0]
		ck := &chk{rep: rep, desc: c.desc, kind: kindOf(c.desc), group: "kv", stage: "kv-family", m: c.whole}
		ck.bad(clause, site, format, a...)
	}
	compact := func(tag string) {
		progress(tag)
		before := l0()
		family.Compact()
		kv.VerifFamilyWait(family)
		if after := l0(); before > 1 && after != 0 {
			anomaly("merge", "kv compaction job (IndexKVMerger.Merge)", "%s failed: level0 files before=%d after=%d (the merger returned an error for some bucket id of this worker)", tag, before, after)
		}
		rep.Count("compactions", 1)
	}

	for r := 0; r < maxParts; r++ {
		r := r
		flush(func(c *kvCase) *model {
			if r < len(c.parts) {
				return c.parts[r]
			}
			return nil
		})
	}
	if got := l0(); got != maxParts {
		anomaly("serialise", "IndexKVFlusher", "expected %d level0 files after %d flushes, found %d", maxParts, maxParts, got)
	}
	rep.Count("kv_cases", int64(len(cases)))
	whole := func(c *kvCase) *model { return c.whole }
	// several files of one bucket id = several tries in one TrieBucket: the complete query oracle;
	// after the compaction the bucket is a rebuilt single dictionary: the "holds exactly the union" oracle
	// (the query clauses on single dictionaries are evaluated exhaustively in part enum)
	readAll("kv-flushed", false, whole)
	compact("first compaction")
	readAll("kv-compacted", true, whole)

	if secondRound {
		// large dictionaries only: two more files with fresh keys, then a second compaction - TrieBucket.Write now meets
		// tries it wrote itself (a 65535-key trie of the 70000-key set is copied verbatim, the rest is rebuilt)
		extra := func(r int) *model {
			var ks []string
			var vs []uint32
			for j := 0; j < 2; j++ {
				ks = append(ks, fmt.Sprintf("~round2-%d-%d", r, j))
				vs = append(vs, uint32(0xE0000000)+uint32(r*2+j))
			}
			return newModel(ks, vs)
		}
		ext := map[*kvCase]*model{}
		for _, c := range cases {
			if c.desc.Kind == "large" {
				ext[c] = union(c.whole, extra(0), extra(1))
			}
		}
		if len(ext) == 0 {
			return
		}
		pick := func(r int) func(c *kvCase) *model {
			return func(c *kvCase) *model {
				if ext[c] == nil {
					return nil
				}
				return extra(r)
			}
		}
		flush(pick(0))
		flush(pick(1))
		all := func(c *kvCase) *model { return ext[c] }
		readAll("kv-flushed-round2", false, all)
		compact("second compaction")
		readAll("kv-compacted-round2", true, all)
	}
}
