package main

import (
	"bytes"
	"fmt"
	"regexp"
	"sort"
	"strconv"
	"strings"

	"github.com/lindb/roaring"

	imodel "github.com/lindb/lindb/index/model"
	"github.com/lindb/lindb/internal/vevid"
	"github.com/lindb/lindb/pkg/trie"
)

// chk carries the context of one oracle evaluation (one dictionary under one representation).
type chk struct {
	rep   *vevid.Report
	desc  caseDesc
	kind  string // scenario prefix: subset | len4 | prefsuf | seq
	group string // coarse representation class (part of the violation identity): trie | bucket | merge | kv
	stage string // exact representation: trie-built | trie-loaded | bucket-bs2 | ... (reported in the detail)
	m     *model
	small bool // small dictionaries get the full (quadratic) probe programme
	fails int
}

func (c *chk) bad(clause, site, format string, a ...interface{}) {
	c.fails++
	if c.fails > 25 {
		// one broken representation fails thousands of probes: count them, keep the first 25 with details
		c.rep.ViolationCount++
		return
	}
	d := c.desc
	if d.Kind == "subset" {
		d.Keys = nil
		for _, k := range c.m.keys() {
			d.Keys = append(d.Keys, strconv.Quote(k))
		}
	}
	c.rep.Violate(vevid.Violation{
		Clause:   clause,
		Scenario: c.kind + "/" + c.group,
		Site:     site,
		Detail:   fmt.Sprintf(format, a...) + "\nrepresentation: " + c.stage + "\ndictionary keys=" + quoteKeys(c.m.keys(), 24) + "\ncase: " + c.desc.String(),
		Replay:   d,
	})
}

func (c *chk) guard(site string) {
	if r := recover(); r != nil {
		c.bad("panic", site, "panic in lindb code for a legal input: %v", r)
	}
}

// ---- pkg/trie: Get, Size, Values, Iterator (First/Next, Last/Prev, Seek), PrefixIterator ----------------

func (c *chk) checkTrie(t trie.SuccinctTrie, probes []string) {
	m := c.m
	n := m.n()
	func() {
		defer c.guard("trie.Size/Values")
		if t.Size() != n {
			c.bad("size", "trie.Size", "want %d got %d", n, t.Size())
		}
		got := append([]uint32(nil), t.Values()...)
		sort.Slice(got, func(i, j int) bool { return got[i] < got[j] })
		if !equalU32(got, m.sortedValues()) {
			c.bad("values", "trie.Values", "value multiset differs: want %d values got %d (%s)", n, len(got), diffU32(m.sortedValues(), got))
		}
	}()
	// exact lookup, present and absent
	func() {
		defer c.guard("trie.Get")
		for _, p := range probes {
			wv, wok := m.get(p)
			gv, gok := t.Get([]byte(p))
			c.rep.Counters["get_probes"]++
			if wok != gok {
				if wok {
					c.bad("get-present", "trie.Get", "Get(%q): key is present (value %d) but reported absent", p, wv)
				} else {
					c.bad("get-absent", "trie.Get", "Get(%q): key is absent but reported present (value %d)", p, gv)
				}
			} else if wok && wv != gv {
				c.bad("get-value", "trie.Get", "Get(%q): want value %d got %d", p, wv, gv)
			}
		}
	}()
	// ordered iteration, ascending and complete
	func() {
		defer c.guard("Iterator.SeekToFirst/Next")
		it := t.NewIterator()
		i := 0
		for it.SeekToFirst(); it.Valid(); it.Next() {
			if i >= n {
				c.bad("iterate-forward", "Iterator.Next", "iterator yields more than the %d pairs (extra key %q)", n, it.Key())
				return
			}
			if k, v := string(it.Key()), it.Value(); k != m.pairs[i].k || v != m.pairs[i].v {
				c.bad("iterate-forward", "Iterator.Next", "position %d: want (%q,%d) got (%q,%d)", i, m.pairs[i].k, m.pairs[i].v, k, v)
				return
			}
			i++
		}
		if i != n {
			c.bad("iterate-forward", "Iterator.Next", "iterator ended after %d of %d pairs", i, n)
		}
		c.rep.Counters["iterated_pairs"] += int64(i)
	}()
	// ordered iteration, descending and complete
	func() {
		defer c.guard("Iterator.SeekToLast/Prev")
		it := t.NewIterator()
		i := n - 1
		for it.SeekToLast(); it.Valid(); it.Prev() {
			if i < 0 {
				c.bad("iterate-backward", "Iterator.Prev", "iterator yields more than the %d pairs (extra key %q)", n, it.Key())
				return
			}
			if k, v := string(it.Key()), it.Value(); k != m.pairs[i].k || v != m.pairs[i].v {
				c.bad("iterate-backward", "Iterator.Prev", "position %d: want (%q,%d) got (%q,%d)", i, m.pairs[i].k, m.pairs[i].v, k, v)
				return
			}
			i--
		}
		if i != -1 {
			c.bad("iterate-backward", "Iterator.Prev", "iterator ended with %d of %d pairs left", i+1, n)
		}
	}()
	// seek = first key >= probe; then the iteration continues from there
	func() {
		defer c.guard("Iterator.Seek")
		it := t.NewIterator()
		at := func(i int) string {
			if i < 0 || i >= n {
				return "<none>"
			}
			return fmt.Sprintf("(%q,%d)", m.pairs[i].k, m.pairs[i].v)
		}
		cur := func() string {
			if !it.Valid() {
				return "<none>"
			}
			return fmt.Sprintf("(%q,%d)", it.Key(), it.Value())
		}
		for _, p := range probes {
			lb := m.lowerBound(p)
			c.rep.Counters["seek_probes"]++
			it.Seek([]byte(p))
			if lb == n {
				// no key >= p. Statement: seek behaves like a sorted map, i.e. "no such entry".
				if seekPastEndStrict && it.Valid() {
					c.bad("seek-past-end", "Iterator.Seek", "Seek(%q): no key >= probe, want <none> got %s", p, cur())
				}
				continue
			}
			if got := cur(); got != at(lb) {
				c.bad("seek", "Iterator.Seek", "Seek(%q): want first key >= probe = %s got %s", p, at(lb), got)
				continue
			}
			it.Next()
			if got := cur(); got != at(lb+1) {
				c.bad("seek-next", "Iterator.Seek+Next", "Seek(%q) then Next: want %s got %s", p, at(lb+1), got)
				continue
			}
			it.Seek([]byte(p))
			it.Prev()
			if got := cur(); got != at(lb-1) {
				c.bad("seek-prev", "Iterator.Seek+Prev", "Seek(%q) then Prev: want %s got %s", p, at(lb-1), got)
			}
		}
	}()
	// prefix enumeration = exactly the keys with that prefix, in order
	func() {
		defer c.guard("trie.NewPrefixIterator")
		check := func(prefix []byte, label string) {
			lo, hi := m.prefixRange(string(prefix))
			itr := t.NewPrefixIterator(prefix)
			c.rep.Counters["prefix_probes"]++
			i := lo
			for ; itr.Valid(); itr.Next() {
				if i >= hi {
					c.bad("prefix-extra", "PrefixIterator", "prefix %s: yields key %q beyond the %d keys with that prefix", label, itr.Key(), hi-lo)
					return
				}
				if k, v := string(itr.Key()), itr.Value(); k != m.pairs[i].k || v != m.pairs[i].v {
					c.bad("prefix-order", "PrefixIterator", "prefix %s, position %d: want (%q,%d) got (%q,%d)", label, i-lo, m.pairs[i].k, m.pairs[i].v, k, v)
					return
				}
				i++
			}
			if i != hi {
				c.bad("prefix-missing", "PrefixIterator", "prefix %s: ended after %d of %d keys with that prefix (next missing %q)", label, i-lo, hi-lo, m.pairs[i].k)
			}
		}
		check(nil, "nil")
		for _, p := range probes {
			check([]byte(p), strconv.Quote(p))
		}
	}()
}

// seekPastEndStrict: see main.go (documented decision about Seek beyond the last key).
var seekPastEndStrict = true

// ---- index/model TrieBucket ------------------------------------------------------------------------------

// like sub-keys for suffix / infix patterns (prefix patterns use the probe set)
var likeSubKeys = []string{"", "a", "b", "c", "d", "ab", "bc", "bd", "ba", "abc", "\x00", "\x00\x00", "\xff", "a\xff", "a\x00", "zz",
	".svc.cluster.local", "local.", "-x", "17/", "0", "9", "k1", "00", "\xff\xff"}

var regexpSrc = []string{
	"a", "^a", "^a.*$", "^ab?$", "ab?", "b$", "^$", ".*", "^ab", "^(a|b)", "a|b", "^abc|abd$", "[a-b]+", "^a[^b]", "(?s)^a.$",
	"^\\x00", "\\x00$", "^ab[cd]$", "^b", "ba", "(?i)^AB", "^a\\x00$", "^k1[0-9]?$", "^host-.*local$", "^$|^a$", "^.$", "^.?$", "c",
}

var regexps = func() []*regexp.Regexp {
	var out []*regexp.Regexp
	for _, s := range regexpSrc {
		out = append(out, regexp.MustCompile(s))
	}
	return out
}()

// light = only the clauses that decide "the bucket holds exactly these pairs" (used after a merge: GetValue on every
// probe, GetValues, complete ordered enumeration through Suggest, CollectKVs of everything); the query clauses (like,
// regexp, limits) are evaluated on the non-merged representations of the same dictionary.
func (c *chk) checkBucket(b *imodel.TrieBucket, probes []string, light bool) {
	m := c.m
	n := m.n()
	stride := 1
	if !c.small {
		stride = 7 // large dictionaries: every 7th probe for the enumerating queries (deterministic)
	}
	func() {
		defer c.guard("TrieBucket.GetValue")
		for _, p := range probes {
			wv, wok := m.get(p)
			gv, gok := b.GetValue([]byte(p))
			c.rep.Counters["bucket_get_probes"]++
			if wok != gok {
				if wok {
					c.bad("get-present", "TrieBucket.GetValue", "GetValue(%q): key is present (value %d) but reported absent", p, wv)
				} else {
					c.bad("get-absent", "TrieBucket.GetValue", "GetValue(%q): key is absent but reported present (value %d)", p, gv)
				}
			} else if wok && wv != gv {
				c.bad("get-value", "TrieBucket.GetValue", "GetValue(%q): want %d got %d", p, wv, gv)
			}
		}
	}()
	func() {
		defer c.guard("TrieBucket.GetValues")
		got := append([]uint32(nil), b.GetValues()...)
		sort.Slice(got, func(i, j int) bool { return got[i] < got[j] })
		if !equalU32(got, m.sortedValues()) {
			c.bad("values", "TrieBucket.GetValues", "value multiset differs: want %d got %d (%s)", n, len(got), diffU32(m.sortedValues(), got))
		}
	}()
	func() {
		defer c.guard("TrieBucket.Suggest")
		limits := []int{1, 2, 3, 1 << 30}
		if light {
			limits = []int{1 << 30}
		}
		for pi, p := range probes {
			if light && p != "" && pi%5 != 0 {
				continue
			}
			lo, hi := m.prefixRange(p)
			for _, lim := range limits {
				if !c.small && (lim == 1<<30 && pi%stride != 0) {
					continue
				}
				want := hi - lo
				if want > lim {
					want = lim
				}
				got := b.Suggest(p, lim)
				c.rep.Counters["suggest_probes"]++
				ok := len(got) == want
				for i := 0; ok && i < want; i++ {
					ok = got[i] == m.pairs[lo+i].k
				}
				if !ok {
					var w []string
					for i := 0; i < want; i++ {
						w = append(w, m.pairs[lo+i].k)
					}
					c.bad("suggest", "TrieBucket.Suggest", "Suggest(%q,%d): want %s got %s", p, lim, quoteKeys(w, 12), quoteKeys(got, 12))
					break
				}
			}
		}
	}()
	var keyBytes [][]byte
	like := func(name string, prefix, sub []byte, fn func(a, b []byte) bool) {
		var want []uint32
		if name == "prefix" {
			// model: the keys having prefix sub are exactly the sorted map's range [lo,hi)
			lo, hi := m.prefixRange(string(sub))
			for i := lo; i < hi; i++ {
				want = append(want, m.pairs[i].v)
			}
		} else {
			if keyBytes == nil {
				keyBytes = toBytes(m.keys())
			}
			for i, pr := range m.pairs {
				if fn(keyBytes[i], sub) {
					want = append(want, pr.v)
				}
			}
		}
		got := b.FindValuesByLike(prefix, sub, fn, nil)
		c.rep.Counters["like_probes"]++
		sortU32(want)
		sortU32(got)
		if !equalU32(want, got) {
			c.bad("like-"+name, "TrieBucket.FindValuesByLike", "like %s pattern with %q: want %d ids got %d (%s)", name, sub, len(want), len(got), diffU32(want, got))
		}
	}
	if light {
		func() {
			defer c.guard("TrieBucket.CollectKVs")
			bm := roaring.New()
			want := map[uint32]string{}
			for _, pr := range m.pairs {
				bm.Add(pr.v)
				want[pr.v] = pr.k
			}
			got := map[uint32]string{}
			b.CollectKVs(bm, got)
			c.rep.Counters["collect_probes"]++
			if len(got) != len(want) {
				c.bad("collect", "TrieBucket.CollectKVs", "CollectKVs(all values): want %d pairs got %d", len(want), len(got))
				return
			}
			for v, k := range want {
				if gk, ok := got[v]; !ok || gk != k {
					c.bad("collect", "TrieBucket.CollectKVs", "CollectKVs(all values): value %d: want key %q got %q (found=%v)", v, k, gk, ok)
					return
				}
			}
		}()
		return
	}
	func() {
		defer c.guard("TrieBucket.FindValuesByLike")
		// the three shapes index/kv_store.go produces: "p*", "*s", "*m*"
		for pi, p := range probes {
			if pi%stride != 0 {
				continue
			}
			like("prefix", []byte(p), []byte(p), bytes.HasPrefix)
		}
		for _, s := range likeSubKeys {
			like("suffix", nil, []byte(s), bytes.HasSuffix)
			like("infix", nil, []byte(s), bytes.Contains)
		}
	}()
	func() {
		defer c.guard("TrieBucket.FindValuesByRegexp")
		for ri, rp := range regexps {
			var want []uint32
			for _, pr := range m.pairs {
				if rp.MatchString(pr.k) {
					want = append(want, pr.v)
				}
			}
			got := b.FindValuesByRegexp(rp, nil)
			c.rep.Counters["regexp_probes"]++
			sortU32(want)
			sortU32(got)
			if !equalU32(want, got) {
				c.bad("regexp", "TrieBucket.FindValuesByRegexp", "regexp %q: want %d ids got %d (%s)", regexpSrc[ri], len(want), len(got), diffU32(want, got))
			}
		}
	}()
	func() {
		defer c.guard("TrieBucket.CollectKVs")
		collect := func(name string, req []uint32) {
			bm := roaring.New()
			bm.AddMany(req)
			want := map[uint32]string{}
			byVal := map[uint32]string{}
			for _, pr := range m.pairs {
				byVal[pr.v] = pr.k
			}
			for _, v := range req {
				if k, ok := byVal[v]; ok {
					want[v] = k
				}
			}
			got := map[uint32]string{}
			b.CollectKVs(bm, got)
			c.rep.Counters["collect_probes"]++
			if len(got) != len(want) {
				c.bad("collect", "TrieBucket.CollectKVs", "CollectKVs(%s): want %d pairs got %d", name, len(want), len(got))
				return
			}
			for v, k := range want {
				if gk, ok := got[v]; !ok || gk != k {
					c.bad("collect", "TrieBucket.CollectKVs", "CollectKVs(%s): value %d: want key %q got %q (found=%v)", name, v, k, gk, ok)
					return
				}
			}
		}
		all := make([]uint32, 0, n)
		var everyOther []uint32
		for i, pr := range m.pairs {
			all = append(all, pr.v)
			if i%2 == 1 {
				everyOther = append(everyOther, pr.v)
			}
		}
		collect("all values", all)
		collect("every other value", everyOther)
		collect("all values + two absent ones", append(append([]uint32(nil), all...), 0xDEADBEEF, 12345))
		collect("only absent values", []uint32{0xDEADBEEF})
		if c.small {
			for _, pr := range m.pairs {
				collect("single value", []uint32{pr.v})
			}
		} else if n > 0 {
			collect("first key's value", []uint32{m.pairs[0].v})
			collect("last key's value", []uint32{m.pairs[n-1].v})
		}
	}()
}

// ---- helpers --------------------------------------------------------------------------------------------

func sortU32(a []uint32) { sort.Slice(a, func(i, j int) bool { return a[i] < a[j] }) }

func equalU32(a, b []uint32) bool {
	if len(a) != len(b) {
		return false
	}
	for i := range a {
		if a[i] != b[i] {
			return false
		}
	}
	return true
}

// diffU32 describes the difference of two sorted slices.
func diffU32(want, got []uint32) string {
	var missing, extra []string
	i, j := 0, 0
	for i < len(want) || j < len(got) {
		switch {
		case j >= len(got) || (i < len(want) && want[i] < got[j]):
			if len(missing) < 6 {
				missing = append(missing, fmt.Sprint(want[i]))
			}
			i++
		case i >= len(want) || got[j] < want[i]:
			if len(extra) < 6 {
				extra = append(extra, fmt.Sprint(got[j]))
			}
			j++
		default:
			i++
			j++
		}
	}
	return "missing ids " + strings.Join(missing, ",") + "; unexpected ids " + strings.Join(extra, ",")
}
