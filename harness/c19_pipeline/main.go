// C19 harness: every stage tree (fan-out <=2, depth <=3, <=N stages) x sync/async labelling x outcome
// assignment {ok, error, panic in plan, panic in NextStages} x ALL schedules of the asynchronous
// stages (stateless search on the real query.pipeline / pipelineStateMachine / stage.baseStage /
// concurrent.workerPool.execTask, "sync" and "go.uber.org/atomic" replaced by scheduling shims).
package main

import (
	"context"
	"encoding/json"
	"errors"
	"fmt"
	"os"
	"strings"

	"github.com/lindb/lindb/internal/concurrent"
	"github.com/lindb/lindb/internal/linmetric"
	"github.com/lindb/lindb/internal/vevid"
	"github.com/lindb/lindb/internal/vsched"
	"github.com/lindb/lindb/metrics"
	"github.com/lindb/lindb/query"
	"github.com/lindb/lindb/query/stage"
	"github.com/lindb/lindb/query/tracker"

	"github.com/lindb/common/pkg/logger"
)

const (
	oOK = iota
	oErr
	oPanicPlan
	oPanicNext
	oPanicPlanCall // Stage.Plan() itself panics (on the goroutine that schedules the stage), not an operator of the plan
)

var outName = []string{"ok", "err", "panicPlan", "panicNext", "panicPlanCall"}

// node of a scenario tree
type node struct {
	Async    bool    `json:"async"`
	Outcome  int     `json:"outcome"`
	Children []*node `json:"children,omitempty"`
	id       int
}

func (n *node) String() string {
	s := "S"
	if n.Async {
		s = "A"
	}
	s += ":" + outName[n.Outcome]
	if len(n.Children) > 0 {
		var cs []string
		for _, c := range n.Children {
			cs = append(cs, c.String())
		}
		s += "(" + strings.Join(cs, ",") + ")"
	}
	return s
}

func (n *node) count() int {
	c := 1
	for _, ch := range n.Children {
		c += ch.count()
	}
	return c
}

// shapes enumerates all trees with <= maxNodes nodes, fan-out <= 2, depth <= maxDepth, children only
// under stages whose outcome is ok (a failed stage never plans next stages).
func genTrees(maxNodes, depth int) []*node {
	var out []*node
	if maxNodes < 1 || depth < 1 {
		return nil
	}
	for _, async := range []bool{false, true} {
		for oc := 0; oc < 5; oc++ {
			out = append(out, &node{Async: async, Outcome: oc})
			if oc != oOK && oc != oPanicNext {
				continue
			}
			if oc == oPanicNext {
				continue // NextStages panics: no children are ever produced
			}
			// one child
			for _, c := range genTrees(maxNodes-1, depth-1) {
				out = append(out, &node{Async: async, Outcome: oc, Children: []*node{c}})
			}
			// two children
			for a := 1; a <= maxNodes-2; a++ {
				for _, c1 := range genTrees(a, depth-1) {
					if c1.count() != a {
						continue
					}
					for _, c2 := range genTrees(maxNodes-1-a, depth-1) {
						out = append(out, &node{Async: async, Outcome: oc, Children: []*node{c1, c2}})
					}
				}
			}
		}
	}
	return out
}

func clone(n *node, next *int) *node {
	c := &node{Async: n.Async, Outcome: n.Outcome, id: *next}
	*next++
	for _, ch := range n.Children {
		c.Children = append(c.Children, clone(ch, next))
	}
	return c
}

// observation of one execution
type obs struct {
	callbacks   int
	cbErr       []bool
	cbPendingAt []int // number of started-but-not-completed stages when the callback fired
	started     map[int]bool
	completed   map[int]bool
	failed      bool // some executed stage failed or panicked
	panicked    bool
	startedCnt  int
}

type op struct {
	n *node
	o *obs
}

func (p *op) Identifier() string { return fmt.Sprintf("op%d", p.n.id) }
func (p *op) Execute() error {
	switch p.n.Outcome {
	case oErr:
		p.o.failed = true
		vsched.Logf("stage %d fails", p.n.id)
		return errors.New("stage failed")
	case oPanicPlan:
		p.o.failed = true
		p.o.panicked = true
		vsched.Logf("stage %d panics in plan", p.n.id)
		panic("plan panic")
	}
	return nil
}

type ctlPool struct{ real concurrent.Pool }

func (p *ctlPool) Submit(_ context.Context, task *concurrent.Task) {
	vsched.GoNamed("worker", func() { concurrent.VerifExecTask(p.real, task) })
}
func (p *ctlPool) Stopped() bool { return false }
func (p *ctlPool) Stop()         {}

var realPool concurrent.Pool

func build(n *node, o *obs, pool concurrent.Pool) stage.Stage {
	var ctx context.Context
	var pl concurrent.Pool
	if n.Async {
		ctx, pl = context.Background(), pool
	}
	s := stage.NewVerifStage(ctx, pl, fmt.Sprintf("st%d", n.id))
	s.PlanFn = func() stage.PlanNode {
		o.started[n.id] = true
		o.startedCnt++
		vsched.Logf("start %d", n.id)
		if n.Outcome == oPanicPlanCall {
			o.failed = true
			o.panicked = true
			vsched.Logf("stage %d panics in its Plan call", n.id)
			panic("plan call panic")
		}
		return stage.NewPlanNode(&op{n: n, o: o})
	}
	s.NextFn = func() []stage.Stage {
		if n.Outcome == oPanicNext {
			o.failed = true
			o.panicked = true
			vsched.Logf("stage %d panics in next", n.id)
			panic("next panic")
		}
		var next []stage.Stage
		for _, c := range n.Children {
			next = append(next, build(c, o, pool))
		}
		return next
	}
	s.CompleteFn = func() {
		o.completed[n.id] = true
		vsched.Logf("complete %d", n.id)
	}
	return s
}

func body(root *node, o *obs) func() {
	return func() {
		*o = obs{started: map[int]bool{}, completed: map[int]bool{}}
		pool := &ctlPool{real: realPool}
		p := query.NewExecutePipeline(tracker.NewStageTracker(nil), func(err error) {
			o.callbacks++
			o.cbErr = append(o.cbErr, err != nil)
			pend := 0
			for id := range o.started {
				if !o.completed[id] {
					pend++
				}
			}
			o.cbPendingAt = append(o.cbPendingAt, pend)
			vsched.Logf("callback err=%v pending=%d", err != nil, pend)
		})
		p.Execute(build(root, o, pool))
	}
}

type replay struct {
	Tree    *node `json:"tree"`
	Choices []int `json:"choices"`
}

func checkExec(rep *vevid.Report, root *node, o *obs, x *vsched.Result) {
	scen := "tree=" + root.String()
	viol := func(clause, detail string) {
		rep.Violate(vevid.Violation{Clause: clause, Scenario: scen, Site: "query.pipeline", Detail: detail + "\nlog: " + strings.Join(x.Log, " | "),
			Replay: replay{Tree: root, Choices: x.Choices()}})
	}
	if x.Deadlock {
		viol("deadlock", x.WaitGraph)
		return
	}
	if x.Horizon {
		viol("livelock", x.WaitGraph)
		return
	}
	for _, p := range x.Panics {
		viol("unrecovered-panic", p)
	}
	if o.callbacks != 1 {
		viol("exactly-once", fmt.Sprintf("completion callback invoked %d times", o.callbacks))
		if o.callbacks == 0 {
			return
		}
	}
	if !o.panicked && o.cbPendingAt[0] != 0 {
		viol("after-all-stages", fmt.Sprintf("completion signalled while %d started stages had not finished (no stage panicked)", o.cbPendingAt[0]))
	}
	if o.failed && !o.cbErr[0] {
		viol("error-reported", "a stage failed or panicked but the completion carries no error")
	}
	if !o.failed && o.cbErr[0] {
		viol("no-spurious-error", "no stage failed but the completion carries an error")
	}
	rep.Outcome(fmt.Sprintf("cb=%d err=%v pend=%v started=%d", o.callbacks, o.cbErr, o.cbPendingAt, o.startedCnt))
}

func main() {
	f := vevid.ParseFlags()
	rep := vevid.New("C19")
	_ = logger.InitLogger // logger stays at default config
	devnull, _ := os.OpenFile(os.DevNull, os.O_WRONLY, 0)
	os.Stdout = devnull
	realPool = concurrent.NewPool("verif", 1, 0, metrics.NewConcurrentStatistics("verif", linmetric.StorageRegistry))

	if f.Replay != "" {
		var r replay
		vevid.LoadReplay(f.Replay, &r)
		next := 0
		root := clone(r.Tree, &next)
		fails := 0
		for i := 0; i < 5; i++ {
			o := &obs{}
			x := vsched.Run(r.Choices, 100000, body(root, o))
			before := rep.ViolationCount
			checkExec(rep, root, o, x)
			if rep.ViolationCount > before {
				fails++
			}
		}
		rep.Extra["replay_failures_of_5"] = fails
		rep.Evaluations = 5
		rep.Write()
		return
	}

	// preemption bound: unbounded for trees with <= unbAsync asynchronous stages, else pb
	maxNodes, unbAsync, pb := 4, 2, 2
	if f.Thorough() {
		maxNodes, unbAsync, pb = 5, 3, 3
	}
	trees := genTrees(maxNodes, 3)
	rep.Rule = fmt.Sprintf("all stage trees with <=%d stages, fan-out<=2, depth<=3, x {sync,async} x {ok,err,panicPlan (an operator of the plan panics),panicNext,panicPlanCall (Stage.Plan itself panics)} per stage (children only under ok stages); for each, every schedule of the async stages within the preemption bound. non-trivial = tree with >=1 async stage or >=2 stages; distinct = distinct (tree, schedule)", maxNodes)
	rep.Bounds["max_stages"] = maxNodes
	rep.Bounds["preemption_bound"] = fmt.Sprintf("unbounded for trees with <=%d async stages, %d otherwise", unbAsync, pb)
	var nontrivialTrees int64
	detChecked := false
	for i, t := range trees {
		if !f.Mine(int64(i)) {
			continue
		}
		next := 0
		root := clone(t, &next)
		o := &obs{}
		bound := -1
		if countAsync(root) > unbAsync {
			bound = pb
		}
		e := &vsched.Explorer{Bound: bound, Horizon: 100000, Body: body(root, o), Deadline: f.Deadline}
		e.Check = func(x *vsched.Result) { checkExec(rep, root, o, x) }
		if !detChecked {
			// determinism proof on an async tree: replay the default schedule twice
			if hasAsync(root) {
				if err := e.Determinism(nil); err != nil {
					vevid.Fatal("determinism: %v", err)
				}
				detChecked = true
				rep.Extra["determinism_replay"] = "ok"
			}
		}
		e.Explore()
		if e.Diverged != "" {
			vevid.Fatal("replay divergence: %s", e.Diverged)
		}
		if e.Capped {
			rep.Cap("deadline reached inside tree " + root.String())
		}
		rep.Evaluations += e.Executions
		rep.States += e.Executions
		rep.Transitions += e.Points
		rep.TracesValidated += e.Executions
		if hasAsync(root) || root.count() >= 2 {
			nontrivialTrees++
			rep.DistinctNontrivial += e.Executions
		}
		rep.Count("trees", 1)
		if e.Executions > 1 {
			rep.Count("trees_with_more_than_one_schedule", 1)
		}
		if mp, _ := rep.Extra["max_points_in_one_schedule"].(int); e.MaxPoints > mp {
			rep.Extra["max_points_in_one_schedule"] = e.MaxPoints
		}
		if e.Executions > 20 {
			js, _ := json.Marshal(root)
			rep.Sample(map[string]interface{}{"tree": root.String(), "schedules": e.Executions, "json": json.RawMessage(js)})
		}
		if f.Expired() {
			rep.Cap("deadline reached after tree index " + fmt.Sprint(i))
			break
		}
	}
	rep.Extra["sum_nontrivial_trees"] = nontrivialTrees
	rep.Write()
}

func countAsync(n *node) int {
	c := 0
	if n.Async {
		c = 1
	}
	for _, ch := range n.Children {
		c += countAsync(ch)
	}
	return c
}

func hasAsync(n *node) bool {
	if n.Async {
		return true
	}
	for _, c := range n.Children {
		if hasAsync(c) {
			return true
		}
	}
	return false
}
