// C09 harness (part "sched"): concurrent get-or-create calls on one real MetricMetaDatabase - same name,
// different names in one bucket, first field vs first tag key of a new metric, a flusher thread - under
// the controlled scheduler (package index rebuilt with scheduling shims); every schedule within the
// preemption bound; after each schedule a sequential re-lookup, then close + reopen and another lookup.
package main

import (
	"fmt"
	"os"
	"path/filepath"
	"sort"
	"strings"

	"github.com/lindb/lindb/index"
	"github.com/lindb/lindb/internal/vevid"
	"github.com/lindb/lindb/internal/vsched"
	"github.com/lindb/lindb/series/field"
	"github.com/lindb/lindb/series/metric"
	"github.com/lindb/lindb/series/tag"
)

// a call: kind + arguments (names); results are recorded per call
type call struct {
	Kind string `json:"kind"` // metric | field | tagkey | tagvalue | flush | prepare
	NS   string `json:"ns,omitempty"`
	Name string `json:"name,omitempty"`
	// for field/tagkey: metric is the pre-created metric "pre"; for tagvalue: tag key "prekey" (Key 0) or one of two more
	// pre-created tag keys (Key 1, 2): every tag key has a bucket of its own in the tag value dictionary
	Key int `json:"key,omitempty"`
}

func (c call) key() string {
	if c.Kind == "getmetric" { // a read-only lookup answers for the same name as the get-or-create call
		return "metric:" + c.NS + "/" + c.Name
	}
	if c.Key > 0 {
		return fmt.Sprintf("%s:%s/k%d/%s", c.Kind, c.NS, c.Key, c.Name)
	}
	return c.Kind + ":" + c.NS + "/" + c.Name
}

type scenario struct {
	Name     string   `json:"name"`
	Pre      []call   `json:"pre"`      // sequential setup calls
	PreFlush bool     `json:"preflush"` // PrepareFlush+Flush after the setup calls (names then live in files)
	Threads  [][]call `json:"threads"`
}

var scenarios = []scenario{
	{Name: "same-metric", Threads: [][]call{{{Kind: "metric", NS: "ns", Name: "m"}}, {{Kind: "metric", NS: "ns", Name: "m"}}}},
	{Name: "same-metric-x3", Threads: [][]call{{{Kind: "metric", NS: "ns", Name: "m"}}, {{Kind: "metric", NS: "ns", Name: "m"}}, {{Kind: "metric", NS: "ns", Name: "m"}}}},
	{Name: "two-metrics-one-ns", Threads: [][]call{{{Kind: "metric", NS: "ns", Name: "m1"}}, {{Kind: "metric", NS: "ns", Name: "m2"}}}},
	// the pair (namespace, name) is the key, not the concatenation: "ab"+"c" and "a"+"bc" are two metrics
	{Name: "ns-name-boundary", Threads: [][]call{{{Kind: "metric", NS: "ab", Name: "c"}, {Kind: "metric", NS: "a", Name: "bc"}}, {{Kind: "metric", NS: "a", Name: "bc"}, {Kind: "metric", NS: "abc", Name: "c"}, {Kind: "metric", NS: "ab", Name: "cc"}}}},
	{Name: "two-ns-one-bucket", Threads: [][]call{{{Kind: "metric", NS: "n1", Name: "m"}}, {{Kind: "metric", NS: "n2", Name: "m"}}}},
	{Name: "metric-after-flush", Pre: []call{{Kind: "metric", NS: "ns", Name: "old"}}, PreFlush: true,
		Threads: [][]call{{{Kind: "metric", NS: "ns", Name: "old"}, {Kind: "metric", NS: "ns", Name: "m"}}, {{Kind: "metric", NS: "ns", Name: "m"}}}},
	{Name: "field-vs-tagkey", Threads: [][]call{{{Kind: "field", Name: "f1"}}, {{Kind: "tagkey", Name: "host"}}}},
	{Name: "two-fields", Threads: [][]call{{{Kind: "field", Name: "f1"}}, {{Kind: "field", Name: "f2"}}}},
	{Name: "same-field", Threads: [][]call{{{Kind: "field", Name: "f1"}}, {{Kind: "field", Name: "f1"}}}},
	{Name: "two-tagkeys", Threads: [][]call{{{Kind: "tagkey", Name: "host"}}, {{Kind: "tagkey", Name: "zone"}}}},
	{Name: "same-tagkey", Threads: [][]call{{{Kind: "tagkey", Name: "host"}}, {{Kind: "tagkey", Name: "host"}}}},
	{Name: "field-tagkey-after-flush", Pre: []call{{Kind: "field", Name: "f0"}}, PreFlush: true,
		Threads: [][]call{{{Kind: "field", Name: "f1"}}, {{Kind: "tagkey", Name: "host"}}}},
	{Name: "same-tagvalue", Threads: [][]call{{{Kind: "tagvalue", Name: "a"}}, {{Kind: "tagvalue", Name: "a"}}}},
	{Name: "two-tagvalues", Threads: [][]call{{{Kind: "tagvalue", Name: "a"}}, {{Kind: "tagvalue", Name: "b"}}}},
	{Name: "metric-vs-flush", Pre: []call{{Kind: "metric", NS: "ns", Name: "old"}},
		Threads: [][]call{{{Kind: "metric", NS: "ns", Name: "m"}}, {{Kind: "prepare"}, {Kind: "flush"}}, {{Kind: "metric", NS: "ns", Name: "m"}}}},
	{Name: "lookup-old-vs-flush", Pre: []call{{Kind: "metric", NS: "ns", Name: "old"}},
		Threads: [][]call{{{Kind: "metric", NS: "ns", Name: "old"}, {Kind: "metric", NS: "ns", Name: "m"}}, {{Kind: "prepare"}, {Kind: "flush"}}}},
	{Name: "field-vs-flush", Pre: []call{{Kind: "field", Name: "f0"}},
		Threads: [][]call{{{Kind: "field", Name: "f1"}}, {{Kind: "prepare"}, {Kind: "flush"}}, {{Kind: "tagkey", Name: "host"}}}},
	// read-only lookups of a name that exists, while it moves mutable -> immutable -> file, and while a later flush
	// rewrites its bucket
	{Name: "get-vs-first-flush", Pre: []call{{Kind: "metric", NS: "ns", Name: "old"}},
		Threads: [][]call{{{Kind: "getmetric", NS: "ns", Name: "old"}, {Kind: "getmetric", NS: "ns", Name: "old"}}, {{Kind: "prepare"}, {Kind: "flush"}}}},
	{Name: "get-persisted-vs-second-flush", Pre: []call{{Kind: "metric", NS: "ns", Name: "old"}}, PreFlush: true,
		Threads: [][]call{{{Kind: "getmetric", NS: "ns", Name: "old"}, {Kind: "getmetric", NS: "ns", Name: "old"}}, {{Kind: "metric", NS: "ns", Name: "m"}, {Kind: "prepare"}, {Kind: "flush"}}}},
	// the bucket is already in a file; a second flush adds a name to it while another thread looks an old name up
	// (a bucket loaded from the snapshot of before the flush must not be served after it)
	{Name: "persisted-tagvalues-second-flush", Pre: []call{{Kind: "tagvalue", Name: "old"}}, PreFlush: true,
		Threads: [][]call{{{Kind: "tagvalue", Name: "new"}, {Kind: "prepare"}, {Kind: "flush"}}, {{Kind: "tagvalue", Name: "old"}, {Kind: "tagvalue", Name: "old"}}}},
	{Name: "persisted-metrics-second-flush", Pre: []call{{Kind: "metric", NS: "ns", Name: "old"}}, PreFlush: true,
		Threads: [][]call{{{Kind: "metric", NS: "ns", Name: "m"}, {Kind: "prepare"}, {Kind: "flush"}}, {{Kind: "metric", NS: "ns", Name: "old"}, {Kind: "metric", NS: "ns", Name: "old"}}}},
	// a lookup that holds a cached bucket of the tag value dictionary (tag key 0) while a flush purges the cache and
	// another lookup loads the bucket of another tag key, in which the same value has another id
	{Name: "cached-bucket-vs-purge", Pre: []call{{Kind: "tagvalue", Name: "x"}, {Kind: "tagvalue", Name: "a"}, {Kind: "tagvalue", Name: "a", Key: 2}}, PreFlush: true,
		Threads: [][]call{{{Kind: "tagvalue", Name: "a"}, {Kind: "tagvalue", Name: "a"}},
			{{Kind: "tagvalue", Name: "new", Key: 1}, {Kind: "prepare"}, {Kind: "flush"}, {Kind: "tagvalue", Name: "a", Key: 2}}}},
	{Name: "tagvalue-vs-flush", Pre: []call{{Kind: "tagvalue", Name: "old"}},
		Threads: [][]call{{{Kind: "tagvalue", Name: "a"}}, {{Kind: "prepare"}, {Kind: "flush"}}, {{Kind: "tagvalue", Name: "a"}, {Kind: "tagvalue", Name: "old"}}}},
}

type result struct {
	c   call
	id  uint32
	err error
}

type world struct {
	dir     string
	db      index.MetricMetaDatabase
	preMet  metric.ID
	preKey  tag.KeyID
	preKeys [3]tag.KeyID
	results []result
}

var (
	w       *world
	execNo  int
	scratch string
)

func (x *world) do(c call) {
	var id uint32
	var err error
	switch c.Kind {
	case "metric":
		var m metric.ID
		m, err = x.db.GenMetricID([]byte(c.NS), []byte(c.Name))
		id = uint32(m)
	case "getmetric":
		var m metric.ID
		m, err = x.db.GetMetricID(c.NS, c.Name)
		id = uint32(m)
	case "field":
		var f field.ID
		f, err = x.db.GenFieldID(x.preMet, field.Meta{Name: field.Name(c.Name), Type: field.SumField})
		id = uint32(f)
	case "tagkey":
		var k tag.KeyID
		k, err = x.db.GenTagKeyID(x.preMet, []byte(c.Name))
		id = uint32(k)
	case "tagvalue":
		id, err = x.db.GenTagValueID(x.preKeys[c.Key], []byte(c.Name))
	case "prepare":
		x.db.PrepareFlush()
		return
	case "flush":
		err = x.db.Flush()
		if err != nil {
			x.results = append(x.results, result{c: c, err: err})
		}
		return
	}
	x.results = append(x.results, result{c: c, id: id, err: err})
}

func setup(sc scenario) {
	execNo++
	dir := filepath.Join(scratch, fmt.Sprintf("e%d", execNo))
	_ = os.RemoveAll(dir)
	w = &world{dir: dir}
	db, err := index.NewMetricMetaDatabase("db", dir)
	if err != nil {
		vevid.OpFailed("new meta db: %v", err)
	}
	w.db = db
	// a metric and a tag key that exist before the concurrent phase (scope of fields / tag keys / tag values)
	m, err := db.GenMetricID([]byte("pre"), []byte("pre"))
	if err != nil {
		vevid.OpFailed("pre metric: %v", err)
	}
	w.preMet = m
	needKey := false
	for _, c := range append(append([]call{}, sc.Pre...), flatten(sc.Threads)...) {
		if c.Kind == "tagvalue" {
			needKey = true
		}
	}
	if needKey {
		k, err := db.GenTagKeyID(m, []byte("prekey"))
		if err != nil {
			vevid.OpFailed("pre key: %v", err)
		}
		w.preKey = k
		w.preKeys[0] = k
		for i := 1; i <= 2; i++ {
			extra := false
			for _, c := range append(append([]call{}, sc.Pre...), flatten(sc.Threads)...) {
				extra = extra || c.Key == i
			}
			if extra {
				if w.preKeys[i], err = db.GenTagKeyID(m, []byte(fmt.Sprintf("prekey%d", i))); err != nil {
					vevid.OpFailed("pre key: %v", err)
				}
			}
		}
	}
	for _, c := range sc.Pre {
		w.do(c)
	}
	if sc.PreFlush {
		db.PrepareFlush()
		if err := db.Flush(); err != nil {
			vevid.OpFailed("pre flush: %v", err)
		}
	}
}

func flatten(t [][]call) []call {
	var out []call
	for _, x := range t {
		out = append(out, x...)
	}
	return out
}

func body(sc scenario) func() {
	return func() {
		setup(sc)
		for ti, calls := range sc.Threads {
			calls := calls
			vsched.Spawn(fmt.Sprintf("T%d", ti+1), func() {
				for _, c := range calls {
					w.do(c)
				}
			})
		}
	}
}

type replay struct {
	Scenario scenario `json:"scenario"`
	Choices  []int    `json:"choices"`
}

func finish(rep *vevid.Report, sc scenario, x *vsched.Result) {
	scen := "scenario=" + sc.Name
	viol := func(clause, site, detail string) {
		rep.Violate(vevid.Violation{Clause: clause, Scenario: scen, Site: site, Detail: detail, Replay: replay{Scenario: sc, Choices: x.Choices()}})
	}
	closed := false
	defer func() {
		if r := recover(); r != nil {
			viol("panic", "index", fmt.Sprint(r))
		}
		if !closed && !x.Deadlock && !x.Horizon {
			_ = w.db.Close()
		}
		_ = os.RemoveAll(w.dir)
	}()
	if x.Deadlock {
		viol("deadlock", "index", x.WaitGraph)
		return
	}
	if x.Horizon {
		viol("livelock", "index", x.WaitGraph)
		return
	}
	for _, p := range x.Panics {
		viol("panic", "index", p)
	}
	if len(x.Panics) > 0 {
		return
	}
	// 1. every call for one name returned one and the same id
	ids := map[string]map[uint32]int{}
	for _, r := range w.results {
		if r.err != nil {
			viol("call-failed", "index."+r.c.Kind, fmt.Sprintf("%s: %v", r.c.key(), r.err))
			continue
		}
		k := r.c.key()
		if ids[k] == nil {
			ids[k] = map[uint32]int{}
		}
		ids[k][r.id]++
	}
	for k, m := range ids {
		if len(m) > 1 {
			viol("one-id-per-name", "index."+strings.SplitN(k, ":", 2)[0], fmt.Sprintf("callers of %s received different ids %v", k, keys(m)))
		}
	}
	// 2. sequential re-lookup now, and after close + reopen: still the id every caller got
	relookup := func(tag string) map[string]uint32 {
		out := map[string]uint32{}
		seen := map[string]bool{}
		for _, r := range w.results {
			if r.err != nil || seen[r.c.key()] {
				continue
			}
			seen[r.c.key()] = true
			before := len(w.results)
			w.do(r.c)
			got := w.results[before]
			w.results = w.results[:before]
			if got.err != nil {
				viol("relookup-failed", "index."+r.c.Kind, fmt.Sprintf("%s %s: %v", tag, r.c.key(), got.err))
				continue
			}
			out[r.c.key()] = got.id
			if _, ok := ids[r.c.key()][got.id]; !ok {
				viol("stable-id", "index."+r.c.Kind, fmt.Sprintf("%s: %s now resolves to id %d, callers had received %v", tag, r.c.key(), got.id, keys(ids[r.c.key()])))
			}
		}
		return out
	}
	now := relookup("after the concurrent calls")
	// 3. injective per kind and scope
	inj := func(m map[string]uint32, tag string) {
		by := map[string]string{}
		for k, id := range m {
			kind := strings.SplitN(k, ":", 2)[0]
			scope := kind
			if kind == "metric" {
				scope = "metric:" + strings.SplitN(strings.SplitN(k, ":", 2)[1], "/", 2)[0]
			}
			key := fmt.Sprintf("%s#%d", scope, id)
			if other, dup := by[key]; dup && other != k {
				viol("injective", "index."+kind, fmt.Sprintf("%s: %s and %s share id %d", tag, other, k, id))
			}
			by[key] = k
		}
	}
	inj(now, "after the concurrent calls")
	// the pre-created names take part in injectivity too (field f0 / metric old ... are in results via Pre)
	outcome := []string{}
	for k, id := range now {
		outcome = append(outcome, fmt.Sprintf("%s=%d", k, id))
	}
	sort.Strings(outcome)
	rep.Outcome(strings.Join(outcome, " "))

	// 4. flush, close, reopen: every name keeps its id
	w.db.PrepareFlush()
	if err := w.db.Flush(); err != nil {
		viol("flush-failed", "index.MetricMetaDatabase.Flush", err.Error())
		return
	}
	afterFlush := relookup("after flush")
	inj(afterFlush, "after flush")
	if err := w.db.Close(); err != nil {
		viol("close-failed", "index.MetricMetaDatabase.Close", err.Error())
		closed = true
		return
	}
	closed = true
	db, err := index.NewMetricMetaDatabase("db", w.dir)
	if err != nil {
		viol("reopen-failed", "index.NewMetricMetaDatabase", err.Error())
		return
	}
	w.db = db
	closed = false
	re := relookup("after flush, close and reopen")
	inj(re, "after reopen")
	// a new name after reopen gets an id no recovered name of its kind and scope uses
	for _, c := range []call{{Kind: "metric", NS: "ns", Name: "brand-new"}, {Kind: "field", Name: "brand-new"}, {Kind: "tagkey", Name: "brand-new"}, {Kind: "tagvalue", Name: "brand-new"}} {
		if c.Kind == "tagvalue" && w.preKey == 0 {
			continue
		}
		before := len(w.results)
		w.do(c)
		got := w.results[before]
		w.results = w.results[:before]
		if got.err != nil {
			viol("create-after-reopen-failed", "index."+c.Kind, got.err.Error())
			continue
		}
		re[c.key()] = got.id
	}
	inj(re, "new name created after reopen")
}

func keys(m map[uint32]int) []uint32 {
	var out []uint32
	for k := range m {
		out = append(out, k)
	}
	sort.Slice(out, func(i, j int) bool { return out[i] < out[j] })
	return out
}

func main() {
	f := vevid.ParseFlags()
	rep := vevid.New("C09")
	scratch = f.Scratch
	if f.Part == "crash" {
		runCrashPart(rep, f)
		return
	}
	if f.Replay != "" {
		var r replay
		vevid.LoadReplay(f.Replay, &r)
		fails := 0
		for i := 0; i < 5; i++ {
			x := vsched.Run(r.Choices, 400000, body(r.Scenario))
			before := rep.ViolationCount
			finish(rep, r.Scenario, x)
			if rep.ViolationCount > before {
				fails++
			}
		}
		rep.Extra["replay_failures_of_5"] = fails
		rep.Evaluations = 5
		rep.Write()
		return
	}
	bound := 2
	if f.Thorough() {
		bound = 3
	}
	rep.Bounds["preemption_bound"] = bound
	rep.Rule = fmt.Sprintf("%d scenarios of 2-3 threads calling GenMetricID / GenFieldID / GenTagKeyID / GenTagValueID with forced collisions (same name; different names in one bucket; first field vs first tag key of a metric; names already flushed to files) and a PrepareFlush+Flush thread, on a fresh real MetricMetaDatabase per execution; every schedule with <=%d preemptions at lock/atomic operations of package index; then sequential re-lookup, flush, close, reopen, re-lookup, create new names. distinct = (scenario, schedule); non-trivial = >=1 context switch", len(scenarios), bound)
	for si, sc := range scenarios {
		sc := sc
		if only := os.Getenv("C09_ONLY"); only != "" && only != sc.Name {
			continue
		}
		e := &vsched.Explorer{Bound: bound, Horizon: 400000, Body: body(sc), Shard: f.Shard, Shards: f.Shards, Deadline: f.Deadline}
		e.Check = func(x *vsched.Result) {
			finish(rep, sc, x)
			if len(x.Points) > 0 {
				rep.DistinctNontrivial++
			}
		}
		e.Discard = func(x *vsched.Result) {
			if !x.Deadlock && !x.Horizon {
				_ = w.db.Close()
			}
			_ = os.RemoveAll(w.dir)
		}
		if si == 0 && f.Shard == 0 {
			a := vsched.Run(nil, 400000, body(sc))
			e.Discard(a)
			b := vsched.Run(nil, 400000, body(sc))
			e.Discard(b)
			if len(a.Points) != len(b.Points) || a.Steps != b.Steps {
				vevid.Fatal("nondeterministic replay: %d/%d points, %d/%d steps", len(a.Points), len(b.Points), a.Steps, b.Steps)
			}
			rep.Extra["determinism_replay"] = "ok"
		}
		e.Explore()
		if e.Diverged != "" {
			vevid.Fatal("replay divergence in %s: %s", sc.Name, e.Diverged)
		}
		if e.Capped {
			rep.Cap("deadline reached in scenario " + sc.Name)
		}
		rep.Evaluations += e.Executions
		rep.States += e.Executions
		rep.Transitions += e.Points
		rep.TracesValidated += e.Executions
		rep.Count("schedules["+sc.Name+"]", e.Executions)
		if mp, _ := rep.Extra["max_points_in_one_schedule"].(int); e.MaxPoints > mp {
			rep.Extra["max_points_in_one_schedule"] = e.MaxPoints
		}
		if f.Shard == 0 {
			rep.Sample(map[string]interface{}{"scenario": sc, "schedules_this_worker": e.Executions})
		}
	}
	rep.Write()
}
