package main

// Part "crash" of C09: crash points inside a metadata flush. A real MetricMetaDatabase is driven through
// bounded histories of name creation and PrepareFlush+Flush; the directory is captured after every
// file-system seam call of the flush (kv manifest/table writers, renames, the sequence-file sync); every
// distinct image is reopened: every name FOUND in the recovered dictionaries has the id it had before, and
// names created afterwards get ids that no recovered name of the same kind and scope uses.

import (
	"errors"
	"fmt"
	"os"
	"path/filepath"
	"sort"
	"strings"

	"github.com/lindb/lindb/constants"
	"github.com/lindb/lindb/index"
	vbox "github.com/lindb/lindb/internal/vbox"
	"github.com/lindb/lindb/internal/vcrashfs"
	"github.com/lindb/lindb/internal/vevid"
	vos "github.com/lindb/lindb/internal/vos"
	"github.com/lindb/lindb/kv"
	"github.com/lindb/lindb/kv/table"
	"github.com/lindb/lindb/kv/version"
	"github.com/lindb/lindb/pkg/bufioutil"
	"github.com/lindb/lindb/series/field"
	"github.com/lindb/lindb/series/metric"
	"github.com/lindb/lindb/series/tag"
	"github.com/lindb/lindb/sql/stmt"
)

// a batch creates one metric with one field, one tag key and one tag value (names derive from the batch number)
type batchNames struct {
	NS, Metric, Field, TagKey, TagValue string
}

func batchOf(i int) batchNames {
	// two namespaces share their first byte (same namespace bucket); metrics of one namespace share a bucket
	ns := []string{"nsa", "nsb", "nsa"}[i%3]
	return batchNames{NS: ns, Metric: fmt.Sprintf("m%d", i), Field: fmt.Sprintf("f%d", i), TagKey: fmt.Sprintf("k%d", i), TagValue: fmt.Sprintf("v%d", i)}
}

type batchIDs struct {
	Metric   uint32
	Field    uint32
	TagKey   uint32
	TagValue uint32
}

var crec *vcrashfs.Recorder

type cwWriter struct {
	bufioutil.BufioWriter
	name string
}

// wfail > 0: the writer call (Write / Sync / Flush of a manifest or table writer) that brings it to 0 fails without
// touching the file; wfailHit records that it happened
var (
	wfail    int
	wfailHit bool
)

func wfailNow() bool {
	if wfail > 0 {
		wfail--
		if wfail == 0 {
			wfailHit = true
			return true
		}
	}
	return false
}

func (w *cwWriter) Write(p []byte) (int, error) {
	if wfailNow() {
		return 0, errInjected
	}
	n, err := w.BufioWriter.Write(p)
	crec.At("write " + w.name)
	return n, err
}
func (w *cwWriter) Sync() error {
	if wfailNow() {
		return errInjected
	}
	err := w.BufioWriter.Sync()
	crec.At("sync " + w.name)
	return err
}
func (w *cwWriter) Flush() error {
	if wfailNow() {
		return errInjected
	}
	err := w.BufioWriter.Flush()
	crec.At("flush " + w.name)
	return err
}
func (w *cwWriter) Close() error {
	err := w.BufioWriter.Close()
	crec.At("close " + w.name)
	return err
}

func crashSeams() {
	rel := func(p string) string {
		if crec != nil {
			if r, err := filepath.Rel(crec.Root, p); err == nil {
				return r
			}
		}
		return filepath.Base(p)
	}
	// every os-level mutation of the rewritten packages is a crash point as well (also calls a later change adds)
	vos.Hook = func(op, path string) { crec.At("os." + op + " " + rel(path)) }
	ks := kv.VerifGetSeams()
	kv.VerifSetSeams(kv.VerifSeams{
		RemoveDir: func(p string) error { err := ks.RemoveDir(p); crec.At("removeDir " + rel(p)); return err },
		Remove:    func(p string) error { err := ks.Remove(p); crec.At("remove " + rel(p)); return err },
		MkDir:     func(p string) error { err := ks.MkDir(p); crec.At("mkdir " + rel(p)); return err },
		EncodeToml: func(f string, v interface{}) error {
			err := ks.EncodeToml(f, v)
			crec.At("encodeToml " + rel(f))
			return err
		},
	})
	vs := version.VerifGetSeams()
	version.VerifSetSeams(version.VerifSeams{
		WriteFile: func(n string, d []byte, perm os.FileMode) error {
			err := vs.WriteFile(n, d, perm)
			crec.At("writeFile " + rel(n))
			return err
		},
		Rename: func(o, n string) error { err := vs.Rename(o, n); crec.At("rename ->" + rel(n)); return err },
		NewBufferWriter: func(f string) (bufioutil.BufioWriter, error) {
			w, err := vs.NewBufferWriter(f)
			crec.At("create " + rel(f))
			if err != nil {
				return nil, err
			}
			return &cwWriter{BufioWriter: w, name: rel(f)}, nil
		},
	})
	ts := table.VerifGetSeams()
	table.VerifSetSeams(table.VerifSeams{
		NewBufioWriter: func(f string) (bufioutil.BufioWriter, error) {
			if failCountdown > 0 {
				failCountdown--
				if failCountdown == 0 {
					return nil, errInjected
				}
			}
			w, err := ts.NewBufioWriter(f)
			crec.At("create " + rel(f))
			if err != nil {
				return nil, err
			}
			return &cwWriter{BufioWriter: w, name: rel(f)}, nil
		},
	})
	realSync := index.VerifSetSequenceSync(nil)
	index.VerifSetSequenceSync(func(buf []byte) error { err := realSync(buf); crec.At("sequence sync"); return err })
}

// history: per step the number of batches created before a PrepareFlush+Flush; a trailing 0 = final flush only
type chistory struct {
	Steps  []int `json:"steps"`
	Series bool  `json:"series,omitempty"` // series ids of one metric in a MetricIndexDatabase instead of names in the metadata database
	// Fail (series histories only), per step: k > 0 = the index flush of that step fails when it creates its k-th table
	// file (the stores stay pending, the next step's flush is the retry); -1 = PrepareFlush runs, one more series is
	// created, PrepareFlush runs again, then Flush; -2 = PrepareFlush runs, one more series is created, then Flush
	Fail []int `json:"fail,omitempty"`
	// WFail (metadata histories), per step: n > 0 = the n-th writer call (Write / Sync / Flush of a manifest or table
	// writer) of that step's flush fails - a full disk, an I/O error; the flush reports it or not, either way the next
	// flush cycle (PrepareFlush + Flush) follows at once and must succeed. Afterwards every name created so far still has
	// its id - also when it is looked up after a brand-new field / tag key of its metric was created.
	WFail []int `json:"wfail,omitempty"`
}

// failCountdown > 0: the table-file creation that brings it to 0 fails (set around one index flush)
var failCountdown int

var errInjected = fmt.Errorf("injected: cannot create table file")

func (h chistory) String() string {
	if h.Series {
		if len(h.Fail) > 0 {
			return "series" + fmt.Sprint(h.Steps) + " disturbed-flush" + fmt.Sprint(h.Fail)
		}
		return "series" + fmt.Sprint(h.Steps)
	}
	if len(h.WFail) > 0 {
		return fmt.Sprint(h.Steps) + " failed-write" + fmt.Sprint(h.WFail)
	}
	return fmt.Sprint(h.Steps)
}

func createBatch(db index.MetricMetaDatabase, i int) (batchIDs, error) {
	b := batchOf(i)
	var ids batchIDs
	m, err := db.GenMetricID([]byte(b.NS), []byte(b.Metric))
	if err != nil {
		return ids, err
	}
	ids.Metric = uint32(m)
	f, err := db.GenFieldID(m, field.Meta{Name: field.Name(b.Field), Type: field.SumField})
	if err != nil {
		return ids, err
	}
	ids.Field = uint32(f)
	k, err := db.GenTagKeyID(m, []byte(b.TagKey))
	if err != nil {
		return ids, err
	}
	ids.TagKey = uint32(k)
	v, err := db.GenTagValueID(k, []byte(b.TagValue))
	if err != nil {
		return ids, err
	}
	ids.TagValue = v
	return ids, nil
}

var cseen = map[string]bool{}

// lastWFailHit: the last metadata history with a WFail entry really reached the writer call it wanted to fail
var lastWFailHit bool
var cRunNo int

func runCrashHistory(rep *vevid.Report, h chistory) {
	if h.Series {
		runSeriesCrashHistory(rep, h)
		return
	}
	scen := "history=" + h.String()
	viol := func(clause, site, detail string) {
		rep.Violate(vevid.Violation{Clause: clause, Scenario: scen, Site: site, Detail: detail, Replay: h})
	}
	cRunNo++
	dir := filepath.Join(scratch, fmt.Sprintf("c%d", cRunNo))
	_ = os.RemoveAll(dir)
	defer os.RemoveAll(dir)
	defer func() {
		crec = nil
		if r := recover(); r != nil {
			viol("panic", "index", fmt.Sprint(r))
		}
	}()
	db, err := index.NewMetricMetaDatabase("db", dir)
	if err != nil {
		vevid.OpFailed("new meta db: %v", err)
	}
	crec = vcrashfs.NewRecorder(dir)
	crec.Skip = func(rel string) bool { return strings.HasSuffix(rel, "LOCK") }
	created := map[int]batchIDs{}
	crec.Note = func() interface{} {
		cp := map[int]batchIDs{}
		for k, v := range created {
			cp[k] = v
		}
		return cp
	}
	crec.Pause()
	next := 0
	for si, n := range h.Steps {
		for i := 0; i < n; i++ {
			ids, err := createBatch(db, next)
			if err != nil {
				viol("create-failed", "index", err.Error())
				_ = db.Close()
				return
			}
			created[next] = ids
			next++
		}
		db.PrepareFlush()
		crec.Resume()
		crec.At("flush starts")
		if si < len(h.WFail) && h.WFail[si] > 0 {
			wfail, wfailHit = h.WFail[si], false
		}
		err := db.Flush()
		injected := wfailHit
		wfail, wfailHit = 0, false
		crec.At("flush returned")
		if injected {
			rep.Count("meta_flushes_with_a_failed_write", 1)
			lastWFailHit = true
			// the next flush cycle
			db.PrepareFlush()
			err = db.Flush()
			crec.At("repeated flush returned")
		}
		crec.Pause()
		if err != nil {
			viol("flush-failed", "index.MetricMetaDatabase.Flush", err.Error())
			_ = db.Close()
			return
		}
		if injected {
			// live: ids are stable for as long as the node runs. A brand-new field and tag key of the metric first, then
			// the old names: a schema that fell out of memory AND never reached the table hands the old ids out again
			for i := 0; i < next; i++ {
				b, want := batchOf(i), created[i]
				m, err := db.GenMetricID([]byte(b.NS), []byte(b.Metric))
				if err != nil || uint32(m) != want.Metric {
					viol("id-changed-after-failed-flush", "index.GenMetricID", fmt.Sprintf("metric %s/%s had id %d, after a failed and repeated flush %d (%v)", b.NS, b.Metric, want.Metric, m, err))
					continue
				}
				_, _ = db.GenFieldID(m, field.Meta{Name: field.Name(fmt.Sprintf("zz_new_%d", si)), Type: field.SumField})
				_, _ = db.GenTagKeyID(m, []byte(fmt.Sprintf("zz_newkey_%d", si)))
				if f, err := db.GenFieldID(m, field.Meta{Name: field.Name(b.Field), Type: field.SumField}); err != nil || uint32(f) != want.Field {
					viol("id-changed-after-failed-flush", "index.GenFieldID", fmt.Sprintf("field %s of %s had id %d, after a failed and repeated flush %d (%v)", b.Field, b.Metric, want.Field, f, err))
				}
				if k, err := db.GenTagKeyID(m, []byte(b.TagKey)); err != nil || uint32(k) != want.TagKey {
					viol("id-changed-after-failed-flush", "index.GenTagKeyID", fmt.Sprintf("tag key %s of %s had id %d, after a failed and repeated flush %d (%v)", b.TagKey, b.Metric, want.TagKey, k, err))
				} else if v, err := db.GenTagValueID(k, []byte(b.TagValue)); err != nil || v != want.TagValue {
					viol("id-changed-after-failed-flush", "index.GenTagValueID", fmt.Sprintf("tag value %s had id %d, after a failed and repeated flush %d (%v)", b.TagValue, want.TagValue, v, err))
				}
			}
		}
	}
	points := crec.Points
	crec = nil
	_ = db.Close()
	rep.Count("histories", 1)
	rep.Count("seam_calls", int64(len(points)))
	for _, p := range points {
		key := p.Image.Hash()
		if cseen[key] {
			continue
		}
		cseen[key] = true
		rep.Evaluations++
		rep.DistinctNontrivial++
		recoverMeta(rep, h, p)
	}
	rep.Sample(map[string]interface{}{"history": h.Steps, "crash_points": len(points)})
}

func recoverMeta(rep *vevid.Report, h chistory, p *vcrashfs.Point) {
	scen := "history=" + h.String()
	created := p.Note.(map[int]batchIDs)
	where := fmt.Sprintf("crash after seam call #%d [%s]: ", p.Seq, p.Label)
	viol := func(clause, site, detail string) {
		rep.Violate(vevid.Violation{Clause: clause, Scenario: scen, Site: site, Detail: where + detail, Replay: h})
	}
	dir := filepath.Join(scratch, "ccrash")
	_ = os.RemoveAll(dir)
	defer os.RemoveAll(dir)
	if err := p.Image.Materialize(dir); err != nil {
		vevid.Fatal("materialize: %v", err)
	}
	db, err := index.NewMetricMetaDatabase("db", dir)
	if err != nil {
		viol("reopen-failed", "index.NewMetricMetaDatabase", err.Error())
		return
	}
	defer func() {
		if r := recover(); r != nil {
			viol("panic", "index", fmt.Sprint(r))
		}
		_ = db.Close()
	}()
	// ids in use by recovered names, per kind and scope
	used := map[string]map[uint32]string{}
	use := func(scope string, id uint32, name string) {
		if used[scope] == nil {
			used[scope] = map[uint32]string{}
		}
		if other, dup := used[scope][id]; dup && other != name {
			viol("recovered-injective", "index", fmt.Sprintf("recovered names %s and %s share id %d in scope %s", other, name, id, scope))
		}
		used[scope][id] = name
	}
	var order []int
	for i := range created {
		order = append(order, i)
	}
	sort.Ints(order)
	found := 0
	for _, i := range order {
		b, want := batchOf(i), created[i]
		m, err := db.GetMetricID(b.NS, b.Metric)
		if err != nil {
			if errors.Is(err, constants.ErrMetricIDNotFound) || strings.Contains(err.Error(), "not found") {
				continue // the name is not in the recovered dictionaries (its flush had not committed): nothing to hold
			}
			viol("lookup-failed", "index.GetMetricID", err.Error())
			continue
		}
		found++
		if uint32(m) != want.Metric {
			viol("recovered-id-stable", "index.GetMetricID", fmt.Sprintf("metric %s/%s had id %d, after recovery %d", b.NS, b.Metric, want.Metric, m))
		}
		use("metric", uint32(m), b.NS+"/"+b.Metric)
		schema, err := db.GetSchema(m)
		if err != nil || schema == nil {
			continue
		}
		for _, f := range schema.Fields {
			if string(f.Name) == b.Field && uint32(f.ID) != want.Field {
				viol("recovered-id-stable", "index.GetSchema", fmt.Sprintf("field %s of %s had id %d, after recovery %d", b.Field, b.Metric, want.Field, f.ID))
			}
		}
		for _, tk := range schema.TagKeys {
			if tk.Key != b.TagKey {
				continue
			}
			if uint32(tk.ID) != want.TagKey {
				viol("recovered-id-stable", "index.GetSchema", fmt.Sprintf("tag key %s of %s had id %d, after recovery %d", b.TagKey, b.Metric, want.TagKey, tk.ID))
			}
			use("tagkey", uint32(tk.ID), b.Metric+"."+b.TagKey)
			ids, err := db.FindTagValueDsByExpr(tk.ID, &stmt.EqualsExpr{Key: b.TagKey, Value: b.TagValue})
			if err == nil && ids != nil && !ids.IsEmpty() {
				got := ids.ToArray()
				if len(got) != 1 || got[0] != want.TagValue {
					viol("recovered-id-stable", "index.FindTagValueDsByExpr", fmt.Sprintf("tag value %s had id %d, after recovery %v", b.TagValue, want.TagValue, got))
				}
				for _, id := range got {
					use("tagvalue", id, b.TagKey+"="+b.TagValue)
				}
			}
		}
	}
	rep.Outcome(fmt.Sprintf("found=%d of %d", found, len(created)))
	// names created afterwards never receive an id a recovered name of the same kind uses
	for j := 0; j < 2; j++ {
		i := 100 + j
		b := batchOf(i)
		ids, err := createBatch(db, i)
		if err != nil {
			viol("create-after-recovery-failed", "index", err.Error())
			return
		}
		if other, dup := used["metric"][ids.Metric]; dup {
			viol("id-reused-after-recovery", "index.GenMetricID", fmt.Sprintf("new metric %s/%s received id %d which the recovered dictionary uses for %s", b.NS, b.Metric, ids.Metric, other))
		}
		if other, dup := used["tagkey"][ids.TagKey]; dup {
			viol("id-reused-after-recovery", "index.GenTagKeyID", fmt.Sprintf("new tag key %s received id %d which the recovered schema uses for %s", b.TagKey, ids.TagKey, other))
		}
		if other, dup := used["tagvalue"][ids.TagValue]; dup {
			viol("id-reused-after-recovery", "index.GenTagValueID", fmt.Sprintf("new tag value %s received id %d which the recovered dictionary uses for %s", b.TagValue, ids.TagValue, other))
		}
		use("metric", ids.Metric, b.NS+"/"+b.Metric)
		use("tagkey", ids.TagKey, b.Metric+"."+b.TagKey)
		use("tagvalue", ids.TagValue, b.TagKey+"="+b.TagValue)
	}
	// and everything survives a clean flush + reopen
	db.PrepareFlush()
	if err := db.Flush(); err != nil {
		viol("flush-after-recovery-failed", "index.MetricMetaDatabase.Flush", err.Error())
	}
	_ = metric.ID(0)
	_ = tag.KeyID(0)
}

// ---------------------------------------------------------------------------------------------------
// series ids: crash points inside MetricIndexDatabase.Flush (metric -> series postings, forward and inverted index,
// tags-hash -> series id dictionary). After recovery the ids handed out for DIFFERENT tag sets of one metric must be
// different, whichever of the families made it to disk: new ids are seeded from the recovered postings, looked-up ones
// come from the recovered dictionary.

// ser is one created series: which of the two metrics it belongs to and the id it got
type ser struct {
	M  int    `json:"metric"`
	ID uint32 `json:"id"`
}

var seriesMetrics = []string{"m", "m2"}

func seriesRow(host string) *metric.StorageRow { return seriesRowOf(0, host) }

func seriesRowOf(m int, host string) *metric.StorageRow {
	rows, err := vbox.Rows([]vbox.Point{{Namespace: "ns", Metric: seriesMetrics[m], Tags: map[string]string{"host": host}, Field: "f", Type: "sum", Value: 1, Timestamp: 1700000000000}})
	if err != nil {
		vevid.Fatal("rows: %v", err)
	}
	return rows[0]
}

func openSeriesWorld(root string) (index.MetricMetaDatabase, index.MetricIndexDatabase, [2]metric.ID, error) {
	var mids [2]metric.ID
	meta, err := index.NewMetricMetaDatabase("db", filepath.Join(root, "meta"))
	if err != nil {
		return nil, nil, mids, err
	}
	idx, err := index.NewMetricIndexDatabase(filepath.Join(root, "index"), meta)
	if err != nil {
		_ = meta.Close()
		return nil, nil, mids, err
	}
	for i, name := range seriesMetrics {
		mid, err := meta.GenMetricID([]byte("ns"), []byte(name))
		if err != nil {
			_ = idx.Close()
			_ = meta.Close()
			return nil, nil, mids, err
		}
		mids[i] = mid
	}
	return meta, idx, mids, nil
}

func runSeriesCrashHistory(rep *vevid.Report, h chistory) {
	scen := "history=" + h.String()
	viol := func(clause, site, detail string) {
		rep.Violate(vevid.Violation{Clause: clause, Scenario: scen, Site: site, Detail: detail, Replay: h})
	}
	cRunNo++
	dir := filepath.Join(scratch, fmt.Sprintf("c%d", cRunNo))
	_ = os.RemoveAll(dir)
	defer os.RemoveAll(dir)
	defer func() {
		crec = nil
		if r := recover(); r != nil {
			viol("panic", "index", fmt.Sprint(r))
		}
	}()
	meta, idx, mids, err := openSeriesWorld(dir)
	if err != nil {
		vevid.OpFailed("new meta db: %v", err)
	}
	crec = vcrashfs.NewRecorder(dir)
	crec.Skip = func(rel string) bool { return strings.HasSuffix(rel, "LOCK") }
	created := map[int]ser{} // series number -> metric, id
	curMetric := 0           // histories with a disturbed flush cycle: the steps alternate between two metrics
	crec.Note = func() interface{} {
		cp := map[int]ser{}
		for k, v := range created {
			cp[k] = v
		}
		return cp
	}
	crec.Pause()
	closeAll := func() { _ = idx.Close(); _ = meta.Close() }
	next := 0
	newSeries := func() bool {
		id, err := idx.GenSeriesID(mids[curMetric], seriesRowOf(curMetric, fmt.Sprintf("h%d", next)))
		if err != nil {
			viol("create-failed", "index.GenSeriesID", err.Error())
			closeAll()
			return false
		}
		for k, other := range created {
			if other.M == curMetric && other.ID == id {
				viol("one-id-per-name", "index.GenSeriesID", fmt.Sprintf("series h%d and h%d of one metric share id %d", k, next, id))
			}
		}
		created[next] = ser{curMetric, id}
		next++
		return true
	}
	for si, n := range h.Steps {
		if len(h.Fail) > 0 {
			curMetric = si % 2
		}
		fail := 0
		if si < len(h.Fail) {
			fail = h.Fail[si]
		}
		for i := 0; i < n; i++ {
			if !newSeries() {
				return
			}
		}
		if fail == -1 {
			// a flush cycle that got as far as PrepareFlush; writing goes on, the next cycle starts with PrepareFlush again
			meta.PrepareFlush()
			idx.PrepareFlush()
			if !newSeries() {
				return
			}
		}
		// production order: metadata first (names, tag keys and values durable), then the shard's index
		meta.PrepareFlush()
		if err := meta.Flush(); err != nil {
			viol("flush-failed", "index.MetricMetaDatabase.Flush", err.Error())
			closeAll()
			return
		}
		idx.PrepareFlush()
		if fail == -2 {
			// what a shard does all the time: its event loop handles the flush event (PrepareFlush), then the next row
			// (a new series), while the flush itself still waits for its goroutine
			if !newSeries() {
				return
			}
		}
		crec.Resume()
		crec.At("index flush starts")
		if fail > 0 {
			failCountdown = fail
		}
		err := idx.Flush()
		injected := fail > 0 && failCountdown == 0
		failCountdown = 0
		crec.At("index flush returned")
		crec.Pause()
		if injected {
			rep.Count("index_flushes_failed_by_injection", 1)
			if err == nil {
				rep.Count("index_flush_swallowed_injected_error", 1)
			}
			continue // the next step's flush is the retry
		}
		if err != nil {
			viol("flush-failed", "index.MetricIndexDatabase.Flush", err.Error())
			closeAll()
			return
		}
	}
	points := crec.Points
	crec = nil
	closeAll()
	rep.Count("series_histories", 1)
	rep.Count("seam_calls", int64(len(points)))
	for _, p := range points {
		key := "s" + p.Image.Hash()
		if cseen[key] {
			continue
		}
		cseen[key] = true
		rep.Evaluations++
		rep.DistinctNontrivial++
		recoverSeries(rep, h, p)
	}
	rep.Sample(map[string]interface{}{"history": h.String(), "crash_points": len(points)})
}

func recoverSeries(rep *vevid.Report, h chistory, p *vcrashfs.Point) {
	scen := "history=" + h.String()
	created := p.Note.(map[int]ser)
	where := fmt.Sprintf("crash after seam call #%d [%s]: ", p.Seq, p.Label)
	viol := func(clause, site, detail string) {
		rep.Violate(vevid.Violation{Clause: clause, Scenario: scen, Site: site, Detail: where + detail, Replay: h})
	}
	dir := filepath.Join(scratch, "ccrash")
	_ = os.RemoveAll(dir)
	defer os.RemoveAll(dir)
	if err := p.Image.Materialize(dir); err != nil {
		vevid.Fatal("materialize: %v", err)
	}
	meta, idx, mids, err := openSeriesWorld(dir)
	if err != nil {
		viol("reopen-failed", "index.NewMetricIndexDatabase", err.Error())
		return
	}
	defer func() {
		if r := recover(); r != nil {
			viol("panic", "index", fmt.Sprint(r))
		}
		_ = idx.Close()
		_ = meta.Close()
	}()
	// first two NEW series (their ids are seeded from the recovered postings), then every series created before the
	// crash (looked up in the recovered dictionary, or created again when it did not make it)
	var order []int
	for i := range created {
		order = append(order, i)
	}
	sort.Ints(order)
	type ask struct {
		m    int
		name string
		n    int // series number, -1 = new
	}
	asks := []ask{{0, "n0", -1}, {0, "n1", -1}}
	if len(h.Fail) > 0 {
		asks = append(asks, ask{1, "n0", -1}, ask{1, "n1", -1})
	}
	for _, i := range order {
		asks = append(asks, ask{created[i].M, fmt.Sprintf("h%d", i), i})
	}
	got := [2]map[uint32]string{{}, {}}
	kept := 0
	for _, a := range asks {
		id, err := idx.GenSeriesID(mids[a.m], seriesRowOf(a.m, a.name))
		if err != nil {
			viol("create-after-recovery-failed", "index.GenSeriesID", a.name+": "+err.Error())
			return
		}
		if other, dup := got[a.m][id]; dup {
			viol("recovered-injective", "index.GenSeriesID", fmt.Sprintf("after recovery the series host=%s and host=%s of metric %s both have series id %d (ids before the crash: %v)", other, a.name, seriesMetrics[a.m], id, created))
		}
		got[a.m][id] = a.name
		if a.n >= 0 && created[a.n].ID == id {
			kept++
		}
		// the same tag set again: the same id
		if id2, err := idx.GenSeriesID(mids[a.m], seriesRowOf(a.m, a.name)); err != nil || id2 != id {
			viol("stable-id", "index.GenSeriesID", fmt.Sprintf("series host=%s got id %d, asked again %d (%v)", a.name, id, id2, err))
		}
	}
	rep.Outcome(fmt.Sprintf("series kept=%d of %d", kept, len(created)))
}

func runCrashPart(rep *vevid.Report, f *vevid.Flags) {
	crashSeams()
	if f.Replay != "" {
		var h chistory
		vevid.LoadReplay(f.Replay, &h)
		for i := 0; i < 3; i++ {
			cseen = map[string]bool{}
			runCrashHistory(rep, h)
		}
		rep.Write()
		return
	}
	maxSteps, maxBatches := 3, 2
	failKinds := []int{1, 3, -1}
	if f.Thorough() {
		maxSteps, maxBatches = 4, 3
		failKinds = []int{1, 2, 3, 4, 5, -1}
	}
	rep.Rule = fmt.Sprintf("all histories of <=%d flush steps, each preceded by 0..%d batches of new names (a batch = one metric in one of two namespaces sharing a bucket, one field, one tag key, one tag value); a crash image after EVERY seam call of every MetricMetaDatabase.Flush (kv manifest/table writers, renames, sequence-file sync); every distinct image is reopened: names found keep their ids, recovered ids are injective, names created afterwards do not reuse a recovered id. The same histories with batches = new series (tag sets) of one metric in a MetricIndexDatabase: a crash image after every seam call of MetricIndexDatabase.Flush; after recovery two new series and every earlier series are looked up / created: different tag sets never share a series id, the same tag set keeps its id when asked again; every series history also with one disturbed flush cycle (the index flush fails when it creates its k-th table file and is retried by the next step, k in %v; -1 = PrepareFlush twice with a new series in between) and, for every step in turn, with a series created between PrepareFlush and Flush of that step. evaluations = distinct images recovered", maxSteps, maxBatches, failKinds)
	rep.Bounds["max_flush_steps"] = maxSteps
	rep.Bounds["max_batches_per_step"] = maxBatches
	var idx int64
	var gen func(prefix []int)
	gen = func(prefix []int) {
		if len(prefix) > 0 {
			tot := 0
			for _, n := range prefix {
				tot += n
			}
			if tot > 0 {
				idx++
				if f.Mine(idx) && !f.Expired() {
					runCrashHistory(rep, chistory{Steps: append([]int(nil), prefix...)})
				}
				idx++
				if f.Mine(idx) && !f.Expired() {
					runCrashHistory(rep, chistory{Steps: append([]int(nil), prefix...), Series: true})
				}
				// the metadata history with one failing writer call inside the flush of its LAST step with new names
				// (every call of that flush in turn), for the short histories
				if len(prefix) <= 2 && prefix[len(prefix)-1] > 0 {
					idx++
					if f.Mine(idx) && !f.Expired() {
						for n := 1; n < 200; n++ {
							wf := make([]int, len(prefix))
							wf[len(prefix)-1] = n
							lastWFailHit = false
							runCrashHistory(rep, chistory{Steps: append([]int(nil), prefix...), WFail: wf})
							if !lastWFailHit {
								break // the flush makes fewer than n writer calls
							}
						}
					}
				}
				// the same series history with ONE disturbed flush cycle: step j (which has new series, and is followed
				// by a step with new series) fails at its k-th table file, or runs PrepareFlush twice
				// the same series history with a series created between PrepareFlush and Flush of step j (-2), also when
				// nothing else is new in that cycle (the prepared stores are empty then)
				for j := 0; j < len(prefix); j++ {
					idx++
					if f.Mine(idx) && !f.Expired() {
						fl := make([]int, len(prefix))
						fl[j] = -2
						runCrashHistory(rep, chistory{Steps: append([]int(nil), prefix...), Series: true, Fail: fl})
					}
				}
				for j := 0; j+1 < len(prefix); j++ {
					if prefix[j] == 0 || prefix[j+1] == 0 {
						continue
					}
					for _, k := range failKinds {
						idx++
						if f.Mine(idx) && !f.Expired() {
							fl := make([]int, len(prefix))
							fl[j] = k
							runCrashHistory(rep, chistory{Steps: append([]int(nil), prefix...), Series: true, Fail: fl})
						}
					}
				}
			}
		}
		if len(prefix) == maxSteps {
			return
		}
		for n := 0; n <= maxBatches; n++ {
			gen(append(prefix, n))
		}
	}
	gen(nil)
	if f.Expired() {
		rep.Cap("deadline")
	}
	rep.Write()
}
