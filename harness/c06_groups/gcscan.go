package main

// Part "gcscan": garbage collection over several index pages. The explicit-state search (part bfs) stays below six
// appends, i.e. inside the first two index pages (4 entries per page after scaling); this part walks longer logs
// with a scripted, exhaustive product: message size profile x number of appends (5..12) x acknowledged position
// of one or two groups (every position) x {sync+gc once, twice} x {read back, reopen + read back}: every message
// above the queue-wide acknowledged position reads back byte for byte, the queue ack equals the smallest group ack,
// positions survive the reopen.

import (
	"bytes"
	"fmt"
	"os"
	"path/filepath"

	"github.com/lindb/lindb/internal/vevid"
	"github.com/lindb/lindb/pkg/queue"
	"github.com/lindb/lindb/pkg/queue/page"
)

type gcCase struct {
	Part    string `json:"part"`
	Profile string `json:"profile"`
	N       int    `json:"appends"`
	AckA    int64  `json:"ack_a"`
	AckB    int64  `json:"ack_b"` // -2: no second group
	Twice   bool   `json:"twice"`
}

func (c gcCase) String() string {
	return fmt.Sprintf("profile=%s appends=%d ackA=%d ackB=%d twice=%v", c.Profile, c.N, c.AckA, c.AckB, c.Twice)
}

var gcProfiles = map[string][]int{
	"half":  {30},         // two messages per data page
	"big":   {60},         // one message per data page
	"tiny":  {3},          // many messages per data page: only index pages roll
	"mixed": {3, 60, 30},  // irregular roll-overs
	"exact": {34, 30, 64}, // 34+30 fill a page exactly, 64 = a whole page
}

func gcPayload(profile string, i int) []byte {
	sizes := gcProfiles[profile]
	return bytes.Repeat([]byte{byte('A' + i%26)}, sizes[i%len(sizes)])
}

func runGCCase(rep *vevid.Report, f *vevid.Flags, c gcCase, no int) {
	scen := fmt.Sprintf("gcscan/%s", c.Profile)
	viol := func(clause, site, detail string) {
		rep.Violate(vevid.Violation{Clause: clause, Scenario: scen, Site: site, Detail: c.String() + ": " + detail, Replay: replay{Part: "gcscan", Config: c.String()}})
	}
	dir := filepath.Join(f.Scratch, fmt.Sprintf("gc%d", no))
	_ = os.RemoveAll(dir)
	defer os.RemoveAll(dir)
	defer func() {
		if r := recover(); r != nil {
			viol("panic", "pkg/queue", fmt.Sprint(r))
		}
	}()
	fq, err := queue.NewFanOutQueue(dir, 0)
	if err != nil {
		vevid.OpFailed("new fan-out queue: %v", err)
	}
	closed := false
	defer func() {
		if !closed {
			fq.Close()
		}
	}()
	groups := map[string]int64{"a": c.AckA}
	if c.AckB > -2 {
		groups["b"] = c.AckB
	}
	cgs := map[string]queue.ConsumerGroup{}
	for _, name := range []string{"a", "b"} {
		if _, ok := groups[name]; !ok {
			continue
		}
		g, err := fq.GetOrCreateConsumerGroup(name)
		if err != nil {
			vevid.OpFailed("group: %v", err)
		}
		cgs[name] = g
	}
	for i := 0; i < c.N; i++ {
		if err := fq.Queue().Put(gcPayload(c.Profile, i)); err != nil {
			viol("put-failed", "queue.Put", fmt.Sprintf("append %d: %v", i, err))
			return
		}
	}
	want := int64(c.N - 1)
	for name, ack := range groups {
		g := cgs[name]
		for s := int64(0); s <= want; s++ {
			if got := g.Consume(); got != s {
				viol("consume-consecutive", "ConsumerGroup.Consume", fmt.Sprintf("group %s: consume returned %d, expected %d", name, got, s))
				return
			}
		}
		if ack >= 0 {
			g.Ack(ack)
		}
	}
	minAck := c.AckA
	if c.AckB > -2 && c.AckB < minAck {
		minAck = c.AckB
	}
	rounds := 1
	if c.Twice {
		rounds = 2
	}
	for i := 0; i < rounds; i++ {
		fq.Sync()
		fq.Queue().GC()
	}
	check := func(q queue.FanOutQueue, when string) {
		if qa := q.Queue().AcknowledgedSeq(); qa != minAck {
			viol("queue-ack-is-smallest-group-ack", "FanOutQueue.Sync", fmt.Sprintf("%s: queue ack %d, smallest group ack %d", when, qa, minAck))
		}
		if app := q.Queue().AppendedSeq(); app != want {
			viol("positions", "queue", fmt.Sprintf("%s: appended %d, expected %d", when, app, want))
		}
		for s := minAck + 1; s <= want; s++ {
			b, err := q.Queue().Get(s)
			if err != nil {
				viol("unacked-readable", "queue.Get after GC", fmt.Sprintf("%s: message %d is above the queue ack %d but not readable: %v", when, s, minAck, err))
				continue
			}
			if !bytes.Equal(b, gcPayload(c.Profile, int(s))) {
				viol("unacked-readable", "queue.Get after GC", fmt.Sprintf("%s: message %d (above the queue ack %d) reads %d bytes %q..., appended %d bytes %q...", when, s, minAck, len(b), head(b), len(gcPayload(c.Profile, int(s))), head(gcPayload(c.Profile, int(s)))))
			}
		}
	}
	check(fq, "after sync+gc")
	fq.Close()
	closed = true
	fq2, err := queue.NewFanOutQueue(dir, 0)
	if err != nil {
		viol("reopen-failed", "queue.NewFanOutQueue", err.Error())
		return
	}
	defer fq2.Close()
	check(fq2, "after reopen")
	for name, ack := range groups {
		g, err := fq2.GetOrCreateConsumerGroup(name)
		if err != nil {
			viol("reopen-failed", "GetOrCreateConsumerGroup", err.Error())
			continue
		}
		wantAck := ack
		if wantAck < minAck { // cannot happen: minAck is the minimum
			wantAck = minAck
		}
		if g.AcknowledgedSeq() != wantAck || g.ConsumedSeq() != want {
			viol("positions-survive-reopen", "ConsumerGroup", fmt.Sprintf("group %s after reopen: ack %d consumed %d, before: ack %d consumed %d", name, g.AcknowledgedSeq(), g.ConsumedSeq(), wantAck, want))
		}
	}
	// one more append after the reopen takes the next sequence and reads back
	extra := gcPayload(c.Profile, 200)
	if err := fq2.Queue().Put(extra); err != nil {
		viol("put-failed", "queue.Put", fmt.Sprintf("append after reopen: %v", err))
		return
	}
	if app := fq2.Queue().AppendedSeq(); app != want+1 {
		viol("dense-sequences", "queue.Put after reopen", fmt.Sprintf("%d appends, reopen, one more append: appended sequence %d, expected %d", c.N, app, want+1))
	} else if b, err := fq2.Queue().Get(want + 1); err != nil || !bytes.Equal(b, extra) {
		viol("unacked-readable", "queue.Get after reopen", fmt.Sprintf("the message appended after the reopen (sequence %d) reads %q... err=%v", want+1, head(b), err))
	}
	rep.Outcome(fmt.Sprintf("gcscan %s n=%d min=%d", c.Profile, c.N, minAck))
}

// runResetCase: an explicit index reset (FanOutQueue.SetAppendedSeq, what a follower does when the leader tells it where
// to continue) in the middle of a log: n appends, reset to s (backwards into an earlier index / data page, to the
// current position, or forwards), m more appends. Every message appended after the reset reads back under its own
// sequence s+1.. with its own bytes, before and after close / reopen; with a group, its positions follow the reset.
func runResetCase(rep *vevid.Report, f *vevid.Flags, profile string, n int, s int64, m int, groupMode int, no int) {
	// groupMode 0: no group; 1: a group that has not consumed; 2 / 3: the group consumed everything, acknowledged
	// everything / the first half, and FanOutQueue.Sync moved the queue's acknowledged position before the reset
	withGroup := groupMode > 0
	scen := fmt.Sprintf("reset/%s", profile)
	cfg := fmt.Sprintf("profile=%s appends=%d reset-to=%d then-appends=%d group=%v", profile, n, s, m, withGroup)
	if groupMode >= 2 {
		cfg += fmt.Sprintf(" acked-before-reset=%s", map[int]string{2: "all", 3: "half"}[groupMode])
	}
	viol := func(clause, site, detail string) {
		rep.Violate(vevid.Violation{Clause: clause, Scenario: scen, Site: site, Detail: cfg + ": " + detail, Replay: replay{Part: "gcscan", Config: cfg}})
	}
	dir := filepath.Join(f.Scratch, fmt.Sprintf("rs%d", no))
	_ = os.RemoveAll(dir)
	defer os.RemoveAll(dir)
	defer func() {
		if r := recover(); r != nil {
			viol("panic", "pkg/queue", fmt.Sprint(r))
		}
	}()
	fq, err := queue.NewFanOutQueue(dir, 0)
	if err != nil {
		vevid.OpFailed("new fan-out queue: %v", err)
	}
	closed := false
	defer func() {
		if !closed {
			fq.Close()
		}
	}()
	var g queue.ConsumerGroup
	if withGroup {
		if g, err = fq.GetOrCreateConsumerGroup("a"); err != nil {
			vevid.OpFailed("group: %v", err)
		}
	}
	for i := 0; i < n; i++ {
		if err := fq.Queue().Put(gcPayload(profile, i)); err != nil {
			viol("put-failed", "queue.Put", fmt.Sprintf("append %d: %v", i, err))
			return
		}
	}
	if groupMode >= 2 {
		for i := 0; i < n; i++ {
			g.Consume()
		}
		ackTo := int64(n - 1)
		if groupMode == 3 {
			ackTo = int64(n-1) / 2
		}
		g.Ack(ackTo)
		fq.Sync()
	}
	ackWithin := func(q queue.FanOutQueue, when string) {
		if ack, app := q.Queue().AcknowledgedSeq(), q.Queue().AppendedSeq(); ack > app {
			viol("queue-ack-beyond-appended", "FanOutQueue.SetAppendedSeq", fmt.Sprintf("%s: queue ack %d is beyond appended %d", when, ack, app))
		}
	}
	fq.SetAppendedSeq(s)
	if app := fq.Queue().AppendedSeq(); app != s {
		viol("reset-position", "FanOutQueue.SetAppendedSeq", fmt.Sprintf("appended %d after the reset", app))
	}
	ackWithin(fq, "after the reset")
	after := func(i int) []byte { return gcPayload(profile, 100+i) }
	for i := 0; i < m; i++ {
		if err := fq.Queue().Put(after(i)); err != nil {
			viol("put-failed", "queue.Put", fmt.Sprintf("append %d after the reset: %v", i, err))
			return
		}
		if app := fq.Queue().AppendedSeq(); app != s+1+int64(i) {
			viol("dense-sequences", "queue.Put", fmt.Sprintf("append %d after the reset got sequence %d, expected %d", i, app, s+1+int64(i)))
			return
		}
	}
	check := func(q queue.FanOutQueue, when string) {
		if app := q.Queue().AppendedSeq(); app != s+int64(m) {
			viol("positions", "queue", fmt.Sprintf("%s: appended %d, expected %d", when, app, s+int64(m)))
		}
		for i := 0; i < m; i++ {
			seq := s + 1 + int64(i)
			b, err := q.Queue().Get(seq)
			if err != nil {
				viol("appended-readable", "queue.Get after reset", fmt.Sprintf("%s: message %d (append %d after the reset) is not readable: %v", when, seq, i, err))
				continue
			}
			if !bytes.Equal(b, after(i)) {
				viol("appended-readable", "queue.Get after reset", fmt.Sprintf("%s: message %d (append %d after the reset) reads %d bytes %q..., appended %d bytes %q...", when, seq, i, len(b), head(b), len(after(i)), head(after(i))))
			}
		}
	}
	check(fq, "after the appends")
	ackWithin(fq, "after the appends")
	if withGroup {
		for i := 0; i < m; i++ {
			if got := g.Consume(); got != s+1+int64(i) {
				viol("consume-consecutive", "ConsumerGroup.Consume", fmt.Sprintf("after the reset consume returned %d, expected %d", got, s+1+int64(i)))
				break
			}
		}
	}
	fq.Close()
	closed = true
	fq2, err := queue.NewFanOutQueue(dir, 0)
	if err != nil {
		viol("reopen-failed", "queue.NewFanOutQueue", err.Error())
		return
	}
	defer fq2.Close()
	check(fq2, "after reopen")
	ackWithin(fq2, "after reopen")
	if withGroup {
		// the group's positions survive the reopen: it consumed the m messages appended after the reset and
		// acknowledged none of them
		if g2, err := fq2.GetOrCreateConsumerGroup("a"); err == nil {
			if c, a := g2.ConsumedSeq(), g2.AcknowledgedSeq(); c != s+int64(m) || a > c || a > s {
				viol("group-positions-after-reopen", "FanOutQueue.SetAppendedSeq", fmt.Sprintf("after reopen the group has consumed %d acknowledged %d, expected consumed %d acknowledged <= %d", c, a, s+int64(m), s))
			}
		}
	}
	rep.Outcome(fmt.Sprintf("reset %s n=%d to=%d m=%d g=%d", profile, n, s, m, groupMode))
}

func head(b []byte) []byte {
	if len(b) > 4 {
		return b[:4]
	}
	return b
}

func runGCScan(f *vevid.Flags, rep *vevid.Report) {
	maxN := 10
	if f.Thorough() {
		maxN = 14
	}
	rep.Rule = fmt.Sprintf("scripted exhaustive product: message size profile {half,big,tiny,mixed,exact} x appends 1..%d x acknowledged position of group a (every position -1..n-1) x second group {none, every position <= a's} x {sync+gc once, twice}; one or two groups consume everything, acknowledge, FanOutQueue.Sync + Queue.GC run, every message above the queue ack is read back byte for byte, then close / reopen / read back again / one more append (next sequence, readable); 4 index entries per index page, 64-byte data pages; plus long logs whose data or index page ids cross 9->10 and 99->100 (profile,appends: big 11,12,13,102; tiny 41,45,49,406; half 23), one group, acknowledged positions: all (short) / around the boundary (long); plus explicit index resets (FanOutQueue.SetAppendedSeq): profile x appends {1,5,6,9,10} x reset target -1..n+5 (backwards over index / data pages, in place, forwards) x 1/2/5 more appends x with/without a group: every message appended after the reset reads back under its own sequence, also after reopen. distinct = cases", maxN)
	rep.Bounds["max_appends"] = maxN
	var idx int64
	no := 0
	for _, profile := range []string{"half", "big", "tiny", "mixed", "exact"} {
		for n := 1; n <= maxN; n++ {
			for a := int64(-1); a < int64(n); a++ {
				bs := []int64{-2}
				for b := int64(-1); b <= a; b++ {
					bs = append(bs, b)
				}
				for _, b := range bs {
					for _, twice := range []bool{false, true} {
						idx++
						if !f.Mine(idx) {
							continue
						}
						if idx%64 == 0 && f.Expired() {
							rep.Cap("deadline")
							return
						}
						no++
						rep.Evaluations++
						rep.DistinctNontrivial++
						runGCCase(rep, f, gcCase{Part: "gcscan", Profile: profile, N: n, AckA: a, AckB: b, Twice: twice}, no)
					}
				}
			}
		}
	}
	// a start that fails: the k-th open / mapping of a page file answers with an error (every k of a complete start,
	// both kinds), the start after that one succeeds
	for _, profile := range []string{"half", "big", "tiny", "mixed"} {
		for _, n := range []int{1, 3, 6, 9} {
			for _, ack := range []int64{-1, 0, int64(n) - 2} {
				if ack >= int64(n) || ack < -1 || (ack == 0 && n == 1) {
					continue
				}
				idx++
				if !f.Mine(idx) {
					continue
				}
				if f.Expired() {
					rep.Cap("deadline")
					return
				}
				no++
				rep.Evaluations++
				rep.DistinctNontrivial++
				runFaultyOpenCase(rep, f, profile, n, ack, no)
			}
		}
	}
	// explicit index resets
	for _, profile := range []string{"half", "big", "tiny", "mixed"} {
		for _, n := range []int{1, 5, 6, 9, 10} {
			for s := int64(-1); s <= int64(n)+5; s++ {
				for _, m := range []int{1, 2, 5} {
					for wg := 0; wg < 4; wg++ {
						idx++
						if !f.Mine(idx) {
							continue
						}
						if f.Expired() {
							rep.Cap("deadline")
							return
						}
						no++
						rep.Evaluations++
						rep.DistinctNontrivial++
						runResetCase(rep, f, profile, n, s, m, wg, no)
					}
				}
			}
		}
	}
	// long logs: page ids cross a decimal digit boundary (9 -> 10, 99 -> 100) in the data pages (profile big: one
	// message per data page) or in the index pages (profile tiny: 4 entries per index page); one group, every
	// acknowledged position for the shorter logs, the positions around the boundary for the longer ones.
	type long struct {
		profile string
		n       int
	}
	longs := []long{{"big", 11}, {"big", 12}, {"big", 13}, {"tiny", 41}, {"tiny", 45}, {"tiny", 49}, {"half", 23}, {"big", 102}, {"tiny", 406}}
	rep.Bounds["long_logs"] = len(longs)
	for _, l := range longs {
		var acks []int64
		if l.n < 60 {
			for a := int64(-1); a < int64(l.n); a++ {
				acks = append(acks, a)
			}
		} else {
			acks = []int64{-1}
			per := int64(1)
			if l.profile == "tiny" {
				per = 4
			}
			for a := int64(l.n) - 1 - 5*per; a < int64(l.n); a++ {
				acks = append(acks, a)
			}
		}
		for _, a := range acks {
			for _, twice := range []bool{false, true} {
				idx++
				if !f.Mine(idx) {
					continue
				}
				if f.Expired() {
					rep.Cap("deadline")
					return
				}
				no++
				rep.Evaluations++
				rep.DistinctNontrivial++
				runGCCase(rep, f, gcCase{Part: "gcscan", Profile: l.profile, N: l.n, AckA: a, AckB: -2, Twice: twice}, no)
			}
		}
	}
}

// runFaultyOpenCase: n appends, one group acknowledges up to ack, Sync, close. Then, for every k, a start of the queue
// whose k-th open (and, separately, k-th mapping) of a page file fails once - the start may fail or succeed - followed
// by a clean start: positions are what they were and every message above the acknowledged position reads back.
func runFaultyOpenCase(rep *vevid.Report, f *vevid.Flags, profile string, n int, ack int64, no int) {
	scen := fmt.Sprintf("faulty-open/%s", profile)
	cfg := fmt.Sprintf("profile=%s appends=%d ack=%d", profile, n, ack)
	viol := func(clause, site, detail string) {
		rep.Violate(vevid.Violation{Clause: clause, Scenario: scen, Site: site, Detail: cfg + ": " + detail, Replay: replay{Part: "gcscan", Config: cfg}})
	}
	dir := filepath.Join(f.Scratch, fmt.Sprintf("fo%d", no))
	_ = os.RemoveAll(dir)
	defer os.RemoveAll(dir)
	defer func() { page.VerifPageFault = nil }()
	defer func() {
		if r := recover(); r != nil {
			viol("panic", "pkg/queue", fmt.Sprint(r))
		}
	}()
	fq, err := queue.NewFanOutQueue(dir, 0)
	if err != nil {
		vevid.OpFailed("new fan-out queue: %v", err)
	}
	g, err := fq.GetOrCreateConsumerGroup("a")
	if err != nil {
		vevid.OpFailed("group: %v", err)
	}
	for i := 0; i < n; i++ {
		if err := fq.Queue().Put(gcPayload(profile, i)); err != nil {
			viol("put-failed", "queue.Put", fmt.Sprintf("append %d: %v", i, err))
			fq.Close()
			return
		}
	}
	for s := int64(0); s <= ack; s++ {
		g.Consume()
	}
	if ack >= 0 {
		g.Ack(ack)
	}
	fq.Sync()
	fq.Close()
	want := int64(n - 1)
	faults := 0
	for _, kind := range []string{"open", "map"} {
		for k := 1; ; k++ {
			seen, hit := 0, false
			page.VerifPageFault = func(op, file string) error {
				if op != kind {
					return nil
				}
				seen++
				if seen == k {
					hit = true
					return fmt.Errorf("injected %s failure of %s", op, filepath.Base(file))
				}
				return nil
			}
			q1, err := queue.NewFanOutQueue(dir, 0)
			if err == nil {
				// groups are loaded lazily: touch the group too
				_, _ = q1.GetOrCreateConsumerGroup("a")
				q1.Close()
			}
			page.VerifPageFault = nil
			if !hit {
				break // a complete start performs fewer than k operations of this kind
			}
			faults++
			q2, err := queue.NewFanOutQueue(dir, 0)
			if err != nil {
				viol("reopen-failed", "queue.NewFanOutQueue", fmt.Sprintf("clean start after a start whose %s #%d failed: %v", kind, k, err))
				return
			}
			when := fmt.Sprintf("after a start whose %s #%d of a page file failed and a clean start", kind, k)
			bad := false
			if app := q2.Queue().AppendedSeq(); app != want {
				viol("positions", "queue", fmt.Sprintf("%s: appended %d, expected %d", when, app, want))
				bad = true
			}
			if qa := q2.Queue().AcknowledgedSeq(); qa != ack {
				viol("positions", "queue", fmt.Sprintf("%s: queue ack %d, expected %d", when, qa, ack))
				bad = true
			}
			for s := ack + 1; s <= want && !bad; s++ {
				b, err := q2.Queue().Get(s)
				if err != nil || !bytes.Equal(b, gcPayload(profile, int(s))) {
					viol("unacked-readable", "queue.Get", fmt.Sprintf("%s: message %d reads %d bytes %q... err=%v, appended %d bytes", when, s, len(b), head(b), err, len(gcPayload(profile, int(s)))))
					bad = true
				}
			}
			if g2, err := q2.GetOrCreateConsumerGroup("a"); err != nil {
				viol("reopen-failed", "GetOrCreateConsumerGroup", fmt.Sprintf("%s: %v", when, err))
				bad = true
			} else if g2.AcknowledgedSeq() != ack {
				viol("positions-survive-reopen", "ConsumerGroup", fmt.Sprintf("%s: group ack %d, expected %d", when, g2.AcknowledgedSeq(), ack))
				bad = true
			}
			q2.Close()
			if bad {
				return
			}
		}
	}
	rep.Count("failed_starts", int64(faults))
	rep.Outcome(fmt.Sprintf("faulty-open %s n=%d faults=%d", profile, n, faults))
}
