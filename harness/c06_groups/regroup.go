package main

// Scenario "regroup" of part conc: a consumer group that was stopped (its meta page stays on disk) is created again
// while another thread runs Sync + GC. Whichever way the two interleave, when both are done the queue-wide
// acknowledged position is not beyond the acknowledged position of any group that exists, and every message such a
// group has not acknowledged is still readable. Every schedule with <=2 (quick) / <=3 (thorough) preemptions.

import (
	"bytes"
	"fmt"
	"os"
	"path/filepath"
	"strings"

	"github.com/lindb/lindb/internal/vevid"
	"github.com/lindb/lindb/internal/vsched"
	"github.com/lindb/lindb/pkg/queue"
	"github.com/lindb/lindb/verif_h/qpages"
)

type rgWorld struct {
	dir  string
	fq   queue.FanOutQueue
	errs []string
	b    queue.ConsumerGroup
}

var rgw *rgWorld

func rgBody() {
	cExecNo++
	dir := filepath.Join(cScratch, fmt.Sprintf("g%d", cExecNo))
	_ = os.RemoveAll(dir)
	w := &rgWorld{dir: dir}
	rgw = w
	if cRealPageFn == nil {
		cRealPageFn = queue.VerifSetPageFactory(nil)
	}
	prec := qpages.NewRecorder(dir)
	prec.Before = func(op, rel string) { vsched.Point("store:"+op, nil) }
	queue.VerifSetPageFactory(prec.Wrap(cRealPageFn))
	vsched.Quiet(true)
	fq, err := queue.NewFanOutQueue(dir, 0)
	if err != nil {
		vevid.OpFailed("new fan-out queue: %v", err)
	}
	w.fq = fq
	a, err := fq.GetOrCreateConsumerGroup("a")
	if err != nil {
		vevid.OpFailed("group: %v", err)
	}
	b, err := fq.GetOrCreateConsumerGroup("b")
	if err != nil {
		vevid.OpFailed("group: %v", err)
	}
	for i := 0; i < 6; i++ {
		if err := fq.Queue().Put(payload(nil, i)); err != nil {
			vevid.OpFailed("preload: %v", err)
		}
	}
	for i := 0; i < 6; i++ {
		a.Consume()
	}
	a.Ack(5)
	for i := 0; i < 4; i++ {
		b.Consume()
	}
	b.Ack(1)
	fq.Sync() // queue ack 1
	fq.StopConsumerGroup("b")
	vsched.Quiet(false)
	vsched.Spawn("creator", func() {
		g, err := fq.GetOrCreateConsumerGroup("b")
		if err != nil {
			w.errs = append(w.errs, "GetOrCreateConsumerGroup: "+err.Error())
			return
		}
		w.b = g
	})
	vsched.Spawn("syncer", func() {
		fq.Sync()
		fq.Queue().GC()
	})
}

func rgFinish(rep *vevid.Report, x *vsched.Result) {
	w := rgw
	viol := func(clause, site, detail string) {
		rep.Violate(vevid.Violation{Clause: clause, Scenario: "conc/regroup", Site: site, Detail: detail + "\nlog: " + strings.Join(x.Log, " | "),
			Replay: replay{Part: "conc", Config: "regroup", Choices: x.Choices()}})
	}
	defer func() {
		if r := recover(); r != nil {
			viol("panic", "pkg/queue", fmt.Sprint(r))
		}
		_ = os.RemoveAll(w.dir)
	}()
	if x.Deadlock {
		viol("deadlock", "pkg/queue", x.WaitGraph)
		return
	}
	if x.Horizon {
		viol("livelock", "pkg/queue", x.WaitGraph)
		return
	}
	for _, p := range x.Panics {
		viol("panic", "pkg/queue", p)
	}
	for _, e := range w.errs {
		viol("operation-failed", "pkg/queue", e)
	}
	if w.b != nil {
		qa, ack, app := w.fq.Queue().AcknowledgedSeq(), w.b.AcknowledgedSeq(), w.fq.Queue().AppendedSeq()
		if qa > ack {
			viol("queue-ack-beyond-group-ack", "FanOutQueue.GetOrCreateConsumerGroup / Sync", fmt.Sprintf("group b exists with acknowledged position %d, the queue-wide acknowledged position is %d", ack, qa))
		}
		for s := ack + 1; s <= app; s++ {
			got, err := w.fq.Queue().Get(s)
			if err != nil || !bytes.Equal(got, payload(nil, int(s))) {
				viol("unacked-readable", "queue.Get", fmt.Sprintf("message %d is above the acknowledged position %d of the existing group b but reads err=%v", s, ack, err))
				break
			}
		}
		rep.Outcome(fmt.Sprintf("regroup qa=%d b.ack=%d", qa, ack))
	}
	w.fq.Close()
}

func runRegroup(f *vevid.Flags, rep *vevid.Report) {
	bound := 2
	if f.Thorough() {
		bound = 3
	}
	rep.Bounds["preemption_bound_regroup"] = bound
	e := &vsched.Explorer{Bound: bound, Horizon: 200000, Body: rgBody, Shard: f.Shard, Shards: f.Shards, Deadline: f.Deadline}
	e.Check = func(x *vsched.Result) {
		rgFinish(rep, x)
		if len(x.Points) > 0 {
			rep.DistinctNontrivial++
		}
	}
	e.Discard = func(x *vsched.Result) {
		if !x.Deadlock && !x.Horizon && rgw != nil && rgw.fq != nil {
			rgw.fq.Close()
		}
		if rgw != nil {
			_ = os.RemoveAll(rgw.dir)
		}
	}
	e.Explore()
	if e.Diverged != "" {
		vevid.Fatal("replay divergence in regroup: %s", e.Diverged)
	}
	if e.Capped {
		rep.Cap("deadline reached in scenario regroup")
	}
	rep.Evaluations += e.Executions
	rep.States += e.Executions
	rep.Transitions += e.Points
	rep.TracesValidated += e.Executions
	rep.Count("schedules[regroup]", e.Executions)
}
