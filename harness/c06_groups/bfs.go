package main

import (
	"bytes"
	"crypto/sha256"
	"encoding/hex"
	"fmt"
	"os"
	"path/filepath"
	"runtime/debug"
	"sort"
	"strconv"
	"strings"
	"time"

	"github.com/lindb/lindb/internal/vevid"
	"github.com/lindb/lindb/internal/vxstate"
	"github.com/lindb/lindb/pkg/queue"
)

// ---------------------------------------------------------------------------------------------
// configurations: one independent BFS (to fixpoint) per configuration; configurations are dealt
// round-robin to the worker shards (the xstate engine's own sharding is redundant for this system:
// almost every state is reachable below every depth-1 state).

type bconfig struct {
	Name   string   `json:"name"`
	Sizes  []int    `json:"sizes"`  // payload size of the i-th append; len = max number of appends
	Groups []string `json:"groups"` // group names of the alphabet
	Lite   []string `json:"lite"`   // groups with the restricted alphabet create / consume / ack (no stop, no setConsumed)
	QAck   bool     `json:"qack"`   // extra event qack(s): Queue().SetAcknowledgedSeq(s) called directly, s in [-1..appended+1]
}

func (c *bconfig) lite(g string) bool {
	for _, n := range c.Lite {
		if n == g {
			return true
		}
	}
	return false
}

// size profiles against the 64-byte data page / 4 index items per index page
var profiles = map[string][]int{
	"half":  {30, 30, 30, 30, 30}, // two messages per data page: data pages roll at seq 2, 4
	"big":   {60, 60, 60, 60, 60}, // every message has its own data page
	"tiny":  {3, 3, 3, 3, 3},      // one data page; only the index page rolls (seq 4)
	"mixed": {3, 60, 30, 30, 3},   // 3+60 share page 0 (63 bytes), 30+30+3 share page 1
	"exact": {34, 30, 1, 64, 10},  // 34+30 fill page 0 exactly, 1 rolls, 64 = a whole page, 10 rolls again
}

// mkcfg("half", 3, "ab") = groups a and b with the full alphabet; "a+b" = a full, b restricted (lite);
// a trailing "!" adds the direct queue-ack event (outside the statement's operation list: it exercises the
// "only forward, never beyond appended" mechanism of SetAcknowledgedSeq itself, which Sync alone cannot
// violate because it starts from the appended position; the group-minimum clause is not applied to it).
func mkcfg(profile string, appends int, groups string) bconfig {
	c := bconfig{Name: fmt.Sprintf("%s/%d/%s", profile, appends, groups), Sizes: profiles[profile][:appends]}
	lite := false
	for _, r := range groups {
		if r == '+' {
			lite = true
			continue
		}
		if r == '!' {
			c.QAck = true
			continue
		}
		c.Groups = append(c.Groups, string(r))
		if lite {
			c.Lite = append(c.Lite, string(r))
		}
	}
	return c
}

func parseCfg(name string) (bconfig, bool) {
	p := strings.Split(name, "/")
	if len(p) != 3 || profiles[p[0]] == nil {
		return bconfig{}, false
	}
	k, err := strconv.Atoi(p[1])
	if err != nil || k < 1 || k > len(profiles[p[0]]) {
		return bconfig{}, false
	}
	return mkcfg(p[0], k, p[2]), true
}

// the state space of "<= n appends" contains that of "<= n-1 appends", and "ab" contains "a+b" and "a".
func bfsConfigs(thorough bool) []bconfig {
	var names []string
	if thorough {
		names = []string{
			"half/4/ab", "big/4/ab", "mixed/4/ab", "exact/4/ab", "tiny/4/ab",
			"half/5/a+b", "tiny/5/a+b", "big/5/a+b",
			"half/5/a", "big/5/a", "tiny/5/a", "mixed/5/a", "exact/5/a",
			"half/4/a!", "big/4/a!", "half/3/a+b!",
		}
	} else {
		names = []string{
			"big/2/ab", "exact/2/ab", // (half/2/ab has the same page structure as exact/2/ab)
			"half/3/a+b", "big/3/a+b", "exact/3/a+b", // (mixed/3 has the same page structure as half/3)
			"half/5/a", "big/5/a", "tiny/5/a", "exact/5/a",
			"half/3/a!", "big/3/a!",
		}
	}
	var out []bconfig
	for _, n := range names {
		c, ok := parseCfg(n)
		if !ok {
			vevid.Fatal("bad configuration name %q", n)
		}
		out = append(out, c)
	}
	return out
}

// ---------------------------------------------------------------------------------------------

type gpos struct{ C, K int64 }

type light struct {
	A, Q int64
	G    map[string]gpos // live groups
}

func (l light) String() string {
	var names []string
	for n := range l.G {
		names = append(names, n)
	}
	sort.Strings(names)
	s := fmt.Sprintf("appended=%d queueAck=%d", l.A, l.Q)
	for _, n := range names {
		s += fmt.Sprintf(" %s{consumed=%d ack=%d}", n, l.G[n].C, l.G[n].K)
	}
	return s
}

func (l light) equal(o light) bool {
	if l.A != o.A || l.Q != o.Q || len(l.G) != len(o.G) {
		return false
	}
	for n, p := range l.G {
		if q, ok := o.G[n]; !ok || q != p {
			return false
		}
	}
	return true
}

func orderOK(p gpos, a int64) bool { return p.K <= p.C && p.C <= a }

type bsys struct {
	cfg  *bconfig
	dir  string
	fq   queue.FanOutQueue
	live map[string]queue.ConsumerGroup
	disk map[string]gpos // stopped groups (meta page still on disk): positions when they were stopped
	hist []string
	dead string // non-empty: the queue could not be reopened (reported once), no further events

	// last event
	pre      light
	preDisk  map[string]gpos
	preBad   map[int64]bool // sequences in (queue ack, appended] that were already unreadable before the event
	ev       string
	ret      int64
	same     bool
	opErr    string
	panicMsg string
	canon    string
}

var (
	bfsRep    *vevid.Report
	bfsSeq    int
	bfsRoot   string
	bfsSeen   = map[string]struct{}{}
	bfsQuiet  bool // replay of a stored history: report every step
	bfsNoDist bool
)

func newBsys(cfg *bconfig) (*bsys, error) {
	bfsSeq++
	dir := filepath.Join(bfsRoot, fmt.Sprintf("q%d", bfsSeq))
	_ = os.RemoveAll(dir)
	fq, err := queue.NewFanOutQueue(dir, 0)
	if err != nil {
		return nil, err
	}
	return &bsys{cfg: cfg, dir: dir, fq: fq, live: map[string]queue.ConsumerGroup{}, disk: map[string]gpos{}}, nil
}

func (s *bsys) Close() {
	if s.fq != nil {
		func() {
			defer func() { _ = recover() }()
			s.fq.Close()
		}()
	}
	_ = os.RemoveAll(s.dir)
}

func (s *bsys) observe() light {
	l := light{A: s.fq.Queue().AppendedSeq(), Q: s.fq.Queue().AcknowledgedSeq(), G: map[string]gpos{}}
	for n, g := range s.live {
		l.G[n] = gpos{C: g.ConsumedSeq(), K: g.AcknowledgedSeq()}
	}
	return l
}

// read returns the bytes of sequence q or an error if it is not readable with the bytes it was appended with.
func (s *bsys) read(q int64) (got []byte, err error) {
	defer func() {
		if r := recover(); r != nil {
			err = fmt.Errorf("Get panics: %v", r)
		}
	}()
	b, err := s.fq.Queue().Get(q)
	if err != nil {
		return nil, fmt.Errorf("not readable: %v", err)
	}
	got = append([]byte(nil), b...)
	if want := payload(s.cfg.Sizes, int(q)); !bytes.Equal(got, want) {
		return got, fmt.Errorf("reads %s, appended as %s", describeBytes(got), describeBytes(want))
	}
	return got, nil
}

func (s *bsys) liveNames() []string {
	var names []string
	for n := range s.live {
		names = append(names, n)
	}
	sort.Strings(names)
	return names
}

// Enabled: the alphabet of the statement's quantifier. ack / set-consumed arguments range over
// [-1 .. appended+1] (one below the smallest and one above the largest meaningful position).
func (s *bsys) Enabled() []string {
	if s.dead != "" {
		return nil
	}
	cur := s.observe()
	var evs []string
	if int(cur.A)+1 < len(s.cfg.Sizes) {
		evs = append(evs, "append")
	}
	for _, g := range s.cfg.Groups {
		if _, ok := s.live[g]; ok {
			evs = append(evs, "consume:"+g)
			for v := int64(-1); v <= cur.A+1; v++ {
				evs = append(evs, fmt.Sprintf("ack:%s:%d", g, v))
			}
			if !s.cfg.lite(g) {
				for v := int64(-1); v <= cur.A+1; v++ {
					evs = append(evs, fmt.Sprintf("setc:%s:%d", g, v))
				}
				evs = append(evs, "stop:"+g)
			}
		}
		evs = append(evs, "create:"+g) // also on a live group: GetOrCreate must hand back the same group
	}
	evs = append(evs, "sync", "gc", "reopen")
	if s.cfg.QAck {
		for v := int64(-1); v <= cur.A+1; v++ {
			evs = append(evs, fmt.Sprintf("qack::%d", v))
		}
	}
	return evs
}

func parseEv(ev string) (kind, g string, arg int64) {
	p := strings.Split(ev, ":")
	kind = p[0]
	if len(p) > 1 {
		g = p[1]
	}
	if len(p) > 2 {
		arg, _ = strconv.ParseInt(p[2], 10, 64)
	}
	return
}

func (s *bsys) Apply(ev string) (err error) {
	s.canon = ""
	s.hist = append(s.hist, ev)
	s.ev, s.ret, s.same, s.opErr, s.panicMsg = ev, 0, false, "", ""
	if s.dead != "" {
		return fmt.Errorf("event %q on a dead system (%s)", ev, s.dead)
	}
	s.pre = s.observe()
	s.preBad = map[int64]bool{}
	for q := s.pre.Q + 1; q <= s.pre.A; q++ {
		if _, err := s.read(q); err != nil {
			s.preBad[q] = true
		}
	}
	s.preDisk = map[string]gpos{}
	for n, p := range s.disk {
		s.preDisk[n] = p
	}
	kind, g, arg := parseEv(ev)
	defer func() {
		if r := recover(); r != nil {
			// a panic (or a fault on an unmapped page, see SetPanicOnFault) in lindb code on a legal call
			s.panicMsg = fmt.Sprintf("%v\n%s", r, stack())
			if s.fq == nil {
				s.dead = "panic during reopen"
			}
		}
	}()
	needLive := func() (queue.ConsumerGroup, error) {
		cg, ok := s.live[g]
		if !ok {
			return nil, fmt.Errorf("event %q: group %s is not live", ev, g)
		}
		return cg, nil
	}
	switch kind {
	case "append":
		if e := s.fq.Queue().Put(payload(s.cfg.Sizes, int(s.pre.A)+1)); e != nil {
			s.opErr = e.Error()
		}
	case "consume":
		cg, e := needLive()
		if e != nil {
			return e
		}
		if s.pre.G[g].C+1 <= s.pre.A {
			s.ret = cg.Consume() // the public call (would park on the condition variable if nothing were available)
		} else {
			s.ret = queue.VerifTryConsume(cg) // the same consume step without parking
		}
	case "ack":
		cg, e := needLive()
		if e != nil {
			return e
		}
		cg.Ack(arg)
	case "setc":
		cg, e := needLive()
		if e != nil {
			return e
		}
		cg.SetConsumedSeq(arg)
	case "sync":
		s.fq.Sync()
	case "qack":
		s.fq.Queue().SetAcknowledgedSeq(arg)
	case "gc":
		s.fq.Queue().GC()
	case "create":
		cg, e := s.fq.GetOrCreateConsumerGroup(g)
		if e != nil {
			s.opErr = e.Error()
			break
		}
		if old, ok := s.live[g]; ok {
			s.same = old == cg
		}
		s.live[g] = cg
		delete(s.disk, g)
	case "stop":
		if _, e := needLive(); e != nil {
			return e
		}
		s.disk[g] = s.pre.G[g]
		s.fq.StopConsumerGroup(g)
		delete(s.live, g)
	case "reopen":
		s.fq.Close()
		s.fq = nil
		fq, e := queue.NewFanOutQueue(s.dir, 0)
		if e != nil {
			s.opErr = e.Error()
			s.dead = "reopen failed: " + e.Error()
			break
		}
		s.fq = fq
		s.live = map[string]queue.ConsumerGroup{}
		names := fq.ConsumerGroupNames()
		sort.Strings(names)
		for _, n := range names {
			cg, e := fq.GetOrCreateConsumerGroup(n)
			if e != nil {
				s.opErr = e.Error()
				continue
			}
			s.live[n] = cg
		}
		s.disk = map[string]gpos{}
	default:
		return fmt.Errorf("unknown event %q", ev)
	}
	return nil
}

// Canon: in-memory positions + status of every group + the complete directory image (names and bytes
// of the queue meta page, every existing data and index page, every group meta page).
//
// Why merged states have the same futures for the property: every result of the public API is a
// function of (1) the in-memory positions - queue appended / acknowledged, per live group consumed /
// acknowledged - which are listed verbatim; (2) the set of live groups (listed) and the set of group
// directories on disk, which decides whether GetOrCreate / reopen finds persisted positions (part of
// the image); (3) the page maps of the three factories, which AcquirePage / TruncatePages / loadPages
// keep equal to the set of page files on disk (part of the image); (4) the page contents = bytes of
// all live (and dead) messages, index entries, persisted positions (part of the image; MAP_SHARED
// stores are visible to read(2) at once); (5) the append cursor (data page index, message offset,
// index page index), which is the end of the last index entry both when kept in memory and when
// recomputed by initDataPageIndex on reopen (C05), i.e. a function of appended and the index page
// bytes. The closed / paused flags of live objects are never set by the alphabet (stop and reopen
// discard the object). The payload of sequence i is a fixed function of i, so Get results depend on
// nothing else. The canon is therefore at least as fine as the projection required by the design
// (appended, queue ack, per group consumed/ack, page file set, live message bytes).
func (s *bsys) Canon() string {
	if s.canon != "" {
		return s.canon
	}
	if s.dead != "" {
		s.canon = "DEAD " + s.dead + " after " + strings.Join(s.hist, ",")
		return s.canon
	}
	var b strings.Builder
	cur := s.observe()
	fmt.Fprintf(&b, "A=%d Q=%d", cur.A, cur.Q)
	for _, n := range s.cfg.Groups {
		if p, ok := cur.G[n]; ok {
			fmt.Fprintf(&b, " %s=live(%d,%d)", n, p.C, p.K)
		} else if _, ok := s.disk[n]; ok {
			fmt.Fprintf(&b, " %s=stopped", n)
		} else {
			fmt.Fprintf(&b, " %s=none", n)
		}
	}
	h := sha256.New()
	b.WriteString(" files=")
	_ = filepath.Walk(s.dir, func(p string, fi os.FileInfo, err error) error {
		if err != nil || fi.IsDir() {
			return nil
		}
		rel, _ := filepath.Rel(s.dir, p)
		data, _ := os.ReadFile(p)
		fmt.Fprintf(h, "%s:%d:", rel, len(data))
		h.Write(data)
		if strings.HasPrefix(rel, "data") || strings.HasPrefix(rel, "index") {
			b.WriteString(strings.TrimSuffix(rel, ".bat") + ",")
		}
		return nil
	})
	b.WriteString(" img=" + hex.EncodeToString(h.Sum(nil)[:10]))
	s.canon = b.String()
	return s.canon
}

func (s *bsys) Invariant(prevCanon, ev string) []vxstate.Finding {
	var out []vxstate.Finding
	add := func(clause, site, detail string) {
		out = append(out, vxstate.Finding{Clause: clause, Site: site, Detail: detail})
	}
	kind, g, arg := parseEv(s.ev)
	if ev == "" {
		kind = "init"
	}
	site := kind
	if s.panicMsg != "" {
		add("panic", site, s.panicMsg)
	}
	if s.dead != "" {
		add("reopen-failed", site, s.dead)
		s.report(out)
		return out
	}
	post := s.observe()
	pre := s.pre
	if ev == "" {
		pre = post
	}
	ctx := fmt.Sprintf("before: %s | after: %s", pre, post)
	if s.opErr != "" {
		add("op-failed", site, s.opErr+" | "+ctx)
	}

	// ---- queue-wide acknowledged position
	if post.Q < pre.Q {
		add("queue-ack-backward", site, ctx)
	}
	if post.Q > post.A && !(pre.Q > pre.A) {
		add("queue-ack-beyond-appended", site, ctx)
	}
	if post.Q != pre.Q && kind != "qack" {
		for n, p := range post.G { // the groups existing at the moment the position moved
			if post.Q > p.K {
				add("queue-ack-beyond-group-ack", site, fmt.Sprintf("queue ack moved %d -> %d while existing group %s has ack %d | %s", pre.Q, post.Q, n, p.K, ctx))
			}
		}
	}
	// ---- appended moves by exactly one on append, never otherwise (the payload of a sequence is indexed by it)
	wantA := pre.A
	if kind == "append" && s.opErr == "" {
		wantA++
	}
	if post.A != wantA {
		add("appended-moved", site, ctx)
	}

	// ---- per group: ack <= consumed <= appended is preserved by everything except an explicit reset of that group
	for n, p := range post.G {
		if orderOK(p, post.A) {
			continue
		}
		if (kind == "setc") && n == g {
			continue // explicit index reset
		}
		was, existed := pre.G[n]
		if !existed {
			was, existed = s.preDisk[n]
		}
		if existed && !orderOK(was, pre.A) {
			continue // already outside the order because of an earlier explicit reset
		}
		clause := "order"
		switch {
		case kind == "reopen":
			clause = "order-after-reopen"
		case kind == "create" && existed:
			clause = "order-after-recreate"
		case kind == "create":
			clause = "order-new-group"
		}
		add(clause, site, fmt.Sprintf("group %s: ack=%d consumed=%d appended=%d violates ack <= consumed <= appended (no explicit reset involved; before: %v) | %s", n, p.K, p.C, post.A, was, ctx))
	}

	// ---- every message above the queue ack is readable with its original bytes
	for q := post.Q + 1; q <= post.A; q++ {
		if s.preBad[q] {
			continue // reported when it became unreadable
		}
		_, err := s.read(q)
		if err != nil {
			clause := "readable"
			if kind == "gc" {
				clause = "gc-removed-unacked"
			}
			add(clause, site, fmt.Sprintf("sequence %d in (queue ack %d, appended %d]: %v | %s", q, post.Q, post.A, err, ctx))
		}
	}

	// ---- event specific clauses
	outcome := kind
	switch kind {
	case "consume":
		c := pre.G[g].C
		want := int64(-1)
		if c+1 <= pre.A {
			want = c + 1
		}
		if s.panicMsg == "" {
			if s.ret != want {
				add("consume-consecutive", site, fmt.Sprintf("consume(%s) returned %d, expected %d (consumed was %d, appended %d) | %s", g, s.ret, want, c, pre.A, ctx))
			}
			wantC := c
			if want >= 0 {
				wantC = want
			}
			if post.G[g].C != wantC {
				add("consume-consecutive", site, fmt.Sprintf("consume(%s) returned %d but the consumed position is %d (the next consume would not be consecutive) | %s", g, s.ret, post.G[g].C, ctx))
			}
		}
		if want >= 0 {
			outcome = "consume:seq"
			if want <= pre.Q {
				outcome = "consume:seq-below-queue-ack"
			}
		} else {
			outcome = "consume:none"
		}
	case "ack":
		p := pre.G[g]
		in := p.K <= arg && arg <= p.C
		if !in {
			if !post.equal(pre) {
				add("ack-ignored", site, fmt.Sprintf("ack(%s,%d) outside [ack=%d, consumed=%d] changed positions | %s", g, arg, p.K, p.C, ctx))
			}
			if arg < p.K {
				outcome = "ack:ignored-below"
			} else {
				outcome = "ack:ignored-above"
			}
		} else {
			if post.G[g].K != arg {
				add("ack-applied", site, fmt.Sprintf("ack(%s,%d) inside [ack=%d, consumed=%d] left ack at %d | %s", g, arg, p.K, p.C, post.G[g].K, ctx))
			}
			outcome = "ack:applied"
			if arg == p.K {
				outcome = "ack:applied-same"
			}
		}
	case "setc":
		if post.G[g].C != arg {
			add("set-consumed", site, fmt.Sprintf("setConsumed(%s,%d) left consumed at %d | %s", g, arg, post.G[g].C, ctx))
		}
		switch {
		case arg < pre.G[g].K:
			outcome = "setc:below-ack"
		case arg > pre.A:
			outcome = "setc:above-appended"
		default:
			outcome = "setc:in-order"
		}
	case "qack":
		switch {
		case arg <= pre.Q:
			outcome = "qack:not-forward"
		case arg > pre.A:
			outcome = "qack:beyond-appended"
		default:
			outcome = "qack:forward"
		}
	case "sync":
		if post.Q != pre.Q {
			outcome = "sync:moved"
		} else if len(pre.G) == 0 {
			outcome = "sync:no-groups"
		} else {
			outcome = "sync:same"
		}
	case "gc":
		outcome = "gc"
		if prevCanon != "" {
			if filesOf(prevCanon) != filesOf(s.Canon()) {
				outcome = "gc:removed:" + filesOf(prevCanon) + "->" + filesOf(s.Canon())
			}
		}
	case "stop":
		for _, n := range s.fq.ConsumerGroupNames() {
			if n == g {
				add("stop", site, "stopped group "+g+" is still listed | "+ctx)
			}
		}
	case "create":
		_, wasLive := pre.G[g]
		was, wasDisk := s.preDisk[g]
		switch {
		case wasLive:
			if s.opErr == "" && (!s.same || !post.equal(pre)) {
				add("create-existing", site, fmt.Sprintf("GetOrCreate of existing group %s: same object=%v | %s", g, s.same, ctx))
			}
			outcome = "create:existing"
		case wasDisk:
			if p, ok := post.G[g]; ok {
				s.checkSurvive(add, "recreate-positions", site, g, was, p, post.Q, ctx)
				outcome = "create:stopped"
				if p.K != was.K {
					outcome = "create:stopped-ack-lifted"
				}
			}
		default:
			outcome = "create:new"
			if post.Q >= 0 {
				outcome = "create:new-queue-ack>=0"
			}
		}
	case "reopen":
		if post.A != pre.A || post.Q != pre.Q {
			add("reopen-positions", site, "queue positions changed by close/reopen | "+ctx)
		}
		outcome = "reopen"
		check := func(n string, was gpos) {
			p, ok := post.G[n]
			if !ok {
				add("reopen-positions", site, fmt.Sprintf("group %s is gone after close/reopen | %s", n, ctx))
				return
			}
			s.checkSurvive(add, "reopen-positions", site, n, was, p, post.Q, ctx)
			if p.K != was.K {
				outcome = "reopen:ack-lifted"
			}
		}
		for n, was := range pre.G {
			check(n, was)
		}
		for n, was := range s.preDisk {
			check(n, was)
			if outcome == "reopen" {
				outcome = "reopen:stopped-group-back"
			}
		}
		for n := range post.G {
			_, a := pre.G[n]
			_, b := s.preDisk[n]
			if !a && !b {
				add("reopen-positions", site, fmt.Sprintf("group %s appeared by close/reopen | %s", n, ctx))
			}
		}
	}
	bfsRep.Outcome(outcome)
	if !bfsNoDist {
		c := s.Canon()
		if _, ok := bfsSeen[c]; !ok {
			bfsSeen[c] = struct{}{}
			// non-trivial: at least one message appended and at least one live group
			if post.A >= 0 && len(post.G) > 0 {
				bfsRep.DistinctNontrivial++
			}
		}
	}
	s.report(out)
	return out
}

// positions survive close / reopen (or stop / re-create): consumed and ack unchanged, or - the mechanism
// named by the property ("a reopened group never starts below the queue ack") - lifted to the queue ack
// if the group's ack was below it.
func (s *bsys) checkSurvive(add func(clause, site, detail string), clause, site, n string, was, now gpos, q int64, ctx string) {
	// (consumed may follow the lifted ack up to the queue ack: sequences at or below the queue ack no longer exist)
	if now.C != was.C && !(was.K < q && was.C < q && now.C == q) {
		add(clause, site, fmt.Sprintf("group %s: consumed %d -> %d | %s", n, was.C, now.C, ctx))
	}
	if now.K != was.K && !(was.K < q && now.K == q) {
		add(clause, site, fmt.Sprintf("group %s: ack %d -> %d (queue ack %d) | %s", n, was.K, now.K, q, ctx))
	}
}

func filesOf(canon string) string {
	i := strings.Index(canon, " files=")
	j := strings.Index(canon, " img=")
	if i < 0 || j < i {
		return ""
	}
	return canon[i+7 : j]
}

func (s *bsys) report(fs []vxstate.Finding) {
	for _, f := range fs {
		bfsRep.Violate(vevid.Violation{Clause: f.Clause, Scenario: "bfs", Site: f.Site,
			Detail: fmt.Sprintf("config %s, history %v: %s", s.cfg.Name, s.hist, f.Detail),
			Replay: replay{Part: "bfs", Config: s.cfg.Name, History: append([]string(nil), s.hist...)}})
	}
}

// ---------------------------------------------------------------------------------------------

func runBFS(f *vevid.Flags, rep *vevid.Report, r replay) {
	debug.SetPanicOnFault(true)
	bfsRep = rep
	bfsRoot = filepath.Join(f.Scratch, "bfs")
	_ = os.MkdirAll(bfsRoot, 0o755)
	defer os.RemoveAll(bfsRoot)
	if f.Replay != "" {
		c, ok := parseCfg(r.Config)
		if !ok {
			vevid.Fatal("replay: unknown config %q", r.Config)
		}
		cfg := &c
		bfsNoDist = true
		fails := 0
		for i := 0; i < 5; i++ {
			before := rep.ViolationCount
			s, err := newBsys(cfg)
			if err != nil {
				vevid.OpFailed("new queue: %v", err)
			}
			prev := s.Canon()
			for _, ev := range r.History {
				if err := s.Apply(ev); err != nil {
					vevid.Fatal("replay: %v", err)
				}
				s.Invariant(prev, ev)
				prev = s.Canon()
			}
			s.Close()
			if rep.ViolationCount > before {
				fails++
			}
			rep.Evaluations++
		}
		rep.Extra["replay_failures_of_5"] = fails
		return
	}
	cfgs := bfsConfigs(f.Thorough())
	if only := os.Getenv("C06_CONFIGS"); only != "" { // debugging / sizing: explicit configuration list
		cfgs = nil
		for _, n := range strings.Split(only, ",") {
			c, ok := parseCfg(n)
			if !ok {
				vevid.Fatal("bad configuration name %q", n)
			}
			cfgs = append(cfgs, c)
		}
	}
	rep.Rule = "one breadth-first search to fixpoint per configuration (payload-size profile x max appends x group names) over the events append, consume(g), ack(g,s) and setConsumed(g,s) for s in [-1..appended+1], sync, gc, create(g) (also on a live group), stop(g), reopen on a real FanOutQueue in a scratch directory; a successor = fresh queue + replay of the shortest history + one event; states deduplicated by (in-memory positions, group status, directory image); the oracle runs on every transition. distinct_nontrivial = distinct canonical states with >=1 appended message and >=1 live group"
	rep.Bounds["ack_and_setConsumed_argument_range"] = "[-1 .. appended+1]"
	var names []string
	maxApp := 0
	for _, c := range cfgs {
		names = append(names, c.Name)
		if len(c.Sizes) > maxApp {
			maxApp = len(c.Sizes)
		}
	}
	rep.Bounds["max_appends"] = maxApp
	rep.Bounds["configurations"] = names
	for i := range cfgs {
		if i%f.Shards != f.Shard {
			continue
		}
		cfg := &cfgs[i]
		bfsSeen = map[string]struct{}{}
		t0 := time.Now()
		se := &vxstate.Search{New: func() (vxstate.System, error) { return newBsys(cfg) }, Deadline: f.Deadline}
		if err := se.Run(); err != nil {
			vevid.Fatal("bfs %s: %v", cfg.Name, err)
		}
		rep.States += se.States
		rep.Transitions += se.Transitions
		rep.TracesValidated += se.Transitions
		rep.Evaluations += se.Transitions
		rep.Count("states["+cfg.Name+"]", se.States)
		rep.Count("transitions["+cfg.Name+"]", se.Transitions)
		rep.Count("depth["+cfg.Name+"]", int64(se.MaxDepthSeen))
		rep.Count("ms["+cfg.Name+"]", time.Since(t0).Milliseconds())
		rep.Count("replayed_handler_calls", se.Replays)
		if se.Fixpoint {
			rep.Count("configs_at_fixpoint", 1)
		}
		if se.Capped != "" {
			rep.Cap("bfs " + cfg.Name + ": " + se.Capped)
		}
		rep.Sample(map[string]interface{}{"config": cfg, "states": se.States, "transitions": se.Transitions, "depth": se.MaxDepthSeen,
			"fixpoint": se.Fixpoint, "states_per_depth": se.DepthCount})
	}
}
