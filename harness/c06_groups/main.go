// C06 harness: WAL consumer groups on the real pkg/queue FanOutQueue (page geometry scaled by overlay:
// 64-byte data pages, 4 index items per index page).
//
//	part "bfs"  - explicit-state BFS (engine/xstate) over the operation alphabet of the statement
//	              (append / consume / ack / set-consumed / sync / gc / create / stop / reopen), see bfs.go
//	part "conc" - every schedule (within a preemption bound) of consume vs ack (vs sync / gc / append)
//	              on one group, per-instant invariants + linearizability, see conc.go
package main

import (
	"bytes"
	"fmt"
	"runtime"
	"strings"

	"github.com/lindb/lindb/internal/vevid"
	"github.com/lindb/lindb/pkg/queue"
)

// payload of the i-th append: distinct first byte per sequence, size from the profile.
func payload(sizes []int, i int) []byte {
	sz := 30
	if i < len(sizes) {
		sz = sizes[i]
	}
	return bytes.Repeat([]byte{byte('a' + i)}, sz)
}

func describeBytes(b []byte) string {
	if len(b) == 0 {
		return "<empty>"
	}
	c := b[0]
	for _, x := range b {
		if x != c {
			return fmt.Sprintf("%q", b)
		}
	}
	return fmt.Sprintf("%c*%d", c, len(b))
}

func stack() string {
	buf := make([]byte, 6000)
	n := runtime.Stack(buf, false)
	var out []string
	for _, l := range strings.Split(string(buf[:n]), "\n") {
		if strings.Contains(l, "runtime/") || strings.Contains(l, "runtime.") {
			continue
		}
		out = append(out, l)
		if len(out) > 14 {
			break
		}
	}
	return strings.Join(out, "\n")
}

type replay struct {
	Part    string   `json:"part"`
	Config  string   `json:"config"`
	History []string `json:"history,omitempty"` // bfs
	Choices []int    `json:"choices,omitempty"` // conc
}

func main() {
	f := vevid.ParseFlags()
	rep := vevid.New("C06")
	dp, ii, _, _ := queue.VerifConstants()
	if dp != 64 || ii != 4 {
		vevid.Fatal("page geometry not scaled: dataPageSize=%d indexItemsPerPage=%d", dp, ii)
	}
	rep.Bounds["dataPageSize"] = dp
	rep.Bounds["indexItemsPerPage"] = ii
	part := f.Part
	var r replay
	if f.Replay != "" {
		vevid.LoadReplay(f.Replay, &r)
		if r.Part != "" {
			part = r.Part
		}
	}
	switch part {
	case "bfs":
		runBFS(f, rep, r)
	case "conc":
		runConc(f, rep, r)
	case "gcscan":
		runGCScan(f, rep)
	default:
		vevid.Fatal("unknown part %q", part)
	}
	rep.Write()
}
