package main

import (
	"bytes"
	"fmt"
	"os"
	"path/filepath"
	"runtime/debug"
	"strconv"
	"strings"
	"time"

	"github.com/lindb/lindb/internal/vevid"
	"github.com/lindb/lindb/internal/vsched"
	"github.com/lindb/lindb/pkg/queue"
	"github.com/lindb/lindb/pkg/queue/page"
	"github.com/lindb/lindb/verif_h/qpages"
)

// A scenario: sequential prefix (preload / pre-consume / pre-ack), then the threads run concurrently on ONE group.
// ops: consume | ack:<s> | sync | gc | put
type cscenario struct {
	Name       string     `json:"name"`
	Preload    int        `json:"preload"`     // 30-byte messages appended first: two per data page
	PreConsume int        `json:"pre_consume"` // consume calls before the concurrent phase
	PreAck     int64      `json:"pre_ack"`     // ack + sync before the concurrent phase (-1: none)
	Threads    [][]string `json:"threads"`
	BoundQ     int        `json:"bound_quick"`    // preemption bound in the quick tier (-1 = every schedule)
	BoundT     int        `json:"bound_thorough"` // preemption bound in the thorough tier
}

// measured sizes (schedules): c2|a2 112k, c2|a-in,a-above 46k unbounded; c2|a2/pre1 20k with <=5 preemptions,
// ~3.5M unbounded (c2|a-hi,a-lo alike); the 3-thread scenarios 0.5k-82k with <=3 preemptions.
var cscenarios = []cscenario{
	// two writers of the queue-wide acknowledged position (each Sync stores the minimum group ack it saw); the group
	// itself is acknowledged by one thread only (a consumer group has one acknowledging owner)
	{"a,a,sync|sync", 3, 2, -1, [][]string{{"ack:0", "ack:1", "sync"}, {"sync"}}, 2, 4},
	{"a,sync,a,sync|sync", 3, 2, -1, [][]string{{"ack:0", "sync", "ack:1", "sync"}, {"sync"}}, 2, 3},
	{"c|a|sync", 3, 1, -1, [][]string{{"consume"}, {"ack:0"}, {"sync"}}, 3, 5},
	{"c|c|put", 1, 0, -1, [][]string{{"consume"}, {"consume"}, {"put"}}, 3, 4},
	{"c|a2|sync,gc", 3, 2, 0, [][]string{{"consume"}, {"ack:1", "ack:2"}, {"sync", "gc"}}, 3, 4},
	{"c2|a2|sync", 3, 1, -1, [][]string{{"consume", "consume"}, {"ack:0", "ack:1"}, {"sync"}}, 3, 4},
	{"c2|a-hi,a-lo", 3, 1, -1, [][]string{{"consume", "consume"}, {"ack:1", "ack:0"}}, 5, -1},
	{"c2|a-in,a-above", 2, 0, -1, [][]string{{"consume", "consume"}, {"ack:1", "ack:5"}}, -1, -1},
	{"c2|a2", 3, 0, -1, [][]string{{"consume", "consume"}, {"ack:0", "ack:1"}}, -1, -1},
	{"c2|a2/pre1", 3, 1, -1, [][]string{{"consume", "consume"}, {"ack:0", "ack:1"}}, 5, -1},
}

type cop struct {
	Thread int    `json:"t"`
	Op     string `json:"op"`
	Arg    int64  `json:"arg"`
	Ret    int64  `json:"ret"`
	Call   int    `json:"call"`
	RetT   int    `json:"ret_t"`
	Done   bool   `json:"done"`
}

func (o *cop) String() string {
	s := fmt.Sprintf("T%d.%s", o.Thread+1, o.Op)
	if o.Op == "ack" {
		s += fmt.Sprintf("(%d)", o.Arg)
	}
	if o.Op == "consume" {
		s += fmt.Sprintf("=%d", o.Ret)
	}
	return fmt.Sprintf("%s[%d,%d]", s, o.Call, o.RetT)
}

type mstate struct{ c, k, a, q int64 }

func (m mstate) String() string {
	return fmt.Sprintf("consumed=%d ack=%d appended=%d queueAck=%d", m.c, m.k, m.a, m.q)
}

type cworld struct {
	sc       cscenario
	dir      string
	fq       queue.FanOutQueue
	cg       queue.ConsumerGroup
	ops      []*cop
	clock    int
	start    mstate // state when the concurrent phase begins
	last     mstate // last instantaneous observation
	instViol []string
	putBytes map[int][]byte
	nPut     int
}

var (
	cw       *cworld
	cExecNo  int
	cScratch string
)

// instant evaluates the per-state invariants on the in-memory positions at one instant (VerifPeek takes no
// lock and passes no scheduling point, so no other thread runs between the four reads). Without explicit
// resets (none in this part) all four positions are monotone.
func (w *cworld) instant(where string) {
	a, q, c, k, ok := queue.VerifPeek(w.fq, w.cg)
	if !ok {
		vevid.Fatal("VerifPeek: unexpected implementation types")
	}
	m := mstate{c: c, k: k, a: a, q: q}
	if !(k <= c && c <= a) {
		w.instViol = append(w.instViol, fmt.Sprintf("order|%s: %s violates ack <= consumed <= appended", where, m))
	}
	if q > a {
		w.instViol = append(w.instViol, fmt.Sprintf("queue-ack-beyond-appended|%s: %s", where, m))
	}
	if q > k {
		w.instViol = append(w.instViol, fmt.Sprintf("queue-ack-beyond-group-ack|%s: %s", where, m))
	}
	if q < w.last.q {
		w.instViol = append(w.instViol, fmt.Sprintf("queue-ack-backward|%s: %s, was %s", where, m, w.last))
	}
	if k < w.last.k || c < w.last.c || a < w.last.a {
		w.instViol = append(w.instViol, fmt.Sprintf("position-backward|%s: %s, was %s", where, m, w.last))
	}
	w.last = m
}

func (w *cworld) run(ti int, ops []string) {
	debug.SetPanicOnFault(true)
	for _, s := range ops {
		o := &cop{Thread: ti, Op: s}
		if i := strings.Index(s, ":"); i >= 0 {
			o.Op = s[:i]
			o.Arg, _ = strconv.ParseInt(s[i+1:], 10, 64)
		}
		w.ops = append(w.ops, o)
		w.instant("before " + s)
		w.clock++
		o.Call = w.clock
		switch o.Op {
		case "consume":
			o.Ret = w.cg.Consume()
		case "ack":
			w.cg.Ack(o.Arg)
		case "sync":
			w.fq.Sync()
		case "gc":
			w.fq.Queue().GC()
		case "put":
			w.nPut++
			b := bytes.Repeat([]byte{byte('p' + w.nPut)}, 30)
			w.putBytes[w.nPut] = b
			if err := w.fq.Queue().Put(b); err != nil {
				panic("put failed: " + err.Error())
			}
		default:
			vevid.Fatal("unknown op %q", s)
		}
		w.clock++
		o.RetT = w.clock
		o.Done = true
		w.instant("after " + s)
	}
}

var cRealPageFn func(path string, pageSize int) (page.Factory, error)

func cbody(sc cscenario) func() {
	return func() {
		debug.SetPanicOnFault(true)
		cExecNo++
		dir := filepath.Join(cScratch, fmt.Sprintf("e%d", cExecNo))
		_ = os.RemoveAll(dir)
		w := &cworld{sc: sc, dir: dir, putBytes: map[int][]byte{}}
		cw = w
		// every store into a page (queue meta, consumer-group meta, index, data) is a scheduling point too:
		// a position persisted outside the lock that protects it can then be overtaken by another thread
		if cRealPageFn == nil {
			cRealPageFn = queue.VerifSetPageFactory(nil)
		}
		prec := qpages.NewRecorder(dir)
		prec.Before = func(op, rel string) { vsched.Point("store:"+op, nil) }
		queue.VerifSetPageFactory(prec.Wrap(cRealPageFn))
		fq, err := queue.NewFanOutQueue(dir, 0)
		if err != nil {
			vevid.OpFailed("new fan-out queue: %v", err)
		}
		w.fq = fq
		cg, err := fq.GetOrCreateConsumerGroup("a")
		if err != nil {
			vevid.OpFailed("group: %v", err)
		}
		w.cg = cg
		for i := 0; i < sc.Preload; i++ {
			if err := fq.Queue().Put(payload(nil, i)); err != nil {
				vevid.OpFailed("preload: %v", err)
			}
		}
		for i := 0; i < sc.PreConsume; i++ {
			if s := cg.Consume(); s != int64(i) {
				vevid.Fatal("pre-consume %d returned %d", i, s)
			}
		}
		if sc.PreAck >= 0 {
			cg.Ack(sc.PreAck)
			fq.Sync()
		}
		a, q, c, k, _ := queue.VerifPeek(fq, cg)
		w.start = mstate{c: c, k: k, a: a, q: q}
		w.last = w.start
		for ti, ops := range sc.Threads {
			ti, ops := ti, ops
			vsched.Spawn(fmt.Sprintf("T%d", ti+1), func() { w.run(ti, ops) })
		}
	}
}

// step of the trivial sequential model; ok=false if the recorded return value does not fit.
func (m mstate) step(o *cop) (mstate, bool) {
	switch o.Op {
	case "consume":
		if m.c+1 <= m.a {
			m.c++
			return m, o.Ret == m.c
		}
		return m, o.Ret == -1
	case "ack":
		if m.k <= o.Arg && o.Arg <= m.c {
			m.k = o.Arg
		}
	case "sync":
		cand := m.a
		if m.k < cand {
			cand = m.k
		}
		if cand >= 0 && cand > m.q {
			m.q = cand
		}
	case "put":
		m.a++
	case "gc":
	}
	return m, true
}

// linearizable: brute force over all orders of the (<= 5) completed calls that respect real time
// (a call that returned before another was invoked comes first; program order is a special case).
func linearizable(ops []*cop, m mstate, final mstate, used []bool, left int, order []string) ([]string, bool) {
	if left == 0 {
		if m == final {
			return order, true
		}
		return nil, false
	}
	for i, o := range ops {
		if used[i] {
			continue
		}
		ok := true
		for j, p := range ops {
			if j != i && !used[j] && p.RetT < o.Call {
				ok = false
				break
			}
		}
		if !ok {
			continue
		}
		m2, fits := m.step(o)
		if !fits {
			continue
		}
		used[i] = true
		if ord, ok := linearizable(ops, m2, final, used, left-1, append(order, o.String())); ok {
			return ord, true
		}
		used[i] = false
	}
	return nil, false
}

func cfinish(rep *vevid.Report, sc cscenario, x *vsched.Result) {
	w := cw
	viol := func(clause, site, detail string) {
		rep.Violate(vevid.Violation{Clause: clause, Scenario: "conc/" + sc.Name, Site: site, Detail: detail,
			Replay: replay{Part: "conc", Config: sc.Name, Choices: x.Choices()}})
	}
	stuck := x.Deadlock || x.Horizon
	defer func() {
		if r := recover(); r != nil {
			viol("panic", "pkg/queue", fmt.Sprintf("%v\n%s", r, stack()))
		}
		if !stuck && w.fq != nil {
			func() {
				defer func() { _ = recover() }()
				w.fq.Close()
			}()
		}
		_ = os.RemoveAll(w.dir)
	}()
	if x.Deadlock {
		viol("deadlock", "consumer group", x.WaitGraph)
		return
	}
	if x.Horizon {
		viol("livelock", "consumer group", x.WaitGraph)
		return
	}
	for _, p := range x.Panics {
		viol("panic", "consumer group", p)
	}
	if len(x.Panics) > 0 {
		return
	}
	for _, v := range w.instViol {
		i := strings.Index(v, "|")
		viol(v[:i], "instant", v[i+1:]+" | history "+fmt.Sprint(w.ops))
	}
	// ---- quiescent state through the public API
	final := mstate{c: w.cg.ConsumedSeq(), k: w.cg.AcknowledgedSeq(), a: w.fq.Queue().AppendedSeq(), q: w.fq.Queue().AcknowledgedSeq()}
	if !(final.k <= final.c && final.c <= final.a) {
		viol("order", "final", final.String())
	}
	if final.q > final.a {
		viol("queue-ack-beyond-appended", "final", final.String())
	}
	if final.q > final.k {
		viol("queue-ack-beyond-group-ack", "final", final.String())
	}
	// consume hands out consecutive sequences: the successful returns are exactly start+1 .. final consumed, each once
	seen := map[int64]int{}
	for _, o := range w.ops {
		if o.Op == "consume" && o.Ret >= 0 {
			seen[o.Ret]++
		}
	}
	for s := w.start.c + 1; s <= final.c; s++ {
		if seen[s] != 1 {
			viol("consume-consecutive", "Consume", fmt.Sprintf("sequence %d handed out %d times (consumed %d -> %d); history %v", s, seen[s], w.start.c, final.c, w.ops))
		}
		delete(seen, s)
	}
	for s, n := range seen {
		viol("consume-consecutive", "Consume", fmt.Sprintf("sequence %d handed out %d times outside (%d, %d]; history %v", s, n, w.start.c, final.c, w.ops))
	}
	// linearizability against the sequential model
	ord, ok := linearizable(w.ops, w.start, final, make([]bool, len(w.ops)), len(w.ops), nil)
	if !ok {
		viol("linearizability", "consumer group", fmt.Sprintf("no order of the calls consistent with real time explains the returns and the final state: start {%s} history %v final {%s}", w.start, w.ops, final))
	}
	_ = ord
	// every message above the queue ack is readable with its bytes
	for s := final.q + 1; s <= final.a; s++ {
		b, err := w.fq.Queue().Get(s)
		want := payload(nil, int(s))
		if int(s) >= sc.Preload {
			want = w.putBytes[int(s)-sc.Preload+1]
		}
		if err != nil {
			viol("readable", "Get", fmt.Sprintf("sequence %d in (queue ack %d, appended %d] not readable: %v; history %v", s, final.q, final.a, err, w.ops))
		} else if !bytes.Equal(b, want) {
			viol("readable", "Get", fmt.Sprintf("sequence %d reads %s, appended as %s", s, describeBytes(b), describeBytes(want)))
		}
	}
	// positions survive close / reopen
	w.fq.Close()
	w.fq = nil
	fq, err := queue.NewFanOutQueue(w.dir, 0)
	if err != nil {
		viol("reopen-failed", "NewFanOutQueue", err.Error())
		return
	}
	w.fq = fq
	cg, err := fq.GetOrCreateConsumerGroup("a")
	if err != nil {
		viol("reopen-failed", "GetOrCreateConsumerGroup", err.Error())
		return
	}
	after := mstate{c: cg.ConsumedSeq(), k: cg.AcknowledgedSeq(), a: fq.Queue().AppendedSeq(), q: fq.Queue().AcknowledgedSeq()}
	if after != final {
		viol("reopen-positions", "reopen", fmt.Sprintf("before {%s} after {%s}; history %v", final, after, w.ops))
	}
	var rets []string
	for _, o := range w.ops {
		if o.Op == "consume" {
			rets = append(rets, fmt.Sprint(o.Ret))
		}
	}
	rep.Outcome(fmt.Sprintf("%s consume=%s final=%d,%d,%d,%d", sc.Name, strings.Join(rets, ","), final.c, final.k, final.a, final.q))
}

func cdiscard(x *vsched.Result) {
	w := cw
	if !x.Deadlock && !x.Horizon && w.fq != nil {
		func() {
			defer func() { _ = recover() }()
			w.fq.Close()
		}()
	}
	_ = os.RemoveAll(w.dir)
}

func runConc(f *vevid.Flags, rep *vevid.Report, r replay) {
	cScratch = filepath.Join(f.Scratch, "conc")
	_ = os.MkdirAll(cScratch, 0o755)
	defer os.RemoveAll(cScratch)
	if f.Replay != "" && r.Config == "regroup" {
		fails := 0
		for i := 0; i < 5; i++ {
			before := rep.ViolationCount
			x := vsched.Run(r.Choices, 200000, rgBody)
			rgFinish(rep, x)
			if rep.ViolationCount > before {
				fails++
			}
			rep.Evaluations++
		}
		rep.Extra["replay_failures_of_5"] = fails
		return
	}
	if f.Replay != "" {
		var sc *cscenario
		for i := range cscenarios {
			if cscenarios[i].Name == r.Config {
				sc = &cscenarios[i]
			}
		}
		if sc == nil {
			vevid.Fatal("replay: unknown scenario %q", r.Config)
		}
		fails := 0
		for i := 0; i < 5; i++ {
			before := rep.ViolationCount
			x := vsched.Run(r.Choices, 200000, cbody(*sc))
			cfinish(rep, *sc, x)
			if rep.ViolationCount > before {
				fails++
			}
			rep.Evaluations++
		}
		rep.Extra["replay_failures_of_5"] = fails
		return
	}
	bounds := map[string]int{}
	for _, sc := range cscenarios {
		bounds[sc.Name] = sc.BoundQ
		if f.Thorough() {
			bounds[sc.Name] = sc.BoundT
		}
	}
	rep.Bounds["preemption_bound_per_scenario(-1=every schedule)"] = bounds
	rep.Rule = "scenarios on ONE consumer group of a real FanOutQueue (rewritten pkg/queue, pkg/queue/page: every lock / atomic / condition operation is a scheduling point): consumer thread (1-2 Consume) vs acker thread (1-2 Ack: in range / above consumed / below ack), optionally a third thread (Sync, Sync+GC, second consumer + appender); per scenario every schedule, or every schedule within the stated preemption bound; per-instant invariants before and after every call, consecutive hand-out, linearizability of the call/return history against the sequential model by brute force, read-back of (queue ack, appended], close/reopen. distinct_nontrivial = schedules with >=1 scheduling decision (all distinct by construction)"
	if v := os.Getenv("C06_SCEN"); v == "" || v == "regroup" {
		runRegroup(f, rep) // small (hundreds of schedules): first, so that a deadline reached later cannot skip it
	}
	for si, sc := range cscenarios {
		sc := sc
		bound := bounds[sc.Name]
		if v := os.Getenv("C06_BOUND"); v != "" { // debugging / sizing
			bound, _ = strconv.Atoi(v)
		}
		if v := os.Getenv("C06_SCEN"); v != "" && v != sc.Name {
			continue
		}
		// the time left is split evenly over the scenarios still to run, so a large one does not starve the rest
		dl := f.Deadline
		if !dl.IsZero() {
			if left := time.Until(dl); left > 0 {
				dl = time.Now().Add(left / time.Duration(len(cscenarios)-si))
			}
		}
		e := &vsched.Explorer{Bound: bound, Horizon: 200000, Body: cbody(sc), Shard: f.Shard, Shards: f.Shards, Deadline: dl}
		e.Check = func(x *vsched.Result) {
			cfinish(rep, sc, x)
			if len(x.Points) > 0 {
				rep.DistinctNontrivial++
			}
		}
		e.Discard = cdiscard
		if si == 0 && f.Shard == 0 {
			a := vsched.Run(nil, 200000, cbody(sc))
			cdiscard(a)
			b := vsched.Run(nil, 200000, cbody(sc))
			cdiscard(b)
			// (with statement-level points a first execution may take a few more single-thread steps than a later one:
			// lazily built process-wide state; the choice points and the observation log have to agree)
			if len(a.Points) != len(b.Points) || (a.Steps != b.Steps && !vsched.Dense) || strings.Join(a.Log, "|") != strings.Join(b.Log, "|") {
				vevid.Fatal("nondeterministic replay: %d/%d points, %d/%d steps", len(a.Points), len(b.Points), a.Steps, b.Steps)
			}
			rep.Extra["determinism_replay"] = "ok"
		}
		e.Explore()
		if e.Diverged != "" {
			vevid.Fatal("replay divergence in %s: %s", sc.Name, e.Diverged)
		}
		if e.Capped {
			rep.Cap("deadline reached in scenario " + sc.Name)
		}
		rep.Evaluations += e.Executions
		rep.States += e.Executions
		rep.Transitions += e.Points
		rep.TracesValidated += e.Executions
		rep.Count("schedules["+sc.Name+"]", e.Executions)
		if mp, _ := rep.Extra["max_points_in_one_schedule"].(int); e.MaxPoints > mp {
			rep.Extra["max_points_in_one_schedule"] = e.MaxPoints
		}
		if f.Shard == 0 {
			rep.Sample(map[string]interface{}{"scenario": sc, "schedules_this_worker": e.Executions, "max_points": e.MaxPoints})
		}
	}
}
