package main

import (
	"bytes"
	"fmt"
	"os"
	"reflect"
	"regexp"
	"sort"
	"strings"

	"github.com/lindb/lindb/internal/vevid"
	"github.com/lindb/lindb/pkg/timeutil"
	"github.com/lindb/lindb/sql"
	"github.com/lindb/lindb/sql/stmt"
)

// kase is the replayable description of one enumerated case.
type kase struct {
	Kind     string `json:"kind"` // "sql" | "tree" | "query"
	Fam      string `json:"fam"`
	SQL      string `json:"sql,omitempty"`
	StartAbs bool   `json:"start_abs,omitempty"` // the text fixes the range start with an absolute timestamp
	EndAbs   bool   `json:"end_abs,omitempty"`   // the text fixes the range end with an absolute timestamp
	Tree     *T     `json:"tree,omitempty"`
	Query    *QS    `json:"query,omitempty"`
}

var debugRejects = os.Getenv("C17_DEBUG_REJECTS") != ""

var idxRe = regexp.MustCompile(`\[\d+\]`)

// diff walks two values of the statement model and returns the path of the first difference ("" = equal).
// The ONLY normalisation: a nil slice and an empty non-nil slice are the same (no consumer of stmt.Query
// distinguishes them: every use is len()/range); *norm counts how often that was needed.
func diff(path string, a, b reflect.Value, norm *int64) string {
	return diffO(path, "", a, b, norm)
}

// diffO: owner = "StructType.Field" of the nearest enclosing struct field; it is appended to the message as
// " @owner" so that the violation site can be coarse (top-level field + owner) instead of the full path.
func diffO(path, owner string, a, b reflect.Value, norm *int64) string {
	if a.IsValid() != b.IsValid() {
		return fmt.Sprintf("%s: one side is nil (%v vs %v) @%s", path, a.IsValid(), b.IsValid(), owner)
	}
	if !a.IsValid() {
		return ""
	}
	if a.Type() != b.Type() {
		return fmt.Sprintf("%s: type %s vs %s @%s", path, a.Type(), b.Type(), owner)
	}
	switch a.Kind() {
	case reflect.Interface, reflect.Ptr:
		if a.IsNil() || b.IsNil() {
			if a.IsNil() != b.IsNil() {
				return fmt.Sprintf("%s: nil=%v vs nil=%v @%s", path, a.IsNil(), b.IsNil(), owner)
			}
			return ""
		}
		return diffO(path, owner, a.Elem(), b.Elem(), norm)
	case reflect.Struct:
		for i := 0; i < a.NumField(); i++ {
			if d := diffO(path+"."+a.Type().Field(i).Name, a.Type().Name()+"."+a.Type().Field(i).Name, a.Field(i), b.Field(i), norm); d != "" {
				return d
			}
		}
		return ""
	case reflect.Slice:
		if a.Len() != b.Len() {
			return fmt.Sprintf("%s: len %d vs %d @%s", path, a.Len(), b.Len(), owner)
		}
		if a.Len() == 0 && a.IsNil() != b.IsNil() {
			*norm++
		}
		for i := 0; i < a.Len(); i++ {
			if d := diffO(fmt.Sprintf("%s[%d]", path, i), owner, a.Index(i), b.Index(i), norm); d != "" {
				return d
			}
		}
		return ""
	default:
		if !reflect.DeepEqual(a.Interface(), b.Interface()) {
			return fmt.Sprintf("%s: %v vs %v @%s", path, a.Interface(), b.Interface(), owner)
		}
		return ""
	}
}

// same = reflect.DeepEqual modulo nil-vs-empty slices; returns the first difference otherwise.
func same(root string, a, b interface{}, norm *int64) string {
	if reflect.DeepEqual(a, b) {
		return ""
	}
	return diff(root, reflect.ValueOf(a), reflect.ValueOf(b), norm)
}

// siteOf: coarse, stable site = top-level field of the statement + the struct field that differs
// (e.g. "Query.SelectItems @BinaryExpr.Left"); the full path stays in the detail.
func siteOf(d string) string {
	p := d
	if i := strings.Index(p, ":"); i >= 0 {
		p = p[:i]
	}
	p = idxRe.ReplaceAllString(p, "")
	parts := strings.Split(p, ".")
	if len(parts) > 2 {
		parts = parts[:2]
	}
	owner := ""
	if i := strings.LastIndex(d, " @"); i >= 0 {
		owner = d[i:]
	}
	return strings.Join(parts, ".") + owner
}

// kinds collects the set of expression kinds of a tree and its depth (nesting of Expr inside Expr).
func kinds(e stmt.Expr, set map[string]struct{}) int {
	if e == nil || reflect.ValueOf(e).IsNil() {
		set["nil"] = struct{}{}
		return 0
	}
	d := 0
	sub := func(c stmt.Expr) {
		if x := kinds(c, set) + 1; x > d {
			d = x
		}
	}
	switch x := e.(type) {
	case *stmt.SelectItem:
		set["sel"] = struct{}{}
		if x.Alias != "" {
			set["alias"] = struct{}{}
		}
		sub(x.Expr)
	case *stmt.OrderByExpr:
		if x.Desc {
			set["ordD"] = struct{}{}
		} else {
			set["ordA"] = struct{}{}
		}
		sub(x.Expr)
	case *stmt.FieldExpr:
		set["fld"] = struct{}{}
	case *stmt.NumberLiteral:
		set["num"] = struct{}{}
	case *stmt.CallExpr:
		set[fmt.Sprintf("call%d", len(x.Params))] = struct{}{}
		for _, p := range x.Params {
			sub(p)
		}
	case *stmt.ParenExpr:
		set["par"] = struct{}{}
		sub(x.Expr)
	case *stmt.BinaryExpr:
		set["bin"+stmt.BinaryOPString(x.Operator)] = struct{}{}
		sub(x.Left)
		sub(x.Right)
	case *stmt.EqualsExpr:
		set["eq"] = struct{}{}
	case *stmt.InExpr:
		set[fmt.Sprintf("in%d", len(x.Values))] = struct{}{}
	case *stmt.LikeExpr:
		set["like"] = struct{}{}
	case *stmt.RegexExpr:
		set["re"] = struct{}{}
	case *stmt.NotExpr:
		set["not"] = struct{}{}
		sub(x.Expr)
	default:
		set[fmt.Sprintf("%T", e)] = struct{}{}
	}
	return d
}

func keyOf(set map[string]struct{}) string {
	ks := make([]string, 0, len(set))
	for k := range set {
		ks = append(ks, k)
	}
	sort.Strings(ks)
	return strings.Join(ks, ",")
}

type checker struct {
	rep  *vevid.Report
	norm int64
}

func (c *checker) violate(k *kase, clause, site, detail string) {
	c.rep.Violate(vevid.Violation{Clause: clause, Scenario: k.Fam, Site: site, Detail: detail, Replay: k})
}

// exprWire: stmt.Marshal -> stmt.Unmarshal -> equal; second marshal byte-identical.
func (c *checker) exprWire(k *kase, where string, e stmt.Expr) bool {
	b1 := stmt.Marshal(e)
	if len(b1) == 0 {
		c.violate(k, "marshal", where, fmt.Sprintf("stmt.Marshal(%T %s) produced no bytes", e, rewriteSafe(e)))
		return false
	}
	e2, err := stmt.Unmarshal(b1)
	if err != nil {
		c.violate(k, "unmarshal-error", where, fmt.Sprintf("stmt.Unmarshal(stmt.Marshal(e)) failed: %v\njson: %s", err, clip(b1)))
		return false
	}
	if d := same(where, e, e2, &c.norm); d != "" {
		c.violate(k, "roundtrip", siteOf(d), fmt.Sprintf("expression changed on the wire at %s\nsent:     %s\nreceived: %s\njson: %s", d, rewriteSafe(e), rewriteSafe(e2), clip(b1)))
		return false
	}
	b2 := stmt.Marshal(e2)
	if !bytes.Equal(b1, b2) {
		c.violate(k, "remarshal", where, fmt.Sprintf("second marshal differs\nfirst:  %s\nsecond: %s", clip(b1), clip(b2)))
		return false
	}
	return true
}

// queryWire: exactly the calls of root (Statement.MarshalJSON) and leaf (stmt.Query{}.UnmarshalJSON(payload)).
func (c *checker) queryWire(k *kase, tag string, q *stmt.Query) bool {
	b1, err := q.MarshalJSON()
	if err != nil || len(b1) == 0 {
		c.violate(k, "marshal", "Query"+tag, fmt.Sprintf("Query.MarshalJSON: err=%v len=%d", err, len(b1)))
		return false
	}
	got := stmt.Query{}
	if err := got.UnmarshalJSON(b1); err != nil {
		c.violate(k, "unmarshal-error", "Query"+tag, fmt.Sprintf("leaf cannot read the statement the root sent: %v\nsql: %s\njson: %s", err, k.SQL, clip(b1)))
		return false
	}
	if d := same("Query", q, &got, &c.norm); d != "" {
		c.violate(k, "roundtrip", siteOf(d)+tag, fmt.Sprintf("statement changed on the wire at %s\nsql: %s\njson: %s", d, k.SQL, clip(b1)))
		return false
	}
	b2, err := got.MarshalJSON()
	if err != nil || !bytes.Equal(b1, b2) {
		c.violate(k, "remarshal", "Query"+tag, fmt.Sprintf("second marshal differs (err=%v)\nfirst:  %s\nsecond: %s", err, clip(b1), clip(b2)))
		return false
	}
	return true
}

func clip(b []byte) string {
	if len(b) > 1500 {
		return string(b[:1500]) + "…"
	}
	return string(b)
}

func rewriteSafe(e stmt.Expr) (s string) {
	defer func() {
		if r := recover(); r != nil {
			s = fmt.Sprintf("<%T: Rewrite panics: %v>", e, r)
		}
	}()
	if e == nil {
		return "<nil>"
	}
	return fmt.Sprintf("%T{%s}", e, e.Rewrite())
}

// planner overlays: what calcTimeRangeAndInterval (root, before MakePlan marshals) writes into the statement:
// StorageInterval = a configured storage interval (whole seconds), IntervalRatio >= 1, Interval = StorageInterval*ratio.
var overlays = []struct {
	si    timeutil.Interval
	ratio int
}{
	{10 * 1000, 6},          // 10s storage, 1m query
	{5 * 60 * 1000, 1},      // 5m / 5m
	{3600 * 1000, 24 * 365}, // 1h storage, 1y query (Interval renders as "1y")
	{3600 * 1000, 24 * 360}, // 1h storage, 360d query (12 months of 30 days: not a year)
	{24 * 3600 * 1000, 720}, // 1d storage, 720d query
}

// runSQL evaluates every oracle clause on one statement text.
func (c *checker) runSQL(k *kase) {
	rep := c.rep
	rep.Evaluations++
	defer func() {
		if r := recover(); r != nil {
			c.violate(k, "panic", "sql.Parse/Query.(Un)MarshalJSON", fmt.Sprintf("%v\nsql: %s", r, k.SQL))
		}
	}()
	s1, err1 := sql.Parse(k.SQL)
	s2, err2 := sql.Parse(k.SQL)
	if (err1 == nil) != (err2 == nil) {
		c.violate(k, "parse-deterministic", "sql.Parse", fmt.Sprintf("same text accepted once and rejected once: err1=%v err2=%v\nsql: %s", err1, err2, k.SQL))
		return
	}
	if err1 != nil {
		rep.Count("sql_rejected", 1)
		rep.Count("rejected/"+k.Fam, 1)
		if err1.Error() != err2.Error() {
			// informational only: the statement says nothing about error texts
			rep.Count("reject_message_differs", 1)
		}
		rep.Outcome(k.Fam + "|reject|" + rejectClass(err1.Error()))
		if debugRejects {
			fmt.Fprintf(os.Stderr, "REJECT %s | %s | %s\n", k.Fam, k.SQL, err1.Error())
		}
		return
	}
	q1, ok1 := s1.(*stmt.Query)
	q2, ok2 := s2.(*stmt.Query)
	if !ok1 || !ok2 {
		// every enumerated text is a data query; another statement type would be a generator bug
		vevid.Fatal("text %q parsed to %T / %T, not *stmt.Query", k.SQL, s1, s2)
	}
	rep.Count("sql_accepted", 1)
	rep.Count("accepted/"+k.Fam, 1)

	// (1) parsing is deterministic. Bounds that the text does not fix with an absolute timestamp are read from
	// the clock at parse time (now(), default "last hour"): those bounds are excluded from the comparison.
	a, b := *q1, *q2
	if !k.StartAbs {
		a.TimeRange.Start, b.TimeRange.Start = 0, 0
	}
	if !k.EndAbs {
		a.TimeRange.End, b.TimeRange.End = 0, 0
	}
	if strings.Contains(k.SQL, "'a','b','c','a'") || strings.Contains(k.SQL, "'b','a','b','c','d'") {
		// a list that repeats a value: an order that comes out of a Go map differs only now and then - 40 more parses
		for i := 0; i < 40; i++ {
			sx, errx := sql.Parse(k.SQL)
			qx, okx := sx.(*stmt.Query)
			if errx != nil || !okx {
				c.violate(k, "parse-deterministic", "sql.Parse", fmt.Sprintf("same text accepted once and rejected later: %v\nsql: %s", errx, k.SQL))
				return
			}
			x := *qx
			x.TimeRange = a.TimeRange
			if !k.StartAbs {
				x.TimeRange.Start = 0
			}
			if !k.EndAbs {
				x.TimeRange.End = 0
			}
			if k.StartAbs {
				x.TimeRange.Start = qx.TimeRange.Start
			}
			if k.EndAbs {
				x.TimeRange.End = qx.TimeRange.End
			}
			if d := same("Query", &a, &x, &c.norm); d != "" {
				c.violate(k, "parse-deterministic", siteOf(d), fmt.Sprintf("parse %d of the same text differs from the first at %s\nsql: %s", i+3, d, k.SQL))
				return
			}
		}
	}
	if d := same("Query", &a, &b, &c.norm); d != "" {
		c.violate(k, "parse-deterministic", siteOf(d), fmt.Sprintf("two parses of the same text differ at %s\nsql: %s", d, k.SQL))
	}

	// (2) the statement as parsed survives the wire; (3) so does the statement after the root's planner
	// filled StorageInterval/IntervalRatio/Interval.
	ok := c.queryWire(k, "", q1)
	if ok {
		// one of the three planner outcomes per statement, chosen by the text (deterministic); the full product
		// of planner-set fields with every other field is enumerated in part "model" (query-fields)
		i := len(k.SQL) % len(overlays)
		{
			o := overlays[i]
			p := *q1
			p.StorageInterval, p.IntervalRatio = o.si, o.ratio
			p.Interval = timeutil.Interval(int64(o.si) * int64(o.ratio))
			p.TimeRange.Start -= p.TimeRange.Start % int64(o.si)
			p.TimeRange.End -= p.TimeRange.End % int64(o.si)
			if q1.AutoGroupByTime {
				p.Interval = timeutil.Interval(p.TimeRange.End-p.TimeRange.Start) + o.si
			}
			c.queryWire(k, "+planned", &p)
		}
	}
	// (4) every expression of the statement through stmt.Marshal/Unmarshal on its own
	set := map[string]struct{}{}
	depth := 0
	each := func(where string, e stmt.Expr) {
		if e == nil {
			return
		}
		if d := kinds(e, set); d > depth {
			depth = d
		}
		if ok {
			c.exprWire(k, where, e)
		}
	}
	for _, e := range q1.SelectItems {
		each("SelectItems[]", e)
	}
	each("Condition", q1.Condition)
	each("Having", q1.Having)
	for _, e := range q1.OrderByItems {
		each("OrderByItems[]", e)
	}
	if depth >= 2 {
		rep.DistinctNontrivial++
	}
	if q1.AllFields {
		set["*"] = struct{}{}
	}
	if len(q1.GroupBy) > 0 {
		set[fmt.Sprintf("gb%d", len(q1.GroupBy))] = struct{}{}
	}
	if q1.Interval != 0 {
		set["ivl"] = struct{}{}
	}
	if q1.AutoGroupByTime {
		set["auto"] = struct{}{}
	}
	if q1.Having != nil {
		set["hav"] = struct{}{}
	}
	rep.Outcome(k.Fam + "|ok|" + keyOf(set))
	if depth >= 3 {
		b1, _ := q1.MarshalJSON()
		rep.Sample(map[string]interface{}{"sql": k.SQL, "wire": string(b1)})
	}
}

func rejectClass(msg string) string {
	for _, p := range []string{"order by field not in select", "not support order by", "order by function params", "select fields", "start time cannot", "metric name", "mismatched input", "no viable alternative", "extraneous input", "missing", "token recognition"} {
		if strings.Contains(msg, p) {
			return p
		}
	}
	if len(msg) > 24 {
		msg = msg[:24]
	}
	return msg
}
