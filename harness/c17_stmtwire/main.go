// C17 harness: "a parsed statement survives the wire unchanged".
//
// part sql   : every derivation of the query grammar within the bounds of gen_sql.go, rendered to text, parsed by the
//
//	real sql.Parse (twice), sent through exactly the calls the root and the leaf use
//	(stmt.Query.MarshalJSON -> stmt.Query{}.UnmarshalJSON) as parsed and after the planner filled
//	StorageInterval/IntervalRatio/Interval, and expression by expression through stmt.Marshal/Unmarshal.
//
// part model : every expression tree of the statement model (all kinds of sql/stmt/expr.go under each other, shapes the
//
//	parser never emits included) within the bounds of gen_tree.go through stmt.Marshal/Unmarshal and, embedded
//	in a stmt.Query, through the statement-level calls; plus the product of per-field alphabets of stmt.Query.
//
// Oracle (nothing more than the statement): unmarshal(marshal(x)) is reflect.DeepEqual to x modulo nil-vs-empty slices,
// a second marshal is byte-identical, two parses of one text are equal (modulo bounds read from the clock).
package main

import (
	"fmt"
	"hash/fnv"
	"os"
	"runtime/pprof"
	"strings"
	"time"

	"go.uber.org/zap/zapcore"

	"github.com/lindb/common/pkg/logger"

	"github.com/lindb/lindb/internal/vevid"
	"github.com/lindb/lindb/sql/stmt"
)

func main() {
	f := vevid.ParseFlags()
	rep := vevid.New("C17")
	// sql.Parse logs every rejected text with a stack trace: silence the logger (no behaviour change)
	logger.RunningAtomicLevel.SetLevel(zapcore.FatalLevel + 1)
	if dn, err := os.OpenFile(os.DevNull, os.O_WRONLY, 0); err == nil {
		os.Stdout = dn
	}
	c := &checker{rep: rep}
	if pf := os.Getenv("C17_CPUPROFILE"); pf != "" { // diagnostics for harness authors
		if fh, err := os.Create(pf); err == nil {
			_ = pprof.StartCPUProfile(fh)
			defer pprof.StopCPUProfile()
		}
	}

	if f.Replay != "" {
		var k kase
		vevid.LoadReplay(f.Replay, &k)
		fails := 0
		for i := 0; i < 5; i++ {
			before := rep.ViolationCount
			c.runCase(&k)
			if rep.ViolationCount > before {
				fails++
			}
		}
		rep.Extra["replay_failures_of_5"] = fails
		rep.Write()
		return
	}

	switch f.Part {
	case "model":
		runModel(f, c)
	case "meta":
		runMetaPart(f, c)
	default:
		runSQLPart(f, c)
	}
	rep.Counters["nil_vs_empty_normalised"] = c.norm
	rep.Write()
}

func (c *checker) runCase(k *kase) {
	switch k.Kind {
	case "sql":
		c.runSQL(k)
	case "tree":
		c.runTree(k)
	case "query":
		c.runQuery(k)
	case "meta":
		c.metaOne(k.SQL)
	default:
		vevid.Fatal("unknown case kind %q", k.Kind)
	}
}

var countOnly = os.Getenv("C17_COUNT_ONLY") != "" // diagnostics: size of the space without running it

func runSQLPart(f *vevid.Flags, c *checker) {
	rep := c.rep
	rep.Rule = "every text derivable within the stated per-clause bounds (families select-expr, select-list, orderby-expr, where, having, tail, from, cross, odd); texts are de-duplicated by hash (an ambiguous flat text such as f+g*f is one case) and sharded by that hash; non-trivial = accepted statement containing an expression nested >=2 deep; distinct = distinct text"
	seen := map[uint64]struct{}{}
	var generated, mine int64
	stopped := false
	forEachSQL(f.Thorough(), rep.Bounds, func(fam, text string, sa, ea bool) bool {
		generated++
		h := fnv.New64a()
		h.Write([]byte(text))
		hv := h.Sum64()
		if !f.Mine(int64(hv >> 1)) {
			return true
		}
		if _, dup := seen[hv]; dup {
			rep.Count("duplicate_texts_skipped", 1)
			return true
		}
		seen[hv] = struct{}{}
		mine++
		if mine%512 == 0 && f.Expired() {
			rep.Cap(fmt.Sprintf("deadline after %d generated texts", generated))
			stopped = true
			return false
		}
		top := fam
		if i := strings.Index(top, ":"); i >= 0 {
			top = top[:i]
		}
		rep.Count("texts/"+top, 1)
		if countOnly {
			return true
		}
		t0 := time.Now()
		c.runSQL(&kase{Kind: "sql", Fam: fam, SQL: text, StartAbs: sa, EndAbs: ea})
		rep.Count("diag_us/"+top, time.Since(t0).Microseconds()) // diagnostic only, never an oracle
		return true
	})
	_ = stopped
	rep.Extra["generated_texts_before_dedup"] = generated // identical in every shard
	rep.Extra["sum_distinct_texts"] = mine
}

func runModel(f *vevid.Flags, c *checker) {
	rep := c.rep
	maxW, maxD, embedW := 5, 3, 4
	if f.Thorough() {
		maxW, maxD, embedW = 6, 4, 5
	}
	rep.Rule = fmt.Sprintf("every tree over all 12 expression kinds (11 leaf forms, 8 unary wrappers, 4 binary operators + 2-parameter call; any kind under any kind) with <=%d nodes and nesting <=%d, sharded by enumeration index; trees with <=%d nodes additionally embedded in a stmt.Query as select item, condition, having and order-by item; every BinaryOP / FuncType value; the product of per-field alphabets of stmt.Query; non-trivial = nesting >=2 (trees) / >=3 non-zero fields (queries); distinct by construction", maxW, maxD, embedW)
	rep.Bounds["tree_nodes"] = maxW
	rep.Bounds["tree_nesting"] = maxD
	rep.Bounds["embedded_tree_nodes"] = embedW
	var idx int64
	capped := false
	step := func() (mine, cont bool) {
		idx++
		if !f.Mine(idx) {
			return false, true
		}
		if (idx/int64(f.Shards))%4096 == 0 && f.Expired() {
			rep.Cap(fmt.Sprintf("deadline at case %d", idx))
			capped = true
			return false, false
		}
		return true, true
	}
	forEachTree(maxW, maxD, func(t *T, w int) bool {
		mine, cont := step()
		if !cont {
			return false
		}
		if mine {
			rep.Count("trees", 1)
			c.runTree(&kase{Kind: "tree", Fam: "tree/" + t.K, Tree: t})
			if w <= embedW {
				rep.Count("trees_embedded_in_query", 1)
				c.runQuery(&kase{Kind: "query", Fam: "query-embed/" + t.K, Query: &QS{Metric: "cpu", NS: "ns", TR: [2]int64{1, 2}, Limit: 20, Embed: t}})
			}
		}
		return true
	})
	if capped {
		return
	}
	// every operator / function value (declared ones, 0 and one past the end)
	for op := 0; op <= int(stmt.UNKNOWN)+1; op++ {
		for _, sw := range []bool{false, true} {
			l, r := &T{K: "field", S: "f"}, &T{K: "number", N: 2}
			if sw {
				l, r = r, l
			}
			if mine, _ := step(); mine {
				c.runTree(&kase{Kind: "tree", Fam: "tree/binary-op", Tree: &T{K: "binary", I: op, C: []*T{l, r}}})
			}
		}
	}
	for ft := 0; ft <= 11; ft++ {
		if mine, _ := step(); mine {
			c.runTree(&kase{Kind: "tree", Fam: "tree/func-type", Tree: &T{K: "call", I: ft, C: []*T{{K: "field", S: "f"}, {K: "number", N: 0.99}}}})
		}
	}
	forEachQuery(f.Thorough(), rep.Bounds, func(s *QS) bool {
		mine, cont := step()
		if !cont {
			return false
		}
		if mine {
			rep.Count("queries", 1)
			c.runQuery(&kase{Kind: "query", Fam: "query-fields", Query: s})
		}
		return true
	})
}

func (c *checker) runTree(k *kase) {
	rep := c.rep
	rep.Evaluations++
	defer func() {
		if r := recover(); r != nil {
			c.violate(k, "panic", "stmt.Marshal/Unmarshal", fmt.Sprint(r))
		}
	}()
	e := k.Tree.build()
	ok := c.exprWire(k, "Expr", e)
	set := map[string]struct{}{}
	d := kinds(e, set)
	if d >= 2 {
		rep.DistinctNontrivial++
	}
	rep.Outcome(fmt.Sprintf("tree|%v|d%d|%s", ok, d, keyOf(set)))
	if d >= 3 {
		rep.Sample(map[string]interface{}{"tree": e.Rewrite(), "wire": string(stmt.Marshal(e))})
	}
}

func (c *checker) runQuery(k *kase) {
	rep := c.rep
	rep.Evaluations++
	defer func() {
		if r := recover(); r != nil {
			c.violate(k, "panic", "Query.(Un)MarshalJSON", fmt.Sprint(r))
		}
	}()
	q := k.Query.build()
	ok := c.queryWire(k, "", q)
	s := k.Query
	if s.Embed != nil {
		set := map[string]struct{}{}
		if d := kinds(q.Condition, set); d >= 2 {
			rep.DistinctNontrivial++
		}
		rep.Outcome(fmt.Sprintf("embed|%v|%s", ok, keyOf(set)))
		return
	}
	nz := 0
	for _, b := range []bool{s.Explain, s.AllFields, s.Auto, s.NS != "", s.Metric != "", s.Sel != 0, s.Cond != 0, s.Having != 0, s.Order != 0,
		s.TR != [2]int64{}, s.Interval != 0, s.SInterval != 0, s.Ratio != 0, s.GroupBy != 0, s.Limit != 0} {
		if b {
			nz++
		}
	}
	if nz >= 3 {
		rep.DistinctNontrivial++
	}
	rep.Outcome(fmt.Sprintf("query|%v|nonzero=%d|sel%d cond%d hav%d ord%d gb%d", ok, nz, s.Sel, s.Cond, s.Having, s.Order, s.GroupBy))
}
