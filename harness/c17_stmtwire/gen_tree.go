package main

import (
	"fmt"

	"github.com/lindb/lindb/aggregation/function"
	"github.com/lindb/lindb/pkg/timeutil"
	"github.com/lindb/lindb/sql/stmt"
)

// T is a replayable description of one expression tree of the statement model.
type T struct {
	K string   `json:"k"`           // field number equals in like regex not paren select order call binary
	S string   `json:"s,omitempty"` // name / key / alias
	R string   `json:"r,omitempty"` // value / regexp
	V []string `json:"v,omitempty"` // in-values
	E bool     `json:"e,omitempty"` // slice (in-values / call params) is empty but non-nil
	N float64  `json:"n,omitempty"`
	B bool     `json:"b,omitempty"` // desc
	I int      `json:"i,omitempty"` // func type / binary operator
	C []*T     `json:"c,omitempty"`
	d int8
}

func (t *T) build() stmt.Expr {
	switch t.K {
	case "field":
		return &stmt.FieldExpr{Name: t.S}
	case "number":
		return &stmt.NumberLiteral{Val: t.N}
	case "equals":
		return &stmt.EqualsExpr{Key: t.S, Value: t.R}
	case "like":
		return &stmt.LikeExpr{Key: t.S, Value: t.R}
	case "regex":
		return &stmt.RegexExpr{Key: t.S, Regexp: t.R}
	case "in":
		e := &stmt.InExpr{Key: t.S}
		if t.E {
			e.Values = []string{}
		}
		e.Values = append(e.Values, t.V...)
		return e
	case "not":
		return &stmt.NotExpr{Expr: t.C[0].build()}
	case "paren":
		return &stmt.ParenExpr{Expr: t.C[0].build()}
	case "select":
		return &stmt.SelectItem{Expr: t.C[0].build(), Alias: t.S}
	case "order":
		return &stmt.OrderByExpr{Expr: t.C[0].build(), Desc: t.B}
	case "call":
		e := &stmt.CallExpr{FuncType: function.FuncType(t.I)}
		if t.E {
			e.Params = []stmt.Expr{}
		}
		for _, c := range t.C {
			e.Params = append(e.Params, c.build())
		}
		return e
	case "binary":
		return &stmt.BinaryExpr{Left: t.C[0].build(), Right: t.C[1].build(), Operator: stmt.BinaryOP(t.I)}
	}
	panic("unknown tree kind " + t.K)
}

var treeAtoms = []*T{
	{K: "field", S: "f"},
	{K: "number", N: 0.30000000000000004}, // 17 significant digits
	{K: "number", N: 0},
	{K: "equals", S: "host", R: "1.1.1.1"},
	{K: "in", S: "ip", V: []string{"a", "/b"}},
	{K: "in", S: "ip"},
	{K: "in", S: "ip", E: true},
	{K: "like", S: "k 3", R: "a%"},
	{K: "regex", S: "host", R: "a.*"},
	{K: "call", I: int(function.Sum)},
	{K: "call", I: int(function.Count), E: true},
}

func treeUnary(c *T) []*T {
	return []*T{
		{K: "not", C: []*T{c}},
		{K: "paren", C: []*T{c}},
		{K: "select", C: []*T{c}},
		{K: "select", S: "x", C: []*T{c}},
		{K: "order", C: []*T{c}},
		{K: "order", B: true, C: []*T{c}},
		{K: "call", I: int(function.Sum), C: []*T{c}},
		{K: "call", I: int(function.Quantile), C: []*T{c}},
	}
}

var treeBinOps = []stmt.BinaryOP{stmt.AND, stmt.SUB, stmt.DIV, stmt.LESSEQUAL}

func treeBinary(l, r *T) []*T {
	out := make([]*T, 0, len(treeBinOps)+1)
	for _, op := range treeBinOps {
		out = append(out, &T{K: "binary", I: int(op), C: []*T{l, r}})
	}
	out = append(out, &T{K: "call", I: int(function.Max), C: []*T{l, r}})
	return out
}

// forEachTree enumerates every tree with <= maxW nodes and nesting <= maxD over ALL expression kinds of
// sql/stmt/expr.go, any kind under any kind (NotExpr over ParenExpr, OrderByExpr over BinaryExpr, SelectItem
// inside CallExpr, ... shapes the parser never emits). Levels below maxW are stored, the top level is streamed.
func forEachTree(maxW, maxD int, fn func(t *T, w int) bool) {
	byW := make([][]*T, maxW+1)
	emit := func(w int, t *T, d int8) bool {
		t.d = d
		if w < maxW {
			byW[w] = append(byW[w], t)
		}
		return fn(t, w)
	}
	for _, a := range treeAtoms {
		if !emit(1, a, 0) {
			return
		}
	}
	for w := 2; w <= maxW; w++ {
		for _, c := range byW[w-1] {
			if int(c.d) >= maxD {
				continue
			}
			for _, t := range treeUnary(c) {
				if !emit(w, t, c.d+1) {
					return
				}
			}
		}
		for wl := 1; wl <= w-2; wl++ {
			for _, l := range byW[wl] {
				if int(l.d) >= maxD {
					continue
				}
				for _, r := range byW[w-1-wl] {
					if int(r.d) >= maxD {
						continue
					}
					d := l.d
					if r.d > d {
						d = r.d
					}
					for _, t := range treeBinary(l, r) {
						if !emit(w, t, d+1) {
							return
						}
					}
				}
			}
		}
	}
}

// QS is a replayable description of a stmt.Query built directly (the fields the planner may set included).
type QS struct {
	Explain   bool     `json:"explain,omitempty"`
	AllFields bool     `json:"all,omitempty"`
	Auto      bool     `json:"auto,omitempty"`
	NS        string   `json:"ns,omitempty"`
	Metric    string   `json:"metric,omitempty"`
	Sel       int      `json:"sel,omitempty"`
	Cond      int      `json:"cond,omitempty"`
	Having    int      `json:"having,omitempty"`
	Order     int      `json:"order,omitempty"`
	TR        [2]int64 `json:"tr"`
	Interval  int64    `json:"interval,omitempty"`
	SInterval int64    `json:"sinterval,omitempty"`
	Ratio     int      `json:"ratio,omitempty"`
	GroupBy   int      `json:"groupby,omitempty"`
	Limit     int      `json:"limit,omitempty"`
	Embed     *T       `json:"embed,omitempty"` // when set: this tree is used as select item, condition, having and order-by item
}

var (
	fF      = &T{K: "field", S: "f"}
	fG      = &T{K: "field", S: "g"}
	qsSel   = [][]*T{nil, {{K: "select", C: []*T{fF}}}, {{K: "select", S: "x", C: []*T{{K: "call", I: int(function.Sum), C: []*T{fF}}}}, {K: "select", C: []*T{{K: "binary", I: int(stmt.DIV), C: []*T{fF, {K: "paren", C: []*T{{K: "binary", I: int(stmt.ADD), C: []*T{fG, {K: "number", N: 2}}}}}}}}}}}
	qsCond  = []*T{nil, {K: "equals", S: "host", R: "a"}, {K: "binary", I: int(stmt.AND), C: []*T{{K: "not", C: []*T{{K: "in", S: "ip", V: []string{"a", "b"}}}}, {K: "paren", C: []*T{{K: "binary", I: int(stmt.OR), C: []*T{{K: "like", S: "k", R: "a%"}, {K: "not", C: []*T{{K: "regex", S: "k", R: "b.*"}}}}}}}}}}
	qsHav   = []*T{nil, {K: "binary", I: int(stmt.GREATER), C: []*T{{K: "binary", I: int(stmt.MUL), C: []*T{fF, {K: "number", N: 2}}}, {K: "number", N: 3.5}}}}
	qsOrder = [][]*T{nil, {{K: "order", B: true, C: []*T{fF}}}, {{K: "order", C: []*T{fG}}, {K: "order", B: true, C: []*T{{K: "call", I: int(function.Max), C: []*T{fF}}}}}}
	qsTR    = [][2]int64{{0, 0}, {1554854400000, 1554890400000}, {1554854400000, 1554854400000}, {0, 1554890400000}, {1554854400000, 0}, {-5, 7}} // incl. Start == End (a one-slot range is legal: bounds are inclusive) and half-set ranges
	qsIvl   = []int64{0, 10_000, 60_000, 31 * 24 * 3600_000, 365 * 24 * 3600_000}
	qsSIvl  = []int64{0, 10_000, 300_000}
	qsRatio = []int{0, 1, 6}
	qsLimit = []int{0, 20, 2147483647}
)

func (s *QS) build() *stmt.Query {
	q := &stmt.Query{Explain: s.Explain, AllFields: s.AllFields, AutoGroupByTime: s.Auto, Namespace: s.NS, MetricName: s.Metric,
		TimeRange: timeutil.TimeRange{Start: s.TR[0], End: s.TR[1]}, Interval: timeutil.Interval(s.Interval),
		StorageInterval: timeutil.Interval(s.SInterval), IntervalRatio: s.Ratio, Limit: s.Limit}
	if s.Embed != nil {
		q.SelectItems = []stmt.Expr{s.Embed.build(), s.Embed.build()}
		q.Condition = s.Embed.build()
		q.Having = s.Embed.build()
		q.OrderByItems = []stmt.Expr{s.Embed.build()}
	} else {
		for _, t := range qsSel[s.Sel] {
			q.SelectItems = append(q.SelectItems, t.build())
		}
		if t := qsCond[s.Cond]; t != nil {
			q.Condition = t.build()
		}
		if t := qsHav[s.Having]; t != nil {
			q.Having = t.build()
		}
		for _, t := range qsOrder[s.Order] {
			q.OrderByItems = append(q.OrderByItems, t.build())
		}
	}
	switch s.GroupBy {
	case 1:
		q.GroupBy = []string{"host"}
	case 2:
		q.GroupBy = []string{"host", "ip.x"}
	case 3:
		q.GroupBy = []string{}
	}
	return q
}

// forEachQuery: the full product of the per-field alphabets of stmt.Query (every field zero / non-zero,
// including the fields only the planner sets).
func forEachQuery(thorough bool, bounds map[string]interface{}, fn func(*QS) bool) {
	ivl, trs, limits, gbs := qsIvl[:3], qsTR[:3], qsLimit[:2], []int{0, 1, 2}
	if thorough {
		ivl, trs, limits, gbs = qsIvl, qsTR, qsLimit, []int{0, 1, 2, 3}
	}
	bounds["query_fields"] = fmt.Sprintf("explain x allFields x autoGroupByTime x namespace{,ns} x metric{,cpu} x %d select lists x %d conditions x %d having x %d order-by lists x %d time ranges x %d intervals x %d storage intervals x %d ratios x %d group-by lists x %d limits",
		len(qsSel), len(qsCond), len(qsHav), len(qsOrder), len(trs), len(ivl), len(qsSIvl), len(qsRatio), len(gbs), len(limits))
	// interval sweep: every whole multiple of every unit the interval text form knows, as Interval and as
	// StorageInterval of an otherwise plain statement (the wire form of an interval is its text: "12M" and "1y" are not
	// the same number of milliseconds)
	n := 0
	for _, u := range []struct {
		ms  int64
		max int64
	}{{1000, 180}, {60_000, 180}, {3600_000, 100}, {24 * 3600_000, 800}, {7 * 24 * 3600_000, 60}, {30 * 24 * 3600_000, 40}, {365 * 24 * 3600_000, 5}} {
		for k := int64(1); k <= u.max; k++ {
			n++
			if !fn(&QS{Metric: "cpu", Sel: 1, TR: qsTR[1], Interval: k * u.ms, SInterval: u.ms, Ratio: int(k), GroupBy: 1}) {
				return
			}
			if !fn(&QS{Metric: "cpu", Sel: 1, TR: qsTR[1], Interval: k * u.ms, SInterval: k * u.ms, Ratio: 1}) {
				return
			}
		}
	}
	bounds["interval_sweep"] = n
	bools := []bool{false, true}
	for _, ex := range bools {
		for _, all := range bools {
			for _, auto := range bools {
				for _, ns := range []string{"", "ns"} {
					for _, m := range []string{"", "cpu"} {
						for sel := range qsSel {
							for cond := range qsCond {
								for hav := range qsHav {
									for ord := range qsOrder {
										for _, tr := range trs {
											for _, iv := range ivl {
												for _, si := range qsSIvl {
													for _, ra := range qsRatio {
														for _, gb := range gbs {
															for _, lm := range limits {
																s := &QS{Explain: ex, AllFields: all, Auto: auto, NS: ns, Metric: m, Sel: sel, Cond: cond, Having: hav, Order: ord,
																	TR: tr, Interval: iv, SInterval: si, Ratio: ra, GroupBy: gb, Limit: lm}
																if !fn(s) {
																	return
																}
															}
														}
													}
												}
											}
										}
									}
								}
							}
						}
					}
				}
			}
		}
	}
}
