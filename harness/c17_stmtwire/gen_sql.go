package main

import (
	"fmt"
	"strings"
)

// ---------- generic bounded derivation generators (strings; ambiguity of the flat text is intended:
// "f+g*f" is one text however it was derived, texts are de-duplicated by hash before they are run) ----------

type ex struct {
	s string
	d int8
	m uint32 // set of atoms used (bit i = atoms[i])
}

// genExpr: all derivations of  E := atom | u(E) | E op E  with exactly w nodes (w=1..maxW), nesting <= maxD.
func genExpr(atoms []string, unary []string, ops []string, maxW, maxD int) [][]ex {
	byW := make([][]ex, maxW+1)
	for i, a := range atoms {
		byW[1] = append(byW[1], ex{a, 0, 1 << uint(i)})
	}
	for w := 2; w <= maxW; w++ {
		var out []ex
		for _, e := range byW[w-1] {
			if int(e.d) >= maxD {
				continue
			}
			for _, u := range unary {
				out = append(out, ex{u + "(" + e.s + ")", e.d + 1, e.m})
			}
		}
		for wl := 1; wl <= w-2; wl++ {
			wr := w - 1 - wl
			for _, l := range byW[wl] {
				if int(l.d) >= maxD {
					continue
				}
				for _, r := range byW[wr] {
					if int(r.d) >= maxD {
						continue
					}
					d := l.d
					if r.d > d {
						d = r.d
					}
					for _, op := range ops {
						out = append(out, ex{l.s + op + r.s, d + 1, l.m | r.m})
					}
				}
			}
		}
		byW[w] = out
	}
	return byW
}

func flat(byW [][]ex, maxW int) []string {
	var out []string
	for w := 1; w <= maxW && w < len(byW); w++ {
		for _, e := range byW[w] {
			out = append(out, e.s)
		}
	}
	return out
}

// skeletons: all derivations of  B := # | (B) | B and B | B or B  with exactly n leaves and nesting <= d.
// Leaves are written "#"; they are numbered left to right when instantiated.
func skeletons(n, d int) []string {
	seen := map[string]struct{}{}
	var out []string
	add := func(s string) {
		if _, ok := seen[s]; !ok {
			seen[s] = struct{}{}
			out = append(out, s)
		}
	}
	if n == 1 {
		add("#")
	}
	if d == 0 {
		return out
	}
	for _, s := range skeletons(n, d-1) {
		add("(" + s + ")")
	}
	for nl := 1; nl < n; nl++ {
		for _, l := range skeletons(nl, d-1) {
			for _, r := range skeletons(n-nl, d-1) {
				add(l + " and " + r)
				add(l + " or " + r)
			}
		}
	}
	return out
}

func instantiate(skel string, leaves []string) string {
	var sb strings.Builder
	i := 0
	for _, c := range skel {
		if c == '#' {
			sb.WriteString(leaves[i])
			i++
		} else {
			sb.WriteRune(c)
		}
	}
	return sb.String()
}

// forEachTuple calls fn for every tuple in sets[0] x sets[1] x ... (odometer order, deterministic).
func forEachTuple(sets [][]string, fn func([]string) bool) bool {
	idx := make([]int, len(sets))
	cur := make([]string, len(sets))
	for _, s := range sets {
		if len(s) == 0 {
			return true
		}
	}
	for {
		for i := range sets {
			cur[i] = sets[i][idx[i]]
		}
		if !fn(cur) {
			return false
		}
		p := len(sets) - 1
		for p >= 0 {
			idx[p]++
			if idx[p] < len(sets[p]) {
				break
			}
			idx[p] = 0
			p--
		}
		if p < 0 {
			return true
		}
	}
}

// ---------- token alphabet ----------

var tagKeys = []string{"host", "'ip.x'", "`k 3`"}

// ten tag-filter forms (%s = key); values cover quotes (double-quoted text is a JSON STRING token, not an identifier: only in family "from"), dots, slash, wildcard, regexp
var filterForms = []string{
	"%s='1.1.1.1'", "%s!='a'", "%s<>'a b'", "%s in ('a')", "%s in ('a','/b',c)", "%s not in ('a','b')",
	"%s like 'a%%'", "%s not like '%%a'", "%s=~'a.*'", "%s!~'/a[0-9]+/'",
	// lists that repeat a value (whatever the parser makes of them, it makes the same of them every time)
	"%s in ('a','b','c','a')", "%s not in ('b','a','b','c','d')",
}
var filterFormsFew = []int{0, 5, 6, 9, 10}         // 3 filters, quick
var filterFormsMid = []int{0, 4, 5, 6, 7, 9, 10, 11} // 3 filters, thorough

type timeForm struct {
	s                string
	startAbs, endAbs bool
}

var timeForms = []timeForm{
	{"", false, false},
	{"time>now()-1h", false, false},
	{"time >= now() - 2h and time <= now() - 30m", false, false},
	{"time>='2019-04-10 00:00:00' and time<='2019-04-10 10:00:00'", true, true},
	{"time>'2019/04/10 00:00:00'", true, false},
	{"time<now()", false, false},
	{"time<'2019-04-10 10:00:00'", false, true}, // start defaults to now-1h > end: rejected
	// thorough only from here
	{"time>'20190410 00:00:00' and time<'20190410 10:00:00'", true, true},
	{"time<'2019-04-10 10:00:00' and time>'2019-04-10 00:00:00'", true, true}, // end first
	{"time>now()+1h", false, false},                                           // start > end: rejected
	{"time=now()", false, false},                                              // sets neither bound
	{"time>='2019-04-10 10:00:00' and time<='2019-04-10 00:00:00'", true, true},
	{"time>now()-1d and time<'2030-01-01 00:00:00'", false, true},
	{"time>='2019-04-10 10:00:00' and time<='2019-04-10 10:00:00'", true, true}, // index 13: one-slot range, Start == End
}

const absRange = "time>='2019-04-10 00:00:00' and time<='2019-04-10 10:00:00'"

type emitFn func(fam, text string, startAbs, endAbs bool) bool

// forEachSQL enumerates every text of every family; stops when emit returns false.
func forEachSQL(thorough bool, bounds map[string]interface{}, emit emitFn) {
	selOps := []string{"+", "-", "*", "/"}
	selAtoms := []string{"f", "g", "16777217", "0.30000000000000004"} // numbers that do not survive float32 / 2-decimal / 15-digit formatting
	selUnary := []string{"sum", "max", ""}                       // "" = parenthesis

	// ---- F1 select-expr: every select expression, alone / aliased+ordered / as having operand ----
	W, D := 5, 3
	if thorough {
		W, D = 6, 4
	}
	bounds["select_expr"] = fmt.Sprintf("E := f|g|16777217|0.30000000000000004 | sum(E)|max(E)|(E) | E(+|-|*|/)E, <=%d nodes, nesting<=%d", W, D)
	byW := genExpr(selAtoms, selUnary, selOps, W, D)
	all := flat(byW, W)
	for _, e := range all {
		if !emit("select-expr", "select "+e+" from cpu", false, false) {
			return
		}
		if !emit("select-expr-alias-orderby", "select "+e+" as x from cpu where "+absRange+" order by x desc limit 3", true, true) {
			return
		}
		if !emit("having-operand", "select f from cpu where "+absRange+" group by host having "+e+" > 1", true, true) {
			return
		}
	}
	wOB := 3
	if thorough {
		wOB = 4
	}
	for _, e := range flat(byW, wOB) {
		for _, dir := range []string{"", " asc", " desc", " asc desc"} {
			if !emit("orderby-expr", "select "+e+" from cpu order by "+e+dir, false, false) {
				return
			}
			if !emit("orderby-expr", "select f,g from cpu order by "+e+dir+",g desc", false, false) {
				return
			}
		}
	}

	// ---- F2 select-list: 1..3 items with / without alias ----
	wL := 3
	items := flat(byW, wL)
	var aliased []string
	for _, it := range items {
		aliased = append(aliased, it, it+" as x")
	}
	bounds["select_list"] = fmt.Sprintf("1-2 items of <=%d nodes each with/without alias (3 items of <=2 nodes in thorough)", wL)
	for _, a := range aliased {
		for _, b := range aliased {
			b2 := strings.Replace(b, " as x", " as 'y.1'", 1)
			if !emit("select-list", "select "+a+","+b2+" from cpu", false, false) {
				return
			}
		}
	}
	if thorough {
		var small []string
		for _, it := range flat(byW, 2) {
			small = append(small, it, it+" as x")
		}
		for _, a := range small {
			for _, b := range small {
				for _, c := range small {
					t := "select " + a + "," + strings.Replace(b, " as x", " as y", 1) + "," + strings.Replace(c, " as x", " as z", 1) + " from cpu order by f"
					if !emit("select-list", t, false, false) {
						return
					}
				}
			}
		}
	}

	// ---- F3 where: boolean skeleton x tag filters x time-range form x position ----
	condD := 3
	nTime := 7
	if thorough {
		condD = 4
		nTime = len(timeForms)
	}
	bounds["where"] = fmt.Sprintf("B := filter | (B) | B and B | B or B, <=3 filters, nesting<=%d; 10 filter forms (all for 1-2 filters, %d of them for 3 filters); x %d time-range forms (3 filters in quick: 4) x before/after", condD, map[bool]int{false: len(filterFormsFew), true: len(filterFormsMid)}[thorough], nTime)
	var condSample []string // a small representative set reused by the cross family
	for n := 1; n <= 3; n++ {
		forms := make([]int, 0, 10)
		switch {
		case n < 3:
			for i := range filterForms {
				forms = append(forms, i)
			}
		case thorough:
			forms = filterFormsMid
		default:
			forms = filterFormsFew
		}
		leafSets := make([][]string, n)
		for i := 0; i < n; i++ {
			for _, fi := range forms {
				leafSets[i] = append(leafSets[i], fmt.Sprintf(filterForms[fi], tagKeys[i]))
			}
		}
		for _, sk := range skeletons(n, condD) {
			cont := forEachTuple(leafSets, func(lv []string) bool {
				cond := instantiate(sk, lv)
				for ti := 0; ti < nTime; ti++ {
					tf := timeForms[ti]
					if tf.s == "" {
						if !emit("where", "select f from cpu where "+cond, false, false) {
							return false
						}
						continue
					}
					// the full time-form list only for 1-2 filters; 3 filters get the first four forms
					if n == 3 && ti > 3 && !thorough {
						continue
					}
					if !emit("where", "select f from cpu where "+cond+" and "+tf.s, tf.startAbs, tf.endAbs) {
						return false
					}
					if !emit("where", "select f from cpu where "+tf.s+" and "+cond, tf.startAbs, tf.endAbs) {
						return false
					}
				}
				return true
			})
			if !cont {
				return
			}
		}
	}
	for ti := 1; ti < len(timeForms); ti++ {
		if !emit("where", "select f from cpu where "+timeForms[ti].s, timeForms[ti].startAbs, timeForms[ti].endAbs) {
			return
		}
	}
	condSample = []string{
		"",
		"host='1.1.1.1'",
		"host!='a' and 'ip.x' in ('a','/b',c)",
		"(host not like '%a' or 'ip.x'=~'a.*') and `k 3` not in ('a','b')",
		"host like 'a%' or ('ip.x'!~'/a[0-9]+/' and `k 3`<>'a b')",
	}

	// ---- F4 having: boolean skeleton x comparison atoms ----
	hl := []string{"f", "sum(g)", "f*2", "(f+g)"}
	hops := []string{">", "<=", "="}
	hr := []string{"16777217", "0.001", "g"}
	if thorough {
		hops = []string{">", ">=", "<", "<=", "=", "!=", "<>", "like", "=~"}
	}
	var hatoms []string
	for _, l := range hl {
		for _, o := range hops {
			for _, r := range hr {
				hatoms = append(hatoms, l+" "+o+" "+r)
			}
		}
	}
	bounds["having"] = fmt.Sprintf("H := cmp | (H) | H and H | H or H, <=3 comparisons, nesting<=%d; cmp := {f,sum(g),f*2,(f+g)} x %d operators x {16777217,0.001,g} (1 comparison: all; 2: the first half of the atom list; 3: four fixed comparisons)", condD, len(hops))
	few := []string{"f > 1", "sum(g)*2 <= 0.5", "(f+g) = g", "max(sum(f)) < 2/g"}
	for n := 1; n <= 3; n++ {
		leafSets := make([][]string, n)
		for i := 0; i < n; i++ {
			if n == 1 {
				leafSets[i] = hatoms
			} else if n == 2 {
				leafSets[i] = hatoms[:len(hatoms)/2]
			} else {
				leafSets[i] = few
			}
		}
		for _, sk := range skeletons(n, condD) {
			cont := forEachTuple(leafSets, func(lv []string) bool {
				h := instantiate(sk, lv)
				if !emit("having", "select f,g from cpu where "+absRange+" group by host having "+h, true, true) {
					return false
				}
				return emit("having", "select f,g from cpu where host='a' and "+absRange+" group by host,time(1m) having "+h+" order by f desc limit 5", true, true)
			})
			if !cont {
				return
			}
		}
	}

	// ---- F5 tail: group by x fill x having x order by x limit x explain x clause order x suffix ----
	groupBys := []string{"", " group by host", " group by host,'ip.x'", " group by time(1m)", " group by time()", " group by host,time(100s),'/data'",
		" group by time(1M),host", " group by 'ip.x',host,time()", " group by time(12M)", " group by time(360d),host"}
	if thorough {
		groupBys = append(groupBys, " group by time(1y)", " group by time(1w),time(2d)", " group by time(-1m)", " group by time(0s)", " group by host,host", " group by time(90s),`k 3`", " group by time(3h)")
	}
	fills := []string{"", " fill(null)", " fill(previous)", " fill(0)", " fill(0.5)"}
	havings := []string{"", " having f > 1", " having (sum(g)*2 <= 0.5 or f = g) and g != 3"}
	orderBys := []string{"", " order by f", " order by f desc", " order by g asc,max(f) desc", " order by x desc", " order by sum(f) asc desc"}
	limits := []string{"", " limit 5", " limit 0", " limit 2147483647"}
	prefixes := []string{"", "explain "}
	suffix := []string{"", " withvalue"}
	bounds["tail"] = fmt.Sprintf("%d group-by x %d fill x %d having x %d order-by x %d limit x explain x select-from/from-select x with-value suffix", len(groupBys), len(fills), len(havings), len(orderBys), len(limits))
	for _, pre := range prefixes {
		for _, fromFirst := range []bool{false, true} {
			for _, gb := range groupBys {
				for _, fl := range fills {
					for _, hv := range havings {
						if gb == "" && (fl != "" || hv != "") {
							continue // fill/having only exist inside the group-by clause
						}
						for _, ob := range orderBys {
							for _, lm := range limits {
								for _, sf := range suffix {
									head := "select f as x,g from cpu"
									if fromFirst {
										head = "from cpu select f as x,g"
									}
									t := pre + head + " where host='a' and " + absRange + gb + fl + hv + ob + lm + sf
									if !emit("tail", t, true, true) {
										return
									}
								}
							}
						}
					}
				}
			}
		}
	}

	// ---- F6 from: metric / namespace spellings, keyword case, identifier spellings ----
	metrics := []string{"cpu", "'cpu.load'", "\"cpu load\"", "`cpu`", "cpu.load.avg", "_cpu", "${cpu}", "'select'", "time", "limit"}
	nss := []string{"", " on ns", " on 'ns.1'", " on \"default-ns\"", " on `n`"}
	fields := []string{"f", "'f.1'", "\"f 2\"", "`f`", "a.b.c", "_f1", "count", "time"}
	bounds["from"] = fmt.Sprintf("%d metric spellings x %d namespace forms x %d field spellings x keyword case", len(metrics), len(nss), len(fields))
	for _, m := range metrics {
		for _, ns := range nss {
			for _, fd := range fields {
				if !emit("from", "select "+fd+" from "+m+ns, false, false) {
					return
				}
				if !emit("from", "SELECT sum("+fd+") AS x FROM "+m+strings.ToUpper(ns)+" WHERE host='a' AND "+strings.Replace(absRange, " and ", " AND ", 1)+" GROUP BY host ORDER BY x DESC LIMIT 1", true, true) {
					return
				}
				if !emit("from", "from "+m+ns+" select "+fd+","+fd+"+1 as y", false, false) {
					return
				}
			}
		}
	}

	// ---- F7 cross: every clause varies at once over representative sets ----
	sels := []string{"f", "sum(f) as x,g", "max(sum(f))+g*2 as y", "(f-g)/2,0.5*f as x", "*"}
	froms := []string{"cpu", "'cpu.load' on 'ns.1'"}
	times := []timeForm{timeForms[0], timeForms[1], timeForms[3], timeForms[4], timeForms[13]}
	xgb := []string{"", " group by host", " group by host,'ip.x',time(1m)", " group by time()"}
	xhv := []string{"", " having f > 1", " having (sum(g)*2 <= 0.5 or f = g) and g != 3"}
	xob := []string{"", " order by f desc", " order by g,max(f) desc", " order by x"}
	xlm := []string{"", " limit 7"}
	if thorough {
		sels = append(sels, "f,g,f+g as x", "sum(f)/sum(g) as x", "f as x,g as y")
		xgb = append(xgb, " group by 'ip.x'", " group by time(1h),host")
		xob = append(xob, " order by f asc,g desc")
		times = append(times, timeForms[2], timeForms[5], timeForms[8], timeForms[12])
	}
	bounds["cross"] = fmt.Sprintf("%d select x %d from x %d condition x %d time x %d group-by x %d having x %d order-by x %d limit x explain", len(sels), len(froms), len(condSample), len(times), len(xgb), len(xhv), len(xob), len(xlm))
	for _, pre := range prefixes {
		for _, se := range sels {
			for _, fr := range froms {
				for _, cd := range condSample {
					for _, tf := range times {
						wh := ""
						switch {
						case cd != "" && tf.s != "":
							wh = " where " + cd + " and " + tf.s
						case cd != "":
							wh = " where " + cd
						case tf.s != "":
							wh = " where " + tf.s
						}
						for _, gb := range xgb {
							for _, hv := range xhv {
								if gb == "" && hv != "" {
									continue
								}
								for _, ob := range xob {
									for _, lm := range xlm {
										if !emit("cross", pre+"select "+se+" from "+fr+wh+gb+hv+ob+lm, tf.startAbs, tf.endAbs) {
											return
										}
									}
								}
							}
						}
					}
				}
			}
		}
	}

	// ---- F9 numbers: number literals whose float64 needs 1..17 significant digits, in every position a number can take ----
	numTexts := []string{"0", "1", "0.1", "0.5", "0.99", "100", "1.5", "0.000001", "16777217", "0.123456789012", "0.30000000000000004",
		"0.3333333333333333", "0.6666666666666666", "3.141592653589793", "2.718281828459045", "123456789.12345679", "9007199254740992",
		"9007199254740993", "18014398509481985", "1.7976931348623157", "0.000000000000000000000000001", "4.9406564584124654", "1e21", "1.5e-7"}
	bounds["numbers"] = fmt.Sprintf("%d number literals (1..17 significant digits, large integers above 2^53, exponent forms) x {select item, arithmetic operand, function argument, nested call operand, having operand}", len(numTexts))
	for _, n := range numTexts {
		for _, t := range []string{"select " + n + " from cpu", "select f*" + n + " as x from cpu", "select quantile(" + n + ") from cpu", "select sum(f+" + n + ")/" + n + " from cpu",
			"select f from cpu where " + absRange + " group by host having sum(f) > " + n} {
			abs := strings.Contains(t, absRange)
			if !emit("numbers", t, abs, abs) {
				return
			}
		}
	}

	// ---- F8 odd: the remaining alternatives of fieldExpr / exprAtom / funcParam in every small expression ----
	huge := strings.Repeat("9", 400)
	oddAtoms := []string{"f", "3", "1h", "*", "f[host='a']", huge, "sum()", "sum(f,g)", "quantile(0.9)", "sum(host='a')", "-2", "+0.5", ".5", "rate(f)", "stddev(f)"}
	wO := 3
	bounds["odd"] = fmt.Sprintf("E over atoms {f,3,duration literal 1h,*,f[tag filter],400-digit integer,sum(),sum(f,g),quantile(0.9),sum(tag filter),-2,+0.5,.5,rate(f),stddev(f)} x sum()/max()/() x + - * /, <=%d nodes, at most one unusual atom kind per expression; as select item, with where+order by, and as having operand", wO)
	oddNames := []string{"", "", "duration", "star", "identfilter", "hugeint", "call0", "call2", "quantile", "filterparam", "negint", "posdec", "dotdec", "rate", "stddev"}
	oddW := genExpr(oddAtoms, selUnary, selOps, wO, 3)
	for w := 1; w <= wO; w++ {
		for _, x := range oddW[w] {
			fam := "odd"
			nOdd := 0
			for i, n := range oddNames {
				if n != "" && x.m&(1<<uint(i)) != 0 {
					fam += ":" + n
					nOdd++
				}
			}
			if nOdd > 1 {
				continue // one unusual atom kind per expression (mixed with f and 3): keeps the scenario = the construct
			}
			e := x.s
			if !emit(fam, "select "+e+" from cpu", false, false) {
				return
			}
			if !emit(fam, "select g,"+e+" as x from cpu where 'ip.x'='b' and "+absRange+" group by host order by g desc", true, true) {
				return
			}
			if !emit(fam, "select f from cpu where "+absRange+" group by host having "+e+" >= 1", true, true) {
				return
			}
		}
	}
}
