package main

// Part "meta": the metric-metadata statements (show namespaces / metrics / fields / tag keys / tag values ...). They
// travel to the leaves in the same JSON form as a query (sql/stmt/metric_metadata.go) and "the same text always yields
// equal statements" holds for them too - also after an earlier parse of the same text was planned: the root's metadata
// context adjusts the limit of the statement it is given in place, which must stay that statement's private business.

import (
	"context"
	"fmt"
	"reflect"

	"github.com/lindb/lindb/internal/vevid"
	queryctx "github.com/lindb/lindb/query/context"
	"github.com/lindb/lindb/sql"
	"github.com/lindb/lindb/sql/stmt"
)

func metaTexts() []string {
	var out []string
	limits := []string{"", " limit 1", " limit 100", " limit 101", " limit 500"}
	for _, l := range limits {
		out = append(out, "show namespaces"+l, "show namespaces where namespace='ab'"+l)
		out = append(out, "show metrics"+l, "show metrics on 'ns'"+l, "show metrics on 'ns' where metric='cp'"+l)
		for _, cond := range []string{"", " where host='a'", " where host='a' and dc='x'", " where host in ('a','b') or dc like 'x*'", " where not (host='a')"} {
			out = append(out, "show tag values from 'cpu' with key = 'host'"+cond+l, "show tag values from 'cpu' on 'ns' with key = 'dc'"+cond+l)
		}
	}
	out = append(out, "show fields from 'cpu'", "show fields from 'cpu' on 'ns'", "show tag keys from 'cpu'", "show tag keys from 'cpu' on 'ns'")
	return out
}

func runMetaPart(f *vevid.Flags, c *checker) {
	rep := c.rep
	rep.Rule = "every metadata statement text of the family show namespaces|metrics|fields|tag keys|tag values x {on ns} x {5 conditions} x limit {none,1,100,101,500}: parse, JSON round trip (marshal, unmarshal, marshal again: equal statements, identical bytes), parse again (equal), hand the first statement to the root's metadata planner (queryctx.NewMetadataContext, which adjusts the limit of ITS statement), parse the text a third time: equal to the first parse as it was before planning. distinct = texts"
	texts := metaTexts()
	for i, text := range texts {
		if !f.Mine(int64(i)) {
			continue
		}
		rep.Evaluations++
		rep.DistinctNontrivial++
		c.metaOne(text)
	}
}

func (c *checker) metaOne(text string) {
	rep := c.rep
	for once := true; once; once = false {
		viol := func(clause, detail string) {
			rep.Violate(vevid.Violation{Clause: clause, Scenario: "meta", Site: "sql.Parse / stmt.MetricMetadata", Detail: fmt.Sprintf("%q: %s", text, detail), Replay: kase{Kind: "meta", SQL: text}})
		}
		s1, err := sql.Parse(text)
		if err != nil {
			rep.Outcome("meta rejected")
			continue
		}
		m1, ok := s1.(*stmt.MetricMetadata)
		if !ok {
			viol("meta-type", fmt.Sprintf("parsed into %T", s1))
			continue
		}
		j1, err := m1.MarshalJSON()
		if err != nil {
			viol("meta-marshal", err.Error())
			continue
		}
		back := &stmt.MetricMetadata{}
		if err := back.UnmarshalJSON(j1); err != nil {
			viol("meta-unmarshal", fmt.Sprintf("leaf cannot decode %s: %v", j1, err))
			continue
		}
		j2, _ := back.MarshalJSON()
		if string(j1) != string(j2) {
			viol("meta-roundtrip", fmt.Sprintf("wire form %s comes back as %s", j1, j2))
		}
		s2, err := sql.Parse(text)
		if err != nil {
			viol("meta-deterministic", "second parse fails: "+err.Error())
			continue
		}
		if j, _ := s2.(*stmt.MetricMetadata).MarshalJSON(); string(j) != string(j1) || !reflect.DeepEqual(normMeta(s2.(*stmt.MetricMetadata)), normMeta(back)) {
			viol("meta-deterministic", fmt.Sprintf("second parse yields %s, first %s", j, j1))
		}
		// the root plans the first statement
		_ = queryctx.NewMetadataContext(&queryctx.MetadataDeps{Ctx: context.Background(), Database: "db", Statement: m1})
		s3, err := sql.Parse(text)
		if err != nil {
			viol("meta-deterministic", "third parse fails: "+err.Error())
			continue
		}
		if j, _ := s3.(*stmt.MetricMetadata).MarshalJSON(); string(j) != string(j1) {
			viol("meta-deterministic", fmt.Sprintf("after the first statement was planned the same text parses into %s, before: %s", j, j1))
		}
		rep.Outcome(fmt.Sprintf("meta type=%v limit=%d cond=%v", back.Type, back.Limit, back.Condition != nil))
	}
}

// normMeta: statement compared through its wire form (nil vs empty differences of the in-memory form are not observable)
func normMeta(m *stmt.MetricMetadata) string {
	j, _ := m.MarshalJSON()
	return string(j)
}
