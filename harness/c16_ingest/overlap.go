package main

// Stage "overlap": a rejected request followed by two accepted requests that are in flight at the same time (the second
// is parsed before the first one's batch was routed and released). Every request that is being handled owns its batch:
// the two accepted requests hold two different batch objects and the rows of the first are still what was sent after
// the second was parsed. Rejected requests: a flat block whose root offset points outside the block (the decoder
// panics), a truncated flat block, an empty body, protobuf / influx garbage - everything a client can send.

import (
	"bytes"
	"fmt"
	"runtime/debug"

	"github.com/lindb/lindb/ingestion/flat"
	"github.com/lindb/lindb/ingestion/influx"
	"github.com/lindb/lindb/ingestion/proto"
	"github.com/lindb/lindb/internal/vevid"
	"github.com/lindb/lindb/series/metric"
)

func rejectedRequests() map[string]func() {
	good := encodeFlat([]Metric{{Name: "m", NS: "ns1", Tags: []Tag{{"host", "a"}}, Fields: []Field{sf("f_sum", tSum, 1)}}}, []int64{absTS})
	lim := toLimits(limDefault)
	flatReq := func(body []byte) func() {
		return func() { _, _ = flat.Parse(request(body, ""), nil, "ns1", lim) }
	}
	badRoot := append([]byte(nil), good...)
	// the row is size prefixed (4 bytes little endian), then the flatbuffer whose first 4 bytes are the root table offset
	if len(badRoot) > 8 {
		badRoot[4], badRoot[5], badRoot[6], badRoot[7] = 0xff, 0xff, 0xff, 0x7f
	}
	two := append(append([]byte(nil), good...), badRoot...)
	return map[string]func(){
		"flat-bad-root-offset":      flatReq(badRoot),
		"flat-good-row-then-bad":    flatReq(two),
		"flat-truncated":            flatReq(good[:len(good)/2]),
		"flat-empty":                flatReq(nil),
		"flat-reader-bad-root":      func() { _, _ = flat.ParseReader(bytes.NewReader(badRoot), nil, "ns1", lim) },
		"proto-garbage":             func() { _, _ = proto.Parse(request([]byte{0xff, 0xff, 0xff, 0x01, 0x02}, ""), nil, "ns1", lim) },
		"influx-garbage":            func() { _, _ = influx.Parse(request([]byte("no fields here\n,,,= =\n"), ""), nil, "ns1", lim) },
		"influx-empty":              func() { _, _ = influx.Parse(request(nil, ""), nil, "ns1", lim) },
	}
}

func runOverlapStage(rep *vevid.Report, f *vevid.Flags) {
	// no garbage collection inside a case: a collection empties the pool and the case would say nothing
	old := debug.SetGCPercent(-1)
	defer debug.SetGCPercent(old)
	rowsA := []Metric{{Name: "reqA", NS: "ns1", Tags: []Tag{{"host", "a"}}, Fields: []Field{sf("f_sum", tSum, 1)}},
		{Name: "reqA", NS: "ns1", Tags: []Tag{{"host", "b"}}, Fields: []Field{sf("f_sum", tSum, 2)}},
		{Name: "reqA", NS: "ns1", Tags: []Tag{{"host", "c"}}, Fields: []Field{sf("f_sum", tSum, 3)}}}
	rowsB := []Metric{{Name: "reqB", NS: "ns1", Tags: []Tag{{"zone", "x"}}, Fields: []Field{sf("f_last", tLast, 7)}},
		{Name: "reqB", NS: "ns1", Tags: []Tag{{"zone", "y"}}, Fields: []Field{sf("f_last", tLast, 8)}}}
	tsA, tsB := []int64{absTS, absTS, absTS}, []int64{absTS, absTS}
	n := 0
	for name, reject := range rejectedRequests() {
		for _, encA := range []string{"proto", "flat", "influx"} {
			for _, encB := range []string{"proto", "flat", "influx"} {
				n++
				if !f.Mine(int64(n)) {
					continue
				}
				rep.Evaluations++
				rep.DistinctNontrivial++
				scen := fmt.Sprintf("overlap/%s", name)
				viol := func(clause, detail string) {
					rep.Violate(vevid.Violation{Clause: clause, Scenario: scen, Site: "ingestion parsers / metric.BrokerBatchRows pool",
						Detail: fmt.Sprintf("rejected request %s, then request A (%s, 3 rows of metric reqA) and request B (%s, 2 rows of metric reqB) in flight together: %s", name, encA, encB, detail),
						Replay: Case{Stage: "overlap"}})
				}
				func() {
					defer func() {
						if r := recover(); r != nil {
							viol("overlap-panic", fmt.Sprint(r))
						}
					}()
					// a few batches are in the pool before the rejected request arrives (a broker that has served requests)
					warm := []*metric.BrokerBatchRows{metric.NewBrokerBatchRows(), metric.NewBrokerBatchRows()}
					for _, b := range warm {
						b.Release()
					}
					reject()
					ca := Ctx{Enc: encA, ReqNS: "ns1", Limits: limDefault, Precision: "ms"}
					cb := Ctx{Enc: encB, ReqNS: "ns1", Limits: limDefault, Precision: "ms"}
					a := parseBatch(&ca, rowsA, tsA)
					if a == nil {
						viol("overlap-rejected", "request A was rejected")
						return
					}
					before, _ := readBatch(a)
					b := parseBatch(&cb, rowsB, tsB)
					if b == nil {
						viol("overlap-rejected", "request B was rejected")
						return
					}
					if a == b {
						viol("batch-shared-by-two-requests", "both requests were handed the same batch object")
					}
					after, _ := readBatch(a)
					if fmt.Sprint(before) != fmt.Sprint(after) || len(after) != len(rowsA) {
						viol("rows-of-a-request-changed", fmt.Sprintf("rows of A before B was parsed: %v, afterwards: %v", names3(before), names3(after)))
					}
					a.Release()
					b.Release()
					drainPool(a, b, warm[0], warm[1])
					rep.Outcome(fmt.Sprintf("overlap %s rows=%d/%d", name, len(before), len(after)))
				}()
			}
		}
	}
}

func names3(rows []Stored) []string {
	var out []string
	for _, r := range rows {
		out = append(out, fmt.Sprintf("%s%v", r.Name, r.Tags))
	}
	return out
}
