// C16 harness, part 3: driving the real lindb code (ingestion/{proto,flat,influx}.Parse,
// metric.NewProtoConverter, the StorageRow / BrokerRow accessors, replica.ChannelManager.Write ->
// databaseChannel.Write -> EvictOutOfTimeRange / shard iterator / family iterator) and reading back
// what it produced.
package main

import (
	"bytes"
	"context"
	"fmt"
	"net/http"
	"net/url"

	"github.com/lindb/common/pkg/fasttime"
	"github.com/lindb/common/pkg/ltoml"
	"github.com/lindb/common/proto/gen/v1/flatMetricsV1"

	"github.com/lindb/lindb/config"
	"github.com/lindb/lindb/coordinator/broker"
	"github.com/lindb/lindb/ingestion/flat"
	"github.com/lindb/lindb/ingestion/influx"
	"github.com/lindb/lindb/ingestion/proto"
	"github.com/lindb/lindb/internal/vevid"
	"github.com/lindb/lindb/models"
	"github.com/lindb/lindb/pkg/option"
	"github.com/lindb/lindb/pkg/timeutil"
	"github.com/lindb/lindb/replica"
	"github.com/lindb/lindb/rpc"
	"github.com/lindb/lindb/series/metric"
	"github.com/lindb/lindb/series/tag"

	"time"
)

type (
	flatKV = flatMetricsV1.KeyValue
	flatSF = flatMetricsV1.SimpleField
	flatCF = flatMetricsV1.CompoundField
)

func clockNow() int64 { return fasttime.UnixMilliseconds() }

func toLimits(l LimitsSpec) *models.Limits {
	lim := models.NewDefaultLimits()
	lim.MaxNamespaceLength = l.NS
	lim.MaxMetricNameLength = l.Name
	lim.MaxFieldNameLength = l.FieldName
	lim.MaxTagNameLength = l.TagKey
	lim.MaxTagValueLength = l.TagValue
	lim.MaxTagsPerMetric = l.Tags
	lim.MaxFieldsPerMetric = l.Fields
	return lim
}

func toEnriched(ts []Tag) tag.Tags {
	var out tag.Tags
	for _, t := range ts {
		out = append(out, tag.NewTag([]byte(t.K), []byte(t.V)))
	}
	return out
}

type nopCloser struct{ *bytes.Reader }

func (nopCloser) Close() error { return nil }

func request(body []byte, query string) *http.Request {
	u := &url.URL{Path: "/api/v1/write", RawQuery: query}
	return &http.Request{Method: http.MethodPost, URL: u, Header: http.Header{}, Body: nopCloser{bytes.NewReader(body)}}
}

// parseBatch sends the metrics through the real ingestion parser of the encoding and returns the batch
// (nil when the parser refused the whole request, which it does for an empty result).
func parseBatch(c *Ctx, ms []Metric, ts []int64) *metric.BrokerBatchRows {
	lim := toLimits(c.Limits)
	enr := toEnriched(c.Enriched)
	var (
		batch *metric.BrokerBatchRows
		err   error
	)
	switch c.Enc {
	case "proto":
		batch, err = proto.Parse(request(encodeProto(ms, ts), ""), enr, c.ReqNS, lim)
	case "flat":
		batch, err = flat.Parse(request(encodeFlat(ms, ts), ""), enr, c.ReqNS, lim)
	case "influx":
		q := ""
		if p := precisionParam(c.Precision); p != "" {
			q = "precision=" + p
		}
		batch, err = influx.Parse(request(encodeInflux(ms, ts, c.Precision), q), enr, c.ReqNS, lim)
	case "protoDirect":
		// the converter used without a request (metric.NewProtoConverter): one row at a time
		cv := metric.NewProtoConverter(lim)
		batch = metric.NewBrokerBatchRows()
		for i := range ms {
			pm := toProto(&ms[i], ts[i])
			_ = batch.TryAppend(func(row *metric.BrokerRow) error { return cv.ConvertTo(pm, row) })
		}
	default:
		vevid.Fatal("unknown encoding %q", c.Enc)
	}
	if err != nil {
		return nil
	}
	return batch
}

// readRows reads the rows of a block of size-prefixed flat rows (what BrokerRow.WriteTo emits and what a
// storage node receives) back through the StorageRow accessors.
var storageRows = metric.NewStorageBatchRows()

func readBlock(block []byte) []Stored {
	storageRows.UnmarshalRows(block)
	var out []Stored
	for _, r := range storageRows.Rows() {
		out = append(out, readStorageRow(r))
	}
	return out
}

func readStorageRow(r *metric.StorageRow) Stored {
	s := Stored{Name: string(r.Name()), NS: string(r.NameSpace()), TS: r.Timestamp(), TagsHash: r.TagsHash(), NameHash: r.NameHash()}
	kv := r.NewKeyValueIterator()
	for kv.HasNext() {
		s.Tags = append(s.Tags, Tag{K: string(kv.NextKey()), V: string(kv.NextValue())})
	}
	if len(s.Tags) != r.TagsLen() {
		s.Tags = append(s.Tags, Tag{K: "<TagsLen mismatch>", V: fmt.Sprint(r.TagsLen())})
	}
	sf := r.NewSimpleFieldIterator()
	for sf.HasNext() {
		s.Fields = append(s.Fields, Field{Name: string(sf.NextName()), Type: int(sf.NextRawType()), Val: F(sf.NextValue())})
	}
	if len(s.Fields) != r.SimpleFieldsLen() {
		s.Fields = append(s.Fields, Field{Name: "<SimpleFieldsLen mismatch>"})
	}
	if ci, ok := r.NewCompoundFieldIterator(); ok {
		h := &Hist{Min: F(ci.Min()), Max: F(ci.Max()), Sum: F(ci.Sum()), Count: F(ci.Count())}
		for ci.HasNextBucket() {
			h.Bounds = append(h.Bounds, F(ci.NextExplicitBound()))
			h.Values = append(h.Values, F(ci.NextValue()))
		}
		s.Hist = h
	}
	return s
}

// readBrokerRow reads a BrokerRow through its own accessor (Metric()).
func readBrokerRow(r *metric.BrokerRow) Stored {
	m := r.Metric()
	s := Stored{Name: string(m.Name()), NS: string(m.Namespace()), TS: m.Timestamp(), TagsHash: m.KvsHash(), NameHash: m.NameHash()}
	if s.NS == "" {
		s.NS = defaultNS
	}
	for i := 0; i < m.KeyValuesLength(); i++ {
		var kv flatKV
		if m.KeyValues(&kv, i) {
			s.Tags = append(s.Tags, Tag{K: string(kv.Key()), V: string(kv.Value())})
		}
	}
	for i := 0; i < m.SimpleFieldsLength(); i++ {
		var f flatSF
		if m.SimpleFields(&f, i) {
			s.Fields = append(s.Fields, Field{Name: string(f.Name()), Type: int(f.Type()), Val: F(f.Value())})
		}
	}
	var cf flatCF
	if m.CompoundField(&cf) != nil {
		h := &Hist{Min: F(cf.Min()), Max: F(cf.Max()), Sum: F(cf.Sum()), Count: F(cf.Count())}
		for i := 0; i < cf.ExplicitBoundsLength(); i++ {
			h.Bounds = append(h.Bounds, F(cf.ExplicitBounds(i)))
		}
		for i := 0; i < cf.ValuesLength(); i++ {
			h.Values = append(h.Values, F(cf.Values(i)))
		}
		s.Hist = h
	}
	return s
}

// readBatch reads every row of a parsed batch twice: BrokerRow.Metric() and WriteTo -> StorageRow.
// The two views must agree (returned as diff).
func readBatch(batch *metric.BrokerBatchRows) (rows []Stored, diff string) {
	rows, _, diff = readBatchStale(batch)
	return rows, diff
}

// readBatchStale additionally counts the rows of a freshly parsed batch that are already marked
// IsOutOfTimeRange (BrokerRow.WriteTo writes nothing for such a row, so the flag is lifted while reading
// and put back afterwards).
func readBatchStale(batch *metric.BrokerBatchRows) (rows []Stored, stale int, diff string) {
	if batch == nil {
		return nil, 0, ""
	}
	var buf bytes.Buffer
	br := batch.Rows()
	for i := range br {
		was := br[i].IsOutOfTimeRange
		if was {
			stale++
		}
		br[i].IsOutOfTimeRange = false
		if _, err := br[i].WriteTo(&buf); err != nil {
			vevid.OpFailed("WriteTo: %v", err)
		}
		br[i].IsOutOfTimeRange = was
	}
	rows = readBlock(buf.Bytes())
	if len(rows) != len(br) {
		return rows, stale, fmt.Sprintf("batch has %d rows, the written block %d", len(br), len(rows))
	}
	for i := range br {
		b := readBrokerRow(&br[i])
		if b.contentKey() != rows[i].contentKey() || b.TagsHash != rows[i].TagsHash || b.NameHash != rows[i].NameHash {
			return rows, stale, fmt.Sprintf("row %d: BrokerRow view %s != StorageRow view %s", i, b.contentKey(), rows[i].contentKey())
		}
	}
	return rows, stale, ""
}

// ---------------------------------------------------------------------------------------------------
// routing: the real channel manager / database channel with recording shard and family channels

type group struct {
	Shard      int
	FamilyTime int64
	Passed     int // rows handed to the family channel (including evicted ones, which write nothing)
	Evicted    int
	Block      []byte
}

type sink struct{ groups []group }

type fakeFamily struct {
	replica.FamilyChannel // unexported methods are never called
	shard                 int
	familyTime            int64
	out                   *sink
}

func (f *fakeFamily) Write(_ context.Context, rows []metric.BrokerRow) error {
	g := group{Shard: f.shard, FamilyTime: f.familyTime, Passed: len(rows)}
	var buf bytes.Buffer
	for i := range rows {
		if rows[i].IsOutOfTimeRange {
			g.Evicted++
		}
		if _, err := rows[i].WriteTo(&buf); err != nil { // exactly what familyChannel.Write does
			return err
		}
	}
	g.Block = buf.Bytes()
	f.out.groups = append(f.out.groups, g)
	return nil
}
func (f *fakeFamily) FamilyTime() int64 { return f.familyTime }
func (f *fakeFamily) Stop(int64)        {}

type fakeShard struct {
	replica.ShardChannel
	id  int
	out *sink
}

func (s *fakeShard) GetOrCreateFamilyChannel(familyTime int64) replica.FamilyChannel {
	return &fakeFamily{shard: s.id, familyTime: familyTime, out: s.out}
}
func (s *fakeShard) SyncShardState(models.ShardState, map[models.NodeID]models.StatefulNode) {}
func (s *fakeShard) Stop()                                                                   {}

type shardEventFn = func(models.Database, map[models.ShardID]models.ShardState, map[models.NodeID]models.StatefulNode)

type fakeStateMgr struct {
	broker.StateManager
	fn shardEventFn
}

func (m *fakeStateMgr) WatchShardStateChangeEvent(fn shardEventFn) { m.fn = fn }

type router struct {
	cm  replica.ChannelManager
	sm  *fakeStateMgr
	out *sink
	dbs map[Route]string
}

func newRouter() *router {
	cfg := config.NewDefaultBrokerBase()
	cfg.Write.GCTaskInterval = ltoml.Duration(10000 * time.Hour) // the gc task would call into the recording channels
	config.SetGlobalBrokerConfig(cfg)
	r := &router{out: &sink{}, dbs: map[Route]string{}, sm: &fakeStateMgr{}}
	replica.VerifSetCreateShardChannel(func(_ context.Context, _ string, shardID models.ShardID, _ rpc.ClientStreamFactory) replica.ShardChannel {
		return &fakeShard{id: int(shardID), out: r.out}
	})
	r.cm = replica.NewChannelManager(context.Background(), nil, r.sm)
	if r.sm.fn == nil {
		vevid.Fatal("channel manager did not subscribe to shard state events")
	}
	return r
}

func (r *router) database(rt Route) string {
	if name, ok := r.dbs[rt]; ok {
		return name
	}
	name := fmt.Sprintf("db_s%d_b%s_a%s_i%s", rt.Shards, rt.Behind, rt.Ahead, rt.Interval)
	var iv, ret timeutil.Interval
	if err := iv.ValueOf(rt.Interval); err != nil {
		vevid.Fatal("interval %q: %v", rt.Interval, err)
	}
	_ = ret.ValueOf("3000d")
	opt := &option.DatabaseOption{Intervals: option.Intervals{{Interval: iv, Retention: ret}}, Behind: rt.Behind, Ahead: rt.Ahead}
	ahead, behind := opt.GetAcceptWritableRange()
	if ahead != durMS(rt.Ahead) || behind != durMS(rt.Behind) {
		vevid.Fatal("write window of %v: option yields ahead=%d behind=%d", rt, ahead, behind)
	}
	cfg := models.Database{Name: name, NumOfShard: rt.Shards, ReplicaFactor: 1, Option: opt}
	// the channels of a database are created by the shard state event, as in production
	shards := map[models.ShardID]models.ShardState{}
	for id := 0; id < rt.Shards; id++ {
		shards[models.ShardID(id)] = models.ShardState{ID: models.ShardID(id), State: models.OnlineShard, Leader: 1}
	}
	r.sm.fn(cfg, shards, map[models.NodeID]models.StatefulNode{})
	r.dbs[rt] = name
	return name
}

// write routes a parsed batch exactly like the /write handler does (ChannelManager.Write releases the
// batch into its pool afterwards) and returns the (shard, family, rows) groups that were produced.
func (r *router) write(rt Route, batch *metric.BrokerBatchRows) ([]group, error) {
	r.out.groups = nil
	err := r.cm.Write(context.Background(), r.database(rt), batch)
	return r.out.groups, err
}

// drainPool takes the batches that ChannelManager.Write released out of the pool again, so that the next
// case starts from a fresh batch (the pool stage of the harness does the opposite on purpose). It reports
// whether every released batch was found again.
func drainPool(released ...*metric.BrokerBatchRows) bool {
	want := map[*metric.BrokerBatchRows]bool{}
	for _, b := range released {
		if b != nil {
			want[b] = true
		}
	}
	for i := 0; i < 4 && len(want) > 0; i++ {
		b := metric.NewBrokerBatchRows()
		if !want[b] {
			return false // a fresh batch: the pool is empty
		}
		delete(want, b)
	}
	return len(want) == 0
}
