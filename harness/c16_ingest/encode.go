// C16 harness, part 2: the three client side encodings of a Metric. Everything is written exactly as
// sent (tag order, duplicate keys, NaN, empty strings, bogus client supplied hashes): the flat encoder
// uses the generated flatbuffers builders directly because commonseries.RowBuilder (the SDK) validates,
// sorts and de-duplicates on the client side.
package main

import (
	"bytes"
	"strconv"
	"strings"

	flatbuffers "github.com/google/flatbuffers/go"
	"github.com/lindb/common/proto/gen/v1/flatMetricsV1"
	protoMetricsV1 "github.com/lindb/common/proto/gen/v1/linmetrics"
)

func fs(in []F) []float64 {
	out := make([]float64, len(in))
	for i, v := range in {
		out[i] = float64(v)
	}
	return out
}

// ---- protobuf

func toProto(m *Metric, ts int64) *protoMetricsV1.Metric {
	pm := &protoMetricsV1.Metric{Namespace: m.NS, Name: m.Name, Timestamp: ts, TagsHash: 0xdeadbeef}
	for _, t := range m.Tags {
		pm.Tags = append(pm.Tags, &protoMetricsV1.KeyValue{Key: t.K, Value: t.V})
	}
	for _, f := range m.Fields {
		pm.SimpleFields = append(pm.SimpleFields, &protoMetricsV1.SimpleField{
			Name: f.Name, Type: protoMetricsV1.SimpleFieldType(f.Type), Value: float64(f.Val)})
	}
	if h := m.Hist; h != nil {
		pm.CompoundField = &protoMetricsV1.CompoundField{Min: float64(h.Min), Max: float64(h.Max), Sum: float64(h.Sum),
			Count: float64(h.Count), ExplicitBounds: fs(h.Bounds), Values: fs(h.Values)}
	}
	return pm
}

func encodeProto(ms []Metric, ts []int64) []byte {
	var ml protoMetricsV1.MetricList
	for i := range ms {
		ml.Metrics = append(ml.Metrics, toProto(&ms[i], ts[i]))
	}
	b, err := ml.Marshal()
	if err != nil {
		panic("harness: proto marshal: " + err.Error())
	}
	return b
}

// ---- flat buffers (raw)

var fb = flatbuffers.NewBuilder(2048)

func encodeFlatRow(m *Metric, ts int64) []byte {
	b := fb
	b.Reset()
	var keys, vals, kvs, names, fields []flatbuffers.UOffsetT
	for _, t := range m.Tags {
		keys = append(keys, b.CreateString(t.K))
		vals = append(vals, b.CreateString(t.V))
	}
	for i := range keys {
		flatMetricsV1.KeyValueStart(b)
		flatMetricsV1.KeyValueAddKey(b, keys[i])
		flatMetricsV1.KeyValueAddValue(b, vals[i])
		kvs = append(kvs, flatMetricsV1.KeyValueEnd(b))
	}
	for _, f := range m.Fields {
		names = append(names, b.CreateString(f.Name))
	}
	for i, f := range m.Fields {
		flatMetricsV1.SimpleFieldStart(b)
		flatMetricsV1.SimpleFieldAddName(b, names[i])
		flatMetricsV1.SimpleFieldAddType(b, flatMetricsV1.SimpleFieldType(f.Type))
		flatMetricsV1.SimpleFieldAddValue(b, float64(f.Val))
		fields = append(fields, flatMetricsV1.SimpleFieldEnd(b))
	}
	flatMetricsV1.MetricStartKeyValuesVector(b, len(kvs))
	for i := len(kvs) - 1; i >= 0; i-- {
		b.PrependUOffsetT(kvs[i])
	}
	kvVec := b.EndVector(len(kvs))
	flatMetricsV1.MetricStartSimpleFieldsVector(b, len(fields))
	for i := len(fields) - 1; i >= 0; i-- {
		b.PrependUOffsetT(fields[i])
	}
	fVec := b.EndVector(len(fields))
	var compound flatbuffers.UOffsetT
	if h := m.Hist; h != nil {
		flatMetricsV1.CompoundFieldStartValuesVector(b, len(h.Values))
		for i := len(h.Values) - 1; i >= 0; i-- {
			b.PrependFloat64(float64(h.Values[i]))
		}
		vv := b.EndVector(len(h.Values))
		flatMetricsV1.CompoundFieldStartExplicitBoundsVector(b, len(h.Bounds))
		for i := len(h.Bounds) - 1; i >= 0; i-- {
			b.PrependFloat64(float64(h.Bounds[i]))
		}
		bv := b.EndVector(len(h.Bounds))
		flatMetricsV1.CompoundFieldStart(b)
		flatMetricsV1.CompoundFieldAddCount(b, float64(h.Count))
		flatMetricsV1.CompoundFieldAddSum(b, float64(h.Sum))
		flatMetricsV1.CompoundFieldAddMin(b, float64(h.Min))
		flatMetricsV1.CompoundFieldAddMax(b, float64(h.Max))
		flatMetricsV1.CompoundFieldAddValues(b, vv)
		flatMetricsV1.CompoundFieldAddExplicitBounds(b, bv)
		compound = flatMetricsV1.CompoundFieldEnd(b)
	}
	name := b.CreateString(m.Name)
	var ns flatbuffers.UOffsetT
	if m.NS != "" {
		ns = b.CreateString(m.NS)
	}
	flatMetricsV1.MetricStart(b)
	if m.NS != "" {
		flatMetricsV1.MetricAddNamespace(b, ns)
	}
	flatMetricsV1.MetricAddName(b, name)
	flatMetricsV1.MetricAddNameHash(b, 0xbadbadbad) // client supplied hashes must not be trusted
	flatMetricsV1.MetricAddTimestamp(b, ts)
	flatMetricsV1.MetricAddKeyValues(b, kvVec)
	flatMetricsV1.MetricAddKvsHash(b, 0xdeadbeef)
	flatMetricsV1.MetricAddSimpleFields(b, fVec)
	if compound != 0 {
		flatMetricsV1.MetricAddCompoundField(b, compound)
	}
	b.FinishSizePrefixed(flatMetricsV1.MetricEnd(b))
	return append([]byte(nil), b.FinishedBytes()...)
}

func encodeFlat(ms []Metric, ts []int64) []byte {
	var buf bytes.Buffer
	for i := range ms {
		buf.Write(encodeFlatRow(&ms[i], ts[i]))
	}
	return buf.Bytes()
}

// ---- influx line protocol

var (
	escName = strings.NewReplacer(",", `\,`, " ", `\ `)
	escTag  = strings.NewReplacer(",", `\,`, " ", `\ `, "=", `\=`)
)

// influxTimestamp renders a millisecond timestamp in the given precision ("" = let the server guess:
// rendered as milliseconds); ok=false when ts is not a multiple of the precision.
func influxTimestamp(ts int64, precision string) (string, bool) {
	switch precision {
	case "ns":
		return strconv.FormatInt(ts, 10) + "000000", true
	case "us":
		return strconv.FormatInt(ts, 10) + "000", true
	case "", "ms":
		return strconv.FormatInt(ts, 10), true
	case "s":
		return strconv.FormatInt(ts/msSecond, 10), ts%msSecond == 0
	case "m":
		return strconv.FormatInt(ts/msMinute, 10), ts%msMinute == 0
	case "h":
		return strconv.FormatInt(ts/msHour, 10), ts%msHour == 0
	// guessed precisions: the value is rendered in that unit but no precision parameter is sent
	case "guess-ns":
		return strconv.FormatInt(ts, 10) + "000000", true
	case "guess-us":
		return strconv.FormatInt(ts, 10) + "000", true
	}
	panic("unknown precision " + precision)
}

func precisionParam(p string) string {
	if strings.HasPrefix(p, "guess-") {
		return ""
	}
	return p
}

func encodeInfluxLine(m *Metric, ts int64, precision string) string {
	var sb strings.Builder
	sb.WriteString(escName.Replace(m.Name))
	for _, t := range m.Tags {
		sb.WriteByte(',')
		sb.WriteString(escTag.Replace(t.K))
		sb.WriteByte('=')
		sb.WriteString(escTag.Replace(t.V))
	}
	sb.WriteByte(' ')
	for i, f := range m.Fields {
		if i > 0 {
			sb.WriteByte(',')
		}
		sb.WriteString(escTag.Replace(f.Name))
		sb.WriteByte('=')
		if f.Lit != "" {
			sb.WriteString(f.Lit)
		} else {
			sb.WriteString(strconv.FormatFloat(float64(f.Val), 'g', -1, 64))
		}
	}
	if ts != 0 { // 0 = no timestamp on the line: the server uses its clock
		s, _ := influxTimestamp(ts, precision)
		sb.WriteByte(' ')
		sb.WriteString(s)
	}
	return sb.String()
}

func encodeInflux(ms []Metric, ts []int64, precision string) []byte {
	var sb strings.Builder
	for i := range ms {
		sb.WriteString(encodeInfluxLine(&ms[i], ts[i], precision))
		sb.WriteByte('\n')
	}
	return []byte(sb.String())
}
